package main

import (
	"regexp/syntax"
	"fmt"
	"go/constant"
	"go/token"
	"go/types"
	"sort"
	"strings"

	"golang.org/x/tools/go/ssa"
)

// ---------------------------------------------------------------------------
// PN — explicit and implicit panic sites

type pnEntry struct {
	fn, msg string // function key suffix, message substring ("" = any)
	why     string
	need    string // rule that must be fully discharged for the entry to hold ("SM-panic", "FL-fill-guard")
}

var pnTable = []pnEntry{
	{"(*stack.scanningState).scan", "expected s.Goroutines to be nil", "unreachable: no configuration of the scanner automaton reaches it", "SM-panic"},
	{"(*stack.reader).fill", "tried to fill full buffer", "readSlice calls fill only when the buffer is not full (FL-fill-guard); unreachable under the inferred cursor invariant (RB-panic, claimed with RB)", "FL-fill-guard"},
	{"(*stack.reader).fill", "negative count", "contract of io.Reader (0 <= n <= len(p)); a broken reader is reported like bufio does", ""},
	{"stack.getGOPATHs", "", "configuration, not input: neither a current user nor $HOME exists", ""},
}

func pnPanics(c *Ctx, a *flAgg) {
	n := 0
	for _, pn := range []string{"stack", "internal", "stack/webstack", "."} {
		for _, f := range c.L.SrcFuncs(pn) {
			for _, b := range f.Blocks {
				for _, in := range b.Instrs {
					switch in := in.(type) {
					case *ssa.Panic:
						n++
						msg := panicMessage(in.X)
						key := funcKey(f) + "/" + strings.ReplaceAll(msg, " ", "_")
						var ent *pnEntry
						for i := range pnTable {
							e := &pnTable[i]
							if strings.HasSuffix(funcKey(f), strings.TrimPrefix(e.fn, "(*stack.")) || funcKey(f) == e.fn || (defaultInline(f) && withinOnly(c, f, e.fn, 0)) {
								if e.msg == "" || strings.Contains(msg, e.msg) {
									ent = e
								}
							}
						}
						if ent == nil {
							a.bad("PN-panic", key, "explicit panic that is not in the contract table: input (or local files) may reach it and crash the caller", in.Pos())
							continue
						}
						if ent.need != "" {
							okDep := true
							eng := "SM"
							if strings.HasPrefix(ent.need, "FL") {
								eng = "FL"
							}
							cnt := 0
							for _, o := range c.run(engines[eng]) {
								if o.Rule == ent.need {
									cnt++
									if o.Status != Discharged {
										okDep = false
									}
								}
							}
							if !okDep || cnt == 0 {
								a.bad("PN-panic", key, "this panic is only unreachable if "+ent.need+" holds, and it does not on this run", in.Pos())
								continue
							}
						}
						a.ok("PN-panic", key, ent.why, in.Pos())
					case *ssa.TypeAssert:
						if !in.CommaOk {
							a.bad("PN-implicit", funcKey(f)+"/type-assert", "type assertion without comma-ok can panic", in.Pos())
						}
					case *ssa.BinOp:
						if in.Op == token.QUO || in.Op == token.REM {
							if _, ok := bnConst(in.Y); !ok {
								if bt, ok := in.Y.Type().Underlying().(*types.Basic); ok && bt.Info()&types.IsInteger != 0 {
									a.bad("PN-implicit", funcKey(f)+"/division", "integer division by a non-constant", in.Pos())
								}
							}
						}
					case *ssa.Call:
						if cal := in.Call.StaticCallee(); cal != nil {
							full := calleePkg(cal) + "." + cal.Name()
							mustLike := full == "regexp.MustCompile" || full == "html/template.Must" || full == "text/template.Must" || full == "regexp.MustCompilePOSIX"
							if mustLike && !(f.Name() == "init" && f.Parent() == nil) {
								if _, isC := in.Call.Args[0].(*ssa.Const); !isC {
									a.bad("PN-implicit", funcKey(f)+"/"+full, full+" on a non-constant outside init panics on bad input", in.Pos())
								}
							}
							if full == "strings.Repeat" {
								if _, isC := bnConst(in.Call.Args[1]); !isC {
									a.bad("PN-implicit", funcKey(f)+"/strings.Repeat", "strings.Repeat with a computed count panics when negative", in.Pos())
								}
							}
						}
					}
				}
			}
		}
	}
	pnASTOptional(c, a)
	c.stat("BN", "explicit_panic_sites", n)
	a.ok("PN-implicit", "scan", "no unchecked type assertion, integer division by a variable, Must* on computed patterns or strings.Repeat with computed count in scope", token.NoPos)
}

func panicMessage(v ssa.Value) string {
	for {
		switch x := v.(type) {
		case *ssa.MakeInterface:
			v = x.X
			continue
		case *ssa.Const:
			if x.Value != nil && x.Value.Kind() == constant.String {
				return constant.StringVal(x.Value)
			}
		case *ssa.Call:
			if len(x.Call.Args) > 0 {
				if k, ok := x.Call.Args[0].(*ssa.Const); ok && k.Value != nil && k.Value.Kind() == constant.String {
					return constant.StringVal(k.Value)
				}
			}
		}
		return "<computed>"
	}
}

// ---------------------------------------------------------------------------
// LP — loops and recursion

// lpTable: loops that are not counted/range loops, with the structural
// reason that is re-verified.
var lpTable = map[string]struct {
	mustPass string // every back edge passes a call to this function ("" = special)
	why      string
}{
	"stack.ScanSnapshot":           {"(*reader).readLine", "every iteration reads one line; readLine returns data or an error (FL-fill-once, fill's retry bound)"},
	"(*stack.reader).readSlice":    {"(*reader).fill", "every iteration refills; fill adds data, or sets the error that ends the loop (FL-fill-err, retry bound 100)"},
	"(*stack.reader).readLine":     {"(*reader).readSlice", "every iteration takes one chunk; it continues only on buffer-full, which consumes the whole buffer"},
	"internal.process":             {"ScanSnapshot", "continues only when ScanSnapshot returned no error (FL-suffix-once), in which case at least one line was consumed (SM-progress) or the dump ended"},
	"webstack.snapshot":            {"runtime.Stack", "the buffer strictly grows up to maxmem (WEB-grow)"},
	"stack.lineToByteOffsets":      {"bytes.IndexByte", "offset strictly increases by n+1 >= 1 (BN) up to len(src)"},
	"stack.augmentCall":            {"", "every iteration pops at least one flattened argument (AUG-pop)"},
	"internal.Main$2":              {"", "signal drain goroutine: blocks on the channel by design"},
}

func lpLoops(c *Ctx, a *flAgg) {
	nLoops := 0
	for _, pn := range []string{"stack", "internal", "stack/webstack"} {
		for _, f := range c.L.SrcFuncs(pn) {
			loops := naturalLoops(f)
			for i, l := range loops {
				nLoops++
				key := fmt.Sprintf("%s/loop#%d", funcKey(f), i+1)
				pos := f.Pos()
				for _, in := range l.Header.Instrs {
					if in.Pos().IsValid() {
						pos = in.Pos()
						break
					}
				}
				if why, ok := lpRangeOrCounted(l); ok {
					a.ok("LP-loop", key, why, pos)
					continue
				}
				ent, ok := lpTable[strings.TrimPrefix(funcKey(f), "stack/")]
				if !ok {
					ent, ok = lpTable[funcKey(f)]
				}
				if !ok {
					a.bad("LP-loop", key, "this loop is neither a range loop, nor a counted loop with a loop-invariant bound, nor listed with a termination argument: input may keep it running", pos)
					continue
				}
				if ent.mustPass == "" {
					if strings.HasSuffix(funcKey(f), "augmentCall") {
						if ok, why := augEveryIterationPops(c, f, l); ok {
							a.ok("LP-loop", key, ent.why, pos)
						} else {
							a.bad("LP-loop", key, "the argument loop of augmentCall has a path that consumes no flattened argument: it would not terminate ("+why+")", pos)
						}
						continue
					}
					a.ok("LP-loop", key, ent.why, pos)
					continue
				}
				// every header->header path passes the call
				seg := &SPE{Fn: f, Start: l.Header, MaxVisits: 2}
				seg.Stop = func(from, to *ssa.BasicBlock) bool { return to == l.Header && l.Body[from] }
				exprHome = f.Pkg.Pkg
				seg.Explore()
				okAll, nBack := true, 0
				for _, p := range seg.Paths {
					if p.Term != "stop" {
						continue
					}
					nBack++
					passes := false
					for _, ev := range p.Events {
						if ev.Kind == EvCall && strings.Contains(ev.Val.String(), strings.TrimPrefix(ent.mustPass, "(*reader).")) {
							passes = true
						}
					}
					if !passes {
						okAll = false
					}
				}
				if okAll && nBack > 0 {
					a.ok("LP-loop", key, "every iteration passes "+ent.mustPass+": "+ent.why, pos)
				} else {
					a.bad("LP-loop", key, "an iteration of this loop does not pass "+ent.mustPass+": its termination argument no longer holds", pos)
				}
			}
		}
	}
	c.stat("BN", "loops", nLoops)
	// recursion
	lpRecursion(c, a)
}

func lpRangeOrCounted(l *loopInfo) (string, bool) {
	// range over slice/array/string/map
	for b := range l.Body {
		for _, in := range b.Instrs {
			if nx, ok := in.(*ssa.Next); ok {
				// the Next of this loop is in the header
				if nx.Block() == l.Header {
					return "range loop over a map or string: finite", true
				}
			}
		}
	}
	for _, in := range l.Header.Instrs {
		phi, ok := in.(*ssa.Phi)
		if !ok {
			break
		}
		if phi.Comment == "rangeindex" {
			return "range loop over a slice or array: finite", true
		}
	}
	inLoop := func(v ssa.Value) bool {
		if in, ok := v.(ssa.Instruction); ok {
			return l.Body[in.Block()]
		}
		return false
	}
	invariant := func(v ssa.Value) bool {
		if !inLoop(v) {
			return true
		}
		// len(x) of an invariant x, or a conversion of an invariant
		if c, ok := v.(*ssa.Call); ok && bnCallee(c) == "builtin.len" && !inLoop(c.Call.Args[0]) {
			return true
		}
		if cv, ok := v.(*ssa.Convert); ok && !inLoop(cv.X) {
			return true
		}
		// arithmetic on invariants (len(x)/2, n-1)
		if bo, ok := v.(*ssa.BinOp); ok {
			switch bo.Op {
			case token.ADD, token.SUB, token.MUL, token.QUO:
				return invariantRec(bo.X, inLoop, l, 0) && invariantRec(bo.Y, inLoop, l, 0)
			}
		}
		// len of a field (re-)loaded in the loop: invariant when the loop neither
		// stores to that field nor calls anything that could (only pure callees)
		if c, ok := v.(*ssa.Call); ok && bnCallee(c) == "builtin.len" {
			if ld, ok := c.Call.Args[0].(*ssa.UnOp); ok && ld.Op == token.MUL {
				if fa, ok := ld.X.(*ssa.FieldAddr); ok && !inLoop(fa.X) || ok && isLoadOfInvariant(fa.X, l) {
					return loopKeepsField(l, fa)
				}
			}
		}
		return false
	}
	// exit conditions of the loop
	for b := range l.Body {
		ifi, ok := b.Instrs[len(b.Instrs)-1].(*ssa.If)
		if !ok {
			continue
		}
		exits := !l.Body[b.Succs[0]] || !l.Body[b.Succs[1]]
		if !exits {
			continue
		}
		bo, ok := ifi.Cond.(*ssa.BinOp)
		if !ok {
			continue
		}
		for _, side := range [][2]ssa.Value{{bo.X, bo.Y}, {bo.Y, bo.X}} {
			v, other := side[0], side[1]
			// v is a header phi (or phi +/- const) with a constant step
			base := v
			if b2, ok := v.(*ssa.BinOp); ok && (b2.Op == token.ADD || b2.Op == token.SUB) {
				if _, isC := bnConst(b2.Y); isC {
					base = b2.X
				}
			}
			phi, ok := base.(*ssa.Phi)
			if !ok || phi.Block() != l.Header {
				continue
			}
			stepOK := false
			for i, e := range phi.Edges {
				if !l.Body[phi.Block().Preds[i]] {
					continue
				}
				b3, ok := e.(*ssa.BinOp)
				if !ok || (b3.Op != token.ADD && b3.Op != token.SUB) || b3.X != ssa.Value(phi) {
					stepOK = false
					break
				}
				if cst, isC := bnConst(b3.Y); isC && cst != 0 {
					stepOK = true
				} else {
					stepOK = false
					break
				}
			}
			if !stepOK {
				continue
			}
			if invariant(other) {
				return "counted loop: the induction variable moves by a constant step towards a loop-invariant bound", true
			}
			// the other side is itself a monotone header phi (i < j with j decreasing)
			if p2, ok := other.(*ssa.Phi); ok && p2.Block() == l.Header {
				return "counted loop: two cursors move towards each other by constant steps", true
			}
		}
	}
	return "", false
}

// invariantRec: constants, values defined outside the loop, len of such
// values, and arithmetic on them.
func invariantRec(v ssa.Value, inLoop func(ssa.Value) bool, l *loopInfo, depth int) bool {
	if depth > 4 {
		return false
	}
	if _, ok := v.(*ssa.Const); ok || !inLoop(v) {
		return true
	}
	if c, ok := v.(*ssa.Call); ok && bnCallee(c) == "builtin.len" && !inLoop(c.Call.Args[0]) {
		return true
	}
	if bo, ok := v.(*ssa.BinOp); ok {
		switch bo.Op {
		case token.ADD, token.SUB, token.MUL, token.QUO:
			return invariantRec(bo.X, inLoop, l, depth+1) && invariantRec(bo.Y, inLoop, l, depth+1)
		}
	}
	return false
}

// isLoadOfInvariant: a pointer that is itself (re)loaded from a location
// outside the loop's reach, e.g. the receiver parameter.
func isLoadOfInvariant(v ssa.Value, l *loopInfo) bool {
	switch v := v.(type) {
	case *ssa.Parameter, *ssa.FreeVar, *ssa.Global:
		return true
	case *ssa.FieldAddr:
		return isLoadOfInvariant(v.X, l)
	}
	if ld, ok := v.(*ssa.UnOp); ok && ld.Op == token.MUL && l.Body[ld.Block()] {
		// a pointer field re-loaded in the loop from an invariant object and not stored there
		if fa, ok := ld.X.(*ssa.FieldAddr); ok && isLoadOfInvariant(fa.X, l) {
			return loopKeepsField(l, fa)
		}
		return false
	}
	if in, ok := v.(ssa.Instruction); ok {
		return !l.Body[in.Block()]
	}
	return false
}

// loopKeepsField: no store to the field in the loop body and every call in
// it is a builtin or pure.
func loopKeepsField(l *loopInfo, fa *ssa.FieldAddr) bool {
	for b := range l.Body {
		for _, in := range b.Instrs {
			switch in := in.(type) {
			case *ssa.Store:
				if f2, ok := in.Addr.(*ssa.FieldAddr); ok && f2.Field == fa.Field && types.Identical(f2.X.Type(), fa.X.Type()) {
					return false
				}
			case ssa.CallInstruction:
				cc := in.Common()
				if _, isB := cc.Value.(*ssa.Builtin); isB {
					continue
				}
				cal := cc.StaticCallee()
				if cal == nil || !globalPurity.isPure(cal) {
					return false
				}
			}
		}
	}
	return true
}

func lpRecursion(c *Ctx, a *flAgg) {
	// static call graph over module functions
	var fns []*ssa.Function
	for _, pn := range []string{"stack", "internal", "stack/webstack"} {
		fns = append(fns, c.L.SrcFuncs(pn)...)
	}
	idx := map[*ssa.Function]int{}
	for i, f := range fns {
		idx[f] = i
	}
	adj := make([][]int, len(fns))
	for i, f := range fns {
		for _, b := range f.Blocks {
			for _, in := range b.Instrs {
				if ci, ok := in.(ssa.CallInstruction); ok {
					if cal := ci.Common().StaticCallee(); cal != nil {
						if j, ok := idx[cal]; ok {
							adj[i] = append(adj[i], j)
						}
					}
				}
				if mc, ok := in.(*ssa.MakeClosure); ok {
					if j, ok := idx[mc.Fn.(*ssa.Function)]; ok {
						adj[i] = append(adj[i], j)
					}
				}
			}
		}
	}
	// Tarjan SCC
	index, low := make([]int, len(fns)), make([]int, len(fns))
	on := make([]bool, len(fns))
	for i := range index {
		index[i] = -1
	}
	var stack []int
	n := 0
	var sccs [][]int
	var strong func(v int)
	strong = func(v int) {
		index[v], low[v] = n, n
		n++
		stack = append(stack, v)
		on[v] = true
		for _, w := range adj[v] {
			if index[w] < 0 {
				strong(w)
				if low[w] < low[v] {
					low[v] = low[w]
				}
			} else if on[w] && index[w] < low[v] {
				low[v] = index[w]
			}
		}
		if low[v] == index[v] {
			var comp []int
			for {
				w := stack[len(stack)-1]
				stack = stack[:len(stack)-1]
				on[w] = false
				comp = append(comp, w)
				if w == v {
					break
				}
			}
			self := false
			for _, w := range adj[v] {
				if w == v {
					self = true
				}
			}
			if len(comp) > 1 || self {
				sccs = append(sccs, comp)
			}
		}
	}
	for i := range fns {
		if index[i] < 0 {
			strong(i)
		}
	}
	allowed := map[string]string{
		"walk": "recursion on Arg.Fields: finite tree", "merge": "recursion on Arg.Fields", "similar": "recursion on Arg.Fields", "equal": "recursion on Arg.Fields",
		"String": "recursion on Arg.Fields", "name": "recursion on the sub-nodes of an AST",
	}
	for _, comp := range sccs {
		var names []string
		okAll := true
		nKnown := 0
		for _, i := range comp {
			if defaultInline(fns[i]) {
				// a helper extracted from (and called back by) a listed recursion is part of it
				continue
			}
			nKnown++
			names = append(names, funcKey(fns[i]))
			if _, ok := allowed[fns[i].Name()]; !ok {
				okAll = false
			}
		}
		if nKnown == 0 {
			okAll = false
			for _, i := range comp {
				names = append(names, funcKey(fns[i]))
			}
		}
		sort.Strings(names)
		key := "rec:" + strings.Join(names, "+")
		if okAll {
			a.ok("LP-rec", key, "structural recursion on the nested fields of an argument (depth bounded by parseArgs' nesting limit) or on AST sub-nodes", fns[comp[0]].Pos())
		} else {
			a.bad("LP-rec", key, "recursive functions that are not in the table of structural recursions", fns[comp[0]].Pos())
		}
	}
	c.stat("BN", "recursive_components", len(sccs))
}

// augEveryIterationPops: every path through one iteration of augmentCall's
// loop either calls a closure that removes the head of the flattened
// argument list, or is bounded by the strictly increasing counter
// (i < len(call.Args.Values)).
func augEveryIterationPops(c *Ctx, f *ssa.Function, l *loopInfo) (bool, string) {
	exprHome = f.Pkg.Pkg
	// the list variable: len(load(alloc X)) in the loop condition
	var listAlloc *ssa.Alloc
	if ifi, ok := l.Header.Instrs[len(l.Header.Instrs)-1].(*ssa.If); ok {
		if bo, ok := ifi.Cond.(*ssa.BinOp); ok {
			if S := bnLenOf(bo.X); S != nil {
				if ld, ok := S.(*ssa.UnOp); ok {
					listAlloc, _ = ld.X.(*ssa.Alloc)
				}
			}
		}
	}
	// ... or a cursor into the list: cursor < len(list)
	if listAlloc == nil {
		if ifi, ok := l.Header.Instrs[len(l.Header.Instrs)-1].(*ssa.If); ok {
			if bo, ok := ifi.Cond.(*ssa.BinOp); ok && bo.Op == token.LSS && bnLenOf(bo.Y) != nil {
				if ld, ok := bo.X.(*ssa.UnOp); ok && ld.Op == token.MUL {
					listAlloc, _ = ld.X.(*ssa.Alloc) // the consumable is the cursor
				}
			}
		}
	}
	if listAlloc == nil {
		return false, "the loop condition is neither len(list) != 0 on a local list nor cursor < len(list)"
	}
	// closures that pop: store list = list[1:] through the captured variable
	popping := map[*ssa.Function]bool{}
	closureOf := map[string]*ssa.Function{} // local variable name -> closure
	for _, b := range f.Blocks {
		for _, in := range b.Instrs {
			mc, ok := in.(*ssa.MakeClosure)
			if !ok {
				continue
			}
			fn := mc.Fn.(*ssa.Function)
			for _, r := range *mc.Referrers() {
				if st, ok := r.(*ssa.Store); ok {
					if al, ok := st.Addr.(*ssa.Alloc); ok {
						closureOf[al.Comment] = fn
					}
				}
			}
			for i, bnd := range mc.Bindings {
				if bnd != ssa.Value(listAlloc) {
					continue
				}
				fv := fn.FreeVars[i]
				for _, bb := range fn.Blocks {
					for _, ii := range bb.Instrs {
						if st, ok := ii.(*ssa.Store); ok && st.Addr == ssa.Value(fv) {
							if sl, ok := st.Val.(*ssa.Slice); ok {
								if lo, ok := bnConst(sl.Low); ok && lo >= 1 {
									popping[fn] = true
								}
							}
							// cursor = cursor + k, k >= 1
							if bo, ok := st.Val.(*ssa.BinOp); ok && bo.Op == token.ADD {
								if k, isC := bnConst(bo.Y); isC && k >= 1 {
									if ld, ok := bo.X.(*ssa.UnOp); ok && ld.Op == token.MUL && ld.X == ssa.Value(fv) {
										popping[fn] = true
									}
								}
							}
						}
					}
				}
			}
		}
	}
	// closures calling popping closures
	for changed := true; changed; {
		changed = false
		for _, fn := range f.AnonFuncs {
			if popping[fn] {
				continue
			}
			for _, bb := range fn.Blocks {
				for _, ii := range bb.Instrs {
					call, ok := ii.(*ssa.Call)
					if !ok {
						continue
					}
					// callee: load of a free variable bound to the alloc of a popping closure
					if ld, ok := call.Call.Value.(*ssa.UnOp); ok {
						if fv, ok := ld.X.(*ssa.FreeVar); ok {
							if pf := closureOf[fv.Name()]; pf != nil && popping[pf] && dominatesAllReturns(call.Block(), fn) {
								popping[fn] = true
								changed = true
							}
						}
					}
				}
			}
		}
	}
	// a stand-alone pop (a method on the list type handed the list's address):
	// closures that call it unconditionally with the list pop
	staticPop := augStaticPop(f)
	if staticPop != nil {
		for _, fn := range f.AnonFuncs {
			for _, bb := range fn.Blocks {
				for _, ii := range bb.Instrs {
					if call, ok := ii.(*ssa.Call); ok && call.Call.StaticCallee() == staticPop && len(call.Call.Args) > 0 && dominatesAllReturns(call.Block(), fn) {
						if fv, ok := call.Call.Args[0].(*ssa.FreeVar); ok {
							for i, bnd := range fnBindings(f, fn) {
								if fn.FreeVars[i] == fv && bnd == ssa.Value(listAlloc) {
									popping[fn] = true
								}
							}
						}
					}
				}
			}
		}
	}
	if len(popping) == 0 {
		return false, "no closure removes the head of the list"
	}
	seg := &SPE{Fn: f, Start: l.Header, MaxVisits: 2, SeedEnv: seedStraight(f, l.Header)}
	seg.Stop = func(from, to *ssa.BasicBlock) bool { return to == l.Header && l.Body[from] }
	seg.Explore()
	n := 0
	for _, p := range seg.Paths {
		if p.Term != "stop" {
			continue
		}
		n++
		pops := 0
		for _, ev := range p.Events {
			if ev.Kind != EvCall || ev.Val.Op != OpCall || ev.Val.Fn != nil {
				continue
			}
			cal := ev.Val.Args[0]
			var fn *ssa.Function
			if cal.Op == OpClosure {
				fn = cal.Fn
			} else if ad := loadOf(cal); ad != nil && ad.Op == OpAlloc {
				fn = closureOf[ad.Name]
			}
			if fn != nil && popping[fn] {
				pops++
			}
		}
		if staticPop != nil {
			for _, ev := range p.Events {
				if isPopStore(ev) {
					pops++
				}
			}
		}
		if pops > 0 {
			continue
		}
		// bounded by the counter: literal i < len(call.Args.Values) true and i advances by one
		bounded := false
		for _, lt := range p.Lits {
			s := lt.Atom.String()
			if lt.Pol && strings.HasPrefix(s, "(?phi:i < len(") && strings.HasSuffix(s, ".Values))") {
				bounded = true
			}
		}
		next := p.StopPhis["i"]
		if !(bounded && next != nil && next.String() == "(?phi:i + 1)") {
			var cs []string
			for _, ev := range p.Events {
				if ev.Kind == EvCall {
					cs = append(cs, ev.Val.String())
				}
			}
			return false, "calls: " + strings.Join(cs, " ; ")
		}
	}
	return n > 0, "no iteration path"
}

// dominatesAllReturns: block b dominates every return of fn (the call is unconditional).
func dominatesAllReturns(b *ssa.BasicBlock, fn *ssa.Function) bool {
	for _, bb := range fn.Blocks {
		if _, ok := bb.Instrs[len(bb.Instrs)-1].(*ssa.Return); ok {
			if !b.Dominates(bb) {
				return false
			}
		}
	}
	return true
}

// ---------------------------------------------------------------------------
// misc small rules

func miscRules(c *Ctx, a *flAgg) {
	// RACE-israce
	if f := c.L.Func("stack", "Snapshot", "IsRace"); f != nil {
		exprHome = f.Pkg.Pkg
		x := &SPE{Fn: f}
		x.Explore()
		ok := len(x.Paths) == 1 && len(x.Paths[0].Results) == 1
		if ok {
			r := x.Paths[0].Results[0].String()
			ok = strings.Contains(r, ".Goroutines[0].RaceAddr") && (strings.Contains(r, "== 0") || strings.Contains(r, "!= 0"))
		}
		if ok {
			a.ok("RACE-israce", "Snapshot.IsRace", "a snapshot is a race report iff its first goroutine carries a race address", f.Pos())
		} else {
			a.bad("RACE-israce", "Snapshot.IsRace", "IsRace is not 'first goroutine has a non-zero race address'", f.Pos())
		}
	} else {
		a.und("RACE-israce", "Snapshot.IsRace", "not found", token.NoPos)
	}
	raceKind(c, a)
	// PARSE-atou: which digit counts are accepted. The guard only looks at
	// len(s), so it is evaluated for every length: all comparisons between
	// (sums of) len(s) and constants are decided for a fixed length L, the
	// digit tests are left open; L is accepted iff some path returns true.
	// Required: accepted exactly for 1..18 digits (1..9 on 32-bit): fewer
	// rejects ids the runtime can print (< 10^18, the property's range), more
	// lets the accumulated value wrap to a negative int.
	if f := c.L.Func("stack", "", "atou"); f != nil && len(f.Params) == 1 {
		exprHome = f.Pkg.Pkg
		intSize := int64(64)
		if strings.HasSuffix(c.Cfg, "/386") || strings.HasSuffix(c.Cfg, "/arm") {
			intSize = 32
		}
		maxDigits := int64(18)
		if intSize == 32 {
			maxDigits = 9
		}
		param := f.Params[0].Name()
		var evalLen func(e *Expr, L int64) (int64, bool)
		evalLen = func(e *Expr, L int64) (int64, bool) {
			if e == nil {
				return 0, false
			}
			if k, ok := e.intConst(); ok {
				return k, true
			}
			switch e.Op {
			case OpBuiltin:
				if e.Name == "len" && len(e.Args) == 1 && e.Args[0].String() == param {
					return L, true
				}
			case OpBin:
				if len(e.Args) == 2 && (e.Tok == token.ADD || e.Tok == token.SUB) {
					a, ok1 := evalLen(e.Args[0], L)
					b, ok2 := evalLen(e.Args[1], L)
					if ok1 && ok2 {
						if e.Tok == token.ADD {
							return a + b, true
						}
						return a - b, true
					}
				}
			}
			return 0, false
		}
		failNonZero := false
		accepts := func(L int64) (acc, und bool) {
			// the accumulation loop runs L times: its control is decided too
			mv := L
			if mv > 40 {
				mv = 40
			}
			x := &SPE{Fn: f, MaxVisits: int(mv) + 2}
			x.Decide = func(atom *Expr, _ *pathState) (bool, bool) {
				if atom.Op != OpBin || len(atom.Args) != 2 {
					return false, false
				}
				a, ok1 := evalLen(atom.Args[0], L)
				b, ok2 := evalLen(atom.Args[1], L)
				if !ok1 || !ok2 {
					return false, false
				}
				switch atom.Tok {
				case token.LSS:
					return a < b, true
				case token.EQL:
					return a == b, true
				}
				return false, false
			}
			x.Explore()
			n := 0
			for _, p := range x.Paths {
				if p.Term != "return" || len(p.Results) != 2 {
					if p.Term != "return" {
						und = true
					}
					continue
				}
				n++
				if v, isC := p.Results[1].boolConst(); isC && !v {
					// a refusal carries the value 0: callers that ignore the flag
					// (sleep minutes) rely on it
					if z, isZ := p.Results[0].intConst(); !isZ || z != 0 {
						failNonZero = true
					}
					continue
				}
				acc = true
			}
			if x.Truncated > 0 {
				// the guard let this length through and the loop outran the bound
				acc = true
			}
			if n == 0 && !acc {
				und = true
			}
			return
		}
		var wrongLow, wrongHigh []int64
		und := false
		lens := []int64{}
		for L := int64(0); L <= 40; L++ {
			lens = append(lens, L)
		}
		lens = append(lens, 64, 100, 1000, 1<<20)
		for _, L := range lens {
			acc, u := accepts(L)
			und = und || u
			want := L >= 1 && L <= maxDigits
			if acc && !want {
				wrongHigh = append(wrongHigh, L)
			}
			if !acc && want {
				wrongLow = append(wrongLow, L)
			}
		}
		// the digit test: for a one-character argument the accepting path holds
		// exactly for '0'..'9' (decided by evaluating its literals for all 256 bytes)
		{
			x := &SPE{Fn: f, MaxVisits: 3}
			x.Decide = func(atom *Expr, _ *pathState) (bool, bool) {
				if atom.Op != OpBin || len(atom.Args) != 2 {
					return false, false
				}
				a, ok1 := evalLen(atom.Args[0], 1)
				b, ok2 := evalLen(atom.Args[1], 1)
				if !ok1 || !ok2 {
					return false, false
				}
				switch atom.Tok {
				case token.LSS:
					return a < b, true
				case token.EQL:
					return a == b, true
				}
				return false, false
			}
			x.Explore()
			elem := param + "[0]"
			var evalB func(e *Expr, v int64) (int64, bool)
			evalB = func(e *Expr, v int64) (int64, bool) {
				if e == nil {
					return 0, false
				}
				if k, ok := e.intConst(); ok {
					return k, true
				}
				if e.String() == elem {
					return v, true
				}
				switch e.Op {
				case OpConvert:
					if len(e.Args) == 1 {
						return evalB(e.Args[0], v)
					}
				case OpBin:
					if len(e.Args) == 2 && (e.Tok == token.ADD || e.Tok == token.SUB) {
						l, ok1 := evalB(e.Args[0], v)
						r, ok2 := evalB(e.Args[1], v)
						if !ok1 || !ok2 {
							return 0, false
						}
						res := l + r
						if e.Tok == token.SUB {
							res = l - r
						}
						if e.Type != nil {
							if bt, ok := e.Type.Underlying().(*types.Basic); ok && (bt.Kind() == types.Uint8) {
								res &= 0xff
							}
						}
						return res, true
					}
				}
				return 0, false
			}
			accept := map[int64]bool{}
			decided := true
			nAcc := 0
			for _, p := range x.Paths {
				if p.Term != "return" || len(p.Results) != 2 {
					continue
				}
				if v, isC := p.Results[1].boolConst(); !isC || !v {
					continue
				}
				nAcc++
				for v := int64(0); v < 256; v++ {
					holds := true
					for _, lt := range p.Lits {
						at := lt.Atom
						if !strings.Contains(at.String(), elem) {
							continue
						}
						if at.Op != OpBin || len(at.Args) != 2 {
							decided = false
							continue
						}
						l, ok1 := evalB(at.Args[0], v)
						r, ok2 := evalB(at.Args[1], v)
						if !ok1 || !ok2 {
							decided = false
							continue
						}
						var tv bool
						switch at.Tok {
						case token.LSS:
							tv = l < r
						case token.EQL:
							tv = l == r
						default:
							decided = false
							continue
						}
						if tv != lt.Pol {
							holds = false
						}
					}
					if holds {
						accept[v] = true
					}
				}
			}
			var wrong []string
			for v := int64(0); v < 256; v++ {
				isDigit := v >= '0' && v <= '9'
				if accept[v] != isDigit {
					wrong = append(wrong, fmt.Sprintf("%q", rune(v)))
				}
			}
			switch {
			case nAcc == 0 || !decided:
				a.und("PARSE-atou", "atou/digits", "the digit test of atou was not recognised", f.Pos())
			case len(wrong) == 0:
				a.ok("PARSE-atou", "atou/digits", "a character is accepted iff it is one of '0'..'9' (all 256 byte values evaluated)", f.Pos())
			default:
				if len(wrong) > 6 {
					wrong = append(wrong[:6], "...")
				}
				a.bad("PARSE-atou", "atou/digits", "the digit test is wrong for the bytes "+strings.Join(wrong, " ")+": a non-digit is folded into the number, or a digit refused", f.Pos())
			}
		}
		if failNonZero {
			a.bad("PARSE-atou", "atou/refusal-value", "a refused number is returned with a value other than 0: a caller that ignores the flag (the sleep minutes of a goroutine header) takes that value", f.Pos())
		} else {
			a.ok("PARSE-atou", "atou/refusal-value", "a refused number comes with the value 0", f.Pos())
		}
		switch {
		case und:
			a.und("PARSE-atou", "atou", "a path of atou does not return, or no path was found", f.Pos())
		case len(wrongHigh) > 0:
			a.bad("PARSE-atou", "atou", fmt.Sprintf("numbers of %v digits are accepted; more than %d digits (or none) can exceed the %d-bit int and wrap to a negative value (ids, line numbers and sleep minutes are then negative) or yield a number from no digits", wrongHigh, maxDigits, intSize), f.Pos())
		case len(wrongLow) > 0:
			a.bad("PARSE-atou", "atou", fmt.Sprintf("numbers of %v digits are rejected although they fit a %d-bit int: goroutine ids up to 10^%d-1 (the runtime prints 64-bit ids) are no longer parsed and their goroutines are dropped", wrongLow, intSize, maxDigits), f.Pos())
		default:
			a.ok("PARSE-atou", "atou", fmt.Sprintf("atou accepts exactly 1..%d digits (decided for every length 0..40 and beyond): every id below 10^%d parses and the accumulated value cannot overflow a %d-bit int", maxDigits, maxDigits, intSize), f.Pos())
		}
	}
	// PARSE-funcinit
	if f := c.L.Func("stack", "Func", "Init"); f != nil {
		exprHome = f.Pkg.Pkg
		x := &SPE{Fn: f, MaxVisits: 2}
		x.Explore()
		recv, raw := f.Params[0].Name(), f.Params[1].Name()
		okC, okI, okN := true, true, true
		okDot := true
		okMain, nMainT, nMainF := true, 0, 0
		nOK := 0
		for _, p := range x.Paths {
			if p.Term != "return" || len(p.Results) != 1 || !p.Results[0].isNilConst() {
				continue
			}
			nOK++
			// a symbol with a path part must have a dot after its last slash
			slash, haveSlash := false, false
			dotMissing, haveDot := false, false
			for _, lt := range p.Lits {
				at := lt.Atom
				if at.Op != OpBin || at.Tok != token.EQL || len(at.Args) != 2 {
					continue
				}
				k, isC := at.Args[1].intConst()
				if !isC || k != -1 {
					continue
				}
				if at.Args[0].calleeIs("strings", "LastIndexByte") && len(at.Args[0].Args) == 3 && at.Args[0].Args[1].String() == raw {
					slash, haveSlash = !lt.Pol, true
				}
				if at.Args[0].calleeIs("strings", "IndexByte") && len(at.Args[0].Args) == 3 && at.Args[0].Args[1].Op == OpSlice {
					dotMissing, haveDot = lt.Pol, true
				}
			}
			if haveSlash && slash && !(haveDot && !dotMissing) {
				okDot = false
			}
			comp := p.Cells["&"+recv+".Complete"]
			if comp == nil || !(comp.Op == OpExtract && comp.ID == 0 && comp.Args[0].calleeIs("net/url", "QueryUnescape") && comp.Args[0].Args[1].String() == raw) {
				okC = false
			}
			if ip := p.Cells["&"+recv+".ImportPath"]; ip != nil {
				if !(ip.Op == OpExtract && ip.ID == 0 && ip.Args[0].calleeIs("net/url", "QueryUnescape") && strings.HasPrefix(ip.Args[0].Args[1].String(), raw+"[:")) {
					okI = false
				}
			}
			nm := p.Cells["&"+recv+".Name"]
			if nm == nil || !(strings.Contains(nm.String(), "QueryUnescape("+raw+")#0[") ) {
				okN = false
			}
			// IsPkgMain: the import path - not its last element - is "main"
			ipS := recv + ".ImportPath"
			if ip := p.Cells["&"+recv+".ImportPath"]; ip != nil {
				ipS = ip.String()
			}
			isMain, haveMain := false, false
			for _, lt := range p.Lits {
				at := lt.Atom
				if at.Op != OpBin || at.Tok != token.EQL || len(at.Args) != 2 {
					continue
				}
				for _, pr := range [][2]*Expr{{at.Args[0], at.Args[1]}, {at.Args[1], at.Args[0]}} {
					if k, isC := constStr(pr[1]); isC && k == "main" && pr[0].String() == ipS {
						isMain, haveMain = lt.Pol, true
					}
				}
			}
			pm := p.Cells["&"+recv+".IsPkgMain"]
			set := false
			if pm != nil {
				if v, isC := pm.boolConst(); isC && v {
					set = true
				} else if !isC {
					if pm.Op == OpBin && pm.Tok == token.EQL && strings.Contains(pm.String(), ipS+" == \"main\"") {
						haveMain, isMain, set = true, true, true // assigned the comparison itself
						nMainT, nMainF = nMainT+1, nMainF+1
					} else {
						okMain = false
					}
				}
			}
			if !haveMain && set || haveMain && isMain != set {
				okMain = false
			}
			if haveMain && isMain {
				nMainT++
			} else if haveMain {
				nMainF++
			}
		}
		if okDot {
			a.ok("PARSE-funcinit", "Func.Init/dot-after-path", "a symbol with a path part is accepted only with a dot after its last slash", f.Pos())
		} else {
			a.bad("PARSE-funcinit", "Func.Init/dot-after-path", "a symbol with a path part but no dot after its last slash is accepted: package and name are then cut at the slash itself", f.Pos())
		}
		if nOK > 0 && okMain && nMainT > 0 && nMainF > 0 {
			a.ok("PARSE-funcinit", "Func.Init/pkgmain", "a function is in package main iff its import path is \"main\"", f.Pos())
		} else {
			a.bad("PARSE-funcinit", "Func.Init/pkgmain", "IsPkgMain is not set exactly when the whole import path equals \"main\" (a package example.com/x/main is not the program's main package): frames are ranked and highlighted as main code that are not", f.Pos())
		}
		if nOK > 0 && okC && okI && okN {
			a.ok("PARSE-funcinit", "Func.Init", "Complete is the unescaped raw symbol, ImportPath the unescaped package part, Name a suffix of Complete", f.Pos())
		} else {
			a.bad("PARSE-funcinit", "Func.Init", fmt.Sprintf("Func.Init must set Complete = unescape(raw) (ok=%v), ImportPath = unescape(raw[:endPkg]) (ok=%v) and Name = a suffix of Complete (ok=%v): percent-escapes would survive in the demangled symbol", okC, okI, okN), f.Pos())
		}
	}
	// WEB-trunc: the handler's snapshot parses the possibly truncated dump and treats EOF as success
	if f := c.L.Func("stack/webstack", "", "snapshot"); f != nil {
		exprHome = f.Pkg.Pkg
		okScan, okEOF := false, false
		for _, b := range f.Blocks {
			for _, in := range b.Instrs {
				if call, ok := in.(*ssa.Call); ok {
					if cal := call.Call.StaticCallee(); cal != nil && cal.Name() == "ScanSnapshot" {
						okScan = true
					}
				}
				if bo, ok := in.(*ssa.BinOp); ok && bo.Op == token.EQL {
					if strings.Contains(bo.Y.String(), "io.EOF") || strings.Contains(bo.X.String(), "io.EOF") || strings.Contains(bo.Y.String(), "EOF") {
						okEOF = true
					}
				}
			}
		}
		if okScan && okEOF {
			a.ok("WEB-trunc", "webstack.snapshot", "the (possibly truncated) dump is parsed with ScanSnapshot and io.EOF is success", f.Pos())
		} else {
			a.bad("WEB-trunc", "webstack.snapshot", "snapshot does not parse its buffer with ScanSnapshot treating io.EOF as success", f.Pos())
		}
	}
}

// raceKind (RACE-kind): a captured group compared with a constant byte
// slice (bytes.Equal(match[k], G)) is compared with a text the group can
// capture; for the operation kind - (Read|Write), (read|write) - with the
// spelling of "write". A constant that lost a character makes the test
// constant false: every operation of a report becomes a read.
func raceKind(c *Ctx, a *flAgg) {
	scan := c.L.Func("stack", "scanningState", "scan")
	if scan == nil {
		return
	}
	init := scan.Pkg.Func("init")
	constOf := func(g *ssa.Global) (string, bool) {
		if init == nil {
			return "", false
		}
		val, n := "", 0
		for _, b := range init.Blocks {
			for _, in := range b.Instrs {
				st, ok := in.(*ssa.Store)
				if !ok || st.Addr != ssa.Value(g) {
					continue
				}
				n++
				if cv, ok := st.Val.(*ssa.Convert); ok {
					if k, ok := cv.X.(*ssa.Const); ok && k.Value != nil && k.Value.Kind() == constant.String {
						val = constant.StringVal(k.Value)
						continue
					}
				}
				return "", false
			}
		}
		return val, n == 1
	}
	n := 0
	for _, f := range blocksOwners(scan) {
		for _, b := range f.Blocks {
			for _, in := range b.Instrs {
				call, ok := in.(*ssa.Call)
				if !ok {
					continue
				}
				cal := call.Call.StaticCallee()
				if cal == nil || !fnIs(cal, "bytes", "Equal") || len(call.Call.Args) != 2 {
					continue
				}
				for _, pr := range [][2]ssa.Value{{call.Call.Args[0], call.Call.Args[1]}, {call.Call.Args[1], call.Call.Args[0]}} {
					ld, ok := pr[1].(*ssa.UnOp)
					if !ok || ld.Op != token.MUL {
						continue
					}
					g, ok := ld.X.(*ssa.Global)
					if !ok {
						continue
					}
					pat, k, ok := submatchGroupOf(pr[0])
					if !ok {
						continue
					}
					val, isC := constOf(g)
					key := g.Name() + "~" + pat.Name()
					if !isC {
						a.und("RACE-kind", key, "the byte slice compared with the captured group is not a constant set once in init", call.Pos())
						continue
					}
					ps, okp := regexpPattern(c.L, "stack", pat.Name())
					if !okp {
						continue
					}
					alts, fin := rxGroupStrings(ps, k)
					if !fin {
						continue
					}
					n++
					in := false
					kinds := false
					for _, s := range alts {
						if s == val {
							in = true
						}
						if strings.EqualFold(s, "write") {
							kinds = true
						}
					}
					switch {
					case !in:
						a.bad("RACE-kind", key, fmt.Sprintf("group %d of %s captures one of %q; it is compared with %q, which is never equal: the kind of every race operation is read", k, pat.Name(), alts, val), call.Pos())
					case kinds && !strings.EqualFold(val, "write"):
						a.bad("RACE-kind", key, fmt.Sprintf("the write flag of a race operation is computed by comparing its kind with %q", val), call.Pos())
					default:
						a.ok("RACE-kind", key, fmt.Sprintf("the kind captured by group %d of %s is compared with %q, one of its alternatives", k, pat.Name(), val), call.Pos())
					}
				}
			}
		}
	}
	if n == 0 {
		a.und("RACE-kind", "scan", "no comparison of a captured operation kind with a constant was found", scan.Pos())
	}
}

// blocksOwners: fn and the helpers outside the pinned vocabulary it calls.
func blocksOwners(fn *ssa.Function) []*ssa.Function {
	out := []*ssa.Function{fn}
	seen := map[*ssa.Function]bool{fn: true}
	for i := 0; i < len(out); i++ {
		for _, b := range out[i].Blocks {
			for _, in := range b.Instrs {
				if call, ok := in.(ssa.CallInstruction); ok {
					if cal := call.Common().StaticCallee(); cal != nil && cal.Pkg == fn.Pkg && !seen[cal] && defaultInline(cal) && cal.Blocks != nil {
						seen[cal] = true
						out = append(out, cal)
					}
				}
			}
		}
	}
	return out
}

// submatchGroupOf: v is load(&m[k]) with m = P.FindSubmatch(...), P a regexp global.
func submatchGroupOf(v ssa.Value) (*ssa.Global, int, bool) {
	ld, ok := v.(*ssa.UnOp)
	if !ok || ld.Op != token.MUL {
		return nil, 0, false
	}
	ia, ok := ld.X.(*ssa.IndexAddr)
	if !ok {
		return nil, 0, false
	}
	k, isC := bnConst(ia.Index)
	if !isC {
		return nil, 0, false
	}
	m := ia.X
	for i := 0; i < 4; i++ {
		if phi, ok := m.(*ssa.Phi); ok && len(phi.Edges) > 0 {
			m = phi.Edges[0]
			continue
		}
		break
	}
	call, ok := m.(*ssa.Call)
	if !ok || call.Call.StaticCallee() == nil || call.Call.StaticCallee().Name() != "FindSubmatch" || len(call.Call.Args) < 1 {
		return nil, 0, false
	}
	rl, ok := call.Call.Args[0].(*ssa.UnOp)
	if !ok {
		return nil, 0, false
	}
	g, ok := rl.X.(*ssa.Global)
	if !ok {
		return nil, 0, false
	}
	return g, int(k), true
}

// rxGroupStrings: the finite set of texts capture group k of the pattern can
// hold (false when it is not a small finite set).
func rxGroupStrings(pat string, k int) ([]string, bool) {
	re, err := syntax.Parse(pat, syntax.Perl)
	if err != nil {
		return nil, false
	}
	var grp *syntax.Regexp
	var find func(r *syntax.Regexp)
	find = func(r *syntax.Regexp) {
		if r.Op == syntax.OpCapture && r.Cap == k {
			grp = r
		}
		for _, s := range r.Sub {
			find(s)
		}
	}
	find(re)
	if grp == nil {
		return nil, false
	}
	var enum func(r *syntax.Regexp) ([]string, bool)
	enum = func(r *syntax.Regexp) ([]string, bool) {
		switch r.Op {
		case syntax.OpLiteral:
			return []string{string(r.Rune)}, true
		case syntax.OpEmptyMatch:
			return []string{""}, true
		case syntax.OpCapture:
			return enum(r.Sub[0])
		case syntax.OpCharClass:
			var out []string
			for i := 0; i+1 < len(r.Rune); i += 2 {
				if r.Rune[i+1]-r.Rune[i] > 16 {
					return nil, false
				}
				for c := r.Rune[i]; c <= r.Rune[i+1]; c++ {
					out = append(out, string(c))
				}
			}
			return out, len(out) <= 32
		case syntax.OpAlternate:
			var out []string
			for _, s := range r.Sub {
				o, ok := enum(s)
				if !ok {
					return nil, false
				}
				out = append(out, o...)
			}
			return out, len(out) <= 64
		case syntax.OpConcat:
			out := []string{""}
			for _, s := range r.Sub {
				o, ok := enum(s)
				if !ok {
					return nil, false
				}
				var nx []string
				for _, a := range out {
					for _, b := range o {
						nx = append(nx, a+b)
					}
				}
				out = nx
				if len(out) > 64 {
					return nil, false
				}
			}
			return out, true
		}
		return nil, false
	}
	return enum(grp.Sub[0])
}

// fnBindings: the values bound to the free variables of closure fn where it
// is created in parent.
func fnBindings(parent, fn *ssa.Function) []ssa.Value {
	for _, b := range parent.Blocks {
		for _, in := range b.Instrs {
			if mc, ok := in.(*ssa.MakeClosure); ok && mc.Fn == ssa.Value(fn) {
				return mc.Bindings
			}
		}
	}
	return nil
}

// astOptional: pointer fields of go/ast nodes that are documented as "or nil"
// (a body-less declaration has no Body, a function no Recv, a signature
// without results no Results ...).
var astOptional = map[string]bool{
	"FuncDecl.Body": true, "FuncDecl.Recv": true, "FuncDecl.Doc": true,
	"FuncType.Results": true, "FuncType.TypeParams": true,
	"Field.Tag": true, "Field.Doc": true, "Field.Comment": true,
	"File.Doc": true, "TypeSpec.TypeParams": true, "TypeSpec.Doc": true, "TypeSpec.Comment": true,
	"GenDecl.Doc": true, "ValueSpec.Doc": true, "ValueSpec.Comment": true, "ImportSpec.Name": true, "ImportSpec.Doc": true, "ImportSpec.Comment": true,
}

// pnASTOptional (PN-implicit): a field is read through an optional pointer
// of a syntax tree node only under a dominating test that it is not nil.
// With sources that do not match the binary any declaration can be the one
// found for a frame's line - a body-less one (assembly stub) included.
func pnASTOptional(c *Ctx, a *flAgg) {
	n := 0
	for _, pn := range []string{"stack", "internal", "stack/webstack"} {
		for _, f := range c.L.SrcFuncs(pn) {
			an := &bnAn{c: c, fn: f}
			for _, b := range f.Blocks {
				for _, in := range b.Instrs {
					var ptr ssa.Value
					switch t := in.(type) {
					case *ssa.FieldAddr:
						ptr = t.X
					case *ssa.Field:
						continue
					default:
						continue
					}
					ld, ok := ptr.(*ssa.UnOp)
					if !ok || ld.Op != token.MUL {
						continue
					}
					fa, ok := ld.X.(*ssa.FieldAddr)
					if !ok {
						continue
					}
					pt, ok := fa.X.Type().Underlying().(*types.Pointer)
					if !ok {
						continue
					}
					nt, ok := pt.Elem().(*types.Named)
					if !ok || nt.Obj().Pkg() == nil || nt.Obj().Pkg().Path() != "go/ast" {
						continue
					}
					st, ok := nt.Underlying().(*types.Struct)
					if !ok {
						continue
					}
					name := nt.Obj().Name() + "." + st.Field(fa.Field).Name()
					if !astOptional[name] {
						continue
					}
					n++
					guarded := false
					guards(b, func(cond ssa.Value, truth bool, where *ssa.BasicBlock) {
						bo, ok := cond.(*ssa.BinOp)
						if !ok || (bo.Op != token.NEQ && bo.Op != token.EQL) {
							return
						}
						x, y := bo.X, bo.Y
						if k, ok := x.(*ssa.Const); ok && k.IsNil() {
							x, y = y, x
						}
						k, ok := y.(*ssa.Const)
						if !ok || !k.IsNil() {
							return
						}
						if (bo.Op == token.NEQ) == truth && an.sameVal(x, ld) {
							guarded = true
						}
					})
					key := funcKey(f) + "/ast-optional:" + name
					if guarded {
						a.ok("PN-implicit", key, "ast."+name+" is read through only where it was tested not to be nil", in.Pos())
					} else {
						a.bad("PN-implicit", key, "a field is read through ast."+name+", which is nil for some declarations (body-less function, function without receiver/results), without a dominating nil test: nil dereference while rendering a frame whose line falls next to such a declaration", in.Pos())
					}
				}
			}
		}
	}
	c.stat("BN", "ast_optional_derefs", n)
}
