package main

// NI — console rendering (C16): colour strings are inserted, never
// inspected; measured widths are the printed columns; filter and match test
// the printed header with opposite polarity; every admitted block is written.

import (
	"regexp"
	"os"
	"fmt"
	"go/constant"
	"go/token"
	"go/types"
	"sort"
	"strings"

	"golang.org/x/tools/go/ssa"
)

func init() {
	register(&Engine{Name: "NI", Doc: "console non-interference", Run: runNI})
}

func runNI(c *Ctx) (obls []Obl) {
	a := newAgg(c, &obls)
	defer a.flush()
	niFlow(c, a)
	niWidth(c, a)
	niWidthMax(c, a)
	niWriters(c, a)
	niHeaders(c, a)
	niCreator(c, a)
	niFormat(c, a)
	niFlags(c, a)
	return
}

// niHeaders: what a header line is made of.
func niHeaders(c *Ctx, a *flAgg) {
	for _, h := range []struct{ name, first string }{{"BucketHeader", "len("}, {"GoroutineHeader", ".ID"}} {
		fn := c.MustFunc(a.obls, "NI-header", "internal", "Palette", h.name)
		if fn == nil {
			continue
		}
		exprHome = fn.Pkg.Pkg
		x := &SPE{Fn: fn, MaxVisits: 2}
		x.Explore()
		subj := fn.Params[1].Name()
		okAll, n := true, 0
		why := ""
		for _, p := range x.Paths {
			if p.Term != "return" || len(p.Results) != 1 {
				continue
			}
			n++
			r := p.Results[0]
			if !r.calleeIs("fmt", "Sprintf") || r.Args[2].Op != OpSlice {
				okAll, why = false, "the header is not built by the documented format"
				continue
			}
			format, _ := constStr(r.Args[1])
			arr := r.Args[2].Args[0].String()
			get := func(i int) string {
				if v := p.Cells[fmt.Sprintf("%s[%d]", arr, i)]; v != nil {
					return v.String()
				}
				return ""
			}
			if format != "%s%d: %s%s%s\n" {
				okAll, why = false, "unexpected header format "+format
				continue
			}
			if !strings.Contains(get(1), h.first) || !strings.HasSuffix(get(2), ".State") {
				okAll, why = false, "the header does not start with the member count/goroutine id and the state"
			}
			extra := get(3)
			// sleep
			sleepEmpty, haveSleep := false, false
			locked, haveLocked := false, false
			createdEmpty, haveCreated := false, false
			for _, lt := range p.Lits {
				s := lt.Atom.String()
				switch {
				case strings.Contains(s, "SleepString(") && strings.HasSuffix(s, `== "")`):
					sleepEmpty, haveSleep = lt.Pol, true
				case strings.HasSuffix(s, ".Locked"):
					locked, haveLocked = lt.Pol, true
				case strings.Contains(s, "createdByString(") && strings.HasSuffix(s, `== "")`):
					createdEmpty, haveCreated = lt.Pol, true
				case strings.Contains(s, "RaceAddr") || strings.Contains(s, "RaceWrite"):
				default:
					okAll, why = false, "the header depends on an unexpected condition: "+s
				}
			}
			if !haveSleep || !haveLocked || !haveCreated {
				okAll, why = false, fmt.Sprintf("the header does not decide on SleepString (%v), Locked (%v) and createdByString (%v) of %s", haveSleep, haveLocked, haveCreated, subj)
				continue
			}
			if (strings.Contains(extra, "SleepString(") != !sleepEmpty) || (strings.Contains(extra, "[locked]") != locked) || (strings.Contains(extra, "createdByString(") != !createdEmpty) {
				okAll, why = false, "sleep range, lock marker or creator are not shown exactly when present"
			}
			// the race note of a goroutine of a race report: shown iff the address is
			// set, "write" iff the access was a write, with that goroutine's address
			if h.name == "GoroutineHeader" {
				raceZero, haveRace := false, false
				write, haveWrite := false, false
				for _, lt := range p.Lits {
					s := lt.Atom.String()
					if strings.HasSuffix(s, ".RaceAddr == 0)") {
						raceZero, haveRace = lt.Pol, true
					}
					if strings.HasSuffix(s, ".RaceWrite") {
						write, haveWrite = lt.Pol, true
					}
				}
				shown := strings.Contains(extra, " Race ")
				switch {
				case !haveRace:
					okAll, why = false, "the header does not look at RaceAddr"
				case shown != !raceZero:
					okAll, why = false, "the race note is not shown exactly for the goroutines of a race report"
				case shown:
					// operands of the note's Sprintf
					ops := ""
					var note *Expr
					r.walk(func(e *Expr) bool { return true })
					for _, ev := range p.Events {
						if ev.Kind == EvCall && ev.Val.calleeIs("fmt", "Sprintf") && len(ev.Val.Args) == 3 {
							if f, ok := constStr(ev.Val.Args[1]); ok && strings.Contains(f, " Race ") {
								note = ev.Val
							}
						}
					}
					if note != nil && note.Args[2].Op == OpSlice {
						narr := note.Args[2].Args[0].String()
						for i := 0; i < 6; i++ {
							if v := p.Cells[fmt.Sprintf("%s[%d]", narr, i)]; v != nil {
								ops += v.String() + " | "
							}
						}
					}
					wantWord := `"read"`
					if haveWrite && write {
						wantWord = `"write"`
					}
					if !haveWrite || !strings.Contains(ops, wantWord) || !strings.Contains(ops, subj+".RaceAddr") {
						okAll, why = false, "the race note does not say "+wantWord+" with the goroutine's address ("+ops+")"
					}
				}
			}
			// in the order: sleep range, lock marker, creator (then the race note)
			last := -1
			for _, mark := range []string{"SleepString(", "[locked]", "createdByString(", " Race "} {
				if i := strings.Index(extra, mark); i >= 0 {
					if i < last {
						okAll, why = false, "the annotations are not in the order sleep range, lock, creator: "+extra
					}
					last = i
				}
			}
		}
		if okAll && n > 0 {
			a.ok("NI-header", h.name, "the header is count/id, state, then the sleep range iff SleepString is non-empty, [locked] iff Locked, the creator iff known", fn.Pos())
		} else {
			a.bad("NI-header", h.name, "the header is not made of count/id, state, sleep range (iff non-empty), lock marker (iff locked) and creator (iff known): "+why, fn.Pos())
		}
	}
}

// niFlow: taint analysis of palette strings inside package internal.
func niFlow(c *Ctx, a *flAgg) {
	fns := c.L.SrcFuncs("internal")
	taint := map[ssa.Value]bool{}
	retTaint := map[*ssa.Function]bool{}
	isPaletteField := func(v ssa.Value) bool {
		ld, ok := v.(*ssa.UnOp)
		if !ok || ld.Op != token.MUL {
			return false
		}
		if nt, ok := ld.Type().(*types.Named); ok && nt.Obj().Name() == "Palette" {
			return true // the whole palette
		}
		fa, ok := ld.X.(*ssa.FieldAddr)
		if !ok {
			return false
		}
		t := fa.X.Type().Underlying().(*types.Pointer).Elem()
		nt, ok := t.(*types.Named)
		return ok && nt.Obj().Name() == "Palette" && isStringish(ld.Type())
	}
	for changed, iter := true, 0; changed && iter < 50; iter++ {
		changed = false
		mark := func(v ssa.Value) {
			if !taint[v] {
				taint[v] = true
				changed = true
			}
		}
		for _, f := range fns {
			for _, b := range f.Blocks {
				for _, in := range b.Instrs {
					switch in := in.(type) {
					case *ssa.UnOp:
						if isPaletteField(in) {
							mark(in)
						}
					case *ssa.Phi:
						for _, e := range in.Edges {
							if taint[e] {
								mark(in)
							}
						}
					case *ssa.BinOp:
						if in.Op == token.ADD && (taint[in.X] || taint[in.Y]) {
							mark(in)
						}
					case *ssa.MakeInterface:
						if taint[in.X] {
							mark(in)
						}
					case *ssa.ChangeType:
						if taint[in.X] {
							mark(in)
						}
					case *ssa.Convert:
						if taint[in.X] && isStringish(in.Type()) {
							mark(in)
						}
					case *ssa.Call:
						cal := in.Call.StaticCallee()
						if cal != nil && retTaint[cal] {
							mark(in)
						}
						if cal != nil && calleePkg(cal) == "fmt" && (cal.Name() == "Sprintf" || cal.Name() == "Sprint") {
							for _, v := range sprintfOperands(in) {
								if taint[v] {
									mark(in)
								}
							}
						}
						// strings.Builder is concatenation: the builder holds what was
						// written to it, String() gives it back
						if cal != nil && calleePkg(cal) == "strings" && cal.Signature.Recv() != nil && strings.HasSuffix(cal.Signature.Recv().Type().String(), "strings.Builder") && len(in.Call.Args) >= 1 {
							switch cal.Name() {
							case "WriteString":
								if len(in.Call.Args) == 2 && taint[in.Call.Args[1]] {
									mark(in.Call.Args[0])
								}
							case "String":
								if taint[in.Call.Args[0]] {
									mark(in)
								}
							}
						}
						if cal != nil && calleePkg(cal) == "strings" && cal.Name() == "Join" {
							// strings.Join(out, "\n") of tainted elements
							if sliceHoldsTaint(in.Call.Args[0], taint) {
								mark(in)
							}
						}
					case *ssa.Return:
						for _, r := range in.Results {
							if taint[r] && !retTaint[f] {
								retTaint[f] = true
								changed = true
							}
						}
					}
				}
			}
		}
	}
	nT := 0
	for range taint {
		nT++
	}
	c.stat("NI", "tainted_values", nT)
	// uses
	bad := 0
	for _, f := range fns {
		for _, b := range f.Blocks {
			for _, in := range b.Instrs {
				switch in := in.(type) {
				case *ssa.BinOp:
					switch in.Op {
					case token.EQL, token.NEQ, token.LSS, token.GTR, token.LEQ, token.GEQ:
						if taint[in.X] || taint[in.Y] {
							bad++
							a.bad("NI-flow", funcKey(f)+"/compare", "a colour string (or text containing one) is compared: the output would depend on the palette beyond inserted escape sequences", in.Pos())
						}
					}
				case *ssa.Index, *ssa.Slice, *ssa.Lookup:
					var x ssa.Value
					switch v := in.(type) {
					case *ssa.Index:
						x = v.X
					case *ssa.Slice:
						x = v.X
					case *ssa.Lookup:
						x = v.X
					}
					if taint[x] {
						bad++
						a.bad("NI-flow", funcKey(f)+"/slice", "text containing colour strings is indexed or sliced", in.Pos())
					}
				case *ssa.Convert:
					if taint[in.X] && !isStringish(in.Type()) {
						bad++
						a.bad("NI-flow", funcKey(f)+"/convert", "text containing colour strings is converted to bytes/runes", in.Pos())
					}
				case *ssa.Call:
					if bi, ok := in.Call.Value.(*ssa.Builtin); ok {
						if (bi.Name() == "len" || bi.Name() == "cap") && taint[in.Call.Args[0]] {
							bad++
							a.bad("NI-flow", funcKey(f)+"/len", "the length of text containing colour strings is measured: alignment would depend on the palette", in.Pos())
						}
						continue
					}
					cal := in.Call.StaticCallee()
					if cal == nil {
						continue
					}
					pkg, name := calleePkg(cal), cal.Name()
					switch {
					case pkg == "fmt" && (strings.HasSuffix(name, "printf")):
						// the format must be constant and tainted operands must sit under %s
						fi := 0
						if name == "Fprintf" {
							fi = 1
						}
						if taint[in.Call.Args[fi]] {
							bad++
							a.bad("NI-flow", funcKey(f)+"/format", "a colour string is used as a format", in.Pos())
						}
						if k, ok := in.Call.Args[fi].(*ssa.Const); ok && k.Value != nil {
							verbs := formatVerbs(constant.StringVal(k.Value))
							ops := sprintfOperands(in)
							for i, v := range ops {
								if taint[v] && (i >= len(verbs) || verbs[i] != "s") {
									bad++
									a.bad("NI-flow", funcKey(f)+"/verb", fmt.Sprintf("a colour string is formatted under %%%s (operand %d), not inserted with %%s", verbAt(verbs, i), i), in.Pos())
								}
							}
						}
					case pkg == "regexp" && strings.HasPrefix(name, "Match"):
						// the documented exception: filters are applied to the printed header
					case strings.HasPrefix(pkg, modPath), pkg == "io", pkg == "strings" && name == "Join", pkg == "fmt":
					case pkg == "strings" && cal.Signature.Recv() != nil && strings.HasSuffix(cal.Signature.Recv().Type().String(), "strings.Builder") && (name == "WriteString" || name == "String" || name == "Grow" || name == "Reset" && false):
						// concatenation through a builder (its length is not asked)
					default:
						for _, arg := range in.Call.Args {
							if taint[arg] {
								bad++
								a.bad("NI-flow", funcKey(f)+"/call:"+pkg+"."+name, "text containing colour strings is passed to "+pkg+"."+name, in.Pos())
							}
						}
					}
				}
			}
		}
	}
	if bad == 0 {
		a.ok("NI-flow", "internal", fmt.Sprintf("palette strings (%d tainted values) flow only into concatenation, %%s operands of constant formats, returns and writers (and the header given to the filter expressions)", nT), token.NoPos)
	}
	if nT == 0 {
		a.und("NI-flow", "internal/no-source", "no palette field load found", token.NoPos)
	}
}

func isBoolType(t types.Type) bool {
	b, ok := t.Underlying().(*types.Basic)
	return ok && b.Info()&types.IsBoolean != 0
}

func verbAt(v []string, i int) string {
	if i < len(v) {
		return v[i]
	}
	return "?"
}

// formatVerbs lists the verb consuming each operand ("*" for a width).
func formatVerbs(f string) []string {
	var out []string
	for i := 0; i < len(f); i++ {
		if f[i] != '%' {
			continue
		}
		i++
		if i < len(f) && f[i] == '%' {
			continue
		}
		for i < len(f) && strings.ContainsRune("+-# 0", rune(f[i])) {
			i++
		}
		for i < len(f) && (f[i] == '*' || (f[i] >= '0' && f[i] <= '9') || f[i] == '.') {
			if f[i] == '*' {
				out = append(out, "*")
			}
			i++
		}
		if i < len(f) {
			out = append(out, string(f[i]))
		}
	}
	return out
}

// sprintfOperands returns the variadic operands of a fmt call in order.
func sprintfOperands(call *ssa.Call) []ssa.Value {
	args := call.Call.Args
	if len(args) == 0 {
		return nil
	}
	sl, ok := args[len(args)-1].(*ssa.Slice)
	if !ok {
		return nil
	}
	al, ok := sl.X.(*ssa.Alloc)
	if !ok {
		return nil
	}
	arr, ok := al.Type().Underlying().(*types.Pointer).Elem().Underlying().(*types.Array)
	if !ok {
		return nil
	}
	out := make([]ssa.Value, arr.Len())
	for _, r := range *al.Referrers() {
		if ia, ok := r.(*ssa.IndexAddr); ok {
			idx, _ := bnConst(ia.Index)
			for _, rr := range *ia.Referrers() {
				if st, ok := rr.(*ssa.Store); ok && int(idx) < len(out) {
					v := st.Val
					if mi, ok := v.(*ssa.MakeInterface); ok {
						v = mi.X
					}
					out[idx] = v
				}
			}
		}
	}
	return out
}

func sliceHoldsTaint(v ssa.Value, taint map[ssa.Value]bool) bool {
	// elements stored into the slice's backing store
	var base ssa.Value = v
	for {
		switch x := base.(type) {
		case *ssa.Slice:
			base = x.X
			continue
		case *ssa.Phi:
			for _, e := range x.Edges {
				if sliceHoldsTaint(e, taint) {
					return true
				}
			}
			return false
		case *ssa.Call:
			if bi, ok := x.Call.Value.(*ssa.Builtin); ok && bi.Name() == "append" {
				return sliceHoldsTaint(x.Call.Args[0], taint) || sliceHoldsTaint(x.Call.Args[1], taint)
			}
		}
		break
	}
	refs := base.Referrers()
	if refs == nil {
		return false
	}
	for _, r := range *refs {
		if ia, ok := r.(*ssa.IndexAddr); ok {
			for _, rr := range *ia.Referrers() {
				if st, ok := rr.(*ssa.Store); ok && taint[st.Val] {
					return true
				}
			}
		}
	}
	return false
}

// niWidth: the measured expressions are the padded columns.
func niWidth(c *Ctx, a *flAgg) {
	cl := c.MustFunc(a.obls, "NI-width", "internal", "Palette", "callLine")
	if cl == nil {
		return
	}
	exprHome = cl.Pkg.Pkg
	x := &SPE{Fn: cl, MaxVisits: 2}
	x.Explore()
	okCols := false
	var pkgCol, srcCol string
	allPaths := true
	nFmt, noName, noArgs := 0, 0, 0
	lineName := "line"
	if len(cl.Params) > 1 {
		lineName = cl.Params[1].Name()
	}
	for _, p := range x.Paths {
		if p.Term == "return" && len(p.Results) == 1 && !p.Results[0].calleeIs("fmt", "Sprintf") {
			allPaths = false
		}
		for _, ev := range p.Events {
			if ev.Kind != EvCall || !ev.Val.calleeIs("fmt", "Sprintf") {
				continue
			}
			format, ok := constStr(ev.Val.Args[1])
			if !ok || ev.Val.Args[2].Op != OpSlice {
				continue
			}
			verbs := formatVerbs(format)
			arr := ev.Val.Args[2].Args[0].String()
			var stars []int
			for i, v := range verbs {
				if v == "*" {
					stars = append(stars, i)
				}
			}
			if len(stars) != 2 {
				continue
			}
			get := func(i int) string {
				if v := p.Cells[fmt.Sprintf("%s[%d]", arr, i)]; v != nil {
					return v.String()
				}
				return ""
			}
			w1, c1, w2, c2 := get(stars[0]), get(stars[0]+1), get(stars[1]), get(stars[1]+1)
			// what the rest of the line shows: the function name and the
			// arguments of this very frame, on every path (a shortcut that
			// prints "" for a frame "without arguments" drops the "..." of
			// a frame whose arguments were all elided)
			nFmt++
			hasName, hasArgs := false, false
			for i, v := range verbs {
				if v != "s" && v != "v" {
					continue
				}
				o := get(i)
				if os.Getenv("PPCHECK_NI_DUMP") != "" {
					fmt.Fprintf(os.Stderr, "callLine operand %d %q\n", i, o)
				}
				if strings.HasSuffix(o, lineName+".Func.Name") {
					hasName = true
				}
				if o == "&"+lineName+".Args" || strings.HasSuffix(o, ".String(&"+lineName+".Args)") {
					hasArgs = true
				}
			}
			if !hasName {
				noName++
			}
			if !hasArgs {
				noArgs++
			}
			if w1 == "pkgLen" && strings.HasSuffix(c1, ".Func.DirName") && w2 == "srcLen" && strings.Contains(c2, "formatCall(") && verbs[stars[0]+1] == "s" && verbs[stars[1]+1] == "s" && strings.Contains(format, "%-*s") {
				okCols = true
				pkgCol, srcCol = "DirName", "formatCall"
			}
		}
	}
	if okCols && !allPaths {
		a.bad("NI-width", "callLine/columns", "callLine has a path that does not build the line with the padded format (a special case that pads differently, e.g. by byte length, breaks alignment and colour independence)", cl.Pos())
		okCols = true
	} else if okCols {
		a.ok("NI-width", "callLine/columns", "the two padded columns are the directory name (width pkgLen) and pf.formatCall(line) (width srcLen), left-aligned", cl.Pos())
	} else {
		a.bad("NI-width", "callLine/columns", "callLine does not pad Func.DirName to pkgLen and pf.formatCall(line) to srcLen with %-*s", cl.Pos())
	}
	_, _ = pkgCol, srcCol
	switch {
	case nFmt == 0:
	case noName > 0:
		a.bad("NI-width", "callLine/fields", "callLine has a path on which the line does not show the frame's Func.Name", cl.Pos())
	case noArgs > 0:
		a.bad("NI-width", "callLine/fields", "callLine has a path on which the arguments shown are not the frame's Args rendered by Args.String (an all-elided argument list \"...\" has no Values and no Processed, yet is not empty)", cl.Pos())
	default:
		a.ok("NI-width", "callLine/fields", "on every path the line shows the frame's function name and its Args through Args.String", cl.Pos())
	}
	for _, name := range []string{"calcBucketsLengths", "calcGoroutinesLengths"} {
		fn := c.MustFunc(a.obls, "NI-width", "internal", "", name)
		if fn == nil {
			continue
		}
		// the measured values: len(<call of formatCall on &X.Calls[i]>) and len(X.Calls[i].Func.DirName)
		okSrc, okPkg := false, false
		other := ""
		for _, b := range blocksWithHelpers(fn) {
			for _, in := range b.Instrs {
				call, ok := in.(*ssa.Call)
				if !ok {
					continue
				}
				if bi, ok := call.Call.Value.(*ssa.Builtin); ok && (bi.Name() == "max" || bi.Name() == "min") {
					continue
				}
				if bi, ok := call.Call.Value.(*ssa.Builtin); ok && bi.Name() == "len" {
					arg := call.Call.Args[0]
					switch v := arg.(type) {
					case *ssa.Call:
						if cal := v.Call.StaticCallee(); cal != nil && cal.Name() == "formatCall" {
							okSrc = true
							// the frame measured is the one the loop is at
							if len(v.Call.Args) == 2 {
								if ia, ok := v.Call.Args[1].(*ssa.IndexAddr); ok && !isLoopCounter(ia.Index) {
									other = "the frame measured is not the frame of the current iteration (index " + ia.Index.Name() + " is not the loop counter)"
								}
							}
							continue
						}
						other = v.String()
					case *ssa.UnOp:
						if fa, ok := v.X.(*ssa.FieldAddr); ok && addrLast(fa) == "DirName" {
							okPkg = true
							continue
						}
						if _, isSlice := arg.Type().Underlying().(*types.Slice); isSlice {
							continue // loop bound
						}
						other = v.String()
					default:
						if _, isSlice := arg.Type().Underlying().(*types.Slice); !isSlice {
							other = arg.String()
						}
					}
				} else if cal := call.Call.StaticCallee(); cal != nil && cal.Name() != "formatCall" && !defaultInline(cal) {
					other = "call of " + cal.Name()
				}
			}
		}
		// results are the two maxima
		if okSrc && okPkg && other == "" {
			a.ok("NI-width", name, "measures len(pf.formatCall(call)) and len(call.Func.DirName) over all calls: exactly what callLine pads", fn.Pos())
		} else {
			a.bad("NI-width", name, fmt.Sprintf("the column widths are not the lengths of the printed columns (formatCall measured=%v, DirName measured=%v, other=%s): columns would be misaligned", okSrc, okPkg, other), fn.Pos())
		}
	}
}

// niWriters: per element: filter/match on the printed header, then header and stack.
// niDispatch (NI-all/processInner): what a snapshot is rendered with: a race
// report goroutine by goroutine, anything else aggregated into buckets with
// the similarity asked for; to the console unless an HTML file was asked for.
// Decided on every path of processInner from its literals IsRace / html == "".
func niDispatch(c *Ctx, a *flAgg) {
	fn := c.L.Func("internal", "", "processInner")
	if fn == nil {
		return
	}
	exprHome = fn.Pkg.Pkg
	x := &SPE{Fn: fn, MaxVisits: 2}
	x.Explore()
	n, bad := 0, ""
	for _, p := range x.Paths {
		if p.Term != "return" || len(p.Results) != 1 {
			continue
		}
		race, haveRace, console, haveHTML := false, false, false, false
		for _, lt := range p.Lits {
			at := lt.Atom
			if at.Op == OpCall && at.Fn != nil && at.Fn.Name() == "IsRace" {
				race, haveRace = lt.Pol, true
			}
			if at.Op == OpBin && at.Tok == token.EQL && len(at.Args) == 2 && at.Args[0].Op == OpParam && at.Args[0].Name == "html" {
				if k, ok := constStr(at.Args[1]); ok && k == "" {
					console, haveHTML = lt.Pol, true
				}
			}
		}
		if !haveRace || !haveHTML {
			bad = "a path renders without having decided race/console (" + litsString(p) + ")"
			continue
		}
		n++
		r := p.Results[0]
		want := ""
		switch {
		case console && race:
			want = "writeGoroutinesToConsole"
		case console && !race:
			want = "writeBucketsToConsole"
		default:
			want = "toHTML"
		}
		// the wanted writer is called, once, and no other one (its result may be
		// returned or, for a writer without result, nil)
		calls := map[string]int{}
		var wcall *Expr
		for _, ev := range p.Events {
			if ev.Kind == EvCall && ev.Val.Op == OpCall && ev.Val.Fn != nil {
				switch nm := ev.Val.Fn.Name(); nm {
				case "writeGoroutinesToConsole", "writeBucketsToConsole", "toHTML":
					calls[nm]++
					if nm == want {
						wcall = ev.Val
					}
				}
			}
		}
		if r.Op == OpCall && r.Fn != nil && r.Fn.Name() == want && wcall == nil {
			wcall = r
			calls[want]++
		}
		if wcall == nil || calls[want] != 1 || len(calls) != 1 {
			bad = fmt.Sprintf("with race=%v and console=%v the snapshot is not rendered by exactly one call of %s (calls: %v, result %s)", race, console, want, calls, r.String())
			continue
		}
		// buckets are the aggregation of this snapshot; goroutines the snapshot itself
		rs := wcall.String()
		if !race && !strings.Contains(rs, ".Aggregate(") {
			bad = "buckets are rendered from something else than the aggregation of the snapshot: " + rs
		}
		if race && strings.Contains(rs, ".Aggregate(") {
			bad = "a race report is aggregated: " + rs
		}
	}
	switch {
	case bad != "":
		a.bad("NI-all", "processInner/dispatch", bad+": a snapshot is rendered by the wrong writer, or not at all", fn.Pos())
	case n == 0:
		a.und("NI-all", "processInner/dispatch", "no rendering path found", fn.Pos())
	default:
		a.ok("NI-all", "processInner/dispatch", fmt.Sprintf("a race report is rendered goroutine by goroutine, anything else as buckets, to the console iff no HTML file was asked for (%d paths)", n), fn.Pos())
	}
}

func niWriters(c *Ctx, a *flAgg) {
	niDispatch(c, a)
	for _, w := range []struct{ name, header string }{{"writeBucketsToConsole", "BucketHeader"}, {"writeGoroutinesToConsole", "GoroutineHeader"}} {
		fn := c.MustFunc(a.obls, "NI-split", "internal", "", w.name)
		if fn == nil {
			continue
		}
		exprHome = fn.Pkg.Pkg
		loops := outermostLoops(naturalLoops(fn))
		if len(loops) != 1 {
			a.und("NI-split", w.name+"/loop", "element loop not found", fn.Pos())
			continue
		}
		l := loops[0]
		seg := &SPE{Fn: fn, Start: l.Header, MaxVisits: 2}
		seg.Stop = func(from, to *ssa.BasicBlock) bool { return (to == l.Header && l.Body[from]) || (l.Body[from] && !l.Body[to]) }
		// helper predicates over the header (e.g. a shared "skip" function) are looked into
		seg.Inline = func(f *ssa.Function) bool {
			return f.Pkg == fn.Pkg && f.Signature.Results().Len() == 1 && isBoolType(f.Signature.Results().At(0).Type())
		}
		seg.Explore()
		var filterN, matchN, outN string
		for _, p := range fn.Params {
			switch p.Name() {
			case "filter":
				filterN = p.Name()
			case "match":
				matchN = p.Name()
			case "out":
				outN = p.Name()
			}
		}
		// every element gets its turn: the loop is left early only with the
		// error of a failed write
		early := leftEarly(seg.Paths, l, func(p *Path) bool {
			return len(p.Results) == 1 && !p.Results[0].isNilConst() && (strings.Contains(p.Results[0].String(), "WriteString(") || strings.Contains(p.Results[0].String(), ".Write(") || strings.Contains(p.Results[0].String(), "Fprint"))
		})
		if len(early) > 0 {
			a.bad("NI-all", w.name+"/all-elements", "the loop over the elements is left before the last one for a reason other than a failed write ("+litsString(early[0])+"): the blocks behind it are not shown", pathPos(early[0], fn))
		} else {
			a.ok("NI-all", w.name+"/all-elements", "the loop ends only after the last element or with the error of a failed write", fn.Pos())
		}
		for _, p := range seg.Paths {
			if !(p.Term == "stop" && p.End == l.Header) {
				continue
			}
			pos := pathPos(p, fn)
			// the header of this element
			var header *Expr
			for _, ev := range p.Events {
				if ev.Kind == EvCall && ev.Val.Op == OpCall && ev.Val.Fn != nil && ev.Val.Fn.Name() == w.header {
					header = ev.Val
				}
			}
			if header == nil {
				a.bad("NI-all", w.name+"/header", "an element is processed without computing its header", pos)
				continue
			}
			hs := header.String()
			var writes []*Expr
			for _, ev := range p.Events {
				if ev.Kind == EvCall && ev.Val.calleeIs("io", "WriteString") {
					writes = append(writes, ev.Val)
				}
			}
			fNil, haveF := p.lit("(" + filterN + " == nil)")
			mNil, haveM := p.lit("(" + matchN + " == nil)")
			fHit, mHit := false, false
			haveFH, haveMH := false, false
			okSubject := true
			for _, lt := range p.Lits {
				at := lt.Atom
				if at.calleeIs("regexp", "(*Regexp).MatchString") && len(at.Args) == 3 {
					if at.Args[2].String() != hs {
						okSubject = false
					}
					switch at.Args[1].String() {
					case filterN:
						fHit, haveFH = lt.Pol, true
					case matchN:
						mHit, haveMH = lt.Pol, true
					}
				}
			}
			if !okSubject {
				a.bad("NI-split", w.name+"/subject", "a filter or match expression is not applied to the header string that is printed: 'filter out' and 'match only' would no longer split the blocks in two", pos)
				continue
			}
			skip, decided := false, false
			switch {
			case !haveF:
			case !fNil && !haveFH:
			case !fNil && fHit:
				skip, decided = true, true
			case !haveM:
			case !mNil && !haveMH:
			case !mNil && !mHit:
				skip, decided = true, true
			default:
				decided = true
			}
			if !decided {
				a.bad("NI-split", w.name+"/tests", "an element is written or skipped without testing both the filter and the match expression on its header ("+litsString(p)+")", pos)
				continue
			}
			if skip {
				if len(writes) == 0 {
					a.ok("NI-split", w.name+"/skip", "a block is skipped iff the filter matches its header or the match expression does not", pos)
				} else {
					a.bad("NI-split", w.name+"/skip", "a filtered block is (partly) written", pos)
				}
				continue
			}
			okW := len(writes) == 2 && writes[0].Args[1].String() == outN && writes[0].Args[2].String() == hs &&
				writes[1].Args[2].Op == OpCall && writes[1].Args[2].Fn != nil && writes[1].Args[2].Fn.Name() == "StackLines"
			if okW {
				// same element in header and stack lines
				hel := header.Args[2].String()
				sl := writes[1].Args[2]
				if !strings.Contains(sl.Args[2].String(), strings.TrimPrefix(hel, "&")) && !strings.Contains(sl.Args[2].String(), hel) {
					okW = false
				}
			}
			if okW {
				a.ok("NI-all", w.name+"/write", "every admitted block is written exactly once: its header, then its stack", pos)
			} else {
				a.bad("NI-all", w.name+"/write", fmt.Sprintf("an admitted block is not written as header followed by its stack lines (%d writes)", len(writes)), pos)
			}
		}
	}
}

// niCreator (NI-creator): the creator shown in a console header is the first
// frame of the creation stack — the frame that ran the go statement (a race
// report lists the whole creation stack below it) — the same element the HTML
// template shows (`index .CreatedBy.Calls 0`): the two renderers are siblings
// and must agree. Decided on every function of package internal that indexes
// a CreatedBy.Calls list.
func niCreator(c *Ctx, a *flAgg) {
	// what the HTML sibling uses
	htmlIdx := -1
	if tpl, ok := indexHTMLConst(c); ok {
		const pat = "index $e.CreatedBy.Calls "
		for rest := tpl; ; {
			i := strings.Index(rest, pat)
			if i < 0 {
				break
			}
			rest = rest[i+len(pat):]
			n := 0
			j := 0
			for j < len(rest) && rest[j] >= '0' && rest[j] <= '9' {
				n = n*10 + int(rest[j]-'0')
				j++
			}
			if j > 0 && (htmlIdx == -1 || htmlIdx == n) {
				htmlIdx = n
			} else {
				htmlIdx = -2
			}
		}
	}
	n := 0
	for _, f := range c.L.SrcFuncs("internal") {
		for _, b := range f.Blocks {
			for _, in := range b.Instrs {
				ia, ok := in.(*ssa.IndexAddr)
				if !ok {
					continue
				}
				ld, ok := ia.X.(*ssa.UnOp)
				if !ok {
					continue
				}
				fa, ok := ld.X.(*ssa.FieldAddr)
				if !ok || addrLast(fa) != "Calls" {
					continue
				}
				outer, ok := fa.X.(*ssa.FieldAddr)
				if !ok || addrLast(outer) != "CreatedBy" {
					continue
				}
				n++
				key := funcKey(f) + "/creator-index"
				k, isC := bnConst(ia.Index)
				switch {
				case !isC:
					a.bad("NI-creator", key, "the creator shown in the header is not a fixed element of the creation stack: the goroutine's creator is its first frame (index 0), the element the HTML view shows", ia.Pos())
				case k != 0:
					a.bad("NI-creator", key, fmt.Sprintf("the header shows element %d of the creation stack; the creator is element 0", k), ia.Pos())
				case htmlIdx >= 0 && int64(htmlIdx) != k:
					a.bad("NI-creator", key, fmt.Sprintf("console shows element %d, the HTML template element %d", k, htmlIdx), ia.Pos())
				default:
					a.ok("NI-creator", key, "the header names the first frame of the creation stack, as the HTML template does", ia.Pos())
				}
			}
		}
	}
	c.stat("NI", "creator_index_sites", n)
	// the creator is named whenever there is one: createdByString returns ""
	// only for an empty creation stack
	if fn := c.L.Func("internal", "pathFormat", "createdByString"); fn != nil {
		exprHome = fn.Pkg.Pkg
		x := &SPE{Fn: fn, MaxVisits: 2}
		x.Explore()
		nEmpty, bad := 0, ""
		for _, p := range x.Paths {
			if p.Term != "return" || len(p.Results) != 1 {
				continue
			}
			if k, isC := constStr(p.Results[0]); !isC || k != "" {
				continue
			}
			nEmpty++
			none := false
			for _, lt := range p.Lits {
				s := lt.Atom.String()
				if lt.Pol && strings.HasPrefix(s, "(len(") && strings.HasSuffix(s, ".CreatedBy.Calls) == 0)") {
					none = true
				}
			}
			if !none {
				bad = litsString(p)
			}
		}
		switch {
		case bad != "":
			a.bad("NI-creator", "createdByString/iff-known", "no creator is named on a path on which the creation stack is not empty ("+bad+"): the header loses its [Created by ...] although the dump named the creator", fn.Pos())
		case nEmpty > 0:
			a.ok("NI-creator", "createdByString/iff-known", "the creator is left out only when the creation stack is empty", fn.Pos())
		}
	}
}


// niFormat (NI-format): which path a frame line shows, per path format:
// full = the local path if known, else the remote one; rel = the relative
// path if known, else as full; base = the file name. Decided on the paths of
// formatCall with the format fixed to each constant and every combination of
// known/unknown paths.
func niFormat(c *Ctx, a *flAgg) {
	fn := c.MustFunc(a.obls, "NI-format", "internal", "pathFormat", "formatCall")
	if fn == nil || len(fn.Params) != 2 {
		return
	}
	exprHome = fn.Pkg.Pkg
	pf, call := fn.Params[0].Name(), fn.Params[1].Name()
	consts := map[string]int64{}
	for _, n := range []string{"fullPath", "relPath", "basePath"} {
		if k, ok := fn.Pkg.Pkg.Scope().Lookup(n).(*types.Const); ok {
			v, _ := constant.Int64Val(k.Val())
			consts[n] = v
		} else {
			a.und("NI-format", "formatCall/consts", "path format constant "+n+" not found", fn.Pos())
			return
		}
	}
	fields := []string{"RelSrcPath", "LocalSrcPath", "RemoteSrcPath", "SrcName"}
	want := func(format string, relKnown, localKnown bool) string {
		switch format {
		case "basePath":
			return "SrcName"
		case "relPath":
			if relKnown {
				return "RelSrcPath"
			}
		}
		if localKnown {
			return "LocalSrcPath"
		}
		return "RemoteSrcPath"
	}
	for _, format := range []string{"fullPath", "relPath", "basePath"} {
		val := consts[format]
		x := &SPE{Fn: fn, MaxVisits: 2}
		x.Decide = func(atom *Expr, _ *pathState) (bool, bool) {
			if atom.Op != OpBin || len(atom.Args) != 2 {
				return false, false
			}
			side := func(e *Expr) (int64, bool) {
				if e.Op == OpParam && e.Name == pf {
					return val, true
				}
				if e.Op == OpConvert && len(e.Args) == 1 && e.Args[0].Op == OpParam && e.Args[0].Name == pf {
					return val, true
				}
				return e.intConst()
			}
			l, ok1 := side(atom.Args[0])
			r, ok2 := side(atom.Args[1])
			if !ok1 || !ok2 || !(atom.Args[0].mentions(func(y *Expr) bool { return y.Op == OpParam && y.Name == pf }) || atom.Args[1].mentions(func(y *Expr) bool { return y.Op == OpParam && y.Name == pf })) {
				return false, false
			}
			switch atom.Tok {
			case token.EQL:
				return l == r, true
			case token.LSS:
				return l < r, true
			}
			return false, false
		}
		x.Explore()
		okAll, n := true, 0
		why := ""
		for _, p := range x.Paths {
			if p.Term != "return" || len(p.Results) != 1 {
				okAll, why = false, "a path does not return"
				continue
			}
			n++
			known := map[string]bool{"RelSrcPath": true, "LocalSrcPath": true}
			decided := map[string]bool{}
			for _, lt := range p.Lits {
				as := lt.Atom.String()
				for _, f := range []string{"RelSrcPath", "LocalSrcPath"} {
					if as == "("+call+"."+f+" == \"\")" {
						known[f] = !lt.Pol
						decided[f] = true
					}
				}
			}
			rs := p.Results[0].String()
			if r := p.Results[0]; r.calleeIs("fmt", "Sprintf") && len(r.Args) > 2 && r.Args[2].Op == OpSlice {
				// the format has one verb per operand: text, colon, number
				if f, isC := constStr(r.Args[1]); isC && !reCallFormat.MatchString(f) {
					okAll, why = false, fmt.Sprintf("the format %q does not print a path, a colon and a line number", f)
					continue
				}
				// the operands live in the variadic array
				arr := r.Args[2].Args[0].String()
				for i := 0; i < 8; i++ {
					if v := p.Cells[fmt.Sprintf("%s[%d]", arr, i)]; v != nil {
						rs += " " + v.String()
					}
				}
			}
			shown := ""
			cnt := 0
			for _, f := range fields {
				if strings.Contains(rs, call+"."+f) {
					shown = f
					cnt++
				}
			}
			if cnt != 1 || !strings.Contains(rs, call+".Line") {
				okAll, why = false, "a frame line is not made of exactly one path and the line number: "+rs
				continue
			}
			// "<path>:<line>": the path comes first
			if strings.Index(rs, call+".Line") < strings.Index(rs, call+"."+shown) {
				okAll, why = false, "the line number is put where the path belongs (and the path under the number verb): "+rs
				continue
			}
			// every completion of the undecided facts must agree with the reference
			for _, rk := range []bool{true, false} {
				if decided["RelSrcPath"] && rk != known["RelSrcPath"] {
					continue
				}
				for _, lk := range []bool{true, false} {
					if decided["LocalSrcPath"] && lk != known["LocalSrcPath"] {
						continue
					}
					if w := want(format, rk, lk); w != shown {
						okAll = false
						why = fmt.Sprintf("with the relative path %s and the local path %s the line shows %s, expected %s", map[bool]string{true: "known", false: "unknown"}[rk], map[bool]string{true: "known", false: "unknown"}[lk], shown, w)
					}
				}
			}
		}
		if okAll && n > 0 {
			a.ok("NI-format", "formatCall/"+format, "the path shown is the one documented for this format, with the fall-backs for unknown paths", fn.Pos())
		} else {
			a.bad("NI-format", "formatCall/"+format, "format "+format+": "+why+": frames that cannot be made relative/local lose their directory (or show a path of another kind)", fn.Pos())
		}
	}
}

// niFlags (NI-flags): the expressions given with -f and -m are the ones the
// writers apply. Decided in two steps. (1) Backwards from the writers: the
// parameter each writer uses as "filter" / "match" (whose behaviour NI-split
// decides) is followed up the call chain — at every call site in package
// internal it must be fed by a parameter of the caller, which inherits the
// role — until Main is reached. (2) In Main, on every path that reaches such
// a call, the argument in the position with role f (m) is the compiled value
// of the -f (-m) flag whenever that flag is non-empty, and nil when it is
// empty.
func niFlags(c *Ctx, a *flAgg) {
	const rule = "NI-flags"
	type slot struct {
		fn  *ssa.Function
		idx int
	}
	role := map[slot]string{}
	isRegexp := func(t types.Type) bool { return strings.HasSuffix(t.String(), "regexp.Regexp") }
	var work []*ssa.Function
	for _, w := range []string{"writeBucketsToConsole", "writeGoroutinesToConsole"} {
		fn := c.MustFunc(a.obls, rule, "internal", "", w)
		if fn == nil {
			continue
		}
		n := 0
		for i, p := range fn.Params {
			if !isRegexp(p.Type()) {
				continue
			}
			switch p.Name() {
			case "filter":
				role[slot{fn, i}] = "f"
				n++
			case "match":
				role[slot{fn, i}] = "m"
				n++
			}
		}
		if n != 2 {
			a.und(rule, w+"/params", "the writer does not have a filter and a match parameter", fn.Pos())
			continue
		}
		work = append(work, fn)
	}
	mainFn := c.MustFunc(a.obls, rule, "internal", "", "Main")
	if mainFn == nil || len(work) == 0 {
		return
	}
	pkg := mainFn.Pkg
	// callers within the package
	var fns []*ssa.Function
	for _, m := range pkg.Members {
		if f, ok := m.(*ssa.Function); ok {
			fns = append(fns, f)
			fns = append(fns, f.AnonFuncs...)
		}
	}
	sort.Slice(fns, func(i, j int) bool { return fns[i].Pos() < fns[j].Pos() })
	type site struct {
		caller *ssa.Function
		call   ssa.CallInstruction
		callee *ssa.Function
	}
	var mainSites []site
	seen := map[*ssa.Function]bool{}
	bad := 0
	for len(work) > 0 {
		h := work[0]
		work = work[1:]
		if seen[h] {
			continue
		}
		seen[h] = true
		for _, g := range fns {
			for _, b := range g.Blocks {
				for _, in := range b.Instrs {
					ci, ok := in.(ssa.CallInstruction)
					if !ok || ci.Common().StaticCallee() != h {
						continue
					}
					if g == mainFn || g.Parent() == mainFn {
						mainSites = append(mainSites, site{g, ci, h})
						continue
					}
					for i := range h.Params {
						r := role[slot{h, i}]
						if r == "" || i >= len(ci.Common().Args) {
							continue
						}
						arg := ci.Common().Args[i]
						p, isP := arg.(*ssa.Parameter)
						if !isP {
							bad++
							a.bad(rule, fnName(g)+"->"+fnName(h)+"/"+r, fmt.Sprintf("the -%s expression handed to %s is not the one its caller received (%s)", r, fnName(h), arg.String()), in.Pos())
							continue
						}
						pi := -1
						for k, q := range g.Params {
							if q == p {
								pi = k
							}
						}
						if old := role[slot{g, pi}]; old != "" && old != r {
							bad++
							a.bad(rule, fnName(g)+"->"+fnName(h)+"/"+r, fmt.Sprintf("parameter %s of %s is used both as the -%s and the -%s expression", p.Name(), fnName(g), old, r), in.Pos())
							continue
						}
						role[slot{g, pi}] = r
						a.ok(rule, fnName(g)+"->"+fnName(h)+"/"+r, fmt.Sprintf("the -%s expression is passed on unchanged", r), in.Pos())
					}
					if !seen[g] {
						work = append(work, g)
					}
				}
			}
		}
	}
	if len(mainSites) == 0 {
		a.und(rule, "Main/call", "no call from Main reaches the writers through parameters", mainFn.Pos())
		return
	}
	// (2) Main
	exprHome = pkg.Pkg
	x := &SPE{Fn: mainFn, MaxVisits: 1}
	x.Explore()
	if x.Overflow {
		a.und(rule, "Main/paths", "too many paths through Main", mainFn.Pos())
		return
	}
	flagOf := func(e *Expr) string { // e: load of the pointer returned by flag.String(name, ...)
		if e == nil || !(e.Op == OpInit || (e.Op == OpUn && e.Tok == token.MUL)) || len(e.Args) == 0 {
			return ""
		}
		fc := e.Args[0]
		if fc.Op == OpCall && fc.calleeIs("flag", "String") && len(fc.Args) >= 2 {
			if s, ok := constStr(fc.Args[1]); ok {
				return s
			}
		}
		return ""
	}
	type verdict struct {
		ok   bool
		why  string
		pos  token.Pos
		seen int
	}
	res := map[string]*verdict{}
	for _, p := range x.Paths {
		empty := map[string]bool{}
		tested := map[string]bool{}
		for _, lt := range p.Lits {
			at := lt.Atom
			if at.Op == OpBin && at.Tok == token.EQL {
				for i := 0; i < 2; i++ {
					if s, ok := constStr(at.Args[1-i]); ok && s == "" {
						if f := flagOf(at.Args[i]); f != "" {
							tested[f] = true
							empty[f] = lt.Pol
						}
					}
				}
			}
		}
		for _, ev := range p.Events {
			if ev.Kind != EvCall || ev.Val.Op != OpCall || ev.Val.Fn == nil {
				continue
			}
			for _, ms := range mainSites {
				if ev.Val.Fn != ms.callee {
					continue
				}
				for i := range ms.callee.Params {
					r := role[slot{ms.callee, i}]
					if r == "" || i+1 >= len(ev.Val.Args) {
						continue
					}
					key := "Main->" + fnName(ms.callee) + "/" + r
					v := res[key]
					if v == nil {
						v = &verdict{ok: true, pos: ev.Pos}
						res[key] = v
					}
					v.seen++
					arg := ev.Val.Args[i+1]
					fail := func(why string) {
						if v.ok {
							v.ok, v.why, v.pos = false, why, ev.Pos
						}
					}
					switch {
					case !tested[r]:
						fail(fmt.Sprintf("a path reaches the call without looking at the -%s flag (%s)", r, litsString(p)))
					case empty[r]:
						if !arg.isNilConst() {
							fail(fmt.Sprintf("-%s was not given but the expression passed is %s", r, arg.String()))
						}
					default:
						okArg := false
						e := arg
						if e.Op == OpExtract && e.ID == 0 && len(e.Args) == 1 {
							e = e.Args[0]
						}
						if e.Op == OpCall && (e.calleeIs("regexp", "Compile") || e.calleeIs("regexp", "MustCompile") || e.calleeIs("regexp", "CompilePOSIX")) && len(e.Args) == 2 && flagOf(e.Args[1]) == r {
							okArg = true
						}
						if !okArg {
							fail(fmt.Sprintf("-%s was given but the expression passed in its place is %s, not the compiled flag value (%s)", r, arg.String(), litsString(p)))
						}
					}
				}
			}
		}
	}
	// -rel-path shows paths relative to their root, which only path guessing
	// computes: the flag implies -rebase on every path that reaches process
	{
		boolFlag := func(e *Expr) string {
			if e == nil || !(e.Op == OpInit || (e.Op == OpUn && e.Tok == token.MUL)) || len(e.Args) == 0 {
				return ""
			}
			if fc := e.Args[0]; fc.Op == OpCall && fc.calleeIs("flag", "Bool") && len(fc.Args) >= 2 {
				if s, ok := constStr(fc.Args[1]); ok {
					return s
				}
			}
			return ""
		}
		nRel, badRel := 0, ""
		for _, p := range x.Paths {
			rel := false
			for _, lt := range p.Lits {
				if lt.Pol && boolFlag(lt.Atom) == "rel-path" {
					rel = true
				}
			}
			if !rel {
				continue
			}
			for _, ev := range p.Events {
				if ev.Kind != EvCall || ev.Val.Op != OpCall || ev.Val.Fn == nil || ev.Val.Fn.Name() != "process" {
					continue
				}
				for i, prm := range ev.Val.Fn.Params {
					if prm.Name() != "rebase" || i+1 >= len(ev.Val.Args) {
						continue
					}
					nRel++
					if v, isC := ev.Val.Args[i+1].boolConst(); !isC || !v {
						badRel = ev.Val.Args[i+1].String()
					}
				}
			}
		}
		switch {
		case badRel != "":
			a.bad(rule, "Main/rel-path-implies-rebase", "with -rel-path given, process is started with rebase = "+badRel+" instead of true: with -rebase=false no relative path is ever computed and the file column shows the full remote paths", mainFn.Pos())
		case nRel > 0:
			a.ok(rule, "Main/rel-path-implies-rebase", "on every path with -rel-path the paths are rebased", mainFn.Pos())
		}
	}
	if len(res) == 0 {
		a.und(rule, "Main/call", "no explored path of Main reaches the call that starts processing", mainFn.Pos())
		return
	}
	keys := make([]string, 0, len(res))
	for k := range res {
		keys = append(keys, k)
	}
	sort.Strings(keys)
	for _, k := range keys {
		if v := res[k]; v.ok {
			a.ok(rule, k, fmt.Sprintf("on all %d paths the compiled flag value is passed when the flag is given, nil otherwise", v.seen), v.pos)
		} else {
			a.bad(rule, k, v.why+": the output would show blocks the given expressions do not admit, or hide admitted ones", v.pos)
		}
	}
	_ = bad
}

// niWidthMax (NI-width/<fn>/maximum, /result-order) and niWidthWiring
// (NI-width/wiring): the two widths are running maxima over all calls, are
// returned in the order (source column, package column), and reach callLine
// in those roles: backwards from callLine's parameters that are the width
// operands of the package and of the source column, every call site passes
// the caller's parameter of the same role, and the writers pass result 0 / 1
// of their calc*Lengths call.
func niWidthMax(c *Ctx, a *flAgg) {
	for _, name := range []string{"calcBucketsLengths", "calcGoroutinesLengths"} {
		fn := c.L.Func("internal", "", name)
		if fn == nil {
			continue
		}
		exprHome = fn.Pkg.Pkg
		// the loop over the calls may have been moved into a helper that takes
		// the running maxima and returns them: the helper is analysed, and the
		// caller must thread (source width, package width) through it in place
		if h, ok := niWidthHelper(fn); ok {
			if !h.threaded {
				a.bad("NI-width", name+"/maximum", "the running maxima are not threaded through "+h.fn.Name()+" in the same positions they come back in", fn.Pos())
				a.bad("NI-width", name+"/result-order", "see maximum", fn.Pos())
				continue
			}
			fn = h.fn
		}
		// the innermost loop (over the calls)
		var inner *loopInfo
		for _, l := range naturalLoops(fn) {
			if inner == nil || len(l.Body) < len(inner.Body) {
				inner = l
			}
		}
		if inner == nil {
			a.und("NI-width", name+"/maximum", "no loop over the calls found", fn.Pos())
			continue
		}
		seg := &SPE{Fn: fn, Start: inner.Header, MaxVisits: 2}
		seg.Stop = func(from, to *ssa.BasicBlock) bool {
			return (to == inner.Header && inner.Body[from]) || (inner.Body[from] && !inner.Body[to])
		}
		seg.Explore()
		okMax, n := true, 0
		why := ""
		colOf := map[string]string{} // phi name -> column it is the maximum of
		for _, p := range seg.Paths {
			if !(p.Term == "stop" && p.End == inner.Header) {
				continue
			}
			n++
			for phiName, nv := range p.StopPhis {
				old := "?phi:" + phiName
				if nv == nil || nv.Type == nil || !isIntType(nv.Type) {
					continue
				}
				if strings.HasPrefix(nv.String(), "(?phi:") || nv.String() == old && false {
					continue
				}
				// the loop index
				if strings.Contains(nv.String(), old+" + 1") {
					continue
				}
				if nv.String() == old {
					// unchanged: every measured length of the column must have been found not larger
					continue
				}
				// changed: must be a measured length l with (old < l) on the path
				col := ""
				switch {
				case nv.Op == OpBuiltin && nv.Name == "len" && strings.Contains(nv.String(), "formatCall("):
					col = "src"
				case nv.Op == OpBuiltin && nv.Name == "len" && strings.HasSuffix(nv.String(), ".Func.DirName)"):
					col = "pkg"
				default:
					okMax, why = false, phiName+" is set to "+nv.String()
					continue
				}
				if prev, ok := colOf[phiName]; ok && prev != col {
					okMax, why = false, phiName+" is fed by both columns"
				}
				colOf[phiName] = col
				gt, ok1 := p.lit("(" + old + " < " + nv.String() + ")")
				lt2, ok2 := p.lit("(" + nv.String() + " < " + old + ")") // l >= old: replacing by an equal value changes nothing
				if !((ok1 && gt) || (ok2 && !lt2)) {
					okMax, why = false, phiName+" is replaced by a measured length that was not found larger ("+litsString(p)+")"
				}
			}
			// the running maxima kept in the fields of a local struct (w.src,
			// w.pkg) instead of two locals: the stores take the place of the phis
			isMeasured := func(r *Expr) string {
				if r != nil && r.Op == OpBuiltin && r.Name == "len" {
					if strings.Contains(r.String(), "formatCall(") {
						return "src"
					}
					if strings.HasSuffix(r.String(), ".Func.DirName)") {
						return "pkg"
					}
				}
				return ""
			}
			for _, ev := range p.Events {
				if ev.Kind != EvStore || ev.Val == nil || ev.Val.Type == nil || !isIntType(ev.Val.Type) {
					continue
				}
				cell, _ := stripAddr(ev.Addr.String())
				if !reFieldCell.MatchString(cell) {
					continue
				}
				col := isMeasured(ev.Val)
				if col == "" {
					okMax, why = false, cell+" is set to "+ev.Val.String()
					continue
				}
				if prev, ok := colOf[cell]; ok && prev != col {
					okMax, why = false, cell+" is fed by both columns"
				}
				colOf[cell] = col
				gt, ok1 := p.lit("(" + cell + " < " + ev.Val.String() + ")")
				lt2, ok2 := p.lit("(" + ev.Val.String() + " < " + cell + ")")
				if !((ok1 && gt) || (ok2 && !lt2)) {
					okMax, why = false, cell+" is replaced by a measured length that was not found larger ("+litsString(p)+")"
				}
			}
			for _, lt := range p.Lits {
				at := lt.Atom
				if !lt.Pol || at.Op != OpBin || at.Tok != token.LSS || !reFieldCell.MatchString(at.Args[0].String()) || isMeasured(at.Args[1]) == "" {
					continue
				}
				if nv := p.Cells["&"+at.Args[0].String()]; nv == nil || nv.String() != at.Args[1].String() {
					okMax, why = false, "a length found larger than "+at.Args[0].String()+" does not replace it"
				}
			}
			// a larger measured length must replace the maximum
			for _, lt := range p.Lits {
				at := lt.Atom
				if !lt.Pol || at.Op != OpBin || at.Tok != token.LSS || !strings.HasPrefix(at.Args[0].String(), "?phi:") {
					continue
				}
				r := at.Args[1]
				if r.Op == OpBuiltin && r.Name == "len" && (strings.Contains(r.String(), "formatCall(") || strings.HasSuffix(r.String(), ".Func.DirName)")) {
					phiName := strings.TrimPrefix(at.Args[0].String(), "?phi:")
					if nv := p.StopPhis[phiName]; nv == nil || nv.String() != r.String() {
						okMax, why = false, "a length found larger than "+phiName+" does not replace it"
					}
				}
			}
		}
		src, pkg := "", ""
		for k, v := range colOf {
			if v == "src" {
				src = k
			} else {
				pkg = k
			}
		}
		if n == 0 || src == "" || pkg == "" {
			okMax = false
			if why == "" {
				why = "the running maxima of the two columns were not both found"
			}
		}
		if okMax {
			a.ok("NI-width", name+"/maximum", "both widths are running maxima: a measured length replaces the width iff it is larger", fn.Pos())
		} else {
			a.bad("NI-width", name+"/maximum", "the width is not the maximum of the measured lengths ("+why+"): columns narrower than their content are not aligned", fn.Pos())
		}
		// result order: (source width, package width)
		okOrder := false
		for _, b := range fn.Blocks {
			for _, in := range b.Instrs {
				if ret, ok := in.(*ssa.Return); ok && len(ret.Results) == 2 {
					n0, n1 := "", ""
					if ph, ok := ret.Results[0].(*ssa.Phi); ok {
						n0 = ph.Comment
					}
					if ph, ok := ret.Results[1].(*ssa.Phi); ok {
						n1 = ph.Comment
					}
					// fields of a local struct
					fieldName := func(v ssa.Value) string {
						if ld, ok := v.(*ssa.UnOp); ok && ld.Op == token.MUL {
							if fa, ok := ld.X.(*ssa.FieldAddr); ok {
								if al, ok := fa.X.(*ssa.Alloc); ok {
									return al.Comment + "." + addrLast(fa)
								}
							}
						}
						return ""
					}
					if n0 == "" && n1 == "" {
						n0, n1 = fieldName(ret.Results[0]), fieldName(ret.Results[1])
					}
					okOrder = n0 == src && n1 == pkg && src != ""
				}
			}
		}
		if okOrder {
			a.ok("NI-width", name+"/result-order", "returns (source width, package width)", fn.Pos())
		} else {
			a.bad("NI-width", name+"/result-order", "the two widths are not returned as (source width, package width)", fn.Pos())
		}
	}
	// wiring from callLine back to the writers
	cl := c.L.Func("internal", "Palette", "callLine")
	if cl == nil {
		return
	}
	type slot struct {
		fn  *ssa.Function
		idx int
	}
	role := map[slot]string{}
	for i, p := range cl.Params {
		switch p.Name() {
		case "srcLen":
			role[slot{cl, i}] = "src"
		case "pkgLen":
			role[slot{cl, i}] = "pkg"
		}
	}
	if len(role) != 2 {
		a.und("NI-width", "wiring", "callLine has no srcLen/pkgLen parameters", cl.Pos())
		return
	}
	fns := c.L.SrcFuncs("internal")
	work := []*ssa.Function{cl}
	seen := map[*ssa.Function]bool{}
	tops := 0
	for len(work) > 0 {
		h := work[0]
		work = work[1:]
		if seen[h] {
			continue
		}
		seen[h] = true
		for _, g := range fns {
			for _, b := range g.Blocks {
				for _, in := range b.Instrs {
					ci, ok := in.(ssa.CallInstruction)
					if !ok || ci.Common().StaticCallee() != h {
						continue
					}
					for i := range h.Params {
						r := role[slot{h, i}]
						if r == "" || i >= len(ci.Common().Args) {
							continue
						}
						key := "wiring:" + fnName(g) + "->" + fnName(h) + "/" + r
						switch arg := ci.Common().Args[i].(type) {
						case *ssa.Parameter:
							pi := -1
							for k, q := range g.Params {
								if q == arg {
									pi = k
								}
							}
							if old := role[slot{g, pi}]; old != "" && old != r {
								a.bad("NI-width", key, "one parameter is passed on as both widths", in.Pos())
								continue
							}
							role[slot{g, pi}] = r
							a.ok("NI-width", key, "passed on unchanged", in.Pos())
							if !seen[g] {
								work = append(work, g)
							}
						case *ssa.Extract:
							want := map[string]int{"src": 0, "pkg": 1}[r]
							call, isCall := arg.Tuple.(*ssa.Call)
							okCalc := isCall && call.Call.StaticCallee() != nil && strings.HasPrefix(call.Call.StaticCallee().Name(), "calc") && strings.HasSuffix(call.Call.StaticCallee().Name(), "Lengths")
							if okCalc && arg.Index == want {
								tops++
								a.ok("NI-width", key, fmt.Sprintf("result %d of %s", want, call.Call.StaticCallee().Name()), in.Pos())
							} else {
								a.bad("NI-width", key, fmt.Sprintf("the %s column is padded to the other column's width (result %d instead of %d of the width computation)", r, arg.Index, want), in.Pos())
							}
						default:
							a.bad("NI-width", key, "the width handed on is neither the caller's own nor a result of the width computation: "+arg.String(), in.Pos())
						}
					}
				}
			}
		}
	}
	if tops == 0 {
		a.und("NI-width", "wiring", "no writer passes the computed widths", cl.Pos())
	}
}

type niHelper struct {
	fn       *ssa.Function
	threaded bool
}

// niWidthHelper: fn's loop body calls one helper outside the pinned
// vocabulary with two of fn's loop-carried ints and takes its two int
// results back into the same two variables, which fn returns in that order.
func niWidthHelper(fn *ssa.Function) (niHelper, bool) {
	for _, l := range naturalLoops(fn) {
		for b := range l.Body {
			for _, in := range b.Instrs {
				call, ok := in.(*ssa.Call)
				if !ok {
					continue
				}
				cal := call.Call.StaticCallee()
				if cal == nil || !defaultInline(cal) || cal.Signature.Results().Len() != 2 || len(naturalLoops(cal)) == 0 {
					continue
				}
				h := niHelper{fn: cal}
				// the two phis passed in
				var phis []*ssa.Phi
				var pos []int
				for i, arg := range call.Call.Args {
					if ph, ok := arg.(*ssa.Phi); ok && ph.Block() == l.Header && isIntType(ph.Type()) {
						phis = append(phis, ph)
						pos = append(pos, i)
					}
				}
				if len(phis) != 2 {
					return h, true
				}
				// results 0/1 flow back into the same phis, in order
				back := func(ph *ssa.Phi, idx int) bool {
					for i, e := range ph.Edges {
						if !l.Body[ph.Block().Preds[i]] {
							continue
						}
						ex, ok := e.(*ssa.Extract)
						if !ok || ex.Tuple != ssa.Value(call) || ex.Index != idx {
							return false
						}
					}
					return true
				}
				// the callee returns (its parameter-fed maxima) in the order of the parameters
				retOrder := false
				for _, cb := range cal.Blocks {
					for _, ci := range cb.Instrs {
						if ret, ok := ci.(*ssa.Return); ok && len(ret.Results) == 2 {
							p0, ok0 := ret.Results[0].(*ssa.Phi)
							p1, ok1 := ret.Results[1].(*ssa.Phi)
							if ok0 && ok1 {
								init := func(ph *ssa.Phi) ssa.Value {
									for i, e := range ph.Edges {
										if _, isP := e.(*ssa.Parameter); isP {
											_ = i
											return e
										}
									}
									return nil
								}
								i0, i1 := init(p0), init(p1)
								if i0 == ssa.Value(cal.Params[pos[0]]) && i1 == ssa.Value(cal.Params[pos[1]]) {
									retOrder = true
								}
							}
						}
					}
				}
				// fn returns the two phis in the same order
				fnRet := false
				for _, fb := range fn.Blocks {
					for _, fi := range fb.Instrs {
						if ret, ok := fi.(*ssa.Return); ok && len(ret.Results) == 2 {
							fnRet = ret.Results[0] == ssa.Value(phis[0]) && ret.Results[1] == ssa.Value(phis[1])
						}
					}
				}
				h.threaded = back(phis[0], 0) && back(phis[1], 1) && retOrder && fnRet
				return h, true
			}
		}
	}
	return niHelper{}, false
}

var reCallFormat = regexp.MustCompile(`^%[sv]:%[dv]$`)

// isLoopCounter: v is the induction variable of a counted or range loop
// (phi with a +1 back edge), possibly through a conversion.
func isLoopCounter(v ssa.Value) bool {
	if ex, ok := v.(*ssa.Extract); ok {
		_, isNext := ex.Tuple.(*ssa.Next)
		return isNext
	}
	// go/ssa's range over a slice: index = rangeindex + 1, rangeindex = phi(-1, index)
	if bo, ok := v.(*ssa.BinOp); ok && bo.Op == token.ADD {
		if k, isC := bnConst(bo.Y); isC && k == 1 {
			if phi, ok := bo.X.(*ssa.Phi); ok {
				for _, e := range phi.Edges {
					if e == v {
						return true
					}
				}
			}
		}
	}
	phi, ok := v.(*ssa.Phi)
	if !ok {
		return false
	}
	for _, e := range phi.Edges {
		if bo, ok := e.(*ssa.BinOp); ok && bo.Op == token.ADD && bo.X == ssa.Value(phi) {
			if k, isC := bnConst(bo.Y); isC && k == 1 {
				return true
			}
		}
	}
	return false
}

var reFieldCell = regexp.MustCompile(`^[A-Za-z_][A-Za-z0-9_]*\.[A-Za-z_][A-Za-z0-9_]*$`)
