package main

// PARSE — shape rules of the line parsers (C01): which captured text feeds
// which field. Decided over all SSA paths of parseFunc, parseFile, Call.init
// and one token iteration of parseArgs.

import (
	"os"
	"go/token"
	"go/types"
	"fmt"
	"strings"

	"golang.org/x/tools/go/ssa"
)

func parseRules(c *Ctx, a *flAgg) {
	parseFuncRule(c, a)
	parseFileRule(c, a)
	callInitRule(c, a)
	parseArgsRule(c, a)
}

func groupOf(e *Expr, glob string) (int64, bool) {
	// string(FindSubmatch(glob, line)[k]) or the []byte itself
	x := e
	for x != nil && x.Op == OpConvert {
		x = x.Args[0]
	}
	ad := loadOf(x)
	if ad == nil || ad.Op != OpIndexAddr {
		return 0, false
	}
	call := ad.Args[0]
	if !(call.calleeIs("regexp", "(*Regexp).FindSubmatch") && len(call.Args) == 3) {
		return 0, false
	}
	if g := call.Args[1].globalLoaded(); g == nil || g.Name() != glob {
		return 0, false
	}
	if !isLineOrTrimmed(call.Args[2]) {
		return 0, false
	}
	return ad.Args[1].intConst()
}

// resultRoles: which result is the "found" flag (the boolean), which the
// error, and which (if any) the Call handed back by value instead of being
// filled through a pointer parameter.
func resultRoles(fn *ssa.Function) (found, errIdx, callIdx int) {
	found, errIdx, callIdx = -1, -1, -1
	rs := fn.Signature.Results()
	for i := 0; i < rs.Len(); i++ {
		t := rs.At(i).Type()
		if bt, ok := t.Underlying().(*types.Basic); ok && bt.Kind() == types.Bool && found < 0 {
			found = i
		} else if types.TypeString(t, nil) == "error" {
			errIdx = i
		} else if nt, ok := t.(*types.Named); ok && nt.Obj().Name() == "Call" {
			callIdx = i
		}
	}
	return
}

func parseFuncRule(c *Ctx, a *flAgg) {
	fn := c.MustFunc(a.obls, "PARSE-func", "stack", "", "parseFunc")
	if fn == nil {
		return
	}
	exprHome = fn.Pkg.Pkg
	x := &SPE{Fn: fn, MaxVisits: 2}
	x.Explore()
	fi, ei, ci := resultRoles(fn)
	if fi < 0 || ei < 0 {
		a.und("PARSE-func", "parseFunc", "no found/error results", fn.Pos())
		return
	}
	cN := ""
	if ci < 0 {
		for _, p := range fn.Params {
			if pt, ok := p.Type().(*types.Pointer); ok {
				if nt, ok := pt.Elem().(*types.Named); ok && nt.Obj().Name() == "Call" {
					cN = p.Name()
				}
			}
		}
	}
	okAll, n := true, 0
	why := ""
	for _, p0 := range x.Paths {
		if p0.Term != "return" || len(p0.Results) <= fi || len(p0.Results) <= ei {
			continue
		}
		if ci >= 0 {
			// the call is a local handed back by value
			cN = strings.TrimPrefix(p0.Results[ci].String(), "*")
			cN = strings.Trim(cN, "()&")
		}
		// the rule below is written for (found, err)
		pc := *p0
		pc.Results = []*Expr{p0.Results[fi], p0.Results[ei]}
		p := &pc
		found, isC := p.Results[0].boolConst()
		if !isC {
			okAll, why = false, "non-constant 'found' result"
			continue
		}
		if !found {
			if !p.Results[1].isNilConst() {
				okAll, why = false, "an error is returned without 'found'"
			}
			for _, ev := range p.Events {
				if ci < 0 && ev.Kind == EvStore && strings.HasPrefix(ev.Addr.String(), "&"+cN+".") {
					okAll, why = false, "the call is modified although the line is not a function line"
				}
			}
			continue
		}
		// found: Func.Init on group 1
		var initCall *Expr
		for _, ev := range callEvents(p, isCallTo(stackPkg, "(*Func).Init")) {
			initCall = ev.Val
		}
		if initCall == nil || initCall.Args[1].String() != "&"+cN+".Func" {
			okAll, why = false, "Func.Init is not applied to the call's Func"
			continue
		}
		if k, ok := groupOf(initCall.Args[2], "reFunc"); !ok || k != 1 {
			okAll, why = false, "the symbol is not taken from group 1 of reFunc"
		}
		if !p.Results[1].isNilConst() {
			continue // error paths: nothing more required
		}
		n++
		// success is reported only when Func.Init accepted the symbol
		initOK := false
		for _, lt := range p.Lits {
			if at := lt.Atom; lt.Pol && at.Op == OpBin && at.Tok == token.EQL && len(at.Args) == 2 && at.Args[1].isNilConst() && at.Args[0].String() == initCall.String() {
				initOK = true
			}
		}
		if !initOK {
			okAll, why = false, "a function line is reported as parsed without an error although Func.Init may have refused the symbol (its error is dropped): the frame keeps an empty or half-initialised function"
			continue
		}
		args := p.Cells["&"+cN+".Args"]
		if args == nil || !(args.Op == OpExtract && args.ID == 0 && args.Args[0].calleeIs(stackPkg, "parseArgs")) {
			okAll, why = false, "on success the arguments are not the result of parseArgs"
			continue
		}
		if k, ok := groupOf(args.Args[0].Args[1], "reFunc"); !ok || k != 2 {
			okAll, why = false, "the argument list is not parsed from group 2 of reFunc"
		}
		if ip := p.Cells["&"+cN+".ImportPath"]; ip == nil || !strings.HasPrefix(ip.String(), cN+".Func.ImportPath") {
			okAll, why = false, "ImportPath is not copied from the parsed symbol"
		}
	}
	if okAll && n > 0 {
		a.ok("PARSE-func", "parseFunc", "a function line sets Func from group 1 (through Func.Init), Args from parseArgs(group 2) and ImportPath from the symbol; a non-matching line changes nothing", fn.Pos())
	} else {
		a.bad("PARSE-func", "parseFunc", "parseFunc does not fill the call from the captured groups: "+why, fn.Pos())
	}
}

func parseFileRule(c *Ctx, a *flAgg) {
	fn := c.MustFunc(a.obls, "PARSE-file", "stack", "", "parseFile")
	if fn == nil {
		return
	}
	exprHome = fn.Pkg.Pkg
	x := &SPE{Fn: fn, MaxVisits: 2}
	x.Explore()
	cN := fn.Params[0].Name()
	for _, prm := range fn.Params {
		// the call is the *Call parameter, wherever it stands
		if pt, ok := prm.Type().(*types.Pointer); ok {
			if nt, ok := pt.Elem().(*types.Named); ok && nt.Obj().Name() == "Call" {
				cN = prm.Name()
			}
		}
	}
	okAll, n := true, 0
	why := ""
	for _, p := range x.Paths {
		if p.Term != "return" || len(p.Results) != 2 {
			continue
		}
		found, _ := p.Results[0].boolConst()
		inits := callEvents(p, isCallTo(stackPkg, "(*Call).init"))
		// the callers look at the error only when the line was recognised: an
		// error returned with found == false is dropped and the malformed file
		// line is then handled as ordinary text
		if !p.Results[1].isNilConst() && !found {
			okAll, why = false, "an error is returned together with found == false: the callers drop it"
		}
		if !found || !p.Results[1].isNilConst() {
			if len(inits) != 0 {
				okAll, why = false, "the call is initialised on a failing path"
			}
			continue
		}
		n++
		if len(inits) != 1 || inits[0].Val.Args[1].String() != cN {
			okAll, why = false, "Call.init is not applied exactly once to the call"
			continue
		}
		call := inits[0].Val
		if k, ok := groupOf(call.Args[2], "reFile"); !ok || k != 1 {
			okAll, why = false, "the file is not group 1 of reFile"
		}
		ln := call.Args[3]
		okLine := ln.Op == OpExtract && ln.ID == 0 && ln.Args[0].Op == OpCall && ln.Args[0].Fn != nil && ln.Args[0].Fn.Name() == "atou"
		if okLine {
			if k, ok := groupOf(ln.Args[0].Args[1], "reFile"); !ok || k != 2 {
				okLine = false
			}
		}
		if !okLine {
			okAll, why = false, "the line number is not atou(group 2 of reFile)"
		}
		// the atou success flag must have been tested
		tested := false
		for _, lt := range p.Lits {
			if lt.Pol && strings.Contains(lt.Atom.String(), "atou(") && strings.HasSuffix(lt.Atom.String(), "#1") {
				tested = true
			}
		}
		if !tested {
			okAll, why = false, "the line number is used without checking that it parsed"
		}
	}
	if okAll && n > 0 {
		a.ok("PARSE-file", "parseFile", "a file line initialises the call with group 1 as path and atou(group 2) as line, only when the number parsed", fn.Pos())
	} else {
		a.bad("PARSE-file", "parseFile", "parseFile does not initialise the call from the captured groups: "+why, fn.Pos())
	}
}

func callInitRule(c *Ctx, a *flAgg) {
	fn := c.MustFunc(a.obls, "PARSE-callinit", "stack", "Call", "init")
	if fn == nil {
		return
	}
	exprHome = fn.Pkg.Pkg
	x := &SPE{Fn: fn, MaxVisits: 2}
	x.Explore()
	cN, src, line := fn.Params[0].Name(), fn.Params[1].Name(), fn.Params[2].Name()
	okAll, n := true, 0
	why := ""
	slash := "strings.LastIndexByte(" + src + ", 47)"
	for _, p := range x.Paths {
		if p.Term != "return" {
			continue
		}
		n++
		cell := func(f string) string {
			if v := p.Cells["&"+cN+"."+f]; v != nil {
				return v.String()
			}
			return ""
		}
		if cell("Line") != line {
			okAll, why = false, "Line is not the given line"
		}
		if cell("ImportPath") != cN+".Func.ImportPath" {
			okAll, why = false, "ImportPath is not the symbol's import path"
		}
		empty, _ := p.lit("(" + src + " == \"\")")
		if empty {
			if cell("RemoteSrcPath") != "" || cell("SrcName") != "" {
				okAll, why = false, "an empty path sets path fields"
			}
			continue
		}
		if cell("RemoteSrcPath") != src {
			okAll, why = false, "RemoteSrcPath is not the given path"
		}
		// "found" tests of a search result: x == -1, x < 0, -1 < x - comparing
		// with another bound (0 < x) misses a '/' at position 0
		found := func(x string) (bool, bool, string) {
			for _, lt := range p.Lits {
				at := lt.Atom
				if at.Op != OpBin || len(at.Args) != 2 {
					continue
				}
				l, r := at.Args[0].String(), at.Args[1].String()
				switch {
				case l == x && r == "-1" && at.Tok == token.EQL:
					return !lt.Pol, true, ""
				case l == x && r == "0" && at.Tok == token.LSS:
					return !lt.Pol, true, ""
				case l == "-1" && r == x && at.Tok == token.LSS:
					return lt.Pol, true, ""
				case l == x || r == x:
					return false, false, at.String()
				}
			}
			return false, false, ""
		}
		fs, have, odd := found(slash)
		if odd != "" {
			okAll, why = false, "the position of the last '/' is tested with "+odd+" instead of against -1: a file directly in the root directory gets no name"
		}
		noSlash := !fs
		if have && !noSlash {
			if cell("SrcName") != src+"[("+slash+" + 1):]" {
				okAll, why = false, "SrcName is not what follows the last '/': "+cell("SrcName")
			}
			prev := "strings.LastIndexByte(" + src + "[:" + slash + "], 47)"
			fp, have2, odd2 := found(prev)
			if odd2 != "" {
				okAll, why = false, "the position of the second-last '/' is tested with "+odd2+" instead of against -1"
			}
			noPrev := !fp
			if have2 && !noPrev && cell("DirSrc") != src+"[("+prev+" + 1):]" {
				okAll, why = false, "DirSrc is not the last directory plus the file name: "+cell("DirSrc")
			}
			if have2 && noPrev && cell("DirSrc") != "" {
				okAll, why = false, "DirSrc set without a second '/'"
			}
		} else if have && cell("SrcName") != "" {
			okAll, why = false, "SrcName set for a path without '/'"
		}
	}
	if okAll && n > 0 {
		a.ok("PARSE-callinit", "Call.init", "Line, RemoteSrcPath, SrcName (after the last '/'), DirSrc (after the second-last '/') and ImportPath are derived as documented on every path", fn.Pos())
	} else {
		a.bad("PARSE-callinit", "Call.init", "Call.init does not derive the source fields as documented: "+why, fn.Pos())
	}
}

// parseArgsRule: one token of the argument list, without brackets.
func parseArgsRule(c *Ctx, a *flAgg) {
	fn := c.MustFunc(a.obls, "PARSE-args", "stack", "", "parseArgs")
	if fn == nil {
		return
	}
	exprHome = fn.Pkg.Pkg
	loops := outermostLoops(naturalLoops(fn))
	if len(loops) != 1 {
		a.und("PARSE-args", "parseArgs/loop", fmt.Sprintf("expected one token loop, found %d", len(loops)), fn.Pos())
		return
	}
	l := loops[0]
	seg := &SPE{Fn: fn, Start: l.Header, MaxVisits: 2, SeedEnv: seedStraight(fn, l.Header)}
	seg.Stop = func(from, to *ssa.BasicBlock) bool { return (to == l.Header && l.Body[from]) || (l.Body[from] && !l.Body[to]) }
	seg.Explore()
	c.stat("BN", "parseArgs_token_paths", len(seg.Paths))
	seen := map[string]bool{}
	okAll := true
	why := ""
	tokenIsSplit := false
	for _, p := range seg.Paths {
		// only iterations without brackets: no opened/closed loop body executed
		brackets := false
		var tok *Expr
		for _, ev := range p.Events {
			if ev.Kind == EvCall && ev.Val.calleeIs(stackPkg, "trimCurlyBrackets") {
				tok = ev.Val
				if strings.Contains(ev.Val.Args[1].String(), "bytes.Split(") {
					tokenIsSplit = true
				}
			}
		}
		if tok == nil {
			continue
		}
		opened, closed := extractOf(tok, 0), extractOf(tok, 2)
		a1 := extractOf(tok, 1)
		for _, lt := range p.Lits {
			s := lt.Atom.String()
			if lt.Pol && (s == "(0 < "+opened+")" || s == "(0 < "+closed+")") {
				brackets = true
			}
		}
		if brackets {
			continue
		}
		// appended argument
		var appended *Expr
		for _, ev := range p.Events {
			if ev.Kind == EvStore && strings.HasSuffix(ev.Addr.String(), ".Values") && ev.Val.Op == OpBuiltin && ev.Val.Name == "append" && ev.Val.Args[1].Op == OpSlice {
				arr := ev.Val.Args[1].Args[0].String()
				appended = p.Cells[arr+"[0]"]
			}
		}
		argCells := map[string]*Expr{}
		if ad := loadOf(appended); ad != nil {
			argCells = allocCells(p, ad.String())
		}
		// a value built by a helper and returned as a whole carries its fields
		if appended != nil && len(argCells) == 0 && appended.Parts != nil {
			argCells = appended.Parts
		}
		empty, _ := p.lit("(len(" + a1 + ") == 0)")
		dots, haveDots := p.lit("bytes.Equal(" + a1 + ", threeDots)")
		under, haveUnder := p.lit("bytes.Equal(" + a1 + ", underscore)")
		failed := false
		for _, lt := range p.Lits {
			if strings.Contains(lt.Atom.String(), "strconv.ParseUint(") && strings.HasSuffix(lt.Atom.String(), "#1 == nil)") && !lt.Pol {
				failed = true
			}
		}
		switch {
		case failed:
			// a token that is not a number: the loop must be left (error), nothing appended
			if appended != nil || (p.Term == "stop" && p.End == l.Header) {
				okAll, why = false, "a token that does not parse as a number is not rejected"
			}
			seen["error"] = true
		case p.Term == "return":
		case empty:
			if appended != nil {
				okAll, why = false, "an empty token appends an argument"
			}
			seen["empty"] = true
		case haveDots && dots:
			el := false
			for _, ev := range p.Events {
				if ev.Kind == EvStore && strings.HasSuffix(ev.Addr.String(), ".Elided") {
					if v, ok := ev.Val.boolConst(); ok && v {
						el = true
					}
				}
			}
			if !el || appended != nil {
				okAll, why = false, "'...' does not just mark the list as elided"
			}
			seen["elided"] = true
		case haveUnder && under:
			v, _ := argCells["IsOffsetTooLarge"]
			if b, ok := v.boolConst(); appended == nil || v == nil || !ok || !b {
				okAll, why = false, "'_' does not append a too-large argument"
			}
			seen["too-large"] = true
		default:
			// a number, possibly with a '?' suffix
			val := argCells["Value"]
			okVal := val != nil && val.Op == OpExtract && val.ID == 0 && val.Args[0].calleeIs("strconv", "ParseUint")
			if okVal {
				pu := val.Args[0]
				base, _ := pu.Args[2].intConst()
				bits, _ := pu.Args[3].intConst()
				if base != 0 || bits != 64 {
					okVal = false
				}
				s := pu.Args[1].String()
				if !strings.Contains(s, a1) {
					okVal = false
				}
			}
			q, haveQ := p.lit("bytes.HasSuffix(" + a1 + ", inaccurateQuestionMark)")
			inacc := argCells["IsInaccurate"]
			okQ := haveQ && inacc != nil
			if okQ {
				if b, ok := inacc.boolConst(); ok {
					okQ = b == q
				} else {
					okQ = strings.Contains(inacc.String(), "HasSuffix")
				}
			}
			if os.Getenv("PPCHECK_PA_DUMP") != "" {
				fmt.Fprintf(os.Stderr, "PA appended=%v val=%v inacc=%v cells=%v\n", appended, val, inacc, argCells)
			}
			if appended == nil || !okVal || !okQ {
				okAll, why = false, fmt.Sprintf("a numeric token must append Arg{Value: ParseUint(token without '?', 0, 64), IsInaccurate: token ends with '?'} (value ok=%v, '?' ok=%v)", okVal, okQ)
			}
			seen["number"] = true
		}
	}
	for _, k := range []string{"elided", "too-large", "number", "error"} {
		if !seen[k] {
			okAll, why = false, "the token kind '"+k+"' is not handled"
		}
	}
	if !tokenIsSplit {
		okAll, why = false, "tokens are not the ', '-separated items of the list"
	}
	if okAll {
		a.ok("PARSE-args", "parseArgs/token", "per token: '...' marks the list elided, '_' appends a too-large argument, anything else must parse with ParseUint(·, 0, 64) (after an optional '?') and is appended with its value and inaccuracy flag; a bad number is an error", fn.Pos())
	} else {
		a.bad("PARSE-args", "parseArgs/token", "argument tokens are not parsed as documented: "+why, fn.Pos())
	}
}
