package main

import (
	"go/constant"
	"regexp/syntax"
	"strings"

	"golang.org/x/tools/go/ssa"
)

// regexpPattern returns the constant pattern a package-level *regexp.Regexp
// variable is compiled from (regexp.MustCompile(const) in the package
// initialiser).
func regexpPattern(L *Loaded, pkg, glob string) (string, bool) {
	sp := L.pkg(pkg)
	if sp == nil {
		return "", false
	}
	g, _ := sp.Members[glob].(*ssa.Global)
	if g == nil {
		return "", false
	}
	init := sp.Func("init")
	if init == nil {
		return "", false
	}
	pat, n := "", 0
	for _, b := range init.Blocks {
		for _, in := range b.Instrs {
			st, ok := in.(*ssa.Store)
			if !ok || st.Addr != g {
				continue
			}
			n++
			call, ok := st.Val.(*ssa.Call)
			if !ok {
				return "", false
			}
			f := call.Call.StaticCallee()
			if f == nil || !(fnIs(f, "regexp", "MustCompile") || fnIs(f, "regexp", "MustCompilePOSIX")) {
				return "", false
			}
			k, ok := call.Call.Args[0].(*ssa.Const)
			if !ok || k.Value == nil || k.Value.Kind() != constant.String {
				return "", false
			}
			pat = constant.StringVal(k.Value)
		}
	}
	// no other store anywhere in the package
	for _, f := range L.SrcFuncs(pkg) {
		if f == init {
			continue
		}
		for _, b := range f.Blocks {
			for _, in := range b.Instrs {
				if st, ok := in.(*ssa.Store); ok && st.Addr == g {
					return "", false
				}
			}
		}
	}
	return pat, n == 1
}

// bytesGlobal returns the constant content of a package-level []byte
// variable initialised from a string constant ([]byte("...")).
func bytesGlobal(L *Loaded, pkg, glob string) (string, bool) {
	sp := L.pkg(pkg)
	if sp == nil {
		return "", false
	}
	g, _ := sp.Members[glob].(*ssa.Global)
	if g == nil {
		return "", false
	}
	init := sp.Func("init")
	if init == nil {
		return "", false
	}
	val, n := "", 0
	for _, b := range init.Blocks {
		for _, in := range b.Instrs {
			st, ok := in.(*ssa.Store)
			if !ok || st.Addr != g {
				continue
			}
			n++
			cv, ok := st.Val.(*ssa.Convert)
			if !ok {
				return "", false
			}
			k, ok := cv.X.(*ssa.Const)
			if !ok || k.Value == nil || k.Value.Kind() != constant.String {
				return "", false
			}
			val = constant.StringVal(k.Value)
		}
	}
	if n != 1 {
		return "", false
	}
	for _, p := range []string{"stack", "stack/webstack", "internal"} {
		for _, f := range L.SrcFuncs(p) {
			if f == init {
				continue
			}
			for _, b := range f.Blocks {
				for _, in := range b.Instrs {
					switch in := in.(type) {
					case *ssa.Store:
						if in.Addr == g {
							return "", false
						}
						// element stores through a load of g are caught by EF-globals
					}
				}
			}
		}
	}
	return val, true
}

// minMatchLen computes the minimal length (in bytes, lower bound) of a string
// matched by the regexp.
func minMatchLen(re *syntax.Regexp) int {
	switch re.Op {
	case syntax.OpLiteral:
		n := 0
		for _, r := range re.Rune {
			_ = r
			n++
		}
		return n
	case syntax.OpCharClass, syntax.OpAnyCharNotNL, syntax.OpAnyChar:
		return 1
	case syntax.OpCapture:
		return minMatchLen(re.Sub[0])
	case syntax.OpConcat:
		n := 0
		for _, s := range re.Sub {
			n += minMatchLen(s)
		}
		return n
	case syntax.OpAlternate:
		m := -1
		for _, s := range re.Sub {
			if l := minMatchLen(s); m < 0 || l < m {
				m = l
			}
		}
		if m < 0 {
			m = 0
		}
		return m
	case syntax.OpPlus:
		return minMatchLen(re.Sub[0])
	case syntax.OpRepeat:
		return re.Min * minMatchLen(re.Sub[0])
	}
	return 0 // star, quest, empty, anchors
}

// firstLiteral returns the literal prefix every match must start with when
// the pattern is anchored at the start (after optional leading classes are
// skipped it returns ""), used for cheap disjointness facts.
func anchoredLiteralPrefix(pat string) (skippable string, lit string, ok bool) {
	re, err := syntax.Parse(pat, syntax.Perl)
	if err != nil {
		return "", "", false
	}
	re = re.Simplify()
	subs := []*syntax.Regexp{re}
	if re.Op == syntax.OpConcat {
		subs = re.Sub
	}
	if len(subs) == 0 || subs[0].Op != syntax.OpBeginText {
		return "", "", false
	}
	subs = subs[1:]
	var skip strings.Builder
	for len(subs) > 0 {
		s := subs[0]
		// optional leading blanks: capture of star of class
		for s.Op == syntax.OpCapture {
			s = s.Sub[0]
		}
		if s.Op == syntax.OpStar && s.Sub[0].Op == syntax.OpCharClass {
			cc := s.Sub[0]
			for i := 0; i+1 < len(cc.Rune); i += 2 {
				for r := cc.Rune[i]; r <= cc.Rune[i+1] && r < 128; r++ {
					skip.WriteRune(r)
				}
			}
			subs = subs[1:]
			continue
		}
		break
	}
	if len(subs) > 0 && subs[0].Op == syntax.OpLiteral {
		return skip.String(), string(subs[0].Rune), true
	}
	return skip.String(), "", false
}

// exclusionHolds decides that two scanner atoms cannot hold for one line.
func exclusionHolds(c *Ctx, a, b string) (bool, string) {
	if b == "blank" {
		a, b = b, a
	}
	nonEmpty := func(atom string) (bool, string) {
		switch {
		case strings.HasPrefix(atom, "m:"):
			pat, ok := regexpPattern(c.L, "stack", atom[2:])
			if !ok {
				return false, "pattern of " + atom[2:] + " is not a constant"
			}
			re, err := syntax.Parse(pat, syntax.Perl)
			if err != nil {
				return false, err.Error()
			}
			if minMatchLen(re.Simplify()) >= 1 {
				return true, "pattern " + atom[2:] + " needs at least one character"
			}
			return false, "pattern " + atom[2:] + " can match the empty line"
		case strings.HasPrefix(atom, "eq:"):
			v, ok := bytesGlobal(c.L, "stack", atom[3:])
			if !ok {
				return false, atom[3:] + " is not a constant byte string"
			}
			if len(v) > 0 {
				return true, "constant " + atom[3:] + " is non-empty"
			}
			return false, "constant " + atom[3:] + " is empty"
		case atom == "found:parseFunc":
			return nonEmptyVia(c, "parseFunc", "reFunc")
		case atom == "found:parseFile":
			return nonEmptyVia(c, "parseFile", "reFile")
		case atom == "is:isFramesElidedLine":
			// decided structurally: every return-true path compares with a non-empty constant
			return framesElidedNonEmpty(c)
		}
		return false, "no rule for " + atom
	}
	if a == "blank" {
		return nonEmpty(b)
	}
	// two patterns / constants with different mandatory beginnings
	la, oka := atomPrefix(c, a)
	lb, okb := atomPrefix(c, b)
	if oka && okb && la.lit != "" && lb.lit != "" {
		// after skipping any of the skippable characters, the literals must diverge
		if !strings.ContainsAny(la.lit[:1], lb.skip) && !strings.ContainsAny(lb.lit[:1], la.skip) {
			n := len(la.lit)
			if len(lb.lit) < n {
				n = len(lb.lit)
			}
			if la.lit[:n] != lb.lit[:n] {
				return true, "mandatory beginnings differ: " + la.lit + " / " + lb.lit
			}
		}
	}
	return false, "cannot show that " + a + " and " + b + " exclude each other"
}

type litPrefix struct{ skip, lit string }

func atomPrefix(c *Ctx, atom string) (litPrefix, bool) {
	switch {
	case strings.HasPrefix(atom, "m:"):
		pat, ok := regexpPattern(c.L, "stack", atom[2:])
		if !ok {
			return litPrefix{}, false
		}
		s, l, ok := anchoredLiteralPrefix(pat)
		return litPrefix{s, l}, ok
	case strings.HasPrefix(atom, "eq:"):
		v, ok := bytesGlobal(c.L, "stack", atom[3:])
		return litPrefix{"", v}, ok
	}
	return litPrefix{}, false
}

// nonEmptyVia: function fn returns found=true only after global regexp re
// matched, and re cannot match the empty string.
func nonEmptyVia(c *Ctx, fn, re string) (bool, string) {
	f := c.L.Func("stack", "", fn)
	if f == nil {
		return false, fn + " not found"
	}
	exprHome = f.Pkg.Pkg
	x := &SPE{Fn: f}
	x.Explore()
	for _, p := range x.Paths {
		fi, _, _ := resultRoles(f)
		if p.Term != "return" || fi < 0 || len(p.Results) <= fi {
			continue
		}
		if v, ok := p.Results[fi].boolConst(); ok && !v {
			continue
		}
		// a found path must carry the literal "FindSubmatch(re, line) != nil"
		okp := false
		for _, l := range p.Lits {
			if !l.Pol && l.Atom.Op == OpBin && l.Atom.Args[1].isNilConst() {
				if call := l.Atom.Args[0]; call.calleeIs("regexp", "(*Regexp).FindSubmatch") {
					if g := call.Args[1].globalLoaded(); g != nil && g.Name() == re && isLineOrTrimmed(call.Args[2]) {
						okp = true
					}
				}
			}
		}
		if !okp {
			return false, fn + " can report found without a match of " + re
		}
	}
	pat, ok := regexpPattern(c.L, "stack", re)
	if !ok {
		return false, re + " not constant"
	}
	r, err := syntax.Parse(pat, syntax.Perl)
	if err != nil {
		return false, err.Error()
	}
	if minMatchLen(r.Simplify()) < 1 {
		return false, re + " can match the empty string"
	}
	return true, fn + " reports found only after " + re + " matched, which needs at least one character"
}

func framesElidedNonEmpty(c *Ctx) (bool, string) {
	f := c.L.Func("stack", "", "isFramesElidedLine")
	if f == nil {
		return false, "isFramesElidedLine not found"
	}
	exprHome = f.Pkg.Pkg
	x := &SPE{Fn: f}
	x.Explore()
	for _, p := range x.Paths {
		if p.Term != "return" {
			continue
		}
		if v, ok := p.Results[0].boolConst(); ok && !v {
			continue
		}
		// true (or undetermined) result: some positive literal must compare the
		// line with a non-empty constant (Equal / HasPrefix / HasSuffix)
		okp := false
		check := func(e *Expr) {
			e.walk(func(x *Expr) bool {
				if x.Op == OpCall && (x.calleeIs("bytes", "Equal") || x.calleeIs("bytes", "HasPrefix") || x.calleeIs("bytes", "HasSuffix")) {
					for _, a := range x.Args[1:] {
						if a.Op == OpConvert && a.Args[0].isConst() && constLen(a.Args[0]) > 0 {
							okp = true
						}
						if a.Op == OpSlice && a.Args[0].Op == OpAlloc {
							okp = true // slice literal of a constant
						}
					}
				}
				return true
			})
		}
		for _, l := range p.Lits {
			if l.Pol {
				check(l.Atom)
			}
		}
		for _, r := range p.Results {
			check(r)
		}
		if !okp {
			return false, "isFramesElidedLine may accept an empty line"
		}
	}
	return true, "isFramesElidedLine accepts only lines compared with non-empty constants"
}

// constantString returns the string value of an SSA constant.
func constantString(k *ssa.Const) (string, bool) {
	if k == nil || k.Value == nil || k.Value.Kind() != constant.String {
		return "", false
	}
	return constant.StringVal(k.Value), true
}

// isLineOrTrimmed: the line parameter itself, or the line with its leading
// blanks trimmed (an empty line stays empty).
func isLineOrTrimmed(e *Expr) bool {
	if e.Op == OpParam {
		return true
	}
	if e.Op == OpCall && e.Fn != nil && e.Fn.Name() == "trimLeftSpace" && len(e.Args) == 2 && e.Args[1].Op == OpParam {
		return true
	}
	return false
}
