package main

// Call-site facts shared by the engines: for an unexported module function
// all of whose uses are static calls, what every caller passes for a
// parameter. Adding a parameter that every caller binds to the old constant
// (readSlice(delim) called with '\n', isRootedIn(root, parts, first) called
// with 1) is then not a change: the parameter is analysed as that constant.

import (
	"go/token"
	"strings"

	"golang.org/x/tools/go/ssa"
)

var curLoaded *Loaded

type callSites struct {
	calls   map[*ssa.Function][]ssa.CallInstruction
	escapes map[*ssa.Function]bool // used as a value somewhere
}

var csCache = map[*Loaded]*callSites{}

func sitesOf(L *Loaded) *callSites {
	if L == nil {
		return nil
	}
	if cs, ok := csCache[L]; ok {
		return cs
	}
	cs := &callSites{calls: map[*ssa.Function][]ssa.CallInstruction{}, escapes: map[*ssa.Function]bool{}}
	for _, pn := range []string{"stack", "stack/webstack", "internal", ""} {
		for _, f := range L.SrcFuncs(pn) {
			for _, b := range f.Blocks {
				for _, in := range b.Instrs {
					var callee ssa.Value
					if ci, ok := in.(ssa.CallInstruction); ok {
						callee = ci.Common().Value
						if cal := ci.Common().StaticCallee(); cal != nil && !ci.Common().IsInvoke() {
							cs.calls[cal] = append(cs.calls[cal], ci)
						}
					}
					var ops []*ssa.Value
					for _, op := range in.Operands(ops) {
						if fn, ok := (*op).(*ssa.Function); ok && *op != callee {
							cs.escapes[fn] = true
						}
					}
				}
			}
		}
	}
	csCache[L] = cs
	return cs
}

// closedFunc: an unexported module function (or method of an unexported
// type, or unexported method) used only through static calls.
func closedFunc(fn *ssa.Function) ([]ssa.CallInstruction, bool) {
	cs := sitesOf(curLoaded)
	if cs == nil || fn == nil || fn.Pkg == nil || fn.Parent() != nil || !strings.HasPrefix(fn.Pkg.Pkg.Path(), modPath) {
		return nil, false
	}
	if o := fn.Object(); o == nil || o.Exported() {
		return nil, false
	}
	if cs.escapes[fn] || len(cs.calls[fn]) == 0 {
		return nil, false
	}
	// methods reachable through an interface are not closed
	if fn.Signature.Recv() != nil {
		for _, ci := range cs.calls[fn] {
			if ci.Common().IsInvoke() {
				return nil, false
			}
		}
	}
	return cs.calls[fn], true
}

// paramArgs: the argument every call site passes for parameter p.
func paramArgs(p *ssa.Parameter) ([]ssa.Value, []ssa.CallInstruction, bool) {
	fn := p.Parent()
	sites, ok := closedFunc(fn)
	if !ok {
		return nil, nil, false
	}
	idx := -1
	for i, q := range fn.Params {
		if q == p {
			idx = i
		}
	}
	if idx < 0 {
		return nil, nil, false
	}
	var out []ssa.Value
	for _, ci := range sites {
		args := ci.Common().Args
		if idx >= len(args) {
			return nil, nil, false
		}
		out = append(out, args[idx])
	}
	return out, sites, true
}

// constParam: the constant every caller passes, if they all pass the same one.
func constParam(p *ssa.Parameter) (*ssa.Const, bool) {
	args, _, ok := paramArgs(p)
	if !ok {
		return nil, false
	}
	var k *ssa.Const
	for _, a := range args {
		c, isC := a.(*ssa.Const)
		if !isC || c.Value == nil {
			return nil, false
		}
		if k == nil {
			k = c
		} else if k.Value.ExactString() != c.Value.ExactString() || k.Value.Kind() != c.Value.Kind() {
			return nil, false
		}
	}
	return k, k != nil
}

var _ = token.NoPos

// smCovers: f is the scanner's scan method, or a helper outside the pinned
// vocabulary that is only ever called from such a function: the SM engine
// executes those helpers in place, so its typestate facts (SM-deref) decide
// their indices and dereferences exactly as they do for scan itself.
func smCovers(f *ssa.Function) bool {
	return smCoversRec(f, map[*ssa.Function]bool{})
}

// coveredBy: f is root, or a helper outside the pinned vocabulary that does
// not escape and whose every call site lies in a function covered by root -
// the exploration of root looks through such helpers, so what they do is
// judged at root's call site.
func coveredBy(f, root *ssa.Function, seen map[*ssa.Function]bool) bool {
	if f == nil || seen[f] {
		return false
	}
	seen[f] = true
	if f == root {
		return true
	}
	if !defaultInline(f) {
		return false
	}
	cs := sitesOf(curLoaded)
	if cs == nil || cs.escapes[f] || len(cs.calls[f]) == 0 {
		return false
	}
	for _, ci := range cs.calls[f] {
		if !coveredBy(ci.Parent(), root, seen) {
			return false
		}
	}
	return true
}

func smCoversRec(f *ssa.Function, seen map[*ssa.Function]bool) bool {
	if f == nil || seen[f] {
		return false
	}
	seen[f] = true
	if f.Name() == "scan" && f.Signature.Recv() != nil && strings.HasSuffix(funcKey(f), "scanningState).scan") {
		return true
	}
	if !defaultInline(f) {
		return false
	}
	cs := sitesOf(curLoaded)
	if cs == nil || cs.escapes[f] || len(cs.calls[f]) == 0 {
		return false
	}
	for _, ci := range cs.calls[f] {
		if !smCoversRec(ci.Parent(), seen) {
			return false
		}
	}
	return true
}

// leftEarly: among the paths of one loop-iteration exploration (started at
// the loop header, stopped on the back edge and on leaving the loop), those
// that leave the loop from inside its body - a break, or a return that
// allowReturn does not accept - rather than from the exhausted header.
func leftEarly(paths []*Path, l *loopInfo, allowReturn func(p *Path) bool) []*Path {
	var out []*Path
	for _, p := range paths {
		switch p.Term {
		case "stop":
			if p.End != l.Header && p.StopFrom != nil && p.StopFrom != l.Header {
				out = append(out, p)
			}
		case "return":
			if allowReturn == nil || !allowReturn(p) {
				out = append(out, p)
			}
		}
	}
	return out
}
