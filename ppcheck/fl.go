package main

// FL — flow rules on ScanSnapshot, internal.process and the line reader
// (DESIGN.md §3.3). Every rule is evaluated over all SSA paths of one loop
// iteration ("segment") or of a small function.

import (
	"fmt"
	"go/token"
	"regexp"
	"strings"

	"golang.org/x/tools/go/ssa"
)

func init() {
	register(&Engine{Name: "FL", Doc: "flow rules", Run: runFL})
}

const stackPkg = modPath + "/stack"

var reSnapshotOfS = regexp.MustCompile(`^s(@\d+)?\.Snapshot(@\d+)?$`)

type flAgg struct {
	obls *[]Obl
	res  map[string]map[string]*Obl
	c    *Ctx
}

func newAgg(c *Ctx, obls *[]Obl) *flAgg {
	return &flAgg{obls: obls, res: map[string]map[string]*Obl{}, c: c}
}

// add merges per (rule,key): the worst status wins; counts paths.
func (a *flAgg) add(rule, key string, st Status, msg string, pos token.Pos) {
	m := a.res[rule]
	if m == nil {
		m = map[string]*Obl{}
		a.res[rule] = m
	}
	o := m[key]
	if o == nil {
		o = &Obl{Rule: rule, Key: key, Status: st, Msg: msg, Pos: a.c.L.Pos(pos)}
		m[key] = o
		return
	}
	if st > o.Status {
		o.Status, o.Msg, o.Pos = st, msg, a.c.L.Pos(pos)
	}
}

func (a *flAgg) ok(rule, key, msg string, pos token.Pos)  { a.add(rule, key, Discharged, msg, pos) }
func (a *flAgg) bad(rule, key, msg string, pos token.Pos) { a.add(rule, key, Violated, msg, pos) }
func (a *flAgg) und(rule, key, msg string, pos token.Pos) { a.add(rule, key, Undecided, msg, pos) }

func (a *flAgg) flush() {
	for _, r := range sortedKeysOf(a.res) {
		for _, k := range sortedKeysOf(a.res[r]) {
			*a.obls = append(*a.obls, *a.res[r][k])
		}
	}
}

// flFullAtom recognises the buffer-full test on the distance between the
// cursors: +1 for "w−r == N" (true means full), −1 for "w−r < N" (true means
// not full; the form `>=` normalises to it; w−r cannot exceed N: RB-inv).
var reCursorDistance = regexp.MustCompile(`\(r\.w(@\d+)? - r\.r(@\d+)?\)`)

func flFullAtom(as string) int {
	// the distance between the cursors, w - r (not their sum, not r - w)
	if m := reCursorDistance.FindStringSubmatch(as); m == nil || m[1] != m[2] {
		return 0
	}
	switch {
	case strings.Contains(as, "== 16384"):
		return 1
	case strings.Contains(as, "< 16384"):
		return -1
	}
	return 0
}

func pathPos(p *Path, fn *ssa.Function) token.Pos {
	for i := len(p.Events) - 1; i >= 0; i-- {
		if p.Events[i].Pos.IsValid() {
			return p.Events[i].Pos
		}
	}
	return fn.Pos()
}

func litsString(p *Path) string {
	var s []string
	for _, l := range p.Lits {
		s = append(s, l.String())
	}
	return strings.Join(s, " && ")
}

// scanSnapshotModel is shared with SM (post-loop capture) and NM (gate).
type scanSnapshotFacts struct {
	done        bool
	postCapture bool
	postWhy     string
	postPos     string
}

var ssFacts = map[*Ctx]*scanSnapshotFacts{}

func postLoopCapture(c *Ctx) (bool, string, string) {
	c.run(engines["FL"])
	f := ssFacts[c]
	if f == nil {
		return false, "ScanSnapshot could not be analysed", "-"
	}
	return f.postCapture, f.postWhy, f.postPos
}

func runFL(c *Ctx) []Obl {
	var obls []Obl
	a := newAgg(c, &obls)
	flScanSnapshot(c, a)
	flProcess(c, a)
	flReader(c, a)
	a.flush()
	return obls
}

func isFreshEmpty(e *Expr) bool {
	if e == nil {
		return false
	}
	if e.isNilConst() {
		return true
	}
	return isEmptyPrealloc(e)
}

// appendChain flattens append(append(base, x...), y...) to (base, [x, y]).
func appendChain(e *Expr) (*Expr, []*Expr) {
	var parts []*Expr
	for e != nil && e.Op == OpBuiltin && e.Name == "append" && len(e.Args) == 2 {
		parts = append([]*Expr{e.Args[1]}, parts...)
		e = e.Args[0]
	}
	return e, parts
}

func flScanSnapshot(c *Ctx, a *flAgg) {
	fn := c.MustFunc(a.obls, "FL-line-once", "stack", "", "ScanSnapshot")
	if fn == nil {
		return
	}
	exprHome = fn.Pkg.Pkg
	facts := &scanSnapshotFacts{}
	ssFacts[c] = facts
	loops := outermostLoops(naturalLoops(fn))
	if len(loops) != 1 {
		a.und("FL-line-once", "ScanSnapshot/loop", fmt.Sprintf("expected one scan loop, found %d", len(loops)), fn.Pos())
		return
	}
	l := loops[0]
	if len(fn.Params) != 3 {
		a.und("FL-line-once", "ScanSnapshot/signature", "unexpected signature", fn.Pos())
		return
	}
	prefixName := fn.Params[1].Name()
	seg := &SPE{Fn: fn, Start: l.Header, MaxVisits: 2}
	seg.Stop = func(from, to *ssa.BasicBlock) bool { return to == l.Header && l.Body[from] }
	seg.Explore()
	if seg.Truncated > 0 || seg.Overflow {
		a.und("FL-line-once", "ScanSnapshot/nested-loop", "the scan loop contains a nested loop; iteration paths are not finite", fn.Pos())
	}
	c.stat("FL", "ScanSnapshot_iteration_paths", len(seg.Paths))
	isReadLine := isCallTo(stackPkg, "(*reader).readLine")
	isScan := isCallTo(stackPkg, "(*scanningState).scan")
	isBuffered := isCallTo(stackPkg, "(*reader).buffered")
	isWrite := func(e *Expr) bool {
		return e.Op == OpInvoke && e.Name == "Write" && e.Args[0].Op == OpParam && e.Args[0].Name == prefixName
	}
	stateLit := func(p *Path, what string) (pol, have bool) {
		for _, lt := range p.Lits {
			s := lt.Atom.String()
			if strings.HasPrefix(s, "(s.state") && strings.HasSuffix(s, " == "+what+")") {
				pol, have = lt.Pol, true
			}
		}
		return
	}
	capturePaths, captureOK := 0, true
	for _, p := range seg.Paths {
		pos := pathPos(p, fn)
		if p.Ambiguous != "" {
			a.und("FL-line-once", "ScanSnapshot/ambiguous", p.Ambiguous, pos)
		}
		rls := callEvents(p, isReadLine)
		returns := p.Term == "return" && len(p.Results) == 3
		if !(len(rls) == 1 || (len(rls) == 0 && returns)) {
			a.bad("FL-remainder", "ScanSnapshot/one-readLine-per-iteration", fmt.Sprintf("%d calls of readLine on a path through one iteration (and the code after the loop): a line is read without being scanned, or read after the loop was left", len(rls)), pos)
			continue
		}
		a.ok("FL-remainder", "ScanSnapshot/one-readLine-per-iteration", "exactly one line is read per iteration and none after the loop", pos)
		for _, rl := range rls {
			if len(rl.Val.Args) == 2 && rl.Val.Args[1].Op == OpAlloc {
				a.ok("FL-reader-fresh", "ScanSnapshot/reader", "the line reader is a local of this call: no buffered data or pending error survives from an earlier call", rl.Pos)
			} else {
				a.bad("FL-reader-fresh", "ScanSnapshot/reader", "the line reader is not a fresh local of ScanSnapshot ("+rl.Val.String()+"): buffered data or a pending error of an earlier call can leak into this one", rl.Pos)
			}
		}
		// shape of the returned suffix
		shape, d := "", ""
		if len(rls) == 1 {
			d = extractOf(rls[0].Val, 0)
		}
		if returns {
			r1 := p.Results[1]
			base, parts := appendChain(r1)
			switch {
			case r1.isNilConst() || r1.Op == OpFresh:
				shape = "nil"
			case isFreshEmpty(base) && len(parts) == 1 && isBuffered(parts[0]):
				shape = "readahead"
			case isFreshEmpty(base) && len(parts) == 2 && parts[0].String() == d && d != "" && isBuffered(parts[1]):
				shape = "line+readahead"
			default:
				shape = "?" + r1.String()
			}
		}
		if len(rls) == 1 {
			rl := rls[0].Val
			rerr := extractOf(rl, 1)
			scans := callEvents(p, isScan)
			writes := callEvents(p, isWrite)
			keeps := !returns || shape == "nil" || shape == "readahead" // the line is not put in the suffix
			blank, _ := p.lit("(len(" + d + ") == 0)")
			for _, w := range writes {
				if len(w.Val.Args) != 2 || w.Val.Args[1].String() != d {
					a.bad("FL-write-now", "ScanSnapshot/write-arg", "prefix.Write is called with something else than the line just read: "+w.Val.String(), w.Pos)
				} else {
					a.ok("FL-write-now", "ScanSnapshot/write-arg", "the line itself is written, immediately (before the next read)", w.Pos)
				}
			}
			switch {
			case blank:
				if len(scans) != 0 || len(writes) != 0 || !keeps {
					a.bad("FL-line-once", "ScanSnapshot/empty-read", "an empty read result is scanned, written or stored", pos)
				} else {
					a.ok("FL-line-once", "ScanSnapshot/empty-read", "nothing is done with an empty read", pos)
				}
			case len(scans) != 1:
				a.bad("FL-line-once", "ScanSnapshot/scan-once", fmt.Sprintf("a non-empty line is passed to scan %d times", len(scans)), pos)
			case len(scans[0].Val.Args) != 3 || scans[0].Val.Args[2].String() != d:
				a.bad("FL-line-once", "ScanSnapshot/scan-arg", "scan is not called with the line just read: "+scans[0].Val.String(), pos)
			default:
				a.ok("FL-line-once", "ScanSnapshot/scan-arg", "each non-empty line is scanned exactly once", pos)
				sc := scans[0].Val
				consumed, haveL := p.lit(extractOf(sc, 0))
				looking, haveState := stateLit(p, "looking")
				switch {
				case !haveL:
					a.und("FL-line-once", "ScanSnapshot/consumed-branch", "no branch on scan's first result on "+litsString(p), pos)
				case consumed:
					if len(writes) != 0 || !keeps {
						a.bad("FL-line-once", "ScanSnapshot/consumed", "a consumed line is also forwarded or returned", pos)
					} else {
						a.ok("FL-line-once", "ScanSnapshot/consumed", "a consumed line is neither forwarded nor returned", pos)
					}
				case !haveState:
					a.und("FL-line-once", "ScanSnapshot/unconsumed", "no test of the scanner state for an unconsumed line", pos)
				case looking:
					if len(writes) == 1 && keeps {
						a.ok("FL-line-once", "ScanSnapshot/unconsumed-looking", "an unconsumed line outside a dump is written exactly once", pos)
					} else {
						a.bad("FL-line-once", "ScanSnapshot/unconsumed-looking", fmt.Sprintf("an unconsumed line outside a dump is written %d times (returned suffix: %s)", len(writes), shape), pos)
					}
				default:
					if returns && shape == "line+readahead" && len(writes) == 0 {
						a.ok("FL-remainder", "ScanSnapshot/unconsumed-in-dump", "the line that ends the dump and the read-ahead are returned as suffix, once, in order, and the loop is left", pos)
					} else {
						a.bad("FL-remainder", "ScanSnapshot/unconsumed-in-dump", fmt.Sprintf("the line that ends a dump must be returned as suffix followed by the buffered read-ahead and the loop left (returns=%v suffix=%s writes=%d)", returns, shape, len(writes)), pos)
					}
				}
			}
			// FL-err-prec
			var ev *Expr
			if returns {
				ev = p.Results[2]
			} else {
				ev = p.StopPhis["err"]
			}
			if ev != nil {
				es := ev.String()
				rnil, rnilOK := p.lit("(" + rerr + " == nil)")
				reof := false
				for _, lt := range p.Lits {
					s := lt.Atom.String()
					if lt.Pol && strings.Contains(s, rerr) && strings.Contains(s, "io.EOF") && lt.Atom.Op == OpBin && lt.Atom.Tok == token.EQL {
						reof = true
					}
				}
				prov := es == rerr
				for _, sc := range scans {
					if es == extractOf(sc.Val, 1) {
						prov = true
					}
				}
				for _, w := range writes {
					if es == extractOf(w.Val, 1) {
						prov = true
					}
				}
				// a failed write is reported (unless the reader already failed with
				// something else than EOF)
				for _, w := range writes {
					we := extractOf(w.Val, 1)
					// (a write whose error is never tested may have failed)
					if wnil, have := p.lit("(" + we + " == nil)"); !have || !wnil {
						scanOK := true
						for _, sc := range scans {
							if v, ok := p.lit("(" + extractOf(sc.Val, 1) + " == nil)"); !ok || !v {
								scanOK = false // scan failed first (or was not tested): its error stands
							}
						}
						// the reader is known to have failed with something else than EOF
						rBad := rnilOK && !rnil && !reof
						if rBad {
							neof := false
							for _, lt := range p.Lits {
								s := lt.Atom.String()
								if !lt.Pol && strings.Contains(s, rerr) && strings.Contains(s, "io.EOF") && lt.Atom.Op == OpBin && lt.Atom.Tok == token.EQL {
									neof = true
								}
							}
							rBad = neof
						}
						if !rBad && scanOK && es != we {
							a.bad("FL-err-prec", "ScanSnapshot/write-error-reported", "the pass-through writer failed and the reader had not (or only with EOF), yet the error carried on is "+es+": lines are lost without the caller being told", w.Pos)
						} else {
							a.ok("FL-err-prec", "ScanSnapshot/write-error-reported", "a failed write to the pass-through writer is reported unless the reader or the scanner failed first", w.Pos)
						}
					}
				}
				switch {
				case !prov:
					a.bad("FL-err-prec", "ScanSnapshot/err-provenance", "the returned error ("+es+") is neither the reader's, nor scan's, nor the writer's: the outcome would depend on something else than the stream content (e.g. on how the reader reports EOF)", pos)
				case es == rerr:
					a.ok("FL-err-prec", "ScanSnapshot/err=reader", "the reader's error is kept", pos)
				case (rnilOK && rnil) || reof:
					a.ok("FL-err-prec", "ScanSnapshot/err=other", "a scan/write error replaces the reader's only when that is nil or io.EOF", pos)
				default:
					a.bad("FL-err-prec", "ScanSnapshot/err=other", "the error of the reader is replaced by "+es+" without the reader's being nil or io.EOF on "+litsString(p), pos)
				}
			}
		} else if returns {
			if r2 := p.Results[2]; !(r2.Op == OpFresh && strings.HasPrefix(r2.Name, "phi:")) {
				a.bad("FL-err-prec", "ScanSnapshot/returned-err", "when the loop condition ends the loop the returned error is not the loop's error: "+r2.String(), pos)
			} else {
				a.ok("FL-err-prec", "ScanSnapshot/returned-err", "the loop's error is returned unchanged", pos)
			}
		}
		if !returns {
			continue
		}
		// code after the loop
		if strings.HasPrefix(shape, "?") {
			a.bad("FL-remainder", "ScanSnapshot/returned-suffix", "unexpected suffix result "+shape, pos)
		}
		doneT, haveDone := stateLit(p, "done")
		switch shape {
		case "readahead":
			capturePaths++
			if !(haveDone && doneT) {
				a.bad("FL-remainder", "ScanSnapshot/post-capture-guard", "the read-ahead is returned as suffix although the scanner did not reach the end of a dump: text would be handed back twice or out of order", pos)
			} else {
				a.ok("FL-remainder", "ScanSnapshot/post-capture-guard", "the read-ahead alone is returned only when the dump ended on a consumed line", pos)
			}
		case "nil":
			if haveDone && doneT {
				captureOK = false
			}
		}
		gnil, have := false, false
		for _, lt := range p.Lits {
			if strings.HasSuffix(lt.Atom.String(), ".Goroutines == nil)") {
				gnil, have = lt.Pol, true
			}
		}
		r0 := p.Results[0]
		switch {
		case !have:
			a.und("FL-snapshot", "ScanSnapshot/return", "no test of s.Goroutines before returning", pos)
		case gnil && r0.isNilConst(), !gnil && reSnapshotOfS.MatchString(r0.String()):
			a.ok("FL-snapshot", "ScanSnapshot/return", "a snapshot is returned iff a goroutine was seen", pos)
		default:
			a.bad("FL-snapshot", "ScanSnapshot/return", fmt.Sprintf("snapshot result %s with s.Goroutines==nil %v", r0.String(), gnil), pos)
		}
		for _, g := range []struct{ callee, opt, rule string }{
			{"nameArguments", "opts.NameArguments", "NM-gate"},
			{"(*Snapshot).guessPaths", "opts.GuessPaths", "LOC-gate"},
			{"(*Snapshot).augment", "opts.AnalyzeSources", "AUG-gate"},
		} {
			calls := callEvents(p, isCallTo(stackPkg, g.callee))
			on, haveOpt := p.lit(g.opt)
			key := "ScanSnapshot/" + g.callee
			switch {
			case gnil:
				if len(calls) != 0 {
					a.bad(g.rule, key, "post-processing without a snapshot", pos)
				}
			case !haveOpt:
				a.bad(g.rule, key, g.callee+" is not guarded by exactly "+g.opt, pos)
			case on && len(calls) == 1, !on && len(calls) == 0:
				a.ok(g.rule, key, g.callee+" runs exactly when "+g.opt+" is set", pos)
			default:
				a.bad(g.rule, key, fmt.Sprintf("%s called %d times with %s=%v", g.callee, len(calls), g.opt, on), pos)
			}
			// the gate must be the option alone: no other literal about opts may decide the call
			if haveOpt && len(calls) == 1 {
				for _, lt := range p.Lits {
					s := lt.Atom.String()
					if strings.HasPrefix(s, "opts.") && s != g.opt && false {
						_ = s
					}
				}
			}
		}
	}
	// the reader is used only through readLine and buffered
	opaque := true
	for _, b := range fn.Blocks {
		for _, in := range b.Instrs {
			fa, ok := in.(*ssa.FieldAddr)
			if !ok || !strings.HasSuffix(fa.X.Type().String(), "stack.reader") {
				continue
			}
			for _, r := range *fa.Referrers() {
				if st, isStore := r.(*ssa.Store); isStore && st.Addr == ssa.Value(fa) && addrLast(fa) == "rd" {
					continue // reader{rd: in}
				}
				opaque = false
				a.bad("FL-reader-fresh", "ScanSnapshot/reader-opaque", "ScanSnapshot reads or writes the reader's internal field "+addrLast(fa)+": results would depend on the reader's buffering state (how the input was delivered)", r.Pos())
			}
		}
	}
	if opaque {
		a.ok("FL-reader-fresh", "ScanSnapshot/reader-opaque", "ScanSnapshot uses the reader only through readLine and buffered", fn.Pos())
	}
	facts.postCapture = captureOK && capturePaths > 0
	facts.postPos = c.L.Pos(fn.Pos())
	if facts.postCapture {
		facts.postWhy = "after the loop, when the state is done and no suffix was set, r.buffered() is returned as suffix"
	} else {
		facts.postWhy = "ScanSnapshot has a path that ends in state done without returning r.buffered(): what was read ahead is dropped"
	}
}

// ---------------------------------------------------------------------------

func flProcess(c *Ctx, a *flAgg) {
	fn := c.MustFunc(a.obls, "FL-suffix-once", "internal", "", "process")
	if fn == nil {
		return
	}
	exprHome = fn.Pkg.Pkg
	loops := outermostLoops(naturalLoops(fn))
	if len(loops) != 1 {
		a.und("FL-suffix-once", "process/loop", fmt.Sprintf("expected one loop, found %d", len(loops)), fn.Pos())
		return
	}
	l := loops[0]
	seg := &SPE{Fn: fn, Start: l.Header, MaxVisits: 2}
	seg.Stop = func(from, to *ssa.BasicBlock) bool { return to == l.Header && l.Body[from] }
	seg.Explore()
	c.stat("FL", "process_iteration_paths", len(seg.Paths))
	if len(fn.Params) < 2 {
		return
	}
	outName := fn.Params[1].Name()
	isSS := isCallTo(stackPkg, "ScanSnapshot")
	isOutWrite := func(e *Expr) bool {
		return e.Op == OpInvoke && e.Name == "Write" && e.Args[0].Op == OpParam && e.Args[0].Name == outName
	}
	for _, p := range seg.Paths {
		pos := pathPos(p, fn)
		ss := callEvents(p, isSS)
		if len(ss) != 1 {
			a.bad("FL-suffix-once", "process/one-scan-per-iteration", fmt.Sprintf("%d ScanSnapshot calls in one iteration", len(ss)), pos)
			continue
		}
		call := ss[0].Val
		suffix, serr := extractOf(call, 1), extractOf(call, 2)
		if len(call.Args) != 4 || call.Args[2].String() != outName {
			a.bad("FL-suffix-once", "process/scan-args", "ScanSnapshot is not given the output as pass-through writer: "+call.String(), pos)
		} else {
			a.ok("FL-suffix-once", "process/scan-args", "pass-through text goes to the output", pos)
		}
		writes := callEvents(p, isOutWrite)
		continues := p.Term == "stop" && p.End == l.Header
		errNil, haveErr := p.lit("(" + serr + " == nil)")
		if continues {
			in := p.StopPhis["in"]
			okIn := false
			if in != nil && in.calleeIs("io", "MultiReader") && len(in.Args) == 2 && in.Args[1].Op == OpSlice {
				arr := in.Args[1].Args[0]
				first := p.Cells[arr.String()+"[0]"]
				second := p.Cells[arr.String()+"[1]"]
				if first != nil && second != nil {
					f := first
					for f.Op == OpConvert {
						f = f.Args[0]
					}
					s := second
					for s.Op == OpConvert {
						s = s.Args[0]
					}
					if f.calleeIs("bytes", "NewReader") && f.Args[1].String() == suffix && s.Op == OpFresh && s.Name == "phi:in" {
						okIn = true
					}
				}
			}
			switch {
			case !(haveErr && errNil):
				a.bad("FL-suffix-once", "process/continue-on-error", "the loop continues although ScanSnapshot returned an error (or without testing it): no progress is guaranteed and the error is lost", pos)
			case len(writes) != 0:
				a.bad("FL-suffix-once", "process/continue", "the suffix is both written and re-fed", pos)
			case !okIn:
				a.bad("FL-suffix-once", "process/continue", "the next input is not MultiReader(NewReader(suffix), in) — suffix first: "+in.String(), pos)
			default:
				a.ok("FL-suffix-once", "process/continue", "on success the remainder is re-fed in front of the unread input, and nothing of it is written", pos)
			}
			continue
		}
		if p.Term != "return" {
			continue
		}
		// the loop may only be left with an error (EOF included): a nil error means more input may follow
		stops := haveErr && !errNil
		for _, lt := range p.Lits {
			if strings.HasPrefix(lt.Atom.String(), "(processInner(") && strings.HasSuffix(lt.Atom.String(), " == nil)") && !lt.Pol {
				stops = true
			}
		}
		if stops {
			a.ok("FL-suffix-once", "process/stop-on-error-only", "the loop is left only when ScanSnapshot (or the rendering) reported an error or EOF", pos)
		} else {
			a.bad("FL-suffix-once", "process/stop-on-error-only", "the loop is left although ScanSnapshot returned no error ("+litsString(p)+"): the rest of the input is neither read nor copied", pos)
		}
		// success is reported only for a stream read to its end: after any
		// other error the rest of the input was neither parsed nor copied
		if len(p.Results) == 1 && p.Results[0].isNilConst() {
			eof := false
			for _, lt := range p.Lits {
				if lt.Pol && (lt.Atom.Op == OpBin && lt.Atom.Tok == token.EQL || lt.Atom.calleeIs("errors", "Is")) && strings.Contains(lt.Atom.String(), "io.EOF") {
					eof = true
				}
			}
			if eof {
				a.ok("FL-suffix-once", "process/success-only-at-EOF", "process reports success only when the input was read to its end", pos)
			} else {
				a.bad("FL-suffix-once", "process/success-only-at-EOF", "process returns nil although the scan stopped with an error other than EOF ("+litsString(p)+"): the input behind the returned remainder is never copied, yet the program exits 0", pos)
			}
		}
		emptyS, haveLen := p.lit("(len(" + suffix + ") == 0)")
		switch {
		case !haveLen && len(writes) == 1 && len(writes[0].Val.Args) == 2 && writes[0].Val.Args[1].String() == suffix:
			a.ok("FL-suffix-once", "process/final", "the last remainder is written once", pos)
		case haveLen && emptyS && len(writes) == 0:
			a.ok("FL-suffix-once", "process/final-empty", "an empty remainder is not written", pos)
		case haveLen && !emptyS && len(writes) == 1 && len(writes[0].Val.Args) == 2 && writes[0].Val.Args[1].String() == suffix:
			a.ok("FL-suffix-once", "process/final", "the last remainder is written once", pos)
		default:
			a.bad("FL-suffix-once", "process/final", fmt.Sprintf("when the loop ends the remainder must be written exactly once if non-empty (writes=%d, empty-test=%v/%v) on %s", len(writes), haveLen, emptyS, litsString(p)), pos)
		}
	}
	// FL-unbuffered: no bufio.Writer anywhere in internal, and Main's out
	nbuf := 0
	for _, f := range c.L.SrcFuncs("internal") {
		for _, b := range f.Blocks {
			for _, in := range b.Instrs {
				if call, ok := in.(ssa.CallInstruction); ok {
					if cal := call.Common().StaticCallee(); cal != nil && cal.Pkg != nil && cal.Pkg.Pkg.Path() == "bufio" && strings.HasPrefix(cal.Name(), "NewWriter") {
						nbuf++
						a.bad("FL-unbuffered", funcKey(f)+"/bufio.NewWriter", "output is wrapped in a buffered writer: complete lines can be withheld while the input blocks", in.Pos())
					}
				}
			}
		}
	}
	if nbuf == 0 {
		a.ok("FL-unbuffered", "internal/no-bufio-writer", "no buffered writer is created in package internal", fn.Pos())
	}
	if m := c.L.Func("internal", "", "Main"); m != nil {
		// the out passed to process is os.Stdout / Stderr / a colorable wrapper
		for _, b := range m.Blocks {
			for _, in := range b.Instrs {
				call, ok := in.(*ssa.Call)
				if !ok || call.Call.StaticCallee() != fn {
					continue
				}
				okOut, desc := flOutOrigin(call.Call.Args[1], map[ssa.Value]bool{})
				if okOut {
					a.ok("FL-unbuffered", "Main/out", "process writes to "+desc, in.Pos())
				} else {
					a.bad("FL-unbuffered", "Main/out", "process is given a writer that is not stdout/stderr or a colorable wrapper of them: "+desc, in.Pos())
				}
			}
		}
	}
}

// flOutOrigin checks that a writer value is os.Stdout/os.Stderr or
// colorable.NewColorableStdout/Stderr().
func flOutOrigin(v ssa.Value, seen map[ssa.Value]bool) (bool, string) {
	if seen[v] {
		return true, ""
	}
	seen[v] = true
	switch v := v.(type) {
	case *ssa.MakeInterface:
		return flOutOrigin(v.X, seen)
	case *ssa.ChangeInterface:
		return flOutOrigin(v.X, seen)
	case *ssa.Phi:
		var ds []string
		for _, e := range v.Edges {
			ok, d := flOutOrigin(e, seen)
			if !ok {
				return false, d
			}
			if d != "" {
				ds = append(ds, d)
			}
		}
		return true, strings.Join(ds, "|")
	case *ssa.UnOp:
		if v.Op == token.MUL {
			if g, ok := v.X.(*ssa.Global); ok && g.Pkg.Pkg.Path() == "os" && (g.Name() == "Stdout" || g.Name() == "Stderr") {
				return true, "os." + g.Name()
			}
			// a local variable cell: all stores
			if al, ok := v.X.(*ssa.Alloc); ok {
				var ds []string
				for _, ref := range *al.Referrers() {
					if st, ok := ref.(*ssa.Store); ok && st.Addr == al {
						ok2, d := flOutOrigin(st.Val, seen)
						if !ok2 {
							return false, d
						}
						if d != "" {
							ds = append(ds, d)
						}
					}
				}
				// closures writing the variable
				return true, strings.Join(ds, "|")
			}
		}
	case *ssa.Call:
		if f := v.Call.StaticCallee(); f != nil && f.Pkg != nil && strings.HasSuffix(f.Pkg.Pkg.Path(), "mattn/go-colorable") && (f.Name() == "NewColorableStdout" || f.Name() == "NewColorableStderr") {
			return true, "colorable." + f.Name() + "()"
		}
	}
	return false, v.String()
}

// ---------------------------------------------------------------------------

func flReader(c *Ctx, a *flAgg) {
	fill := c.MustFunc(a.obls, "FL-fill-once", "stack", "reader", "fill")
	if fill != nil {
		exprHome = fill.Pkg.Pkg
		x := &SPE{Fn: fill, MaxVisits: 4, Inline: isAccessor}
		x.Explore()
		c.stat("FL", "fill_paths", len(x.Paths))
		isRead := isInvoke("Read")
		for _, p := range x.Paths {
			pos := pathPos(p, fill)
			reads := callEvents(p, isRead)
			for i, r := range reads {
				n, e := extractOf(r.Val, 0), extractOf(r.Val, 1)
				// (a) the count is added to r.w before anything else can end the call
				acc := false
				after := false
				for _, ev := range p.Events {
					if ev.Instr == r.Instr && ev.Val == r.Val {
						after = true
						continue
					}
					if !after {
						continue
					}
					if ev.Kind == EvCall && isRead(ev.Val) {
						break
					}
					if ev.Kind == EvStore && strings.HasSuffix(ev.Addr.String(), "r.w") {
						if bo := ev.Val; bo.Op == OpBin && bo.Tok == token.ADD && (bo.Args[1].String() == n || bo.Args[0].String() == n) {
							acc = true
						}
					}
				}
				negPanic := false
				if v, ok := p.lit("(" + n + " < 0)"); ok && v && p.Term == "panic" {
					negPanic = true
				}
				// a count known to be zero adds nothing
				if v, ok := p.lit("(" + n + " == 0)"); ok && v {
					acc = true
				}
				if pos0, ok := p.lit("(0 < " + n + ")"); ok && !pos0 {
					if neg, ok2 := p.lit("(" + n + " < 0)"); ok2 && !neg {
						acc = true
					}
				}
				if acc || negPanic {
					a.ok("FL-fill-account", "fill/count-added", "every byte count returned by Read is added to the write cursor, also when an error comes with it", r.Pos)
				} else {
					a.bad("FL-fill-account", "fill/count-added", "a Read result is not added to the write cursor on the path "+litsString(p)+": data delivered together with an error (or EOF) is lost", r.Pos)
				}
				// (b) an error is recorded
				if v, ok := p.lit("(" + e + " == nil)"); ok && !v {
					stored := false
					for _, ev := range p.Events {
						if ev.Kind == EvStore && strings.HasSuffix(ev.Addr.String(), "r.err") && ev.Val.String() == e {
							stored = true
						}
					}
					if stored && p.Term == "return" {
						a.ok("FL-fill-err", "fill/error-recorded", "a reader error is recorded and ends the fill", r.Pos)
					} else {
						a.bad("FL-fill-err", "fill/error-recorded", "a reader error is not recorded in r.err", r.Pos)
					}
				}
				// (c) a second Read only after (n == 0 && err == nil)
				if i+1 < len(reads) {
					en, ok1 := p.lit("(" + e + " == nil)")
					pos0, ok2 := p.lit("(0 < " + n + ")")
					zero, ok3 := p.lit("(" + n + " == 0)")
					if ok1 && en && ((ok2 && !pos0) || (ok3 && zero)) {
						a.ok("FL-fill-once", "fill/one-read", "a further Read is attempted only after (0, nil): fill returns after the first data", r.Pos)
					} else {
						a.bad("FL-fill-once", "fill/one-read", "Read is called again although the previous call delivered data or an error: complete lines are withheld until the buffer is full ("+litsString(p)+")", r.Pos)
					}
				}
			}
			if len(reads) == 0 && p.Term == "return" {
				a.bad("FL-fill-once", "fill/no-read", "fill can return without reading and without an error: readSlice would spin", pos)
			}
			// fill returns only with data, with a recorded error, or after the
			// retry bound set io.ErrNoProgress: a return right after a Read of
			// (0, nil) hands control back to readSlice, which calls fill again
			// - for ever if the reader keeps returning (0, nil)
			if len(reads) > 0 && p.Term == "return" {
				last := reads[len(reads)-1]
				ln, le := extractOf(last.Val, 0), extractOf(last.Val, 1)
				en, ok1 := p.lit("(" + le + " == nil)")
				pos0, ok2 := p.lit("(0 < " + ln + ")")
				zero, ok3 := p.lit("(" + ln + " == 0)")
				empty := ok1 && en && ((ok2 && !pos0) || (ok3 && zero))
				undecided := ok1 && en && !ok2 && !ok3
				errStored := false
				for _, ev := range p.Events {
					if ev.Kind == EvStore && strings.HasSuffix(ev.Addr.String(), "r.err") && !ev.Val.isNilConst() {
						// the reader's own error counts only where it is known to be one
						if ev.Val.String() == le && !(ok1 && !en) {
							continue
						}
						errStored = true
					}
				}
				dataKnown := (ok2 && pos0) || (ok3 && !zero)
				if !dataKnown && !(ok1 && !en) && !errStored {
					empty = true
				}
				if (empty || undecided) && !errStored {
					a.bad("FL-fill-retry", "fill/empty-read-returns", "fill returns after a Read of (0, nil) without recording an error: readSlice calls it again at once, and a reader that keeps returning (0, nil) is polled for ever instead of ending in io.ErrNoProgress", pos)
				} else {
					a.ok("FL-fill-retry", "fill/empty-read-returns", "fill returns only with data, with the reader's error, or with io.ErrNoProgress", pos)
				}
			}
			if len(reads) == 1 && p.Term == "return" {
				a.ok("FL-fill-once", "fill/one-read", "a further Read is attempted only after (0, nil): fill returns after the first data", pos)
			}
			// slide
			if v, ok := p.lit("(0 < r.r)"); ok && v {
				okW, okR, okCopy := false, false, false
				for _, ev := range p.Events {
					if ev.Kind == EvStore && strings.HasSuffix(ev.Addr.String(), "r.w") && ev.Val.String() == "(r.w - r.r)" {
						okW = true
					}
					// w = copy(buf[:], buf[r:w]): the number of bytes moved, which is
					// w - r because the unread part fits in the buffer (RB-inv)
					if v := ev.Val; ev.Kind == EvStore && strings.HasSuffix(ev.Addr.String(), "r.w") && v.Op == OpBuiltin && v.Name == "copy" && len(v.Args) == 2 &&
						v.Args[0].String() == "r.buf[:]" && v.Args[1].String() == "r.buf[r.r:r.w]" {
						okW = true
					}
					if ev.Kind == EvStore && strings.HasSuffix(ev.Addr.String(), "r.r") {
						if z, ok := ev.Val.intConst(); ok && z == 0 {
							okR = true
						}
					}
					if ev.Kind == EvCall && ev.Val.Op == OpBuiltin && ev.Val.Name == "copy" && len(ev.Val.Args) == 2 {
						if ev.Val.Args[0].String() == "r.buf[:]" && ev.Val.Args[1].String() == "r.buf[r.r:r.w]" {
							okCopy = true
						}
					}
				}
				if okW && okR && okCopy {
					a.ok("FL-fill-slide", "fill/slide", "unread data is moved to the start: copy(buf[:], buf[r:w]); w -= r; r = 0", pos)
				} else {
					a.bad("FL-fill-slide", "fill/slide", fmt.Sprintf("the slide of unread data is not copy(buf[:], buf[r:w]); w -= r; r = 0 (copy=%v w=%v r=%v)", okCopy, okW, okR), pos)
				}
			}
			// the Read target is the free tail
			// w += n with n known to be 0 on this path leaves w where it was
			stripZero := func(v *Expr) *Expr {
				for v != nil && v.Op == OpBin && v.Tok == token.ADD && len(v.Args) == 2 {
					if pos0, ok := p.lit("(0 < " + v.Args[1].String() + ")"); ok && !pos0 {
						v = v.Args[0]
						continue
					}
					break
				}
				return v
			}
			curW := "r.w"
			for _, ev := range p.Events {
				if ev.Kind == EvStore && strings.HasSuffix(ev.Addr.String(), "r.w") {
					curW = stripZero(ev.Val).String()
				}
				if !(ev.Kind == EvCall && isRead(ev.Val)) {
					continue
				}
				r := ev
				if len(r.Val.Args) == 2 {
					arg := r.Val.Args[1]
					if arg.Op == OpSlice && strings.HasPrefix(arg.Args[0].String(), "&r.buf") && arg.Args[1] != nil && arg.Args[2] == nil && stripZero(arg.Args[1]).String() == curW {
						a.ok("FL-fill-slide", "fill/read-target", "Read fills the free tail buf[w:]", r.Pos)
					} else {
						a.bad("FL-fill-slide", "fill/read-target", "Read is not given buf[w:]: "+arg.String(), r.Pos)
					}
				}
			}
		}
	}
	if fill != nil {
		// the retry bound for empty reads: at least bufio's 100 attempts
		att := int64(-1)
		for _, l := range naturalLoops(fill) {
			for _, in := range l.Header.Instrs {
				phi, ok := in.(*ssa.Phi)
				if !ok {
					break
				}
				var initV, stepV ssa.Value
				for i, e := range phi.Edges {
					if l.Body[phi.Block().Preds[i]] {
						stepV = e
					} else {
						initV = e
					}
				}
				i0, ok1 := bnConst(initV)
				bo, ok2 := stepV.(*ssa.BinOp)
				ifi, ok3 := l.Header.Instrs[len(l.Header.Instrs)-1].(*ssa.If)
				if !ok1 || !ok2 || !ok3 || bo.X != ssa.Value(phi) {
					continue
				}
				st, ok4 := bnConst(bo.Y)
				cond, ok5 := ifi.Cond.(*ssa.BinOp)
				if !ok4 || !ok5 || cond.X != ssa.Value(phi) {
					continue
				}
				bound, ok6 := bnConst(cond.Y)
				if !ok6 || st == 0 {
					continue
				}
				if bo.Op == token.SUB {
					st = -st
				}
				// count iterations
				n := int64(0)
				for v := i0; n < 100000; v += st {
					holds := false
					switch cond.Op {
					case token.GTR:
						holds = v > bound
					case token.GEQ:
						holds = v >= bound
					case token.LSS:
						holds = v < bound
					case token.LEQ:
						holds = v <= bound
					case token.NEQ:
						holds = v != bound
					}
					if !holds {
						break
					}
					n++
				}
				att = n
				// when the attempts are used up, fill records an error before it
				// returns: otherwise readSlice, finding no newline, no error and
				// room in the buffer, calls fill again - for ever
				for _, ex := range l.Header.Succs {
					if l.Body[ex] {
						continue
					}
					seg := &SPE{Fn: fill, Start: ex, MaxVisits: 2}
					seg.Explore()
					for _, p := range seg.Paths {
						if p.Term != "return" {
							continue
						}
						stored := false
						for _, ev := range p.Events {
							if ev.Kind == EvStore && strings.HasSuffix(ev.Addr.String(), ".err") && !ev.Val.isNilConst() {
								stored = true
							}
						}
						if stored {
							a.ok("FL-fill-retry", "fill/gives-up-with-error", "when the attempts are used up fill records an error (io.ErrNoProgress)", pathPos(p, fill))
						} else {
							a.bad("FL-fill-retry", "fill/gives-up-with-error", "when the attempts are used up fill returns without recording an error: readSlice calls it again at once and a reader that keeps returning (0, nil) is polled for ever", pathPos(p, fill))
						}
					}
				}
			}
		}
		switch {
		case att < 0:
			a.und("FL-fill-retry", "fill/attempts", "the retry loop of fill is not a constant counted loop", fill.Pos())
		case att >= 100:
			a.ok("FL-fill-retry", "fill/attempts", fmt.Sprintf("a reader may return (0, nil) %d times in a row before io.ErrNoProgress (bufio's contract: 100)", att-1), fill.Pos())
		default:
			a.bad("FL-fill-retry", "fill/attempts", fmt.Sprintf("fill gives up after %d Read attempts; the documented tolerance for empty reads (bufio: 100 attempts) is not met, so a delivery with %d consecutive zero-length reads fails", att, att), fill.Pos())
		}
	}
	rs := c.MustFunc(a.obls, "FL-fill-guard", "stack", "reader", "readSlice")
	if rs != nil && fill != nil {
		// who may call fill: only the guarded refill point of readSlice (or a
		// helper outside the pinned vocabulary, which the exploration of
		// readSlice looks through). A second refill site - "top the buffer up
		// before searching again" - waits for input although complete lines
		// may already be buffered.
		nSites := 0
		for _, f := range c.L.SrcFuncs("stack") {
			for _, b := range f.Blocks {
				for _, in := range b.Instrs {
					ci, ok := in.(ssa.CallInstruction)
					if !ok || ci.Common().StaticCallee() != fill {
						continue
					}
					nSites++
					if coveredBy(f, rs, map[*ssa.Function]bool{}) {
						a.ok("FL-fill-guard", "fill/callers", "fill is called only from readSlice's refill point", in.Pos())
					} else {
						a.bad("FL-fill-guard", "fill/callers", "fill is also called from "+funcKey(f)+", outside the guarded refill point of readSlice (no failed newline search, pending-error and buffer-full test before it): the reader can block for more input while complete lines are buffered", in.Pos())
					}
				}
			}
		}
		if nSites == 0 {
			a.und("FL-fill-guard", "fill/callers", "fill is never called", fill.Pos())
		}
	}
	if rs != nil {
		exprHome = rs.Pkg.Pkg
		x := &SPE{Fn: rs, MaxVisits: 3, Inline: isAccessor}
		x.Explore()
		c.stat("FL", "readSlice_paths", len(x.Paths))
		isFill := isCallTo(stackPkg, "(*reader).fill")
		for _, p := range x.Paths {
			// walk events in order, tracking the literals seen since the last fill
			var since []Event
			for _, ev := range p.Events {
				if ev.Kind == EvCall && isFill(ev.Val) {
					nl, full, errNil := false, false, false
					haveNl, haveFull, haveErr := false, false, false
					for _, s := range since {
						if s.Kind != EvLits {
							continue
						}
						as := s.Val.String()
						switch {
						case strings.Contains(as, "bytes.IndexByte(") && strings.Contains(as, "< 0)"):
							nl, haveNl = !s.Pol, true // atom: IndexByte < 0
						case strings.HasSuffix(as, ".err == nil)") || strings.Contains(as, "r.err") && strings.HasSuffix(as, "== nil)"):
							errNil, haveErr = s.Pol, true
						case flFullAtom(as) != 0:
							full, haveFull = s.Pol == (flFullAtom(as) > 0), true
						}
					}
					if haveNl && !nl && haveErr && errNil && haveFull && !full {
						a.ok("FL-fill-guard", "readSlice/fill", "fill is reached only when no newline is buffered, no error is pending and the buffer is not full", ev.Pos)
					} else {
						a.bad("FL-fill-guard", "readSlice/fill", fmt.Sprintf("fill is reached without all of: newline search failed (%v/%v), no pending error (%v/%v), buffer not full (%v/%v)", haveNl, !nl, haveErr, errNil, haveFull, !full), ev.Pos)
					}
					since = nil
					continue
				}
				since = append(since, ev)
			}
			if p.Term != "return" || len(p.Results) != 2 {
				continue
			}
			pos := pathPos(p, rs)
			res, rerr := p.Results[0], p.Results[1]
			// last newline search on the path
			found, haveSearch := false, false
			var searchAtom *Expr
			for _, lt := range p.Lits {
				as := lt.Atom.String()
				if strings.Contains(as, "bytes.IndexByte(") && strings.HasSuffix(as, "< 0)") {
					found, haveSearch = !lt.Pol, true
					searchAtom = lt.Atom
				}
			}
			switch {
			case rerr.isNilConst():
				// a complete line: must follow a successful search, and be buf[r : r+i+1] with r advanced by i+1
				if !(haveSearch && found) {
					a.bad("FL-line-shape", "readSlice/line", "a line is returned without a successful newline search", pos)
					break
				}
				a.ok("FL-line-shape", "readSlice/line-after-search", "a line is returned only after its newline was found", pos)
				m := flLineShape(p, res, searchAtom)
				if m == "" {
					a.ok("FL-line-shape", "readSlice/line", "the line is buf[r : r+s+i+1] (i from the search in buf[r+s:w]) and r advances by the same amount", pos)
				} else {
					a.bad("FL-line-shape", "readSlice/line", m, pos)
				}
			case strings.HasSuffix(rerr.String(), "errBufferFull"):
				fullLit := false
				for _, lt := range p.Lits {
					as := lt.Atom.String()
					if k := flFullAtom(as); k != 0 && lt.Pol == (k > 0) {
						fullLit = true
					}
				}
				okRes := res.Op == OpSlice && res.Args[1] == nil && res.Args[2] == nil && strings.HasPrefix(res.Args[0].String(), "&r.buf")
				okAdv := false
				for _, ev := range p.Events {
					if ev.Kind == EvStore && strings.HasSuffix(ev.Addr.String(), "r.r") && isWCursor(ev.Val) {
						okAdv = true
					}
				}
				if haveSearch && !found && fullLit && okRes && okAdv {
					a.ok("FL-line-shape", "readSlice/buffer-full", "a full buffer without newline is handed out whole and marked consumed", pos)
				} else {
					a.bad("FL-line-shape", "readSlice/buffer-full", fmt.Sprintf("buffer-full return: search failed=%v full-test=%v whole-buffer=%v consumed=%v", haveSearch && !found, fullLit, okRes, okAdv), pos)
				}
			default:
				// the pending error: only after the newline search failed, with the rest of the buffer, error cleared
				okRes := res.Op == OpSlice && strings.HasPrefix(res.Args[0].String(), "&r.buf") && res.Args[1] != nil && res.Args[2] != nil && isRCursor(res.Args[1]) && isWCursor(res.Args[2])
				cleared, adv := false, false
				for _, ev := range p.Events {
					if ev.Kind == EvStore && strings.HasSuffix(ev.Addr.String(), "r.err") && ev.Val.isNilConst() {
						cleared = true
					}
					if ev.Kind == EvStore && strings.HasSuffix(ev.Addr.String(), "r.r") && isWCursor(ev.Val) {
						adv = true
					}
				}
				if haveSearch && !found && okRes && cleared && adv {
					a.ok("FL-err-after-data", "readSlice/error", "a reader error is reported only after every buffered complete line was handed out, together with the unterminated rest, once", pos)
				} else {
					a.bad("FL-err-after-data", "readSlice/error", fmt.Sprintf("error return: after failed newline search=%v rest buf[r:w]=%v error cleared=%v consumed=%v: buffered complete lines would be merged into one or the error reported early/twice", haveSearch && !found, okRes, cleared, adv), pos)
				}
			}
		}
	}
	rl := c.MustFunc(a.obls, "FL-chunk-once", "stack", "reader", "readLine")
	if rl != nil {
		exprHome = rl.Pkg.Pkg
		x := &SPE{Fn: rl, MaxVisits: 3, Inline: isAccessor}
		x.Explore()
		c.stat("FL", "readLine_paths", len(x.Paths))
		isRS := isCallTo(stackPkg, "(*reader).readSlice")
		for _, p := range x.Paths {
			if p.Term != "return" || len(p.Results) != 2 {
				continue
			}
			pos := pathPos(p, rl)
			calls := callEvents(p, isRS)
			// expected: result = chunk_0 ++ chunk_1 ++ ... in order, each once; error of the last call
			var want []string
			for _, cl := range calls {
				want = append(want, extractOf(cl.Val, 0))
			}
			base, parts := appendChain(p.Results[0])
			var got []string
			if len(parts) == 0 {
				got = []string{p.Results[0].String()}
			} else {
				if !(isFreshEmpty(base) || base.Op == OpMakeSlice) {
					got = append(got, base.String())
				}
				for _, q := range parts {
					got = append(got, q.String())
				}
			}
			lastErr := ""
			if len(calls) > 0 {
				lastErr = extractOf(calls[len(calls)-1].Val, 1)
			}
			// every chunk but the last must have been a buffer-full one
			okFull := true
			for i, cl := range calls {
				e := extractOf(cl.Val, 1)
				v, ok := false, false
				for _, lt := range p.Lits {
					as := lt.Atom.String()
					if strings.Contains(as, e) && strings.Contains(as, "errBufferFull") {
						v, ok = lt.Pol, true
					}
				}
				if i < len(calls)-1 && !(ok && v) {
					okFull = false
				}
				if i == len(calls)-1 && !(ok && !v) {
					okFull = false
				}
			}
			if strings.Join(got, "|") == strings.Join(want, "|") && p.Results[1].String() == lastErr && okFull && len(calls) > 0 {
				a.ok("FL-chunk-once", "readLine/concat", "the result is the concatenation, in order, of every chunk exactly once; continuation only on buffer-full; the last chunk's error is returned", pos)
			} else {
				a.bad("FL-chunk-once", "readLine/concat", fmt.Sprintf("result %v (err %s) is not the in-order concatenation of the chunks %v with the last error %s", got, p.Results[1].String(), want, lastErr), pos)
			}
			// the first chunk, if it continues, must be copied (the buffer is reused)
			if len(calls) > 1 && !(isFreshEmpty(base) || (base != nil && base.Op == OpSlice && freshLen(base) == 0) || (base != nil && base.Op == OpMakeSlice)) {
				a.bad("FL-chunk-once", "readLine/copy", "a continued line starts with a slice of the reused buffer", pos)
			}
		}
	}
}

// a cursor, also when it is written as a sum that reduces to it (r.r + (r.w - r.r))
func isWCursor(e *Expr) bool { return isCursor(e, "r.w") }
func isRCursor(e *Expr) bool { return isCursor(e, "r.r") }

func isCursor(e *Expr, name string) bool {
	if e == nil {
		return false
	}
	if s := e.String(); s == name || strings.HasPrefix(s, name+"@") {
		return true
	}
	l := e.linear()
	if l == "+1*"+name+" +0" {
		return true
	}
	// versioned cells: +1*r.w@2 +0
	if strings.HasPrefix(l, "+1*"+name+"@") && strings.HasSuffix(l, " +0") && strings.Count(l, "*") == 1 {
		return true
	}
	return false
}

// flLineShape checks the found-newline return of readSlice:
//   i := IndexByte(buf[r+s:w], '\n'); line = buf[r : r+(i+s)+1]; r += (i+s)+1
func flLineShape(p *Path, res *Expr, searchAtom *Expr) string {
	// the search expression
	var call *Expr
	searchAtom.walk(func(x *Expr) bool {
		if x.calleeIs("bytes", "IndexByte") {
			call = x
			return false
		}
		return true
	})
	if call == nil || len(call.Args) != 3 {
		return "newline search not recognised"
	}
	subj := call.Args[1]
	if nl, ok := call.Args[2].intConst(); !ok || nl != '\n' {
		return "the search is not for '\\n'"
	}
	if subj.Op != OpSlice || !strings.HasPrefix(subj.Args[0].String(), "&r.buf") || subj.Args[1] == nil || subj.Args[2] == nil || !isWCursor(subj.Args[2]) {
		return "the newline search does not cover buf[r+s : w]: " + subj.String()
	}
	lo := subj.Args[1] // r + s  (s may be folded to 0 on the first round)
	var sExpr string
	switch {
	case isRCursor(lo):
		sExpr = "0"
	case lo.Op == OpBin && lo.Tok == token.ADD && isRCursor(lo.Args[0]):
		sExpr = lo.Args[1].String()
	default:
		return "the search does not start at r+s: " + lo.String()
	}
	// expected end = r + (i + s) + 1, compared as canonical sums
	rcurE := lo
	if sExpr != "0" {
		rcurE = lo.Args[0]
	}
	one := mkConstInt(1, nil)
	var iPlusS *Expr = call
	if sExpr != "0" {
		iPlusS = &Expr{Op: OpBin, Tok: token.ADD, Args: []*Expr{call, lo.Args[1]}}
	}
	want := (&Expr{Op: OpBin, Tok: token.ADD, Args: []*Expr{&Expr{Op: OpBin, Tok: token.ADD, Args: []*Expr{rcurE, iPlusS}}, one}}).linear()
	if res.Op != OpSlice || !strings.HasPrefix(res.Args[0].String(), "&r.buf") || res.Args[1] == nil || res.Args[2] == nil {
		return "the returned line is not a slice of the buffer: " + res.String()
	}
	if res.Args[1].linear() != rcurE.linear() || res.Args[2].linear() != want {
		return "the returned line is " + res.String() + ", expected buf[r : r+s+i+1] with i the result of the newline search in buf[r+s:w]"
	}
	adv := false
	for _, ev := range p.Events {
		if ev.Kind == EvStore && strings.HasSuffix(ev.Addr.String(), "r.r") && ev.Val.linear() == want {
			adv = true
		}
	}
	if !adv {
		return "the read cursor is not advanced to the end of the returned line (r + s + i + 1)"
	}
	return ""
}
