package main

// BN / PN / LP — crash and hang obligations (DESIGN.md §3.10).

import (
	"fmt"
	"go/ast"
	"go/constant"
	"go/token"
	"go/types"
	"math"
	"strings"

	"golang.org/x/tools/go/ssa"
)

func init() {
	register(&Engine{Name: "BN", Doc: "bounds, panics, loops", Run: runBN})
}

const bnUnk = math.MinInt64

// bnTop: "no constraint from this edge" (a phi that is being evaluated and has no hypothesis yet)
const bnTop = math.MaxInt64 / 4

var bnSearchFns = map[string]bool{
	"strings.IndexByte": true, "strings.LastIndexByte": true, "strings.Index": true, "strings.LastIndex": true, "strings.IndexRune": true, "strings.IndexAny": true,
	"bytes.IndexByte": true, "bytes.Index": true, "bytes.LastIndexByte": true, "bytes.LastIndex": true, "bytes.IndexAny": true, "bytes.IndexRune": true,
}

func bnCallee(v ssa.Value) string {
	if c, ok := v.(*ssa.Call); ok {
		if f := c.Call.StaticCallee(); f != nil {
			return calleePkg(f) + "." + f.Name()
		}
		if b, ok := c.Call.Value.(*ssa.Builtin); ok {
			return "builtin." + b.Name()
		}
	}
	return ""
}

// bnInScope: the operand reaches (through phis/conversions) an ADD/SUB or a search call.
func bnInScope(v ssa.Value, seen map[ssa.Value]bool) bool {
	if seen[v] {
		return false
	}
	seen[v] = true
	switch v := v.(type) {
	case *ssa.BinOp:
		return v.Op == token.ADD || v.Op == token.SUB
	case *ssa.Phi:
		if v.Comment == "rangeindex" {
			return false
		}
		for _, e := range v.Edges {
			if bnInScope(e, seen) {
				return true
			}
		}
	case *ssa.Call:
		return bnSearchFns[bnCallee(v)]
	case *ssa.Convert:
		return bnInScope(v.X, seen)
	}
	return false
}

type bnAn struct {
	c      *Ctx
	fn     *ssa.Function
	assume map[ssa.Value]int64 // hypothesis for phis under evaluation (coinductive)
	assumeHi map[ssa.Value]int64
	hiBusy   map[ssa.Value]bool
	dead     map[*ssa.BasicBlock]bool
	lenBusy  map[*ssa.Phi]bool
}

func dominatesEdge(d *ssa.BasicBlock, succ int, b *ssa.BasicBlock) bool {
	s := d.Succs[succ]
	if len(s.Preds) != 1 {
		return false
	}
	return s.Dominates(b)
}

func bnConst(v ssa.Value) (int64, bool) {
	if c, ok := v.(*ssa.Const); ok && c.Value != nil && c.Value.Kind() == constant.Int {
		i, ok := constant.Int64Val(c.Value)
		return i, ok
	}
	// a parameter of a closed function that every caller binds to one constant
	if pv, ok := v.(*ssa.Parameter); ok {
		if k, ok := constParam(pv); ok && k.Value.Kind() == constant.Int {
			i, ok := constant.Int64Val(k.Value)
			return i, ok
		}
	}
	// arithmetic on constants that go/ssa does not fold (a local initialised
	// with a constant is a variable to the type checker)
	if bo, ok := v.(*ssa.BinOp); ok {
		x, okx := bnConst(bo.X)
		y, oky := bnConst(bo.Y)
		if okx && oky {
			switch bo.Op {
			case token.ADD:
				return x + y, true
			case token.SUB:
				return x - y, true
			case token.MUL:
				return x * y, true
			}
		}
	}
	return 0, false
}

// noWriteBetween: two loads of the same address count as the same value only
// when no store to a field of that name and no call outside the read-only
// table lies between them (same block, or the first dominating the second
// with nothing in between on the dominator chain is approximated by "same
// function has no store to that field at all").
func (a *bnAn) fieldNeverStoredBetween(x, y *ssa.UnOp) bool {
	fx, ok1 := x.X.(*ssa.FieldAddr)
	fy, ok2 := y.X.(*ssa.FieldAddr)
	if !ok1 || !ok2 || fx.Field != fy.Field {
		return false
	}
	name := addrLast(fx)
	if x.Block() == y.Block() {
		lo, hi := -1, -1
		for i, in := range x.Block().Instrs {
			if in == ssa.Instruction(x) {
				lo = i
			}
			if in == ssa.Instruction(y) {
				hi = i
			}
		}
		if lo > hi {
			lo, hi = hi, lo
		}
		for _, in := range x.Block().Instrs[lo:hi] {
			if !a.harmless(in, name) {
				return false
			}
		}
		return true
	}
	// different blocks: x's block must dominate y's; every instruction on a path
	// from x to y must be harmless
	first, second := x, y
	if !first.Block().Dominates(second.Block()) {
		first, second = y, x
		if !first.Block().Dominates(second.Block()) {
			return false
		}
	}
	// blocks that can reach second's block
	reach := map[*ssa.BasicBlock]bool{}
	var back func(b *ssa.BasicBlock)
	back = func(b *ssa.BasicBlock) {
		if reach[b] {
			return
		}
		reach[b] = true
		if b == first.Block() {
			return
		}
		for _, p := range b.Preds {
			back(p)
		}
	}
	back(second.Block())
	for b := range reach {
		if !first.Block().Dominates(b) {
			continue
		}
		for _, in := range b.Instrs {
			if b == first.Block() {
				// only what follows the first load
				after := false
				for _, i2 := range b.Instrs {
					if i2 == ssa.Instruction(first) {
						after = true
						continue
					}
					if after && !a.harmless(i2, name) {
						return false
					}
				}
				break
			}
			if b == second.Block() {
				for _, i2 := range b.Instrs {
					if i2 == ssa.Instruction(second) {
						break
					}
					if !a.harmless(i2, name) {
						return false
					}
				}
				break
			}
			if !a.harmless(in, name) {
				return false
			}
		}
	}
	return true
}

func (a *bnAn) harmless(in ssa.Instruction, field string) bool {
	switch in := in.(type) {
	case *ssa.Store:
		if fa, ok := in.Addr.(*ssa.FieldAddr); ok && addrLast(fa) == field {
			return false
		}
		if _, ok := in.Addr.(*ssa.FieldAddr); !ok {
			if _, isAlloc := in.Addr.(*ssa.Alloc); !isAlloc {
				if _, isIdx := in.Addr.(*ssa.IndexAddr); !isIdx {
					return false
				}
			}
		}
	case ssa.CallInstruction:
		if _, isB := in.Common().Value.(*ssa.Builtin); isB {
			return true
		}
		cal := in.Common().StaticCallee()
		if cal == nil {
			return false
		}
		if !globalPurity.isPure(cal) {
			return false
		}
	}
	return true
}

func (a *bnAn) sameVal(x, y ssa.Value) bool {
	if x == y {
		return true
	}
	lx, ok1 := x.(*ssa.UnOp)
	ly, ok2 := y.(*ssa.UnOp)
	if ok1 && ok2 && lx.Op == token.MUL && ly.Op == token.MUL {
		if lx.X == ly.X {
			return true
		}
		return a.sameAddr(lx.X, ly.X) && a.fieldNeverStoredBetween(lx, ly)
	}
	cx, ok1 := x.(*ssa.Call)
	cy, ok2 := y.(*ssa.Call)
	if ok1 && ok2 && bnCallee(cx) == "builtin.len" && bnCallee(cy) == "builtin.len" {
		return a.sameVal(cx.Call.Args[0], cy.Call.Args[0])
	}
	return false
}

func (a *bnAn) sameAddr(x, y ssa.Value) bool {
	if x == y {
		return true
	}
	fx, ok1 := x.(*ssa.FieldAddr)
	fy, ok2 := y.(*ssa.FieldAddr)
	if ok1 && ok2 && fx.Field == fy.Field {
		return a.sameAddr(fx.X, fy.X) || a.sameVal(fx.X, fy.X)
	}
	return false
}

func bnLenOf(v ssa.Value) ssa.Value {
	if c, ok := v.(*ssa.Call); ok && bnCallee(c) == "builtin.len" {
		return c.Call.Args[0]
	}
	return nil
}

// guards calls f for every dominating branch condition that holds at block
// `at`, with its truth value.
func guards(at *ssa.BasicBlock, f func(cond ssa.Value, truth bool, where *ssa.BasicBlock)) {
	for d := at; d != nil && d.Idom() != nil; d = d.Idom() {
		dd := d.Idom()
		ifi, ok := dd.Instrs[len(dd.Instrs)-1].(*ssa.If)
		if !ok {
			continue
		}
		for succ := 0; succ < 2; succ++ {
			if dominatesEdge(dd, succ, at) {
				f(ifi.Cond, succ == 0, dd)
			}
		}
	}
}

func flipOp(op token.Token) token.Token {
	switch op {
	case token.LSS:
		return token.GTR
	case token.GTR:
		return token.LSS
	case token.LEQ:
		return token.GEQ
	case token.GEQ:
		return token.LEQ
	}
	return op
}

func negOp(op token.Token) token.Token {
	switch op {
	case token.EQL:
		return token.NEQ
	case token.NEQ:
		return token.EQL
	case token.LSS:
		return token.GEQ
	case token.GEQ:
		return token.LSS
	case token.GTR:
		return token.LEQ
	case token.LEQ:
		return token.GTR
	}
	return op
}

// lo computes a lower bound of v valid at block at.
func (a *bnAn) lo(v ssa.Value, at *ssa.BasicBlock, depth int, stack map[ssa.Value]bool) int64 {
	if depth > 14 {
		return bnUnk
	}
	base := a.lo0(v, at, depth, stack)
	if base >= bnTop/2 {
		// only a dominating guard on v itself can give a real bound
		best := int64(bnTop)
		guards(at, func(cond ssa.Value, truth bool, where *ssa.BasicBlock) {
			bo, ok := cond.(*ssa.BinOp)
			if !ok {
				return
			}
			x, y, op := bo.X, bo.Y, bo.Op
			if a.sameVal(y, v) && !a.sameVal(x, v) {
				x, y = y, x
				op = flipOp(op)
			}
			if !a.sameVal(x, v) {
				return
			}
			if !truth {
				op = negOp(op)
			}
			if c, isc := bnConst(y); isc {
				switch op {
				case token.GEQ, token.EQL:
					if c < best {
						best = c
					}
				case token.GTR:
					if c+1 < best {
						best = c + 1
					}
				}
			}
		})
		return best
	}
	guards(at, func(cond ssa.Value, truth bool, where *ssa.BasicBlock) {
		bo, ok := cond.(*ssa.BinOp)
		if !ok {
			return
		}
		x, y, op := bo.X, bo.Y, bo.Op
		if a.sameVal(y, v) && !a.sameVal(x, v) {
			x, y = y, x
			op = flipOp(op)
		}
		if !a.sameVal(x, v) {
			return
		}
		if !truth {
			op = negOp(op)
		}
		ylo := a.lo0(y, where, depth+1, stack)
		c, isc := bnConst(y)
		switch op {
		case token.NEQ:
			if isc && base != bnUnk && c == base {
				base++
			}
		case token.GTR:
			if ylo != bnUnk && ylo+1 > base {
				base = ylo + 1
			}
		case token.GEQ:
			if ylo != bnUnk && ylo > base {
				base = ylo
			}
		case token.EQL:
			if isc && c > base {
				base = c
			}
		}
	})
	return base
}

// resultLo: a lower bound of result idx of a call to a module function: the
// minimum over the callee's return sites (nothing is assumed about its
// parameters).
func (a *bnAn) resultLo(call *ssa.Call, idx int, depth int) (int64, bool) {
	cal := call.Call.StaticCallee()
	if cal == nil || cal.Blocks == nil || cal.Pkg == nil || !strings.HasPrefix(cal.Pkg.Pkg.Path(), modPath) || depth > 6 || cal == a.fn {
		return 0, false
	}
	sub := &bnAn{c: a.c, fn: cal}
	best := int64(bnTop)
	n := 0
	for _, b := range cal.Blocks {
		ret, ok := b.Instrs[len(b.Instrs)-1].(*ssa.Return)
		if !ok || idx >= len(ret.Results) {
			continue
		}
		if !isIntType(ret.Results[idx].Type()) {
			return 0, false
		}
		n++
		l := sub.lo(ret.Results[idx], b, depth+4, map[ssa.Value]bool{})
		if l == bnUnk {
			return 0, false
		}
		if l < best {
			best = l
		}
	}
	if n == 0 || best >= bnTop/2 {
		return 0, false
	}
	return best, true
}

func (a *bnAn) lo0(v ssa.Value, at *ssa.BasicBlock, depth int, stack map[ssa.Value]bool) int64 {
	if c, ok := bnConst(v); ok {
		return c
	}
	if stack[v] {
		if a.assume != nil {
			if l, ok := a.assume[v]; ok {
				return l
			}
		}
		if _, isPhi := v.(*ssa.Phi); isPhi {
			return bnTop
		}
		return bnUnk
	}
	if bt, ok := v.Type().Underlying().(*types.Basic); ok && bt.Info()&types.IsUnsigned != 0 {
		return 0
	}
	switch v := v.(type) {
	case *ssa.Parameter:
		// the minimum over what the callers pass (closed functions only)
		if args, sites, ok := paramArgs(v); ok && depth < 6 && isIntType(v.Type()) {
			best := int64(bnTop)
			for i, arg := range args {
				in, isIn := sites[i].(ssa.Instruction)
				if !isIn || in.Block() == nil {
					return bnUnk
				}
				sub := &bnAn{c: a.c, fn: in.Parent()}
				l := sub.lo(arg, in.Block(), depth+3, map[ssa.Value]bool{})
				if l == bnUnk {
					return bnUnk
				}
				if l < best {
					best = l
				}
			}
			if best < bnTop/2 {
				return best
			}
		}
	case *ssa.Extract:
		if call, ok := v.Tuple.(*ssa.Call); ok {
			if l, ok := a.resultLo(call, v.Index, depth); ok {
				return l
			}
		}
	case *ssa.Call:
		n := bnCallee(v)
		switch {
		case n == "builtin.len" || n == "builtin.cap":
			return a.lenLo(v.Call.Args[0], at, v)
		case bnSearchFns[n]:
			return -1
		case n == "strings.Count" || n == "bytes.Count":
			return 0
		case (n == "builtin.min" || n == "builtin.max") && len(v.Call.Args) >= 1:
			res := int64(bnUnk)
			for i, arg := range v.Call.Args {
				l := a.lo(arg, at, depth+1, stack)
				if n == "builtin.min" {
					if l == bnUnk {
						return bnUnk
					}
					if i == 0 || l < res {
						res = l
					}
				} else if l != bnUnk && (res == bnUnk || l > res) {
					res = l
				}
			}
			return res
		}
		if l, ok := a.resultLo(v, 0, depth); ok {
			return l
		}
	case *ssa.Convert:
		return a.lo(v.X, at, depth+1, stack)
	case *ssa.BinOp:
		switch v.Op {
		case token.ADD:
			x, y := a.lo(v.X, at, depth+1, stack), a.lo(v.Y, at, depth+1, stack)
			if x >= bnTop/2 || y >= bnTop/2 {
				if x != bnUnk && y != bnUnk {
					return bnTop
				}
			}
			if x != bnUnk && y != bnUnk {
				return x + y
			}
		case token.SUB:
			// affix facts first
			if S, P := bnLenOf(v.X), bnLenOf(v.Y); S != nil && P != nil && a.hasAffix(S, P, at) {
				return 0
			}
			if S := bnLenOf(v.X); S != nil {
				if c, ok := bnConst(v.Y); ok && a.hasAffixConstLen(S, c, at) {
					return 0
				}
			}
			// idx - c under HasSuffix/HasPrefix(x[:idx], P) with len(P) >= c:
			// the tested value has length idx
			if c, ok := bnConst(v.Y); ok {
				found := false
				guards(at, func(cond ssa.Value, truth bool, where *ssa.BasicBlock) {
					cl, ok := cond.(*ssa.Call)
					if !ok || !truth || len(cl.Call.Args) != 2 {
						return
					}
					nm := bnCallee(cl)
					if !(strings.HasSuffix(nm, ".HasPrefix") || strings.HasSuffix(nm, ".HasSuffix")) {
						return
					}
					sl, ok := cl.Call.Args[0].(*ssa.Slice)
					if !ok || sl.High == nil || !a.sameVal(sl.High, v.X) {
						return
					}
					if sl.Low != nil {
						if z, isC := bnConst(sl.Low); !isC || z != 0 {
							return
						}
					}
					if p, ok := cl.Call.Args[1].(*ssa.Const); ok && p.Value != nil && p.Value.Kind() == constant.String && int64(len(constant.StringVal(p.Value))) >= c {
						found = true
					}
				})
				if found {
					return 0
				}
			}
			if c, ok := bnConst(v.Y); ok {
				x := a.lo(v.X, at, depth+1, stack)
				if x >= bnTop/2 {
					return bnTop
				}
				if x != bnUnk {
					return x - c
				}
			}
			// j - i with a dominating guard i < j or i <= j
			res := int64(bnUnk)
			guards(at, func(cond ssa.Value, truth bool, where *ssa.BasicBlock) {
				bo, ok := cond.(*ssa.BinOp)
				if !ok {
					return
				}
				x, y, op := bo.X, bo.Y, bo.Op
				if !truth {
					op = negOp(op)
				}
				// x op y ; want  v.Y < v.X  or v.Y <= v.X
				if a.sameVal(x, v.Y) && a.sameVal(y, v.X) {
					if op == token.LSS {
						res = 1
					} else if op == token.LEQ && res < 0 {
						res = 0
					}
				}
				if a.sameVal(x, v.X) && a.sameVal(y, v.Y) {
					if op == token.GTR {
						res = 1
					} else if op == token.GEQ && res < 0 {
						res = 0
					}
				}
			})
			if res != bnUnk {
				return res
			}
			// general form: (P+p) - (Q+q) under a dominating  Q+l < P+r  (or <=),
			// where the right side may also be (P+r)/k, k >= 1, P >= 0
			decomp := func(v ssa.Value) (ssa.Value, int64) {
				if b, ok := v.(*ssa.BinOp); ok && (b.Op == token.ADD || b.Op == token.SUB) {
					if c, ok := bnConst(b.Y); ok {
						if b.Op == token.SUB {
							c = -c
						}
						return b.X, c
					}
				}
				return v, 0
			}
			P, pp := decomp(v.X)
			Q, qq := decomp(v.Y)
			best := int64(bnUnk)
			guards(at, func(cond ssa.Value, truth bool, where *ssa.BasicBlock) {
				bo, ok := cond.(*ssa.BinOp)
				if !ok {
					return
				}
				L, R, op := bo.X, bo.Y, bo.Op
				if !truth {
					op = negOp(op)
				}
				switch op {
				case token.GTR:
					L, R, op = R, L, token.LSS
				case token.GEQ:
					L, R, op = R, L, token.LEQ
				}
				if op != token.LSS && op != token.LEQ {
					return
				}
				if q, ok := R.(*ssa.BinOp); ok && q.Op == token.QUO {
					if k, ok := bnConst(q.Y); ok && k >= 1 {
						if l := a.lo(q.X, where, depth+1, stack); l != bnUnk && l >= 0 {
							R = q.X // R/k <= R for R >= 0
						}
					}
				}
				Lb, l := decomp(L)
				Rb, r := decomp(R)
				if !(Lb == Q || a.sameVal(Lb, Q)) || !(Rb == P || a.sameVal(Rb, P)) {
					return
				}
				d := pp - qq - r + l
				if op == token.LSS {
					d++
				}
				if best == bnUnk || d > best {
					best = d
				}
			})
			if best != bnUnk {
				return best
			}
		case token.MUL:
			x, y := a.lo(v.X, at, depth+1, stack), a.lo(v.Y, at, depth+1, stack)
			if x != bnUnk && y != bnUnk && x >= 0 && y >= 0 {
				return x * y
			}
		}
	case *ssa.Phi:
		stack[v] = true
		defer delete(stack, v)
		if a.assume == nil {
			a.assume = map[ssa.Value]int64{}
		}
		// pass 1: candidate = minimum over the edges that do not depend on the cycle
		delete(a.assume, v)
		cand := int64(math.MaxInt64)
		for i, e := range v.Edges {
			if a.nonDecreasingStep(e, v, v.Block().Preds[i], depth, stack) {
				continue
			}
			l := a.lo(e, v.Block().Preds[i], depth+1, stack)
			if l != bnUnk && l < cand {
				cand = l
			}
		}
		if cand >= bnTop/2 {
			if cand == math.MaxInt64 {
				return bnUnk
			}
			return bnTop // depends only on phis under evaluation
		}
		// pass 2: under the hypothesis v >= cand every edge must give >= cand
		for try := 0; try < 3; try++ {
			a.assume[v] = cand
			ok := true
			lowest := cand
			for i, e := range v.Edges {
				if a.nonDecreasingStep(e, v, v.Block().Preds[i], depth, stack) {
					continue
				}
				l := a.lo(e, v.Block().Preds[i], depth+1, stack)
				if l == bnUnk {
					delete(a.assume, v)
					return bnUnk
				}
				if l >= bnTop/2 {
					continue
				}
				if l < lowest {
					lowest = l
					ok = false
				}
			}
			if ok {
				delete(a.assume, v)
				return cand
			}
			cand = lowest
		}
		delete(a.assume, v)
		return bnUnk
	case *ssa.UnOp:
		if v.Op == token.MUL {
			// loads: unknown unless unsigned (handled above)
			return bnUnk
		}
	}
	return bnUnk
}

// nonDecreasingStep: the edge value is phi + t with t >= 0 (a sum tree that
// contains the phi once and otherwise non-negative terms).
func (a *bnAn) nonDecreasingStep(e ssa.Value, phi *ssa.Phi, pred *ssa.BasicBlock, depth int, stack map[ssa.Value]bool) bool {
	bo, ok := e.(*ssa.BinOp)
	if !ok {
		return false
	}
	switch bo.Op {
	case token.ADD:
		if bo.X == ssa.Value(phi) {
			l := a.lo(bo.Y, pred, depth+1, stack)
			return l != bnUnk && l >= 0
		}
		if bo.Y == ssa.Value(phi) {
			l := a.lo(bo.X, pred, depth+1, stack)
			return l != bnUnk && l >= 0
		}
	case token.SUB:
		if bo.X == ssa.Value(phi) {
			if c, ok := bnConst(bo.Y); ok && c <= 0 {
				return true
			}
		}
	}
	return false
}

// lenLo: lower bound of len(x).
// deadBlock: a block only entered through an edge whose condition is the
// constant that does not take it (if false { ... } left by a constant such as
// runtime.GOOS == "windows").
func (a *bnAn) deadBlock(b *ssa.BasicBlock) bool {
	if a.dead == nil {
		a.dead = map[*ssa.BasicBlock]bool{}
		live := map[*ssa.BasicBlock]bool{}
		var visit func(b *ssa.BasicBlock)
		visit = func(b *ssa.BasicBlock) {
			if live[b] {
				return
			}
			live[b] = true
			if len(b.Instrs) > 0 {
				if ifi, ok := b.Instrs[len(b.Instrs)-1].(*ssa.If); ok {
					if k, ok := ifi.Cond.(*ssa.Const); ok && k.Value != nil && k.Value.Kind() == constant.Bool {
						if constant.BoolVal(k.Value) {
							visit(b.Succs[0])
						} else {
							visit(b.Succs[1])
						}
						return
					}
				}
			}
			for _, s := range b.Succs {
				visit(s)
			}
		}
		if len(a.fn.Blocks) > 0 {
			visit(a.fn.Blocks[0])
		}
		for _, bb := range a.fn.Blocks {
			if !live[bb] {
				a.dead[bb] = true
			}
		}
	}
	return a.dead[b]
}

func (a *bnAn) lenLo(x ssa.Value, at *ssa.BasicBlock, lenCall *ssa.Call) int64 {
	// a phi: the minimum over the edges that can be taken
	if ph, ok := x.(*ssa.Phi); ok && !a.lenBusy[ph] {
		if a.lenBusy == nil {
			a.lenBusy = map[*ssa.Phi]bool{}
		}
		a.lenBusy[ph] = true
		m := int64(bnTop)
		for i, e := range ph.Edges {
			pb := ph.Block().Preds[i]
			if a.deadBlock(pb) || e == ssa.Value(ph) {
				continue
			}
			l := a.lenLo(e, pb, nil)
			if l < m {
				m = l
			}
		}
		delete(a.lenBusy, ph)
		if m < bnTop/2 && m > 0 {
			return m
		}
	}
	// replacing separators by a non-empty string keeps a non-empty string non-empty
	if n := bnCallee(x); n == "strings.Replace" || n == "strings.ReplaceAll" {
		if call, ok := x.(*ssa.Call); ok && len(call.Call.Args) >= 3 {
			if l, ok := ssaConstLen(call.Call.Args[2]); ok && l >= 1 && a.lenLo(call.Call.Args[0], call.Block(), nil) >= 1 {
				return 1
			}
		}
	}
	// Split results have at least one element
	if n := bnCallee(x); n == "strings.Split" || n == "bytes.Split" || n == "strings.SplitN" || n == "bytes.SplitN" {
		return 1
	}
	// x != "" / len(x) != 0 / len(x) > 0 dominating
	res := int64(0)
	guards(at, func(cond ssa.Value, truth bool, where *ssa.BasicBlock) {
		bo, ok := cond.(*ssa.BinOp)
		if !ok {
			return
		}
		op := bo.Op
		if !truth {
			op = negOp(op)
		}
		if k, ok := bo.Y.(*ssa.Const); ok && k.Value != nil && k.Value.Kind() == constant.String && constant.StringVal(k.Value) == "" && a.sameVal(bo.X, x) && op == token.NEQ {
			res = 1
		}
	})
	if res > 0 {
		return res
	}
	// store-to-load forwarding: x is a load of an address whose last store in
	// the same block is an append with at least one element
	if ld, ok := x.(*ssa.UnOp); ok && ld.Op == token.MUL {
		b := ld.Block()
		idx := -1
		for i, in := range b.Instrs {
			if in == ssa.Instruction(ld) {
				idx = i
			}
		}
		for i := idx - 1; i >= 0; i-- {
			in := b.Instrs[i]
			if st, ok := in.(*ssa.Store); ok {
				if st.Addr == ld.X || a.sameAddr(st.Addr, ld.X) {
					if call, ok := st.Val.(*ssa.Call); ok && bnCallee(call) == "builtin.append" && len(call.Call.Args) == 2 {
						if sl, ok := call.Call.Args[1].(*ssa.Slice); ok {
							if al, ok := sl.X.(*ssa.Alloc); ok {
								if at, ok := al.Type().Underlying().(*types.Pointer).Elem().Underlying().(*types.Array); ok && at.Len() >= 1 {
									return 1
								}
							}
						}
					}
					break
				}
				continue
			}
			if ci, ok := in.(ssa.CallInstruction); ok {
				if _, isB := ci.Common().Value.(*ssa.Builtin); !isB {
					break
				}
			}
		}
	}
	return 0
}

// hasAffix: a dominating true edge of HasPrefix/HasSuffix(S, P).
func (a *bnAn) hasAffix(S, P ssa.Value, at *ssa.BasicBlock) bool {
	found := false
	guards(at, func(cond ssa.Value, truth bool, where *ssa.BasicBlock) {
		if !truth {
			return
		}
		if c, ok := cond.(*ssa.Call); ok {
			n := bnCallee(c)
			if (strings.HasSuffix(n, ".HasPrefix") || strings.HasSuffix(n, ".HasSuffix")) && a.sameVal(c.Call.Args[0], S) && a.sameVal(c.Call.Args[1], P) {
				found = true
			}
		}
	})
	return found
}

// hasAffixConstLen: HasPrefix/HasSuffix(S, P) dominates, with P of a known
// constant length >= n (a string constant or a never-written []byte global).
func (a *bnAn) hasAffixConstLen(S ssa.Value, n int64, at *ssa.BasicBlock) bool {
	found := false
	guards(at, func(cond ssa.Value, truth bool, where *ssa.BasicBlock) {
		if !truth {
			return
		}
		c, ok := cond.(*ssa.Call)
		if !ok {
			return
		}
		nm := bnCallee(c)
		if !(strings.HasSuffix(nm, ".HasPrefix") || strings.HasSuffix(nm, ".HasSuffix")) || !a.sameVal(c.Call.Args[0], S) {
			return
		}
		switch p := c.Call.Args[1].(type) {
		case *ssa.Const:
			if p.Value != nil && p.Value.Kind() == constant.String && int64(len(constant.StringVal(p.Value))) >= n {
				found = true
			}
		case *ssa.UnOp:
			if g, ok := p.X.(*ssa.Global); ok && g.Pkg != nil {
				short := strings.TrimPrefix(strings.TrimPrefix(g.Pkg.Pkg.Path(), modPath), "/")
				if v, ok := bytesGlobal(a.c.L, short, g.Name()); ok && int64(len(v)) >= n {
					found = true
				}
			}
		}
	})
	return found
}

// hi: upper bound (exclusive-safe value) of v at block at, or unknown.
func (a *bnAn) hi(v ssa.Value, at *ssa.BasicBlock, depth int) (int64, bool) {
	if c, ok := bnConst(v); ok {
		return c, true
	}
	best, have := int64(0), false
	guards(at, func(cond ssa.Value, truth bool, where *ssa.BasicBlock) {
		bo, ok := cond.(*ssa.BinOp)
		if !ok {
			return
		}
		x, y, op := bo.X, bo.Y, bo.Op
		if a.sameVal(y, v) && !a.sameVal(x, v) {
			x, y = y, x
			op = flipOp(op)
		}
		if !a.sameVal(x, v) {
			return
		}
		if !truth {
			op = negOp(op)
		}
		c, isc := bnConst(y)
		if !isc {
			return
		}
		switch op {
		case token.LSS:
			if !have || c-1 < best {
				best, have = c-1, true
			}
		case token.LEQ, token.EQL:
			if !have || c < best {
				best, have = c, true
			}
		}
	})
	if have {
		return best, true
	}
	if depth > 6 {
		return 0, false
	}
	switch x := v.(type) {
	case *ssa.Phi:
		if a.assumeHi == nil {
			a.assumeHi = map[ssa.Value]int64{}
		}
		if h, ok := a.assumeHi[x]; ok {
			return h, true
		}
		if a.hiBusy == nil {
			a.hiBusy = map[ssa.Value]bool{}
		}
		if a.hiBusy[x] {
			return math.MinInt64, true // no constraint from a phi under evaluation
		}
		a.hiBusy[x] = true
		defer delete(a.hiBusy, x)
		edgeHi := func() (int64, bool, bool) { // max, allKnown, any
			m, all, any := int64(math.MinInt64), true, false
			for i, e := range x.Edges {
				if e == ssa.Value(x) {
					continue
				}
				if bo, isB := e.(*ssa.BinOp); isB && bo.Op == token.SUB && bo.X == ssa.Value(x) {
					if c, isC := bnConst(bo.Y); isC && c >= 0 {
						continue
					}
				}
				h, okk := a.hi(e, x.Block().Preds[i], depth+1)
				if !okk {
					all = false
					continue
				}
				if h == math.MinInt64 {
					continue
				}
				any = true
				if h > m {
					m = h
				}
			}
			return m, all, any
		}
		cand, _, any := edgeHi()
		if !any {
			return 0, false
		}
		for try := 0; try < 3; try++ {
			a.assumeHi[x] = cand
			m, all, _ := edgeHi()
			delete(a.assumeHi, x)
			if !all {
				return 0, false
			}
			if m <= cand {
				return cand, true
			}
			cand = m
		}
		return 0, false
	case *ssa.BinOp:
		if x.Op == token.ADD {
			if c, ok := bnConst(x.Y); ok {
				if h, ok := a.hi(x.X, at, depth+1); ok {
					if h == math.MinInt64 {
						return h, true
					}
					return h + c, true
				}
			}
		}
		if x.Op == token.SUB {
			if c, ok := bnConst(x.Y); ok && c >= 0 {
				if h, ok := a.hi(x.X, at, depth+1); ok {
					if h == math.MinInt64 {
						return h, true
					}
					return h - c, true
				}
			}
		}
	}
	return 0, false
}

func runBN(c *Ctx) (obls []Obl) {
	a := newAgg(c, &obls)
	defer a.flush()
	parseRules(c, a)
	miscRules(c, a)
	bnBounds(c, a)
	bnZero(c, a)
	bnUpper(c, a)
	pnPanics(c, a)
	lpLoops(c, a)
	return
}

// operand description for keys
func bnDesc(f *ssa.Function, _ ssa.Value, what string, ordinal int) string {
	return fmt.Sprintf("%s/%s#%d", funcKey(f), what, ordinal)
}

func bnBounds(c *Ctx, a *flAgg) {
	total, proved, cursor := 0, 0, 0
	for _, pn := range []string{"stack", "internal", "stack/webstack"} {
		for _, f := range c.L.SrcFuncs(pn) {
			an := &bnAn{c: c, fn: f}
			ord := map[string]int{}
			for _, b := range f.Blocks {
				for _, ins := range b.Instrs {
					var ops []ssa.Value
					var what string
					var coll ssa.Value
					switch ins := ins.(type) {
					case *ssa.Slice:
						ops = []ssa.Value{ins.Low, ins.High, ins.Max}
						what = "slice"
						coll = ins.X
						bnIdiom(c, a, an, f, ins, ord)
					case *ssa.IndexAddr:
						ops = []ssa.Value{ins.Index}
						what = "index"
						coll = ins.X
					case *ssa.Index:
						ops = []ssa.Value{ins.Index}
						what = "index"
						coll = ins.X
					case *ssa.Lookup:
						if _, isMap := ins.X.Type().Underlying().(*types.Map); !isMap {
							ops = []ssa.Value{ins.Index}
							what = "strindex"
							coll = ins.X
						}
					}
					// BN-const: a constant-length value (string constant) indexed or sliced by a variable
					if k, ok := coll.(*ssa.Const); ok && k.Value != nil && k.Value.Kind() == constant.String {
						clen := int64(len(constant.StringVal(k.Value)))
						if why, ok := stringerTable(c, f, clen); ok {
							ord["const"]++
							a.ok("BN-const", bnDesc(f, nil, "const", ord["const"]), why, ins.Pos())
							continue
						}
						for oi, op := range ops {
							if op == nil {
								continue
							}
							if _, isC := bnConst(op); isC {
								continue
							}
							ord["const"]++
							key := bnDesc(f, op, "const", ord["const"])
							h, okh := an.hi(op, b, 0)
							limit := clen - 1
							if what == "slice" {
								limit = clen
							}
							_ = oi
							if okh && h != math.MinInt64 && h <= limit {
								a.ok("BN-const", key, fmt.Sprintf("operand <= %d on a constant of length %d", h, clen), ins.Pos())
							} else {
								hs := "unknown"
								if okh && h != math.MinInt64 {
									hs = fmt.Sprint(h)
								}
								a.bad("BN-const", key, fmt.Sprintf("a constant string of length %d is %sd with %s whose upper bound is %s (allowed: %d): out of range panics", clen, what, shortVal(op), hs, limit), ins.Pos())
							}
						}
						continue
					}
					for _, op := range ops {
						if op == nil {
							continue
						}
						// BN-array: variable index into a fixed-size array needs both bounds
						if alen := arrayLen(coll); alen >= 0 && what == "index" {
							if _, isC := bnConst(op); !isC {
								if isLocationIndex(op) {
									continue // LX-enum
								}
								ord["array"]++
								key := bnDesc(f, op, "array", ord["array"])
								l := an.lo(op, b, 0, map[ssa.Value]bool{})
								if l >= bnTop/2 {
									l = bnUnk
								}
								h, okh := an.hi(op, b, 0)
								if okh && h == math.MinInt64 {
									okh = false
								}
								if l != bnUnk && l >= 0 && okh && h < alen {
									a.ok("BN-array", key, fmt.Sprintf("index in [%d,%d] of an array of %d", l, h, alen), ins.Pos())
								} else {
									ls, hs := "unknown", "unknown"
									if l != bnUnk {
										ls = fmt.Sprint(l)
									}
									if okh {
										hs = fmt.Sprint(h)
									}
									a.bad("BN-array", key, fmt.Sprintf("index into an array of %d elements is not provably in range (lower bound %s, upper bound %s)", alen, ls, hs), ins.Pos())
								}
								continue
							}
						}
						if bt, ok := op.Type().Underlying().(*types.Basic); ok && bt.Info()&types.IsUnsigned != 0 {
							continue
						}
						if !bnInScope(op, map[ssa.Value]bool{}) {
							continue
						}
						if smCovers(f) && isLenMinusOne(op) {
							continue // SM-deref decides the typestate indices of scan
						}
						if isCursorOperand(op, map[ssa.Value]bool{}) {
							cursor++
							continue
						}
						if why := bnException(c, f, op); why != "" {
							ord["contract"]++
							a.ok("BN-neg", fmt.Sprintf("%s/contract#%d", funcKey(f), ord["contract"]), "contract table: "+why, ins.Pos())
							continue
						}
						total++
						ord[what]++
						key := bnDesc(f, op, what, ord[what])
						l := an.lo(op, b, 0, map[ssa.Value]bool{})
						if l >= bnTop/2 {
							l = bnUnk
						}
						if l != bnUnk && l >= 0 {
							proved++
							a.ok("BN-neg", key, fmt.Sprintf("operand %s >= %d", shortVal(op), l), ins.Pos())
						} else {
							ls := "unknown"
							if l != bnUnk {
								ls = fmt.Sprint(l)
							}
							a.bad("BN-neg", key, fmt.Sprintf("the %s operand %s is not provably non-negative (lower bound %s): a negative value panics", what, shortVal(op), ls), ins.Pos())
						}
					}
				}
			}
		}
	}
	c.stat("BN", "operands_in_scope", total)
	c.stat("BN", "proved_non_negative", proved)
	c.stat("BN", "cursor_class_not_decided", cursor)
}

func shortVal(v ssa.Value) string {
	s := v.String()
	if len(s) > 60 {
		s = s[:60] + "…"
	}
	return v.Name() + "=" + s
}

func arrayLen(coll ssa.Value) int64 {
	if coll == nil {
		return -1
	}
	t := coll.Type().Underlying()
	if p, ok := t.(*types.Pointer); ok {
		t = p.Elem().Underlying()
	}
	if at, ok := t.(*types.Array); ok {
		return at.Len()
	}
	return -1
}

func isLocationIndex(v ssa.Value) bool {
	for {
		switch x := v.(type) {
		case *ssa.Convert:
			v = x.X
			continue
		case *ssa.ChangeType:
			v = x.X
			continue
		}
		break
	}
	if nt, ok := v.Type().(*types.Named); ok && nt.Obj().Name() == "Location" {
		return true
	}
	return false
}

func isLenMinusOne(v ssa.Value) bool {
	bo, ok := v.(*ssa.BinOp)
	if !ok || bo.Op != token.SUB {
		return false
	}
	c, isC := bnConst(bo.Y)
	return isC && c == 1 && bnLenOf(bo.X) != nil
}

// isCursorOperand: a leaf of the operand is a load of an int field of the
// reader (r.r, r.w): relational invariant, not decided.
func isCursorOperand(v ssa.Value, seen map[ssa.Value]bool) bool {
	if seen[v] {
		return false
	}
	seen[v] = true
	switch x := v.(type) {
	case *ssa.UnOp:
		if x.Op == token.MUL {
			if fa, ok := x.X.(*ssa.FieldAddr); ok {
				if strings.HasSuffix(fa.X.Type().String(), "stack.reader") {
					return true
				}
			}
		}
	case *ssa.BinOp:
		return isCursorOperand(x.X, seen) || isCursorOperand(x.Y, seen)
	case *ssa.Phi:
		for _, e := range x.Edges {
			if isCursorOperand(e, seen) {
				return true
			}
		}
	case *ssa.Convert:
		return isCursorOperand(x.X, seen)
	}
	return false
}

// bnException: the contract table of BN-neg (one line of reason each).
func bnException(c *Ctx, f *ssa.Function, op ssa.Value) string {
	switch funcKey(f) {
	case "stack.augmentCall":
		// types[len(types)-1] under extra: the variadic flag is only ever set in
		// an iteration of extractArgumentsType that also appends a type
		if bo, ok := op.(*ssa.BinOp); ok && bo.Op == token.SUB {
			if k, isC := bnConst(bo.Y); !isC || k != 1 {
				return "" // only the last element is covered by "at least one type"
			}
			if S := bnLenOf(bo.X); S != nil {
				if ex, ok := S.(*ssa.Extract); ok {
					if call, ok := ex.Tuple.(*ssa.Call); ok && call.Call.StaticCallee() != nil && call.Call.StaticCallee().Name() == "extractArgumentsType" {
						if variadicImpliesNonEmpty(call.Call.StaticCallee()) {
							return "types[len(types)-1] is used only when the variadic flag is set, and extractArgumentsType sets the flag only in an iteration that appends at least one type (re-verified on its SSA)"
						}
					}
				}
			}
		}
	}
	return ""
}

// variadicImpliesNonEmpty re-verifies the reason of the augmentCall entry:
// in extractArgumentsType the second result is false before the loop and
// every loop iteration appends to the first result at least once.
func variadicImpliesNonEmpty(f *ssa.Function) bool {
	if f == nil || f.Blocks == nil {
		return false
	}
	exprHome = f.Pkg.Pkg
	x := &SPE{Fn: f, MaxVisits: 2}
	x.Explore()
	if len(x.Paths) == 0 {
		return false
	}
	for _, p := range x.Paths {
		if p.Term != "return" || len(p.Results) != 2 {
			continue
		}
		if v, ok := p.Results[1].boolConst(); ok && !v {
			continue // flag false
		}
		// flag possibly true: the returned list must be an append result
		r := p.Results[0]
		if !(r.Op == OpBuiltin && r.Name == "append") {
			return false
		}
	}
	return true
}

// bnIdiom: upper bounds, only where an idiom applies (a belief the code
// already states elsewhere): a slice bound that is the length of ANOTHER value
// (S[len(P):], S[:len(P)], S[l:l+len(Q)]) is in range only under a dominating
// HasPrefix/HasSuffix(S, P) or an explicit length comparison len(S) > bound.
func bnIdiom(c *Ctx, a *flAgg, an *bnAn, f *ssa.Function, sl *ssa.Slice, ord map[string]int) {
	X := sl.X
	if ld, ok := X.(*ssa.UnOp); ok && ld.Op == token.MUL {
		_ = ld
	}
	// a position found by searching one text cuts that text (or the text it
	// is a part of), not another one
	for _, op := range []ssa.Value{sl.Low, sl.High} {
		if op == nil {
			continue
		}
		v := op
		for i := 0; i < 3; i++ {
			if bo, ok := v.(*ssa.BinOp); ok && (bo.Op == token.ADD || bo.Op == token.SUB) {
				if _, isC := bnConst(bo.Y); isC {
					v = bo.X
					continue
				}
			}
			break
		}
		call, ok := v.(*ssa.Call)
		if !ok || call.Call.StaticCallee() == nil || len(call.Call.Args) < 1 {
			continue
		}
		cal := call.Call.StaticCallee()
		if p := calleePkg(cal); p != "strings" && p != "bytes" {
			continue
		}
		switch cal.Name() {
		case "Index", "IndexByte", "IndexRune", "IndexAny", "LastIndex", "LastIndexByte", "LastIndexAny":
		default:
			continue
		}
		S := call.Call.Args[0]
		related := func(x, y ssa.Value) bool {
			// y is x, or a slice (of a slice) of x
			for i := 0; i < 4; i++ {
				if an.sameVal(x, y) {
					return true
				}
				if s2, ok := y.(*ssa.Slice); ok {
					y = s2.X
					continue
				}
				break
			}
			return false
		}
		ord["search"]++
		key := fmt.Sprintf("%s/search-index#%d", funcKey(f), ord["search"])
		if related(X, S) || related(S, X) {
			a.ok("BN-idiom", key, "the position was searched in the text it cuts (or in a part of it)", sl.Pos())
		} else {
			a.bad("BN-idiom", key, "the slice bound "+shortVal(op)+" is a position searched in another text than the one it cuts: the wrong bytes are cut, or the bound is out of range", sl.Pos())
		}
	}
	for _, op := range []ssa.Value{sl.Low, sl.High} {
		if op == nil {
			continue
		}
		P, extra, ok := lenOfOtherPlus(op)
		if !ok || an.sameVal(P, X) {
			continue
		}
		// a constant-length P (string constant) against a value of unknown length also needs a guard
		ord["idiom"]++
		key := fmt.Sprintf("%s/idiom#%d", funcKey(f), ord["idiom"])
		if funcKey(f) == "stack.getSrcBranchURL" {
			a.ok("BN-idiom", key, "contract table: the sliced string is runtime.Version() of this binary, not input", sl.Pos())
			continue
		}
		proved := false
		why := ""
		guards(sl.Block(), func(cond ssa.Value, truth bool, where *ssa.BasicBlock) {
			if proved {
				return
			}
			switch cnd := cond.(type) {
			case *ssa.Call:
				n := bnCallee(cnd)
				if truth && (strings.HasSuffix(n, ".HasPrefix") || strings.HasSuffix(n, ".HasSuffix")) && an.sameVal(cnd.Call.Args[0], X) {
					// HasPrefix(X, P) or HasPrefix(X, P + "const") with len(const) >= extra
					arg := cnd.Call.Args[1]
					if an.sameVal(arg, P) && extra == 0 {
						proved, why = true, "dominated by "+n
					}
					if bo, ok := arg.(*ssa.BinOp); ok && bo.Op == token.ADD && an.sameVal(bo.X, P) {
						if k, ok := bo.Y.(*ssa.Const); ok && k.Value != nil && k.Value.Kind() == constant.String && int64(len(constant.StringVal(k.Value))) >= extra {
							proved, why = true, "dominated by "+n+" with a longer prefix"
						}
					}
					// the bound is len(Q) where Q itself is the tested prefix expression
					if Q := bnLenOf(op); Q != nil && an.sameVal(arg, Q) {
						proved, why = true, "dominated by "+n
					}
				}
			case *ssa.BinOp:
				x, y, o := cnd.X, cnd.Y, cnd.Op
				if !truth {
					o = negOp(o)
				}
				// len(X) > E  or  E < len(X), with E >= op
				if S := bnLenOf(y); S != nil && an.sameVal(S, X) {
					x, y = y, x
					o = flipOp(o)
				}
				if S := bnLenOf(x); S != nil && an.sameVal(S, X) && (o == token.GTR || o == token.GEQ) {
					if P2, e2, ok := lenOfOtherPlus(y); ok && an.sameVal(P2, P) && (e2 > extra || (e2 == extra && true)) {
						proved, why = true, "dominated by an explicit length comparison"
					}
					// len(X) > len(P) + c + len(Q): a further length only adds
					if bo, isB := y.(*ssa.BinOp); isB && bo.Op == token.ADD {
						for _, pr := range [][2]ssa.Value{{bo.X, bo.Y}, {bo.Y, bo.X}} {
							if bnLenOf(pr[1]) == nil {
								continue
							}
							if P2, e2, ok := lenOfOtherPlus(pr[0]); ok && an.sameVal(P2, P) && e2 >= extra {
								proved, why = true, "dominated by an explicit length comparison"
							}
						}
					}
				}
			}
		})
		if proved {
			a.ok("BN-idiom", key, "slice bound is the length of another value, "+why, sl.Pos())
		} else {
			a.bad("BN-idiom", key, "the slice bound "+shortVal(op)+" is the length of another value, but no dominating HasPrefix/HasSuffix or length comparison guarantees that the sliced value is at least that long: slice bounds out of range", sl.Pos())
		}
	}
}

// lenOfOtherPlus recognises len(P), len(P)+c and l+c where l = len(P).
func lenOfOtherPlus(v ssa.Value) (P ssa.Value, extra int64, ok bool) {
	if S := bnLenOf(v); S != nil {
		return S, 0, true
	}
	if bo, isB := v.(*ssa.BinOp); isB && bo.Op == token.ADD {
		if c, isC := bnConst(bo.Y); isC && c >= 0 {
			if S := bnLenOf(bo.X); S != nil {
				return S, c, true
			}
		}
		if c, isC := bnConst(bo.X); isC && c >= 0 {
			if S := bnLenOf(bo.Y); S != nil {
				return S, c, true
			}
		}
	}
	return nil, 0, false
}

// stringerTable verifies the index table of a stringer-generated String
// method: name[index[i]:index[i+1]] is in range when the table is
// non-decreasing, ends at len(name), and i is guarded by the table length.
func stringerTable(c *Ctx, f *ssa.Function, nameLen int64) (string, bool) {
	if f.Name() != "String" || f.Syntax() == nil {
		return "", false
	}
	_, file := c.L.FileOf(f.Pos())
	if file == nil || len(file.Comments) == 0 || !strings.Contains(file.Comments[0].Text(), "Code generated by \"stringer") {
		return "", false
	}
	pkg, _ := c.L.FileOf(f.Pos())
	ok := false
	why := ""
	for _, d := range file.Decls {
		gd, isG := d.(*ast.GenDecl)
		if !isG || gd.Tok != token.VAR {
			continue
		}
		for _, sp := range gd.Specs {
			vs, isV := sp.(*ast.ValueSpec)
			if !isV || len(vs.Values) != 1 || !strings.HasSuffix(vs.Names[0].Name, "_index") {
				continue
			}
			cl, isC := vs.Values[0].(*ast.CompositeLit)
			if !isC {
				continue
			}
			prev := int64(0)
			mono := true
			last := int64(-1)
			for _, e := range cl.Elts {
				tv, have := pkg.TypesInfo.Types[e]
				if !have || tv.Value == nil {
					mono = false
					break
				}
				v, _ := constant.Int64Val(tv.Value)
				if v < prev {
					mono = false
				}
				prev, last = v, v
			}
			if mono && last == nameLen {
				ok = true
				why = fmt.Sprintf("stringer table %s verified: %d non-decreasing offsets ending at len(name)=%d", vs.Names[0].Name, len(cl.Elts), nameLen)
			}
		}
	}
	if !ok {
		return "", false
	}
	// the index is guarded against the table length
	guarded := false
	for _, b := range f.Blocks {
		if ifi, isIf := b.Instrs[len(b.Instrs)-1].(*ssa.If); isIf {
			if bo, isB := ifi.Cond.(*ssa.BinOp); isB && (bo.Op == token.GEQ || bo.Op == token.LSS || bo.Op == token.GTR || bo.Op == token.LEQ) {
				guarded = true
			}
		}
	}
	if !guarded {
		return "", false
	}
	return why, true
}
