package main

// NM — pointer pseudo-names (DESIGN.md §3.11, property C15).

import (
	"os"
	"fmt"
	"go/token"
	"strings"

	"golang.org/x/tools/go/ssa"
)

func init() {
	register(&Engine{Name: "NM", Doc: "pointer naming rules", Run: runNM})
}

func runNM(c *Ctx) (obls []Obl) {
	a := newAgg(c, &obls)
	defer a.flush()
	fn := c.MustFunc(&obls, "NM-number", "stack", "", "nameArguments")
	if fn == nil {
		return
	}
	exprHome = fn.Pkg.Pkg
	// --- the visitor closure
	var visit *ssa.Function
	for _, af := range fn.AnonFuncs {
		if len(af.Params) == 1 && strings.HasSuffix(af.Params[0].Type().String(), "stack.Arg") {
			visit = af
		}
	}
	if visit == nil {
		a.und("NM-visit", "nameArguments/visitor", "the visitor closure was not found", fn.Pos())
	} else {
		x := &SPE{Fn: visit, MaxVisits: 2}
		x.Explore()
		argN := visit.Params[0].Name()
		for _, p := range x.Paths {
			pos := pathPos(p, visit)
			if os.Getenv("PPCHECK_NM_DUMP") != "" {
				fmt.Fprintf(os.Stderr, "NM path lits=%s\n", litsString(p))
				for _, ev := range p.Events {
					fmt.Fprintf(os.Stderr, "   %s\n", ev.String())
				}
			}
			isPtr, have := p.lit(argN + ".IsPtr")
			var ups []Event
			for _, ev := range p.Events {
				if ev.Kind == EvMapUpd {
					ups = append(ups, ev)
				}
			}
			switch {
			case !have:
				a.bad("NM-visit", "visitor/ptr-only", "the visitor does not test IsPtr: values that are not classified as pointers would be named", pos)
			case !isPtr:
				if len(ups) == 0 {
					a.ok("NM-visit", "visitor/ptr-only", "values not classified as pointers never enter the table", pos)
				} else {
					a.bad("NM-visit", "visitor/ptr-only", "a value that is not a pointer is entered in the table", pos)
				}
			default:
				if done := nmVisitPtrForm(a, p, ups, argN, pos); done {
					continue
				}
				if len(ups) != 1 {
					a.bad("NM-visit", "visitor/record", fmt.Sprintf("%d table updates for one pointer argument", len(ups)), pos)
					continue
				}
				up := ups[0]
				okKey := up.Key.String() == argN+".Value"
				// value: object{args: append(objects[arg.Value].args, arg), inPrimary: objects[arg.Value].inPrimary || primary}
				val := up.Val
				vs := val.String()
				cells := map[string]*Expr{}
				if ad := loadOf(val); ad != nil {
					cells = allocCells(p, ad.String())
				}
				_ = vs
				args, inPrim := cells["args"], cells["inPrimary"]
				okArgs := false
				if args != nil && args.Op == OpBuiltin && args.Name == "append" && args.Args[1].Op == OpSlice {
					elem := p.Cells[args.Args[1].Args[0].String()+"[0]"]
					base := args.Args[0]
					if elem != nil && elem.Op == OpParam && elem.Name == argN && base.Op == OpField && base.Name == "args" && base.Args[0].Op == OpLookup && base.Args[0].Args[1].String() == argN+".Value" {
						okArgs = true
					}
				}
				okPrim := false
				otherKey := ""
				if inPrim != nil {
					// path sensitive: old.inPrimary true -> true; else primary
					oldT, haveOld := false, false
					for _, lt := range p.Lits {
						if lt.Atom.Op == OpField && lt.Atom.Name == "inPrimary" && lt.Atom.Args[0].Op == OpLookup {
							oldT, haveOld = lt.Pol, true
							if len(lt.Atom.Args[0].Args) > 1 && lt.Atom.Args[0].Args[1].String() != argN+".Value" {
								otherKey = lt.Atom.Args[0].Args[1].String()
							}
						}
					}
					if v, isC := inPrim.boolConst(); isC && v && haveOld && oldT {
						okPrim = true
					}
					if ad := loadOf(inPrim); haveOld && !oldT && ad != nil && ad.Op == OpFreeVar && ad.Name == "primary" {
						okPrim = true
					}
					if inPrim.Op == OpBin && (inPrim.Tok == token.OR || inPrim.Tok == token.LOR) {
						okPrim = true
					}
				}
				if okKey && okArgs {
					a.ok("NM-visit", "visitor/record", "every pointer argument is appended to the list of its value", pos)
				} else {
					a.bad("NM-visit", "visitor/record", fmt.Sprintf("a pointer argument must be recorded as objects[arg.Value].args = append(objects[arg.Value].args, arg) (key ok=%v, list ok=%v)", okKey, okArgs), pos)
				}
				if okPrim && otherKey != "" {
					a.bad("NM-visit", "visitor/inPrimary", "the 'already seen in the first goroutine' flag is read from the entry of "+otherKey+", not from the entry of the argument's own value", pos)
				} else if okPrim {
					a.ok("NM-visit", "visitor/inPrimary", "a value is marked as seen in the first goroutine once it was seen there (OR-accumulated)", pos)
				} else {
					got := "<unset>"
					if inPrim != nil {
						got = inPrim.String()
					}
					a.bad("NM-visit", "visitor/inPrimary", "inPrimary must be (already seen in the first goroutine || now in the first goroutine); it is "+got+": pointers of the crashing goroutine that recur later would be numbered after pointers that never appear in it", pos)
				}
			}
		}
	}
	// --- enumeration loop: primary = (index == 0), every call's Args walked with the visitor
	loops := outermostLoops(naturalLoops(fn))
	if len(loops) != 5 {
		a.und("NM-number", "nameArguments/loops", fmt.Sprintf("expected 5 top-level loops (enumerate, collect, number, collect, number), found %d", len(loops)), fn.Pos())
		return
	}
	{
		l := loops[0]
		seg := &SPE{Fn: fn, Start: l.Header, MaxVisits: 3, SeedEnv: seedStraight(fn, l.Header)}
		seg.Stop = func(from, to *ssa.BasicBlock) bool { return (to == l.Header && l.Body[from]) || (l.Body[from] && !l.Body[to]) }
		seg.Explore()
		okPrimary, okWalk := false, false
		for _, p := range seg.Paths {
			if !(p.Term == "stop" && p.End == l.Header) {
				continue
			}
			for _, ev := range p.Events {
				if ev.Kind == EvStore && strings.HasSuffix(ev.Addr.String(), "primary") {
					v := ev.Val
					// (index == 0) where index is the range index of the goroutines
					if v.Op == OpBin && v.Tok == token.EQL {
						if z, ok := v.Args[1].intConst(); ok && z == 0 && strings.Contains(v.Args[0].String(), "phi:") {
							okPrimary = true
						}
					}
				}
				if ev.Kind == EvCall && ev.Val.calleeIs(stackPkg, "(*Args).walk") && len(ev.Val.Args) == 3 {
					recv := ev.Val.Args[1].String()
					if strings.HasSuffix(recv, ".Args") && ev.Val.Args[2].Op == OpClosure && ev.Val.Args[2].Fn == visit {
						okWalk = true
					}
				}
			}
		}
		if okPrimary {
			a.ok("NM-number", "enumerate/primary", "primary is true exactly while the first goroutine is enumerated", l.Header.Instrs[0].Pos())
		} else {
			a.bad("NM-number", "enumerate/primary", "primary is not set to (goroutine index == 0)", fn.Pos())
		}
		// what is numbered are the arguments of the goroutines' own stacks: the
		// frames of a creation stack (a race report prints them with arguments)
		// are not part of it
		for b := range l.Body {
			for _, in := range b.Instrs {
				if fa, ok := in.(*ssa.FieldAddr); ok && addrLast(fa) == "CreatedBy" && okWalk {
					okWalk = false
					a.bad("NM-number", "enumerate/walk", "the enumeration reaches into the creation stacks (CreatedBy): pointers that occur only in creation frames use up numbers, so the names of the stacks' arguments have gaps and need not start at #1", in.Pos())
				}
			}
		}
		if !okWalk {
			return
		}
		// every iteration over the calls walks that call's arguments
		for _, il := range naturalLoops(fn) {
			if il.Header == l.Header || !l.Body[il.Header] {
				continue
			}
			is := &SPE{Fn: fn, Start: il.Header, MaxVisits: 2}
			is.Stop = func(from, to *ssa.BasicBlock) bool {
				return (to == il.Header && il.Body[from]) || (il.Body[from] && !il.Body[to])
			}
			is.Explore()
			for _, p := range is.Paths {
				if !(p.Term == "stop" && p.End == il.Header) {
					continue
				}
				walked := false
				for _, ev := range p.Events {
					if ev.Kind == EvCall && ev.Val.calleeIs(stackPkg, "(*Args).walk") {
						walked = true
						// what is numbered are the arguments of the goroutines'
						// own stacks: the frames of a creation stack (a race
						// report prints them with arguments) are not part of it
						if len(ev.Val.Args) > 1 && strings.Contains(ev.Val.Args[1].String(), "CreatedBy") && okWalk {
							okWalk = false
							a.bad("NM-number", "enumerate/walk", "the arguments of creation-stack frames take part in the numbering ("+ev.Val.Args[1].String()+"): pointers that occur only there use up numbers, so the names of the stacks' arguments have gaps and need not start at #1", pathPos(p, fn))
						}
					}
				}
				if !walked && okWalk {
					okWalk = false
					a.bad("NM-number", "enumerate/walk", "an iteration over the calls of a goroutine can go on to the next call without walking the arguments of this one ("+litsString(p)+"): its occurrences are neither counted nor named", pathPos(p, fn))
				}
			}
			if !okWalk {
				return
			}
		}
		if okWalk {
			a.ok("NM-number", "enumerate/walk", "the arguments of every call of every goroutine are walked with the visitor", fn.Pos())
		} else {
			a.bad("NM-number", "enumerate/walk", "the enumeration does not walk every call's arguments with the visitor", fn.Pos())
		}
	}
	// --- collect filters (class B sortedness is MO's)
	phase2Filtered := false
	for i, li := range []int{1, 3} {
		l := loops[li]
		seg := &SPE{Fn: fn, Start: l.Header, MaxVisits: 2}
		seg.Stop = func(from, to *ssa.BasicBlock) bool { return (to == l.Header && l.Body[from]) || (l.Body[from] && !l.Body[to]) }
		seg.Explore()
		for _, p := range seg.Paths {
			if !(p.Term == "stop" && p.End == l.Header) {
				continue
			}
			pos := pathPos(p, fn)
			appended := false
			for _, ev := range p.Events {
				if ev.Kind == EvCall && ev.Val.Op == OpBuiltin && ev.Val.Name == "append" {
					appended = true
				}
			}
			if i == 0 {
				many, h1 := false, false
				inP, h2 := false, false
				for _, lt := range p.Lits {
					s := lt.Atom.String()
					if strings.HasPrefix(s, "(1 < len(") && strings.HasSuffix(s, ".args))") {
						many, h1 = lt.Pol, true
					}
					if strings.HasSuffix(s, ".inPrimary") {
						inP, h2 = lt.Pol, true
					}
				}
				want := h1 && many && h2 && inP
				decided := (h1 && !many) || (h1 && many && h2)
				if decided && appended == want {
					a.ok("NM-number", "phase1/filter", "phase 1 takes exactly the values that occur more than once and occur in the first goroutine", pos)
				} else {
					a.bad("NM-number", "phase1/filter", fmt.Sprintf("phase 1 must take a value iff it has more than one occurrence and occurs in the first goroutine (taken=%v on %s)", appended, litsString(p)), pos)
				}
			} else {
				inP, haveP := false, false
				other := 0
				for _, lt := range p.Lits {
					if strings.HasSuffix(lt.Atom.String(), ".inPrimary") {
						inP, haveP = lt.Pol, true
					} else {
						other++
					}
				}
				if haveP && other <= 1 && appended == !inP {
					// the values of the first goroutine are left out here instead of
					// being skipped by the numbering loop
					phase2Filtered = true
					a.ok("NM-number", "phase2/collect", "phase 2 considers every value that does not occur in the first goroutine", pos)
				} else if appended && len(p.Lits) <= 1 {
					a.ok("NM-number", "phase2/collect", "phase 2 considers every value", pos)
				} else {
					a.bad("NM-number", "phase2/collect", "phase 2 does not collect every value of the table", pos)
				}
			}
		}
	}
	// --- numbering loops
	for i, li := range []int{2, 4} {
		phase := fmt.Sprintf("phase%d", i+1)
		l := loops[li]
		seg := &SPE{Fn: fn, Start: l.Header, MaxVisits: 3}
		seg.Stop = func(from, to *ssa.BasicBlock) bool { return (to == l.Header && l.Body[from]) || (l.Body[from] && !l.Body[to]) }
		seg.Explore()
		c.stat("NM", phase+"_paths", len(seg.Paths))
		for _, p := range seg.Paths {
			if !(p.Term == "stop" && p.End == l.Header) {
				continue
			}
			pos := pathPos(p, fn)
			next := p.StopPhis["nextID"]
			var names []Event
			for _, ev := range p.Events {
				if ev.Kind == EvStore && strings.HasSuffix(ev.Addr.String(), ".Name") {
					names = append(names, ev)
				}
			}
			skipped := false
			for _, lt := range p.Lits {
				if strings.HasSuffix(lt.Atom.String(), ".inPrimary") && lt.Pol {
					skipped = true
				}
			}
			if i == 1 {
				// phase 2: a value of the first goroutine is skipped entirely
				have := false
				for _, lt := range p.Lits {
					if strings.HasSuffix(lt.Atom.String(), ".inPrimary") {
						have = true
					}
				}
				if !have && phase2Filtered {
					a.ok("NM-number", "phase2/skip-primary", "values of the first goroutine were left out when the phase 2 list was collected", pos)
				} else if !have {
					a.bad("NM-number", "phase2/skip-primary", "phase 2 does not test whether the value occurs in the first goroutine: values named in phase 1 would be renamed, or single-occurrence pointers of the first goroutine named", pos)
					continue
				}
			}
			if skipped && i == 1 {
				if len(names) == 0 && next != nil && next.Op == OpFresh {
					a.ok("NM-number", "phase2/skip-primary", "values of the first goroutine are left alone in phase 2 and consume no number", pos)
				} else {
					a.bad("NM-number", "phase2/skip-primary", "a value of the first goroutine is renamed or consumes a number in phase 2", pos)
				}
				continue
			}
			// all names of this iteration use the same, current number
			okNames := true
			for _, nm := range names {
				v := nm.Val
				if !(v.calleeIs("fmt", "Sprintf") && len(v.Args) == 3 && v.Args[1].isConst() && v.Args[1].Const.ExactString() == `"#%d"`) {
					okNames = false
					continue
				}
				if v.Args[2].Op != OpSlice {
					okNames = false
					continue
				}
				arg := p.Cells[v.Args[2].Args[0].String()+"[0]"]
				for arg != nil && arg.Op == OpConvert {
					arg = arg.Args[0]
				}
				if arg == nil || !(arg.Op == OpFresh && arg.Name == "phi:nextID") {
					okNames = false
				}
			}
			okNext := next != nil && next.String() == "(?phi:nextID + 1)"
			if okNames && okNext {
				a.ok("NM-number", phase+"/number", "every occurrence of one value gets the name #<current number>, and the number advances by one per value", pos)
			} else {
				nx := "<nil>"
				if next != nil {
					nx = next.String()
				}
				a.bad("NM-number", phase+"/number", fmt.Sprintf("all occurrences of one value must be named \"#\"+number with the same number, and the number must advance by exactly one per named value (names ok=%v, next=%s)", okNames, nx), pos)
			}
		}
	}
	nmWalk(c, a)
	nmIsPtrPure(c, a)
	return
}

// nmWalk: (*Args).walk visits &a.Values[i] (the element itself, not a copy)
// and recurses into aggregates.
func nmWalk(c *Ctx, a *flAgg) {
	fn := c.MustFunc(a.obls, "NM-walk", "stack", "Args", "walk")
	if fn == nil {
		return
	}
	exprHome = fn.Pkg.Pkg
	x := &SPE{Fn: fn, MaxVisits: 2}
	x.Explore()
	recv := fn.Params[0].Name()
	okVisit, okRec := false, false
	bad := ""
	for _, p := range x.Paths {
		for _, ev := range p.Events {
			if ev.Kind != EvCall {
				continue
			}
			call := ev.Val
			if call.Op == OpCall && call.Fn == nil && call.Args[0].Op == OpParam {
				// visitor(arg)
				if len(call.Args) == 2 && strings.HasPrefix(call.Args[1].String(), "&"+recv+".Values[") {
					agg, have := p.lit(recv + ".Values[" + idxOf(call.Args[1]) + "].IsAggregate")
					if have && !agg {
						okVisit = true
					} else {
						bad = "the visitor is called for an aggregate or without testing IsAggregate"
					}
				} else {
					bad = "the visitor does not receive the address of the element itself: " + call.String()
				}
			}
			if call.calleeIs(stackPkg, "(*Args).walk") && len(call.Args) == 3 {
				if strings.HasPrefix(call.Args[1].String(), "&"+recv+".Values[") && strings.HasSuffix(call.Args[1].String(), ".Fields") && call.Args[2].Op == OpParam {
					okRec = true
				} else {
					bad = "the recursion is not on the element's Fields with the same visitor"
				}
			}
		}
	}
	if okVisit && okRec && bad == "" {
		a.ok("NM-walk", "Args.walk", "walk passes the address of every scalar element to the visitor and recurses into the Fields of aggregates", fn.Pos())
	} else {
		a.bad("NM-walk", "Args.walk", "walk does not reach every nested scalar argument in place: "+bad, fn.Pos())
	}
}

func idxOf(e *Expr) string {
	for e != nil {
		if e.Op == OpIndexAddr {
			return e.Args[1].String()
		}
		if len(e.Args) == 0 {
			break
		}
		e = e.Args[0]
	}
	return "?"
}

// nmIsPtrPure: pointer-likeness is a function of the value only.
func nmIsPtrPure(c *Ctx, a *flAgg) {
	fn := c.MustFunc(a.obls, "NM-isptr", "stack", "", "parseArgs")
	if fn == nil {
		return
	}
	// every store to Arg.IsPtr in the module
	n := 0
	for _, pn := range []string{"stack", "internal", "stack/webstack"} {
		for _, f := range c.L.SrcFuncs(pn) {
			for _, b := range f.Blocks {
				for _, in := range b.Instrs {
					st, ok := in.(*ssa.Store)
					if !ok {
						continue
					}
					fa, ok := st.Addr.(*ssa.FieldAddr)
					if !ok || addrLast(fa) != "IsPtr" {
						continue
					}
					n++
					key := funcKey(f) + "/IsPtr"
					switch v := st.Val.(type) {
					case *ssa.UnOp:
						if src, ok := v.X.(*ssa.FieldAddr); ok && addrLast(src) == "IsPtr" {
							a.ok("NM-isptr", key, "IsPtr copied from another argument", st.Pos())
							continue
						}
					case *ssa.Field:
						a.ok("NM-isptr", key, "IsPtr copied", st.Pos())
						continue
					}
					if f == fn || coveredBy(f, fn, map[*ssa.Function]bool{}) {
						// phi(false, v < ceiling) guarded by v > floor, with the same v stored in Value
						if okPtrFormula(st) {
							a.ok("NM-isptr", key, "IsPtr = (Value > pointerFloor && Value < pointerCeiling): a function of the value only", st.Pos())
							continue
						}
					}
					a.bad("NM-isptr", key, "IsPtr is set from something else than the argument's own value compared with the two constants (or a copy): pointer-likeness would depend on more than the value", st.Pos())
				}
			}
		}
	}
	if n == 0 {
		a.und("NM-isptr", "no-store", "no store to Arg.IsPtr found", fn.Pos())
	}
}

func okPtrFormula(st *ssa.Store) bool {
	// value stored in the sibling field Value of the same composite literal
	fa := st.Addr.(*ssa.FieldAddr)
	var valueV ssa.Value
	if refs := fa.X.Referrers(); refs != nil {
		for _, r := range *refs {
			if f2, ok := r.(*ssa.FieldAddr); ok && addrLast(f2) == "Value" {
				for _, rr := range *f2.Referrers() {
					if s2, ok := rr.(*ssa.Store); ok && s2.Addr == f2 {
						valueV = s2.Val
					}
				}
			}
		}
	}
	if valueV == nil {
		return false
	}
	isCmp := func(v ssa.Value, op token.Token) bool {
		b, ok := v.(*ssa.BinOp)
		if !ok || b.Op != op {
			return false
		}
		_, isConst := b.Y.(*ssa.Const)
		return b.X == valueV && isConst
	}
	switch v := st.Val.(type) {
	case *ssa.Phi:
		// false on the edge where v > floor failed, v < ceiling otherwise
		if len(v.Edges) != 2 {
			return false
		}
		var other ssa.Value
		for _, e := range v.Edges {
			if k, ok := e.(*ssa.Const); ok && k.Value != nil && k.Value.ExactString() == "false" {
				continue
			}
			other = e
		}
		if other == nil || !isCmp(other, token.LSS) {
			return false
		}
		// the block of the phi's other edge is guarded by v > floor
		for _, p := range v.Block().Preds {
			if ifi, ok := p.Instrs[len(p.Instrs)-1].(*ssa.If); ok && isCmp(ifi.Cond, token.GTR) {
				return true
			}
		}
	case *ssa.BinOp:
		return isCmp(v, token.LSS) || isCmp(v, token.GTR)
	}
	return false
}

// nmVisitPtrForm: the table holds pointers to its entries (map[uint64]*object):
// a missing entry is allocated and stored under the argument's value, then
// the entry - new or found - gets the argument appended and its flag
// OR-accumulated in place. Returns false when the path is not of this form.
func nmVisitPtrForm(a *flAgg, p *Path, ups []Event, argN string, pos token.Pos) bool {
	var look *Expr
	isNil := false
	for _, lt := range p.Lits {
		at := lt.Atom
		if at.Op == OpBin && at.Tok == token.EQL && len(at.Args) == 2 && at.Args[1].isNilConst() && at.Args[0].Op == OpLookup && len(at.Args[0].Args) > 1 && at.Args[0].Args[1].String() == argN+".Value" {
			look, isNil = at.Args[0], lt.Pol
		}
	}
	if look == nil {
		return false
	}
	target := look.String()
	okRec := true
	why := ""
	if isNil {
		if len(ups) != 1 || ups[0].Key.String() != argN+".Value" || !strings.HasPrefix(ups[0].Val.String(), "&") {
			okRec, why = false, "a value seen for the first time is not entered under its own value with a new entry"
		} else {
			target = strings.TrimPrefix(ups[0].Val.String(), "&")
		}
	} else if len(ups) != 0 {
		okRec, why = false, "the entry of a value seen before is replaced"
	}
	var argsSt, primSt *Event
	for i, ev := range p.Events {
		if ev.Kind != EvStore {
			continue
		}
		ad, _ := stripAddr(ev.Addr.String())
		switch ad {
		case target + ".args":
			argsSt = &p.Events[i]
		case target + ".inPrimary":
			primSt = &p.Events[i]
		}
	}
	if okRec {
		okArgs := false
		if argsSt != nil && argsSt.Val.Op == OpBuiltin && argsSt.Val.Name == "append" && len(argsSt.Val.Args) == 2 && argsSt.Val.Args[1].Op == OpSlice {
			elem := p.Cells[argsSt.Val.Args[1].Args[0].String()+"[0]"]
			base := argsSt.Val.Args[0]
			okBase := base.isNilConst() && isNil || base.String() == target+".args"
			if elem != nil && elem.Op == OpParam && elem.Name == argN && okBase {
				okArgs = true
			}
		}
		if !okArgs {
			okRec, why = false, "the argument is not appended to the list of its entry"
		}
	}
	if okRec {
		a.ok("NM-visit", "visitor/record", "every pointer argument is appended to the list of its value (entries held by pointer, allocated at the first occurrence)", pos)
	} else {
		a.bad("NM-visit", "visitor/record", "a pointer argument must be recorded in the entry of its own value: "+why, pos)
	}
	// inPrimary: true stays true, otherwise the current goroutine's flag
	oldT, haveOld := false, false
	for _, lt := range p.Lits {
		if lt.Atom.String() == target+".inPrimary" {
			oldT, haveOld = lt.Pol, true
		}
	}
	okPrim := false
	if primSt != nil {
		v := primSt.Val
		isPrimary := false
		if ad := loadOf(v); ad != nil && ad.Op == OpFreeVar && ad.Name == "primary" {
			isPrimary = true
		}
		switch {
		case isNil && isPrimary:
			okPrim = true
		case !isNil && haveOld && oldT:
			if b, isC := v.boolConst(); isC && b {
				okPrim = true
			}
		case !isNil && haveOld && !oldT && isPrimary:
			okPrim = true
		case v.Op == OpBin && (v.Tok == token.OR || v.Tok == token.LOR):
			okPrim = true
		}
	} else if !isNil && haveOld && oldT {
		okPrim = true // nothing to change
	}
	if okPrim {
		a.ok("NM-visit", "visitor/inPrimary", "a value is marked as seen in the first goroutine once it was seen there (OR-accumulated in place)", pos)
	} else {
		got := "<unset>"
		if primSt != nil {
			got = primSt.Val.String()
		}
		a.bad("NM-visit", "visitor/inPrimary", "inPrimary must be (already seen in the first goroutine || now in the first goroutine); it is "+got+": pointers of the crashing goroutine that recur later would be numbered after pointers that never appear in it", pos)
	}
	return true
}
