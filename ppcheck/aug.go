package main

// AUG — source-based argument augmentation (C19).

import (
	"fmt"
	"go/token"
	"go/types"
	"strings"

	"golang.org/x/tools/go/ssa"
)

func init() {
	register(&Engine{Name: "AUG", Doc: "argument augmentation rules", Run: runAUG})
}

// abiWords: how many flattened words the runtime prints for a parameter of
// the kind (refs: Go ABI; DESIGN.md §3.11).
var abiShapes = []struct {
	name   string
	exact  string // t == exact, or
	prefix string // t starts with prefix
	words  int
}{
	{"bool", "bool", "", 1}, {"int", "int", "", 1}, {"int8", "int8", "", 1}, {"int16", "int16", "", 1}, {"int32", "int32", "", 1}, {"int64", "int64", "", 1},
	{"uint", "uint", "", 1}, {"uint8", "uint8", "", 1}, {"uint16", "uint16", "", 1}, {"uint32", "uint32", "", 1}, {"uint64", "uint64", "", 1},
	{"float32", "float32", "", 1}, {"float64", "float64", "", 1},
	{"string", "string", "", 2},
	{"slice", "", "[]", 3},
	{"pointer", "", "*", 1},
	{"map", "", "map[", 1},
	{"chan", "", "chan ", 1},
	{"func", "func", "", 1},
	{"interface{}", "interface{}", "", 2},
	// a named type is taken for an interface value (two words) whatever its
	// name begins with: "mapper" is not a map, "channel" not a chan
	{"named type mapper", "mapper", "", 2},
	{"named type channel", "channel", "", 2},
}

func runAUG(c *Ctx) (obls []Obl) {
	a := newAgg(c, &obls)
	defer a.flush()
	augTypeStr(c, a)
	augLoad(c, a)
	augParams(c, a)
	augFuncASTOrder(c, a)
	fn := c.MustFunc(&obls, "AUG-words", "stack", "", "augmentCall")
	if fn == nil {
		return
	}
	exprHome = fn.Pkg.Pkg
	loops := outermostLoops(naturalLoops(fn))
	if len(loops) != 1 {
		a.und("AUG-words", "augmentCall/loop", fmt.Sprintf("expected one argument loop, found %d", len(loops)), fn.Pos())
		return
	}
	l := loops[0]
	// closures by local variable name
	closureOf := map[string]*ssa.Function{}
	for _, b := range fn.Blocks {
		for _, in := range b.Instrs {
			if mc, ok := in.(*ssa.MakeClosure); ok {
				for _, r := range *mc.Referrers() {
					if st, ok := r.(*ssa.Store); ok {
						if al, ok := st.Addr.(*ssa.Alloc); ok {
							closureOf[al.Comment] = mc.Fn.(*ssa.Function)
						}
					}
				}
			}
		}
	}
	// pop: the closure that removes the head of the flattened list; popFmt and
	// popName: closures that call pop exactly once, unconditionally
	var popFn, popFmtFn, popNameFn *ssa.Function
	for _, af := range fn.AnonFuncs {
		for _, b := range af.Blocks {
			for _, in := range b.Instrs {
				if st, ok := in.(*ssa.Store); ok {
					if _, isFV := st.Addr.(*ssa.FreeVar); isFV {
						if sl, ok := st.Val.(*ssa.Slice); ok {
							if lo, ok := bnConst(sl.Low); ok && lo == 1 {
								popFn = af
							}
						}
						// the list consumed through a cursor: cursor = cursor + 1
						if bo, ok := st.Val.(*ssa.BinOp); ok && bo.Op == token.ADD {
							if k, isC := bnConst(bo.Y); isC && k == 1 {
								if ld, ok := bo.X.(*ssa.UnOp); ok && ld.Op == token.MUL && ld.X == st.Addr {
									popFn = af
								}
							}
						}
					}
				}
			}
		}
	}
	// ... or pop is a function of its own (a method on the list type) that
	// is handed the address of the list: *q = (*q)[1:]
	staticPop := false
	if popFn == nil {
		if sp := augStaticPop(fn); sp != nil {
			popFn, staticPop = sp, true
		}
	}
	oneWord := map[*ssa.Function]bool{}
	if popFn != nil {
		oneWord[popFn] = true
		for _, af := range fn.AnonFuncs {
			if af == popFn {
				continue
			}
			n := 0
			for _, b := range af.Blocks {
				for _, in := range b.Instrs {
					if call, ok := in.(*ssa.Call); ok {
						if ld, ok := call.Call.Value.(*ssa.UnOp); ok {
							if fv, ok := ld.X.(*ssa.FreeVar); ok && closureOf[fv.Name()] == popFn {
								n++
								if !dominatesAllReturns(call.Block(), af) {
									n += 100
								}
							}
						}
						if staticPop && call.Call.StaticCallee() == popFn {
							n++
							if !dominatesAllReturns(call.Block(), af) {
								n += 100
							}
						}
					}
				}
			}
			if n != 1 {
				continue
			}
			oneWord[af] = true
			if len(af.Params) == 1 {
				if _, isSig := af.Params[0].Type().Underlying().(*types.Signature); isSig {
					popFmtFn = af
				}
			} else if len(af.Params) == 0 {
				popNameFn = af
			}
		}
	}
	augPopIsStatic = staticPop
	if popFn == nil || popFmtFn == nil || popNameFn == nil || len(oneWord) != 3 {
		a.und("AUG-words", "augmentCall/pop-helpers", "the helpers pop/popFmt/popName (each consuming exactly one word) were not recognised", fn.Pos())
		return
	}
	augFmtHelpers(c, a, popFmtFn, popNameFn)
	seed := seedStraight(fn, l.Header)
	tName := "" // the Expr string of t is path dependent; decide atoms structurally
	_ = tName
	for _, sh := range abiShapes {
		shape := sh
		seg := &SPE{Fn: fn, Start: l.Header, MaxVisits: 2, SeedEnv: seed}
		seg.Stop = func(from, to *ssa.BasicBlock) bool { return to == l.Header && l.Body[from] }
		seg.Decide = func(atom *Expr, st *pathState) (bool, bool) {
			// t == "const"
			if atom.Op == OpBin && atom.Tok == token.EQL && atom.Args[1].isConst() && atom.Args[1].Const != nil {
				if isTypeString(atom.Args[0]) {
					k := strings.Trim(atom.Args[1].Const.ExactString(), `"`)
					if shape.exact != "" {
						return k == shape.exact, true
					}
					return strings.HasPrefix(k, shape.prefix) && false, true // a prefix shape is never equal to a basic name
				}
			}
			if atom.calleeIs("strings", "HasPrefix") && isTypeString(atom.Args[1]) && atom.Args[2].isConst() {
				p := strings.Trim(atom.Args[2].Const.ExactString(), `"`)
				if shape.exact != "" {
					return strings.HasPrefix(shape.exact, p), true
				}
				if strings.HasPrefix(shape.prefix, p) {
					return true, true
				}
				if !strings.HasPrefix(p, shape.prefix) {
					return false, true
				}
			}
			// none of the supported kinds is printed as an aggregate {...}
			if (atom.Op == OpInit || atom.Op == OpUn) && strings.HasSuffix(atom.String(), ".IsAggregate") {
				return false, true
			}
			return false, false
		}
		seg.Explore()
		nPaths := 0
		for _, p := range seg.Paths {
			if p.Term != "stop" {
				continue
			}
			// only iterations that take a declared type (i < len(types), or variadic)
			unexpected := false
			for _, ev := range p.Events {
				_ = ev
			}
			inTypes, have := false, false
			for _, lt := range p.Lits {
				s := lt.Atom.String()
				if strings.HasPrefix(s, "(?phi:i < len(extractArgumentsType(") {
					inTypes, have = lt.Pol, true
				}
			}
			if have && !inTypes {
				// beyond the declared parameters
				extra := false
				for _, lt := range p.Lits {
					if strings.HasSuffix(lt.Atom.String(), "#1") && strings.Contains(lt.Atom.String(), "extractArgumentsType(") {
						extra = lt.Pol
					}
				}
				if !extra {
					unexpected = true
				}
			}
			if unexpected {
				continue
			}
			nPaths++
			words := 0
			for _, ev := range p.Events {
				// a direct call of a stand-alone pop is executed in place:
				// its effect is the store list = list[1:]
				if staticPop && isPopStore(ev) {
					words++
				}
				if ev.Kind != EvCall || ev.Val.Op != OpCall || ev.Val.Fn != nil {
					continue
				}
				cal := ev.Val.Args[0]
				var f *ssa.Function
				if cal.Op == OpClosure {
					f = cal.Fn
				} else if ad := loadOf(cal); ad != nil && ad.Op == OpAlloc {
					f = closureOf[ad.Name]
				}
				if oneWord[f] {
					words++
				}
			}
			pos := pathPos(p, fn)
			if words == shape.words {
				a.ok("AUG-words", "augmentCall/kind:"+shape.name, fmt.Sprintf("a parameter of kind %s consumes %d word(s), as the runtime prints it", shape.name, shape.words), pos)
			} else {
				a.bad("AUG-words", "augmentCall/kind:"+shape.name, fmt.Sprintf("a parameter of kind %s consumes %d word(s) but the runtime prints %d: every following argument is rendered with its neighbour's value", shape.name, words, shape.words), pos)
			}
			augDecode(c, a, fn, p, shape.name, closureOf, popFmtFn)
		}
		if nPaths == 0 {
			a.und("AUG-words", "augmentCall/kind:"+shape.name, "no iteration path for this kind", fn.Pos())
		}
	}
	augName(c, a)
	augErrors(c, a)
	return
}

// isTypeString: the expression is the current parameter type string
// (types[i] or types[len(types)-1]).
func isTypeString(e *Expr) bool {
	ad := loadOf(e)
	if ad == nil || ad.Op != OpIndexAddr {
		return false
	}
	return strings.Contains(ad.Args[0].String(), "extractArgumentsType(") && strings.HasSuffix(ad.Args[0].String(), "#0")
}

// augFmtHelpers: what popFmt and popName may return.
func augFmtHelpers(c *Ctx, a *flAgg, popFmt, popName *ssa.Function) {
	for _, h := range []struct {
		f    *ssa.Function
		name string
	}{{popFmt, "popFmt"}, {popName, "popName"}} {
		exprHome = h.f.Pkg.Pkg
		x := &SPE{Fn: h.f, MaxVisits: 2}
		x.Explore()
		okAll := true
		why := ""
		nNil, nNamed, nTL := 0, 0, 0
		for _, p := range x.Paths {
			if p.Term != "return" || len(p.Results) != 1 {
				continue
			}
			r := p.Results[0]
			rs := r.String()
			isNil := false
			tooLarge, haveTL := false, false
			named, haveNamed := false, false
			for _, lt := range p.Lits {
				s := lt.Atom.String()
				switch {
				case strings.HasSuffix(s, "() == nil)"):
					isNil = lt.Pol
				case augPopIsStatic && strings.HasPrefix(s, "(len(") && strings.HasSuffix(s, ") == 0)") && !strings.Contains(s, ".Name)"):
					// the stand-alone pop, executed in place: an empty list gives nil
					if lt.Pol {
						isNil = true
					}
				case augPopIsStatic && strings.HasSuffix(s, "[0] == nil)"):
					if lt.Pol {
						isNil = true
					}
				case strings.HasSuffix(s, ".IsOffsetTooLarge"):
					tooLarge, haveTL = lt.Pol, true
				case strings.HasPrefix(s, "(len(") && strings.HasSuffix(s, ".Name) == 0)"), strings.HasSuffix(s, ".Name == \"\")"):
					named, haveNamed = !lt.Pol, true
				default:
					okAll, why = false, "unexpected condition "+s
				}
			}
			switch {
			case isNil:
				nNil++
			case h.name == "popName" && haveNamed && named:
				nNamed++
			case haveTL && tooLarge:
				nTL++
			}
			switch {
			case isNil:
				if rs != `"<nil>"` {
					okAll, why = false, "missing argument rendered as "+rs
				}
			case h.name == "popName" && haveNamed && named:
				if !strings.HasSuffix(rs, ".Name") {
					okAll, why = false, "named pointer rendered as "+rs
				}
			case haveTL && tooLarge:
				if rs != `"_"` {
					okAll, why = false, "too-large argument rendered as "+rs
				}
			case h.name == "popFmt":
				// fmtFn(a.Value)
				if !(r.Op == OpCall && r.Fn == nil && (r.Args[0].Op == OpFreeVar || r.Args[0].Op == OpParam) && len(r.Args) == 2 && strings.HasSuffix(r.Args[1].String(), ".Value")) {
					okAll, why = false, "a value is rendered as "+rs+" instead of through the formatter of its type"
				}
			default:
				hexSprintf := r.calleeIs("fmt", "Sprintf") && r.Args[1].isConst() && strings.Contains(r.Args[1].Const.ExactString(), "0x%x")
				// "0x" + strconv.FormatUint(v.Value, 16)
				hexConcat := false
				if r.Op == OpBin && r.Tok == token.ADD && len(r.Args) == 2 {
					if pre, exact := leadConst(r.Args[0]); exact && pre == "0x" && r.Args[1].calleeIs("strconv", "FormatUint") && len(r.Args[1].Args) == 3 {
						if base, ok := r.Args[1].Args[2].intConst(); ok && base == 16 && strings.HasSuffix(r.Args[1].Args[1].String(), ".Value") {
							hexConcat = true
						}
					}
				}
				if !hexSprintf && !hexConcat {
					okAll, why = false, "a pointer-like value is rendered as "+rs
				}
			}
		}
		// the three special renderings exist: the word list can run out
		// (pop returns nil: a frame printed with fewer words than the
		// declaration needs), a word can be the "_" placeholder, a pointer
		// can carry a pseudo-name
		switch {
		case !okAll:
		case nNil == 0:
			okAll, why = false, "no path renders a missing argument (pop() == nil) as <nil>: the nil argument is dereferenced when the frame has fewer words than the declaration needs"
		case nTL == 0:
			okAll, why = false, "no path renders a too-large argument as _: its meaningless zero value is shown as if it had been passed"
		case h.name == "popName" && nNamed == 0:
			okAll, why = false, "no path shows the pseudo-name of a named pointer: the processed arguments lose the names the raw ones carry"
		}
		if h.name == "popFmt" {
			if pf := h.f.Parent(); pf != nil {
				augBases(a, pf)
			}
		}
		if okAll {
			a.ok("AUG-fmt", "augmentCall/"+h.name, h.name+" renders a missing argument as <nil>, a too-large one as _, and otherwise the value itself ("+map[string]string{"popFmt": "through the formatter of the declared type", "popName": "as its pseudo-name or in hexadecimal"}[h.name]+")", h.f.Pos())
		} else {
			a.bad("AUG-fmt", "augmentCall/"+h.name, h.name+": "+why+": the rendered value would not be what the program passed", h.f.Pos())
		}
	}
}

// augDecode: the formatter used for a scalar kind decodes through the type
// of the same name.
func augDecode(c *Ctx, a *flAgg, fn *ssa.Function, p *Path, kind string, closureOf map[string]*ssa.Function, popFmt *ssa.Function) {
	want := map[string]struct {
		convs []string
		call  string
	}{
		"int": {[]string{"int", "int64"}, "FormatInt"}, "int8": {[]string{"int8", "int64"}, "FormatInt"}, "int16": {[]string{"int16", "int64"}, "FormatInt"},
		"int32": {[]string{"int32", "int64"}, "FormatInt"}, "int64": {[]string{"int64"}, "FormatInt"},
		"uint": {nil, "FormatUint"}, "uint8": {nil, "FormatUint"}, "uint16": {nil, "FormatUint"}, "uint32": {nil, "FormatUint"}, "uint64": {nil, "FormatUint"},
		"float32": {[]string{"uint32", "float64"}, "FormatFloat:32"}, "float64": {nil, "FormatFloat:64"},
	}
	w, ok := want[kind]
	if !ok {
		return
	}
	// the closure passed to popFmt on this path
	var fmtFn *ssa.Function
	for _, ev := range p.Events {
		if ev.Kind != EvCall || ev.Val.Op != OpCall || ev.Val.Fn != nil {
			continue
		}
		cal := ev.Val.Args[0]
		var f *ssa.Function
		if cal.Op == OpClosure {
			f = cal.Fn
		} else if ad := loadOf(cal); ad != nil && ad.Op == OpAlloc {
			f = closureOf[ad.Name]
		}
		if f == popFmt && len(ev.Val.Args) == 2 {
			if ev.Val.Args[1].Op == OpClosure {
				fmtFn = ev.Val.Args[1].Fn
			} else if ev.Val.Args[1].Op == OpFunc {
				fmtFn = ev.Val.Args[1].Fn
			}
		}
	}
	key := "augmentCall/decode:" + kind
	if fmtFn == nil {
		a.bad("AUG-decode", key, "no formatter is applied to a "+kind+" argument", pathPos(p, fn))
		return
	}
	var convs []string
	call := ""
	for _, b := range fmtFn.Blocks {
		for _, in := range b.Instrs {
			switch in := in.(type) {
			case *ssa.Convert:
				convs = append(convs, types.TypeString(in.Type(), nil))
			case *ssa.Call:
				if cal := in.Call.StaticCallee(); cal != nil {
					n := cal.Name()
					if n == "FormatFloat" && len(in.Call.Args) == 4 {
						if bs, ok := bnConst(in.Call.Args[3]); ok {
							n = fmt.Sprintf("FormatFloat:%d", bs)
						}
						// the shortest representation that round-trips: format 'g', negative precision
						if f, ok := bnConst(in.Call.Args[1]); !ok || f != 'g' {
							n += "/format"
						}
						if pr, ok := bnConst(in.Call.Args[2]); !ok || pr >= 0 {
							n += "/precision"
						}
					}
					// decimal
					if (n == "FormatInt" || n == "FormatUint") && len(in.Call.Args) == 2 {
						if base, ok := bnConst(in.Call.Args[1]); !ok || base != 10 {
							n += fmt.Sprintf("/base%d", base)
						}
					}
					if strings.HasPrefix(n, "Format") {
						call = n
					}
					if n == "Float32frombits" || n == "Float64frombits" {
						convs = append(convs, "bits:"+n)
					}
				}
			}
		}
	}
	okConv := true
	for _, need := range w.convs {
		if !contains(convs, need) {
			okConv = false
		}
	}
	// no narrowing through a different width
	for _, cv := range convs {
		if strings.HasPrefix(cv, "int") && cv != "int64" && !contains(w.convs, cv) {
			okConv = false
		}
		if strings.HasPrefix(cv, "uint") && !contains(w.convs, cv) {
			okConv = false
		}
	}
	if kind == "float32" && !contains(convs, "bits:Float32frombits") {
		okConv = false
	}
	if kind == "float64" && !contains(convs, "bits:Float64frombits") {
		okConv = false
	}
	if okConv && call == w.call {
		a.ok("AUG-decode", key, fmt.Sprintf("%s is decoded through %v and %s", kind, w.convs, w.call), fmtFn.Pos())
	} else {
		a.bad("AUG-decode", key, fmt.Sprintf("a %s argument is not decoded through its own type and width (conversions %v, formatter %s; expected %v, %s): the rendered value differs from what the program passed", kind, convs, call, w.convs, w.call), fmtFn.Pos())
	}
}

// augName: the augmentation of a frame is guarded by a predicate over both
// the frame's function name and the name of the declaration found by line.
// augDeclMatches: the name guard accepts a declaration only when its name
// EQUALS a component of the frame's function name (prefix, substring or
// case-insensitive matches would accept the enclosing-by-line declaration of
// shifted sources whenever the names are related: run / runAll).
func augDeclMatches(c *Ctx, a *flAgg) {
	fn := c.MustFunc(a.obls, "AUG-name", "stack", "", "declMatches")
	if fn == nil || len(fn.Params) != 2 {
		return
	}
	exprHome = fn.Pkg.Pkg
	x := &SPE{Fn: fn, MaxVisits: 3}
	x.Explore()
	frame, decl := fn.Params[0].Name(), fn.Params[1].Name()
	nTrue, ok := 0, true
	why := ""
	for _, p := range x.Paths {
		if p.Term != "return" || len(p.Results) != 1 {
			continue
		}
		if v, isC := p.Results[0].boolConst(); !isC {
			ok, why = false, "the result is not decided by comparisons on the path: "+p.Results[0].String()
			continue
		} else if !v {
			continue
		}
		nTrue++
		eq := false
		for _, lt := range p.Lits {
			at := lt.Atom
			if !lt.Pol || at.Op != OpBin || at.Tok != token.EQL || len(at.Args) != 2 {
				continue
			}
			l, r := at.Args[0], at.Args[1]
			isDecl := func(e *Expr) bool { return e.Op == OpParam && e.Name == decl }
			ofFrame := func(e *Expr) bool {
				return e.mentions(func(y *Expr) bool { return y.Op == OpParam && y.Name == frame })
			}
			if (isDecl(l) && ofFrame(r)) || (isDecl(r) && ofFrame(l)) {
				eq = true
			}
		}
		if !eq {
			ok, why = false, "a declaration is accepted on a path without an equality between its name and a part of the frame's function name ("+litsString(p)+")"
		}
	}
	switch {
	case !ok:
		a.bad("AUG-name", "declMatches/equality", why+": with shifted sources a frame is decoded with the signature of a function whose name merely resembles its own", fn.Pos())
	case nTrue == 0:
		a.bad("AUG-name", "declMatches/equality", "declMatches never accepts", fn.Pos())
	default:
		a.ok("AUG-name", "declMatches/equality", "a declaration is accepted only when its name equals a dot-separated component of the frame's function name (type arguments cut off)", fn.Pos())
	}
}

func augName(c *Ctx, a *flAgg) {
	augDeclMatches(c, a)
	fn := c.MustFunc(a.obls, "AUG-name", "stack", "cacheAST", "augmentGoroutine")
	if fn == nil {
		return
	}
	exprHome = fn.Pkg.Pkg
	loops := outermostLoops(naturalLoops(fn))
	if len(loops) != 1 {
		a.und("AUG-name", "augmentGoroutine/loop", "loop over the calls not found", fn.Pos())
		return
	}
	l := loops[0]
	seg := &SPE{Fn: fn, Start: l.Header, MaxVisits: 2}
	seg.Stop = func(from, to *ssa.BasicBlock) bool { return (to == l.Header && l.Body[from]) || (l.Body[from] && !l.Body[to]) }
	seg.Explore()
	// every frame of the goroutine gets its turn: a frame without arguments,
	// or one whose declaration cannot be located, is skipped - it does not end
	// the loop
	if early := leftEarly(seg.Paths, l, nil); len(early) > 0 {
		a.bad("AUG-name", "augmentGoroutine/all-frames", "the loop over the frames is left before the last frame ("+litsString(early[0])+"): the frames behind it stay unaugmented", pathPos(early[0], fn))
	} else {
		a.ok("AUG-name", "augmentGoroutine/all-frames", "the loop over the frames ends only after the last frame", fn.Pos())
	}
	n := 0
	for _, p := range seg.Paths {
		if !(p.Term == "stop" && p.End == l.Header) {
			continue
		}
		calls := callEvents(p, isCallTo(stackPkg, "augmentCall"))
		if len(calls) == 0 {
			continue
		}
		n++
		pos := pathPos(p, fn)
		call := calls[0].Val
		guarded := false
		for _, lt := range p.Lits {
			s := lt.Atom.String()
			if at := lt.Atom; at.calleeIs(stackPkg, "declMatches") && len(at.Args) == 3 {
				// the name compared is the frame's function name without
				// its package path (whose dots would add components)
				if lt.Pol && strings.HasSuffix(at.Args[1].String(), ".Func.Name") && strings.HasSuffix(at.Args[2].String(), ".Name.Name") {
					guarded = true
				}
				continue
			}
			if lt.Pol && strings.Contains(s, ".Func.Name") && strings.Contains(s, ".Name.Name") {
				guarded = true
			}
		}
		// ... or the check was moved into getFuncAST: every declaration it hands
		// out matched the name it was given, and it is given the frame's Func.Name
		if !guarded {
			for _, ev := range p.Events {
				if ev.Kind == EvCall && ev.Val.Op == OpCall && ev.Val.Fn != nil && ev.Val.Fn.Name() == "getFuncAST" && len(ev.Val.Args) > 2 {
					if strings.HasSuffix(ev.Val.Args[2].String(), ".Func.Name") && augCalleeGuards(ev.Val.Fn) {
						guarded = true
					}
				}
			}
		}
		// the declaration passed is the one found for this call's line
		okArgs := len(call.Args) == 3 && strings.Contains(call.Args[2].String(), "getFuncAST(") && strings.HasSuffix(call.Args[2].String(), "#0")
		// no argument-less frame is augmented
		noArgs := false
		for _, lt := range p.Lits {
			s := lt.Atom.String()
			if strings.HasPrefix(s, "(len(") && strings.HasSuffix(s, ".Args.Values) == 0)") && lt.Pol {
				noArgs = true
			}
		}
		// getFuncAST may find no declaration and report no error (a line behind
		// the last node of the file): the declaration is used only if there is one
		declNonNil := false
		for _, lt := range p.Lits {
			at := lt.Atom
			if !lt.Pol && at.Op == OpBin && at.Tok == token.EQL && len(at.Args) == 2 && at.Args[1].isNilConst() && strings.Contains(at.Args[0].String(), "getFuncAST(") && strings.HasSuffix(at.Args[0].String(), "#0") {
				declNonNil = true
			}
		}
		// ... and the parsed file it is looked up in exists: a file that could
		// not be loaded is remembered as a nil entry
		fileNonNil := false
		for _, ev := range p.Events {
			if ev.Kind == EvCall && ev.Val.Op == OpCall && ev.Val.Fn != nil && ev.Val.Fn.Name() == "getFuncAST" && len(ev.Val.Args) > 1 {
				recv := ev.Val.Args[1].String()
				if isNil, have := p.lit("(" + recv + " == nil)"); have && !isNil {
					fileNonNil = true
				}
				if strings.HasPrefix(recv, "&") {
					fileNonNil = true // address of a local
				}
			}
		}
		if !fileNonNil {
			a.bad("AUG-name", "augmentGoroutine/file-non-nil", "getFuncAST is called on a parsed file that was not tested to exist: a file that failed to load is remembered as a nil entry, and the second frame in it dereferences nil", pos)
		} else {
			a.ok("AUG-name", "augmentGoroutine/file-non-nil", "the declaration is looked up only in a file that was loaded", pos)
		}
		if !declNonNil {
			a.bad("AUG-name", "augmentGoroutine/decl-non-nil", "the declaration returned by getFuncAST is used (its name read, the frame augmented) without testing that there is one: getFuncAST returns (nil, nil) for a line behind the last syntax node, and the dereference panics", pos)
		} else {
			a.ok("AUG-name", "augmentGoroutine/decl-non-nil", "the declaration is used only where getFuncAST returned one", pos)
		}
		switch {
		case !guarded:
			a.bad("AUG-name", "augmentGoroutine/name-guard", "augmentCall is applied without checking that the declaration found by line number is the function of the frame: with shifted sources a frame is decoded with the signature of an unrelated function", pos)
		case !okArgs || noArgs:
			a.bad("AUG-name", "augmentGoroutine/name-guard", "augmentCall does not receive the declaration found for this frame's line", pos)
		default:
			a.ok("AUG-name", "augmentGoroutine/name-guard", "a frame is augmented only with the declaration found at its line and only if that declaration's name is a component of the frame's function name", pos)
		}
		// errors of getFuncAST skip the frame
		errNil := false
		for _, lt := range p.Lits {
			s := lt.Atom.String()
			if strings.Contains(s, "getFuncAST(") && strings.HasSuffix(s, "#1 == nil)") {
				errNil = lt.Pol
			}
		}
		if !errNil {
			a.bad("AUG-name", "augmentGoroutine/error-skips", "a frame is augmented although locating its declaration failed", pos)
		}
	}
	if n == 0 {
		a.und("AUG-name", "augmentGoroutine/name-guard", "no path calls augmentCall", fn.Pos())
	}
}

// augErrors: source problems are collected, never fatal: the callers ignore
// augment's error and nothing on the way panics explicitly (PN).
func augErrors(c *Ctx, a *flAgg) {
	f := c.L.Func("stack", "", "ScanSnapshot")
	if f == nil {
		return
	}
	for _, b := range blocksWithHelpers(f) {
		for _, in := range b.Instrs {
			if call, ok := in.(*ssa.Call); ok {
				if cal := call.Call.StaticCallee(); cal != nil && cal.Name() == "augment" {
					refs := call.Referrers()
					if refs == nil || len(*refs) == 0 {
						a.ok("AUG-errors", "ScanSnapshot/augment-error-ignored", "ScanSnapshot ignores augment's error: missing, unparsable or mismatching sources only leave arguments unaugmented", in.Pos())
					} else {
						a.bad("AUG-errors", "ScanSnapshot/augment-error-ignored", "the error of augment influences ScanSnapshot's result", in.Pos())
					}
				}
			}
		}
	}
}

// augBases: every integer rendered by augmentCall and its closures (values,
// string and slice lengths, capacities) is decimal; the only other base is
// the hexadecimal of a "0x"-prefixed pointer.
func augBases(a *flAgg, fn *ssa.Function) {
	var fns []*ssa.Function
	var add func(f *ssa.Function)
	add = func(f *ssa.Function) {
		fns = append(fns, f)
		for _, af := range f.AnonFuncs {
			add(af)
		}
	}
	add(fn)
	n := 0
	for _, f := range fns {
		for _, b := range f.Blocks {
			for _, in := range b.Instrs {
				call, ok := in.(*ssa.Call)
				if !ok {
					continue
				}
				cal := call.Call.StaticCallee()
				if cal == nil || calleePkg(cal) != "strconv" || (cal.Name() != "FormatInt" && cal.Name() != "FormatUint" && cal.Name() != "Itoa") || len(call.Call.Args) != 2 {
					continue
				}
				n++
				base, isC := bnConst(call.Call.Args[1])
				hexOK := false
				if isC && base == 16 {
					// operand of "0x" + ...
					for _, r := range *call.Referrers() {
						if bo, ok := r.(*ssa.BinOp); ok && bo.Op == token.ADD {
							if k, ok := bo.X.(*ssa.Const); ok && k.Value != nil && k.Value.ExactString() == `"0x"` {
								hexOK = true
							}
						}
					}
				}
				key := fmt.Sprintf("augmentCall/base:%s#%d", funcKey(f), n)
				if isC && (base == 10 || hexOK) {
					a.ok("AUG-fmt", key, "integers are rendered in decimal (hexadecimal only behind 0x)", call.Pos())
				} else {
					a.bad("AUG-fmt", key, fmt.Sprintf("an integer is rendered in base %d: the text shown is not the value the program passed", base), call.Pos())
				}
			}
		}
	}
}

var augPopIsStatic bool

// augStaticPop: a function of the package, outside the pinned vocabulary,
// that removes the head of the list its first parameter points to
// (*q = (*q)[1:]) and is called from fn or one of its closures.
func augStaticPop(fn *ssa.Function) *ssa.Function {
	cands := map[*ssa.Function]bool{}
	for _, f := range append([]*ssa.Function{fn}, fn.AnonFuncs...) {
		for _, b := range f.Blocks {
			for _, in := range b.Instrs {
				if call, ok := in.(*ssa.Call); ok {
					if cal := call.Call.StaticCallee(); cal != nil && cal.Pkg == fn.Pkg && cal.Blocks != nil && defaultInline(cal) && len(cal.Params) >= 1 {
						cands[cal] = true
					}
				}
			}
		}
	}
	var out *ssa.Function
	for cal := range cands {
		for _, b := range cal.Blocks {
			for _, in := range b.Instrs {
				st, ok := in.(*ssa.Store)
				if !ok || st.Addr != ssa.Value(cal.Params[0]) {
					continue
				}
				if sl, ok := st.Val.(*ssa.Slice); ok && sl.High == nil {
					if lo, ok := bnConst(sl.Low); ok && lo == 1 {
						if ld, ok := sl.X.(*ssa.UnOp); ok && ld.X == ssa.Value(cal.Params[0]) {
							if out != nil && out != cal {
								return nil
							}
							out = cal
						}
					}
				}
			}
		}
	}
	return out
}

// isPopStore: store X = X[1:]
func isPopStore(ev Event) bool {
	if ev.Kind != EvStore || ev.Val == nil || ev.Val.Op != OpSlice || len(ev.Val.Args) != 4 || ev.Val.Args[1] == nil || ev.Val.Args[2] != nil {
		return false
	}
	if k, isC := ev.Val.Args[1].intConst(); !isC || k != 1 {
		return false
	}
	ad, _ := stripAddr(ev.Addr.String())
	return ad == ev.Val.Args[0].String()
}

// augCalleeGuards: every path of getFuncAST that returns a declaration has
// found declMatches(<its name parameter>, <that declaration>.Name.Name) true.
func augCalleeGuards(fn *ssa.Function) bool {
	if fn == nil || len(fn.Params) < 2 {
		return false
	}
	name := fn.Params[1].Name()
	x := &SPE{Fn: fn, MaxVisits: 2}
	x.Explore()
	n := 0
	for _, p := range x.Paths {
		if p.Term != "return" || len(p.Results) < 1 || p.Results[0].isNilConst() {
			continue
		}
		if isNil, have := p.lit("(" + p.Results[0].String() + " == nil)"); have && isNil {
			continue
		}
		n++
		ok := false
		for _, lt := range p.Lits {
			if at := lt.Atom; lt.Pol && at.calleeIs(stackPkg, "declMatches") && len(at.Args) == 3 && at.Args[1].String() == name && at.Args[2].String() == p.Results[0].String()+".Name.Name" {
				ok = true
			}
		}
		if !ok {
			return false
		}
	}
	return n > 0
}
