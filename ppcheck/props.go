package main

// Which rules decide which property (DESIGN.md §4). A property is claimed
// only through rules that are necessary conditions of its statement.

const trustedCommon = "go/packages + go/types + go/ssa (x/tools v0.29.0) represent the program faithfully; the Go compiler implements the language semantics"

func init() {
	p := func(id string, sel []RuleSel, min map[string]int, expl string, assume ...string) {
		properties[id] = &Property{ID: id, Sel: sel, MinRules: min, Explanation: expl, Assumptions: append([]string{trustedCommon}, assume...)}
	}
	p("C01", []RuleSel{
		{"SM", []string{"SM-ref", "SM-prefix", "SM-first", "SM-append", "RX-groups", "SM-deref"}},
		{"RX", []string{"RX-*"}},
		{"AL", []string{"AL-*"}},
		{"BN", []string{"PARSE-*"}},
		{"FL", []string{"FL-fill-account", "FL-fill-err", "FL-err-after-data", "FL-chunk-once", "FL-line-shape", "FL-line-once", "FL-fill-slide"}},
		{"NM", []string{"NM-isptr"}},
	}, map[string]int{"SM-ref": 19, "SM-first": 1, "SM-prefix": 1, "RX-model": 7, "RX-status": 1, "PARSE-func": 1, "PARSE-file": 1, "PARSE-callinit": 1, "PARSE-args": 1, "PARSE-atou": 1, "PARSE-funcinit": 1},
		"Static decision of the structural clauses of parse fidelity: (RX) language inclusion printer-model ⊆ parser pattern for every line shape of runtime/traceback.go, decided on the product automaton of regexp/syntax programs read from the type-checked source; (SM) the complete transition relation of scan extracted from SSA for every state and abstract configuration and compared, line kind by line kind, with the reference automaton, including which captured group feeds which goroutine field; SM-prefix/first/append: one indentation per dump, First only on the first goroutine, goroutines and calls only appended in order; (AL) no parsed value aliases the reusable read buffer; (PARSE) which captured text feeds which field in parseFunc, parseFile, Call.init, Func.Init and per token of parseArgs, and that atou cannot overflow; (FL) every byte read reaches the scanner exactly once (counts added even with an error, chunks concatenated in order); pointer-likeness is a function of the value (NM-isptr). Not decided: value-level equality of the parsed strings and numbers.",
		"the printer model refs/printer_formats.json reflects runtime/traceback.go of go1.17..1.26", "regexp implements RE2 semantics as compiled by regexp/syntax")
	p("C02", []RuleSel{
		{"SM", []string{"SM-looking-clean", "SM-withhold", "SM-blank", "SM-done-remainder", "SM-ref"}},
		{"FL", []string{"FL-line-once", "FL-remainder", "FL-suffix-once", "FL-write-now", "FL-chunk-once", "FL-line-shape", "FL-err-after-data", "FL-fill-account", "FL-reader-fresh", "FL-unbuffered"}},
	}, map[string]int{"FL-line-once": 4, "FL-remainder": 3, "FL-suffix-once": 3, "SM-looking-clean": 1, "SM-withhold": 5, "SM-ref": 19, "FL-unbuffered": 2},
		"Every line read is consumed by the scanner, written to the pass-through writer, or returned in the suffix — exactly one of them, in order — decided over all SSA paths of one iteration of ScanSnapshot's loop and of the code after it (FL-line-once, FL-remainder, FL-write-now), of readLine/readSlice/fill (each chunk delivered once, counts added, error after data) and of the CLI loop (FL-suffix-once: remainder re-fed first or flushed once). Over the extracted scanner automaton: no line is consumed on the way to 'looking' (SM-looking-clean), consumed lines belong to a dump for which a snapshot exists (SM-withhold), at most one blank separator is swallowed (SM-blank), and a consumed terminating line forces the post-loop capture of the read-ahead (SM-done-remainder); which lines are consumed, and where a dump ends so that the remainder is handed back rather than streamed on, is the reference automaton's decision (SM-ref); the CLI's pass-through writer is stdout itself or colorable's stdout wrapper, never a filtering writer (FL-unbuffered). Not decided: byte-level cursor arithmetic beyond the shapes checked by FL-line-shape.",
		"io.Writer/io.Reader implementations passed by the caller honour their contracts")
	p("C03", []RuleSel{
		{"SM", []string{"SM-panic", "SM-deref", "RX-groups", "SM-progress"}},
		{"FL", []string{"FL-fill-guard", "FL-suffix-once"}},
		{"BN", []string{"PN-*", "BN-*", "LP-*", "PARSE-atou"}},
		{"LX", []string{"LX-enum", "LX-len"}},
		{"EQ", []string{"EQ-key", "EQ-lift"}},
		{"AG", []string{"AG-merge"}},
		{"RB", []string{"RB-*"}},
	}, map[string]int{"SM-panic": 19, "SM-deref": 19, "PN-panic": 4, "LP-loop": 10, "BN-neg": 40, "EQ-lift": 6, "RB-slice": 10, "RB-inv": 1, "RB-panic": 2, "RB-writers": 4, "BN-zero": 20, "BN-upper": 20},
		"No reachable explicit panic, no out-of-range index or nil dereference in the scanner for any line sequence (typestate facts over the extracted automaton: SM-panic, SM-deref, RX-groups), every explicit panic site classified (PN), every index/slice operand built from arithmetic or a search result proved non-negative by an interval analysis with dominating guards (BN-neg) plus upper bounds where safety is not visible at the site: constant indices need a proven minimum length (BN-zero), look-ahead indices and slice bounds x[v+c] need v+c within the length, an index that runs over another value needs equal lengths or a contract resting on a rule discharged on this run (BN-upper), and the listed idioms (BN-idiom/array/const), every loop counted or matched against its structural termination argument (LP), progress of the scan and CLI loops (SM-progress, FL-suffix-once); the accesses merge makes to the other operand with the index of the left one are discharged by the named precondition that merge is only applied to similar operands, similarity implying equal lengths at every nesting level (AG-merge, EQ-lift, EQ-key), likewise Stack.less (LX-len); (RB) the cursors of the 16 KiB line reader: a relational abstract interpretation (octahedron domain: bounds on every ±1 combination of up to three of the cursor fields, their values at method entry and the loop variables; exact linear constraints with Fourier–Motzkin along loop-free segments; inferred type invariant 0 <= r <= w <= 16384, method summaries as entry/exit relations) proves every slice of the buffer in bounds for every chunking of the input and the 'full buffer' panic unreachable. Not decided: general upper bounds outside the reader and the listed idioms, linear time.",
		"stdlib functions in the read-only table do not panic on any input (regexp, strconv, bytes, strings, net/url, go/parser, html/template)")
	p("C04", []RuleSel{
		{"AG", []string{"AG-*"}},
		{"SM", []string{"SM-first"}},
		{"EQ", []string{"EQ-key", "EQ-lift", "EQ-sig-scalars"}},
		{"LX", []string{"LX-len", "LX-swo"}},
		{"BN", []string{"BN-upper", "BN-zero"}},
	}, map[string]int{"EQ-key": 9, "EQ-lift": 6, "LX-swo": 4, "AG-once": 3, "AG-rekey": 2, "AG-merge": 1, "AG-first": 1, "AG-sorted": 1, "AG-collect": 1, "AG-back": 1, "AG-level": 1, "AG-fresh-key": 1},
		"Every clause of the partition statement is decided over all SSA paths of one iteration of Aggregate's find-or-create loop (lookup loop unrolled), of the collect loop and of the code after it: per goroutine exactly one insertion of its id (append to the matched bucket, lookup ends at the match, or one new bucket with a copy of its signature); on a match with an unequal key the bucket is re-inserted under merge(key, member) and the old key deleted, merge returning a new object; ids pass through sort.Ints after the last append; First is OR-accumulated from the members and published unchanged; every map entry becomes exactly one Bucket; the result refers back to the receiver. Disjointness and exhaustiveness of the id lists follow by induction over the goroutines from exactly-one-insertion and reachable-under-one-key; the argument needs similar to be an equivalence relation at the chosen level whose classes have one shape (equal lengths at every nesting level, otherwise merge indexes past the shorter side): EQ-key, EQ-lift, EQ-sig-scalars decide that on this run. The buckets are handed out through the sort at the end of Aggregate: its comparators are strict weak orders (LX-swo) and index the other operand only within its length (LX-len, BN-upper, BN-zero), otherwise no partition is returned at all.",
		"the Go map implements insertion/deletion during iteration as specified (an entry inserted during the range may or may not be visited; the lookup ends at the first match, so it is not)")
	p("C05", []RuleSel{
		{"EQ", []string{"EQ-key", "EQ-lift", "EQ-sig-scalars", "EQ-noread", "EQ-merge-class", "EF-fresh-merge"}},
		{"AG", []string{"AG-level", "AG-once", "AG-merge", "AG-rekey", "AG-fresh-key"}},
	}, map[string]int{"EQ-key": 9, "EQ-lift": 6, "EQ-sig-scalars": 5, "EQ-noread": 1, "EQ-merge-class": 1, "AG-level": 1},
		"similar/equal read their operands only through field loads and comparisons, so each is a decision tree over a few atoms; the tree extracted from SSA (one per level) is compared with the reference key of the property statement for every truth assignment of the atoms (exhaustive: EQ-key for arguments, EQ-lift for the pointwise liftings Args/Stack and the Call conjunction, EQ-sig-scalars for Signature incl. the ExactFlags-only lock test); the reference keys are checked to be equivalence relations that refine each other on the complete 3-value model of an argument; no function reachable from Signature.similar reads the sleep fields (EQ-noread); a merged key keeps the left side's class (EQ-merge-class) and the lookup uses the caller's level (AG-level). Bucket = class then follows by induction over arrivals (unique similar key, merge keeps the class).",
		"equality logic small-model property: functions that only compare fields are determined by the pattern of (in)equalities")
	p("C12", []RuleSel{
		{"EQ", []string{"EQ-merge-show", "EQ-sig-scalars", "EQ-merge-class", "EF-fresh-merge", "EQ-lift", "EQ-key"}},
		{"AG", []string{"AG-merge", "AG-collect"}},
	}, map[string]int{"EQ-merge-show": 8, "EQ-sig-scalars": 5, "AG-merge": 1},
		"What a merged signature is made of is decided on every SSA path of the four merge functions: an argument equal on both sides is copied unchanged, one that differs becomes '*' (with the left side's value/pointer-ness kept, nothing from the right side), aggregates are merged field by field at the same position, every other field of a frame is the left frame's (equal by similarity), frame i merges frame i of both sides, sleep bounds are min/max, Locked is the OR, state and creator are the left side's; a similar-but-not-equal member always goes through merge (AG-merge) and the published bucket signature is the map key (AG-collect); the fields taken from the left side are equal in all members because similarity compares them (EQ-lift: line, complete function reference, source path; EQ-sig-scalars: state, creator).",
		"")
	p("C13", []RuleSel{
		{"LX", []string{"LX-swo", "LX-order", "LX-enum", "LX-len"}},
		{"EQ", []string{"EQ-merge-show"}},
		{"AG", []string{"AG-first", "AG-collect"}},
		{"LOC", []string{"LOC-all", "LOC-branch"}},
	}, map[string]int{"LX-swo": 4, "LX-order": 3, "LX-enum": 4, "LOC-all": 2},
		"The comparators behind the bucket order (Stack.less, Signature.less, the Aggregate comparator, uint64Slice.Less) are recognised, on the type-checked syntax tree, as lexicographic chains of strict comparisons in which every step is the mirror image of its partner under one consistent bijective renaming that swaps the two operands (including the key computations of Stack.less); a lexicographic product of strict weak orders is a strict weak order, so irreflexivity, asymmetry, transitivity and transitivity of incomparability hold for every set of buckets. LX-order: the first key of the bucket order is 'contains the first goroutine', the first key of Stack.less is the package-main frame count, followed by the per-location counts in ascending constant order with GoMod, GOPATH, GoPkg before Stdlib (more first). LX-enum: every Location stored is a named constant below lastLocation; EQ-merge-show: merged frames keep the left frame's Location and package-main flag, so a merged bucket is ordered by what its members have. The order ranks frames by their Location class: every frame of every goroutine is classified, whatever the result for the creator or the frames before it (LOC-all), each root kind with its own class (LOC-branch).",
		"the First idiom 'if l.First || r.First {return l.First}' is a strict order because exactly one bucket is First (AG-first, SM-first)")
	p("C06", []RuleSel{
		{"MO", []string{"MO-range", "MO-source"}},
		{"LX", []string{"LX-total", "LX-swo"}},
		{"FL", []string{"FL-reader-fresh"}},
		{"EF", []string{"EF-globals", "EF-immut", "EF-opts"}},
		{"EQ", []string{"EF-fresh-merge"}},
		{"RB", []string{"RB-panic", "RB-slice", "RB-inv"}},
	}, map[string]int{"MO-range": 6, "MO-source": 1, "LX-total": 1, "FL-reader-fresh": 1, "EF-opts": 1, "RB-panic": 1, "RB-inv": 1},
		"Every place where Go's randomised map order could reach an output is a range over a map: all of them (in stack, webstack, internal) are enumerated from the type-checked syntax trees and each is classified as any-match (result independent of order), collect-then-totally-sort (the collected slice is sorted by a total order before its first other use; for the buckets: by a comparator that ends in a unique key, LX-total), or the bucket lookup whose first match is unique because similarity is an equivalence (re-using the EQ/AG verdicts of this run); anything else is a violation. Also: no math/rand, clock (other than the exempt HTML timestamp), select, goroutine or pointer formatting in the library (MO-source); the line reader is a fresh local per call and no package-level variable is written after init (FL-reader-fresh, EF-globals), so nothing survives from an earlier call. The same snapshot gives the same aggregation every time it is aggregated: aggregation and rendering never write to the snapshot and merges build new values (EF-immut, EF-fresh-merge), so an earlier call cannot change what a later one sees; the caller's Opts — slices and maps included — is only read, so the next call with the same Opts starts from the same settings (EF-opts). How the io.Reader happens to chunk the same bytes is the one scheduling input of a scan: the reader's cursor invariant holds for every sequence of Read results, so no slice expression or explicit panic of the line reader depends on the chunking (RB-inv, RB-slice, RB-panic).",
		"sort.Strings/Ints/Sort produce a unique result for a total order; text/template visits map keys in sorted order; os/file-system contents are part of the input")
	p("C14", []RuleSel{
		{"EF", []string{"EF-immut", "EF-globals", "EF-opts", "EF-tpl"}},
		{"EQ", []string{"EF-fresh-merge"}},
		{"AG", []string{"AG-fresh-key", "AG-once"}},
		{"FL", []string{"FL-reader-fresh"}},
	}, map[string]int{"EF-immut": 20, "EF-globals": 30, "EF-opts": 2, "EF-tpl": 1, "EF-fresh-merge": 2},
		"'Never modifies the snapshot' is a statement about which stores exist. An inclusion-based points-to analysis written for this task seeds every pointer-like model parameter of the aggregation and rendering entry points (Aggregate, IsRace, both ToHTML, the template call-backs and String methods, the console renderers) with a synthetic object standing for all snapshot memory and reports every store, map update, delete, copy destination, in-place append or in-place sort whose target may be that object (EF-immut); merge functions build their results in fresh slices/objects (EF-fresh-merge, AG-fresh-key); no package-level variable of stack/webstack, nor memory reachable from one, is written after init or handed to a callee outside the read-only table (EF-globals), the reader is a per-call local (FL-reader-fresh), the caller's Opts are only read and the slice they share with the snapshot is never written through (EF-opts); every identifier of the HTML template resolves to a data key, a model field or a method that is among the analysed entries (EF-tpl). Without writes to shared memory there is no data race between concurrent scans, aggregations and renderings.",
		"regexp.Regexp, html/template execution and log are safe for concurrent use; templates cannot assign to fields; stdlib callees in the read-only table do not write through their arguments; races inside the standard library are not decided")
	p("C15", []RuleSel{
		{"NM", []string{"NM-*"}},
		{"FL", []string{"NM-gate"}},
		{"EF", []string{"EF-name-only"}},
		{"MO", []string{"MO-range"}},
		{"LX", []string{"LX-swo"}},
	}, map[string]int{"NM-visit": 3, "NM-number": 6, "NM-walk": 1, "NM-isptr": 2, "NM-gate": 1, "EF-name-only": 1},
		"The labelling is decided structurally over all SSA paths of nameArguments, its visitor closure and Args.walk: only values classified as pointers enter the table, keyed by value, each occurrence appended in place (walk passes the address of the element itself and recurses into aggregates); inPrimary is OR-accumulated from 'index of the goroutine == 0'; phase 1 takes exactly the values with more than one occurrence that occur in the first goroutine, phase 2 every remaining value not seen in the first goroutine; in both phases all occurrences of one value receive '#'+number with the same number and the number advances by exactly one per named value (none for a skipped one); both key lists are collected from the map and totally sorted ascending (MO class B with uint64Slice.Less); the only call site of nameArguments is guarded by exactly opts.NameArguments (NM-gate); the only snapshot field nameArguments writes is Arg.Name (EF-name-only, points-to); IsPtr is a function of the value alone (NM-isptr). Consistency, distinctness, density and order follow from numbering distinct sorted map keys.",
		"a map has at most one entry per key (distinct values get distinct numbers)")
	p("C20", []RuleSel{
		{"WEB", []string{"WEB-*"}},
		{"EF", []string{"EF-globals"}},
		{"BN", []string{"WEB-trunc", "LP-loop", "BN-*", "PN-*"}},
		{"RX", []string{"RX-model", "RX-status", "RX-elided"}},
		{"EQ", []string{"EQ-key", "EQ-lift"}},
		{"AG", []string{"AG-merge", "AG-once"}},
		{"LX", []string{"LX-len", "LX-enum"}},
	}, map[string]int{"WEB-status": 3, "WEB-method": 1, "WEB-validate": 3, "WEB-grow": 3, "WEB-opts": 1, "WEB-lock": 1},
		"The structural half of the handler contract is decided over all SSA paths of SnapshotHandler: the method test precedes everything, a non-GET gets exactly one 405, every invalid parameter value ends in exactly one 4xx reply followed by return, a failed snapshot in a 500, and the page (the aggregated snapshot written to the response) is produced only on the path without any error reply; options are created per request (WEB-opts) and no package-level state of webstack/stack is written (EF-globals), so requests cannot influence each other; the capture loop strictly grows the buffer to min(2n, maxmem) until the dump fits or maxmem is reached (WEB-grow, LP); every header and frame shape runtime.Stack prints is accepted by the parser patterns (RX); aggregation and rendering of the page cannot panic on slice bounds (BN, with the equal-shape preconditions of merge and less discharged by EQ-lift/EQ-key/AG-merge/LX-len). Not decided: anything about the live runtime, goroutine churn or request interleavings.",
		"net/http serialises nothing for us: handler re-entrancy rests on EF-globals; html/template execution is concurrency-safe")
	p("C19", []RuleSel{
		{"AUG", []string{"AUG-*"}},
		{"FL", []string{"AUG-gate"}},
		{"EF", []string{"EF-augment-only"}},
		{"BN", []string{"PN-panic", "PN-implicit", "LP-loop", "BN-neg", "BN-zero", "BN-upper"}},
	}, map[string]int{"AUG-words": 20, "AUG-decode": 12, "AUG-fmt": 2, "AUG-name": 1, "AUG-errors": 1, "EF-augment-only": 1, "AUG-typestr": 11, "AUG-load": 2},
		"For every supported parameter kind the number of flattened words augmentCall consumes is compared with the number of words the runtime prints for that kind (bool/ints/floats/pointer/map/chan/func 1, string 2, slice 3, interface 2): the type-string shape each AST kind produces is pushed through augmentCall's dispatch by deciding its string tests on the abstract shape, over all paths of one loop iteration (AUG-words); each sized signed integer and each float is decoded through the type and bit width of the same name (AUG-decode); popFmt/popName render the value itself, '_' or '<nil>' and nothing else (AUG-fmt); a frame is augmented only with the declaration found at its line whose name is a component of the frame's function name, and only when locating it succeeded (AUG-name); augmentation runs iff the option is set, its error is ignored by the caller, nothing on the way panics explicitly and its loops terminate (AUG-gate, AUG-errors, PN, LP); the only snapshot field it writes is Args.Processed (EF-augment-only, points-to) — raw values never change. AUG-typestr: per syntax kind the type name fieldToType produces has the shape augmentCall's dispatch recognises (writer/reader agreement, every path of the type switch); AUG-load: a parsed file is remembered only after it was read and parsed without error, so frames of an unreadable or unparsable source stay unaugmented. Not decided: that the rendered text equals the value for the kinds whose table entry is right (it is decoded by the named stdlib formatter).",
		"Go ABI word counts of the supported kinds as listed in the checker table; strconv/math format correctly")
	p("C18", []RuleSel{
		{"LOC", []string{"LOC-*"}},
		{"FL", []string{"LOC-gate"}},
		{"BN", []string{"BN-neg"}},
		{"MO", []string{"MO-range"}},
	}, map[string]int{"LOC-branch": 5, "LOC-sep": 3, "LOC-search": 2, "LOC-testmain": 1, "LOC-consts": 1, "LOC-order": 1, "LOC-probe": 1, "LOC-all": 3, "LOC-root-suffix": 3},
		"Claimed narrowly: the structural clauses. Every match branch of Call.updateLocations pairs (root kind, separator, Location constant, local-path construction): the relative path is what follows the matched prefix, the local path ends with the relative path, the class is assigned only while still unknown (keeps the _testmain.go special case), and the no-match path writes nothing (LOC-branch); roots are matched only at a path-component boundary in updateLocations, hasPrefix and hasSrcPrefix (LOC-sep); the upward go.mod search covers every ancestor directory and the split search every split point (LOC-search); the directory constants agree between the sibling functions (LOC-consts); a remote root is recorded from a probe of <local root>/src or /pkg/mod only when the remote prefix the probe returns ends with that same directory, and without it, so a file whose tail merely coincides with a file below the local root cannot install a root that explains none of its frames (LOC-root-suffix); root arithmetic cannot go negative (BN-neg); roots are tried in a fixed order, nested ones first (MO). Not decided: which roots are found for a given disk layout (I/O-dependent search), i.e. that every frame whose file exists locally is mapped to it.",
		"the file system answers isFile/ReadFile truthfully")
	p("C17", []RuleSel{
		{"HT", []string{"HT-*"}},
		{"BN", []string{"BN-*", "PN-panic", "PN-implicit"}},
		{"EF", []string{"EF-tpl"}},
	}, map[string]int{"HT-url": 3, "HT-html": 1, "HT-funcmap": 5, "HT-tpl": 3, "HT-complete": 3, "HT-gen": 1, "HT-escape": 3, "BN-zero": 20, "BN-upper": 20},
		"HTML safety rests on a handful of typed-string conversions and on the contexts in which the template inserts data. HT-url: an abstract evaluation of the string expressions of html.go (constants, concatenation, constant-format Sprintf, QueryEscape, EscapedPath, phi = join, calls = join of returns, fixpoint) decides that every value a template function can return as trusted URL is empty, constant, begins with a fixed https://host/, file:/// or data: prefix, or is query-escaped; HT-html: trusted-markup conversions take only constants or HTMLEscapeString results; HT-funcmap: the FuncMap holds exactly the vetted producers and no escaper-changing name; HT-tpl: the shipped template is parsed and every action is located in its HTML context by a tokenizer over the text nodes: none inside script/style/on*/unquoted attributes, in href/src an action is the whole value or follows constant text fixing the scheme, html/urlquery/js are not used; HT-complete: the loops over calls, buckets and goroutines emit their row/heading unconditionally; HT-gen: the analysed constant is goroutines.tpl after the generator's whitespace rule; HT-escape: a may-taint analysis (raw = may contain unescaped dump text; cleaned only by net/url's escapers and number formatting; propagated through concatenation, Sprintf, substrings, conversions, phis and module calls) decides that every non-constant part of a URL returned by a template function passed through a URL escaper; BN-neg/BN-zero/BN-upper/PN: the helper functions cannot panic on slice bounds or indices (rendering succeeds).",
		"html/template's contextual auto-escaping, including normalisation of template.URL values inside quoted attributes, is correct")
	p("C16", []RuleSel{
		{"NI", []string{"NI-*"}},
		{"EF", []string{"EF-immut"}},
		{"EQ", []string{"EQ-merge-show", "EQ-sig-scalars", "EF-fresh-merge"}},
	}, map[string]int{"NI-flow": 1, "NI-width": 3, "NI-split": 2, "NI-all": 2, "NI-header": 2, "NI-creator": 1, "NI-flags": 4, "EQ-merge-show": 8},
		"Colour independence is a non-interference property: palette strings (loads of Palette fields and everything concatenated or formatted from them) may flow only into string concatenation, %s operands of constant formats, returns and writers — never into a comparison, len, index, conversion or a width operand; the one documented exception is the header handed to the filter/match expressions (NI-flow, taint analysis over package internal). NI-width: the widths computed by calcBucketsLengths/calcGoroutinesLengths are the lengths of exactly the two expressions callLine pads with %-*s. NI-split/NI-all: per element both console writers compute the header once, apply filter and match to that very string with opposite polarity, and write header then stack for every element not skipped. NI-header: a header is count/id and state, then the sleep range iff non-empty, the lock marker iff locked, the creator iff known. NI-creator: the creator named in a header is the first frame of the creation stack, the element the HTML sibling shows. NI-flags: the expressions the writers apply are the ones given on the command line — each writer's filter/match parameter is fed, call site by call site up to Main, by the caller's parameter of the same role, and on every path of Main the value in that position is the compiled -f (-m) flag when the flag is non-empty and nil when it is empty. What a bucket's block shows (state, sleep range, lock, frames, the elided-frames marker) is the merged signature: the merge rules (EQ-merge-show, EQ-sig-scalars, EF-fresh-merge) decide that every such field, Elided included, is carried into it. Not decided: the exact wording.",
		"fmt pads by rune count of the uncoloured operands")
	p("C07", []RuleSel{
		{"SM", []string{"SM-ref", "SM-progress", "SM-looking-clean", "SM-done-remainder"}},
		{"RX", []string{"RX-model", "RX-status", "RX-elided"}},
		{"FL", []string{"FL-remainder", "FL-suffix-once", "FL-line-once", "FL-reader-fresh", "FL-fill-account", "FL-fill-err", "FL-err-after-data", "FL-chunk-once", "FL-line-shape"}},
	}, map[string]int{"SM-ref": 19, "FL-remainder": 3, "FL-suffix-once": 3, "FL-fill-account": 1, "FL-chunk-once": 1},
		"The transition relation of scan is extracted from SSA (all 19 states × abstract configurations; every path) and compared with the reference automaton refs/scan_automaton.json for every assignment of the line-kind predicates (which line kinds start, continue, end or invalidate a dump); the exclusion facts used by the comparison are themselves verified on the regexp syntax trees. Together with FL-remainder (terminating line + read-ahead returned, no read after the loop), SM-done-remainder and FL-suffix-once (MultiReader(suffix, rest), suffix first) this decides delimitation and resumability at the level of line kinds; every byte the underlying reader delivers reaches the scanner as part of exactly one line, also when it arrives together with the end-of-stream error (FL-fill-account, FL-fill-err, FL-err-after-data, FL-chunk-once, FL-line-shape), so no dump of the stream is skipped; which lines continue a dump rests on the line patterns accepting everything the runtime prints (RX-model, RX-status, RX-elided: inclusion of the printer model). Not decided: that two scans of the same dump text give equal snapshots at value level (follows from C06's determinism rules).",
		"the reference automaton is the documented line grammar")
	p("C08", []RuleSel{
		{"SM", []string{"SM-ref", "SM-raceidx", "SM-deref", "SM-first", "SM-append", "RX-groups", "SM-done-remainder"}},
		{"RX", []string{"RX-race*"}},
		{"BN", []string{"RACE-*"}},
		{"FL", []string{"FL-remainder"}},
	}, map[string]int{"SM-ref": 19, "SM-raceidx": 2, "FL-remainder": 3},
		"Race half of the scanner automaton compared with the reference (one goroutine appended per operation header with id/address/kind taken from the right capture groups, creation frames appended to the goroutine whose id matched, unknown id ⇒ error, footer ends the report), index facts for goroutineIndex (SM-raceidx, SM-deref), language inclusion of tsan's Go report line shapes in the three race patterns (RX-race), IsRace reads the first goroutine's address (RACE-israce). Not decided: numeric value of addresses; IsRace for address 0. The closing separator is consumed by the scanner, so what was read ahead behind it (a second report, the test output) has to be handed back by ScanSnapshot after the loop (SM-done-remainder, FL-remainder).",
		"refs/printer_formats.json reflects tsan_report.cpp (Go branch)")
	p("C09", []RuleSel{
		{"FL", []string{"FL-chunk-once", "FL-line-shape", "FL-err-after-data", "FL-fill-account", "FL-fill-slide", "FL-fill-guard", "FL-fill-err", "FL-reader-fresh", "FL-fill-retry", "FL-err-prec", "FL-fill-once"}},
		{"AL", []string{"AL-*"}},
		{"SM", []string{"SM-prefix"}},
		{"RB", []string{"RB-*"}},
	}, map[string]int{"FL-chunk-once": 1, "FL-line-shape": 3, "FL-fill-account": 1, "AL-buffer": 1, "RB-slice": 10, "RB-inv": 1, "RB-panic": 2, "RB-writers": 4, "RB-nonempty": 1},
		"Delivery independence is decided through its structural necessary conditions: nothing that outlives one readLine call aliases the refillable buffer (AL: inclusion-based points-to from the buffer to the scanner state and results; SM-prefix: the indentation is a fresh copy) — otherwise the outcome depends on when a refill happens; every byte count returned by Read is accounted for even when it comes with an error, the error is reported after the buffered data, unread data is slid correctly, lines are buf[r:r+i+1] with r advanced by the same amount, long lines are the in-order concatenation of buffer-full chunks (FL rules over all paths of fill/readSlice/readLine); (RB) the relational invariant 0 <= r <= w <= 16384 and 0 <= s <= w-r is inferred by abstract interpretation in the octahedron domain over the cursor fields, their entry values and the loop variables, closed under every sequence of method calls and every Read result 0 <= n <= len(p): every slice of the buffer is in bounds whatever the chunking, the buffer handed to Read is never empty, the 'full buffer' panic is unreachable. Not decided: equality of the delivered bytes with the input beyond these structural conditions.",
		"io.Reader contract: 0 <= n <= len(p)")
	p("C10", []RuleSel{
		{"SM", []string{"SM-cut-forward", "SM-cur-only", "SM-append", "SM-panic", "SM-deref"}},
		{"FL", []string{"FL-err-prec", "FL-snapshot", "FL-fill-account", "FL-fill-err", "FL-err-after-data", "FL-fill-guard", "FL-reader-fresh", "NM-gate", "LOC-gate", "AUG-gate"}},
		{"RB", []string{"RB-writers"}},
		{"BN", []string{"WEB-trunc", "BN-neg", "BN-idiom", "BN-zero", "BN-upper"}},
		{"LOC", []string{"LOC-all"}},
	}, map[string]int{"FL-err-prec": 2, "FL-snapshot": 1, "SM-cur-only": 5, "SM-cut-forward": 1},
		"A reader failure is returned as exactly that error unless it is nil/EOF (FL-err-prec over all paths of the scan loop); a snapshot is returned iff a goroutine header was seen (FL-snapshot); data delivered together with an error is not lost and the error is reported after it (FL-fill-account, FL-fill-err, FL-err-after-data); goroutines before the cut are never written again (SM-cur-only, SM-append over the extracted automaton, whose fixpoint is closed under end-of-stream in every configuration: SM-panic, SM-deref); an unterminated last line is not forwarded when it may be the head of a dump line (SM-cut-forward); naming, path guessing and source augmentation of what was parsed run whenever their option is set, whatever the error (NM-gate, LOC-gate, AUG-gate); the bytes delivered with the failing Read are split into lines like any others (FL-fill-guard: the newline search precedes the pending-error test) and nothing of one call's reader — cursors or a pending error — survives into the next (FL-reader-fresh, RB-writers), so the earlier goroutines get the same post-processing as in the uncut parse; no constant index or computed bound on the way can fail on the shapes a cut line produces (BN-neg, BN-idiom, BN-zero, BN-upper). Not decided: value-level equality of the earlier goroutines with the uncut parse.",
		"")
	p("C11", []RuleSel{
		{"FL", []string{"FL-fill-once", "FL-fill-guard", "FL-write-now", "FL-remainder", "FL-unbuffered", "FL-suffix-once"}},
		{"RB", []string{"RB-nonempty", "RB-inv", "RB-writers"}},
		{"SM", []string{"SM-ref", "SM-looking-clean"}},
	}, map[string]int{"FL-fill-once": 1, "FL-fill-guard": 1, "FL-write-now": 1, "FL-unbuffered": 2, "RB-nonempty": 1, "RB-inv": 1, "SM-ref": 19},
		"The three mechanisms the property rests on are decided over all paths: fill returns after the first Read that delivers data or an error (FL-fill-once) and is reached only when no complete line is buffered (FL-fill-guard); each pass-through line is written by the very iteration that read it, before the next read (FL-write-now, FL-line-once); once the terminating line is known no further read happens (FL-remainder); the CLI writes to unbuffered stdout/stderr and re-feeds the remainder without reading ahead (FL-unbuffered, FL-suffix-once); the slice handed to Read always has room for at least one byte (RB-nonempty, from the inferred cursor invariant), so a blocked read is waiting for data and never spinning on an empty buffer; which line ends a dump — the first line that cannot belong to it, so that the snapshot is handed out without waiting for more — is the reference automaton's decision (SM-ref). Not decided: scheduling of the OS pipe.",
		"os.Stdout and colorable writers are unbuffered")
}
