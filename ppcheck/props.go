package main

// Which rules decide which property (DESIGN.md §4). A property is claimed
// only through rules that are necessary conditions of its statement.

const trustedCommon = "go/packages + go/types + go/ssa (x/tools v0.29.0) represent the program faithfully; the Go compiler implements the language semantics"

func init() {
	p := func(id string, sel []RuleSel, min map[string]int, expl string, assume ...string) {
		properties[id] = &Property{ID: id, Sel: sel, MinRules: min, Explanation: expl, Assumptions: append([]string{trustedCommon}, assume...)}
	}
	p("C01", []RuleSel{
		{"SM", []string{"SM-ref", "SM-prefix", "SM-first", "SM-append", "RX-groups", "SM-deref"}},
		{"RX", []string{"RX-*"}},
		{"AL", []string{"AL-*"}},
		{"BN", []string{"PARSE-*"}},
	}, map[string]int{"SM-ref": 19, "SM-first": 1, "SM-prefix": 1, "RX-model": 8},
		"Static decision of the structural clauses of parse fidelity: (RX) language inclusion printer-model ⊆ parser pattern for every line shape of runtime/traceback.go, decided on the product automaton of regexp/syntax programs read from the type-checked source; (SM) the complete transition relation of scan extracted from SSA for every state and abstract configuration and compared, line kind by line kind, with the reference automaton, including which captured group feeds which goroutine field; SM-prefix/first/append: one indentation per dump, First only on the first goroutine, goroutines and calls only appended in order; (AL) no parsed value aliases the reusable read buffer; (PARSE) shape rules of parseArgs/Func.Init/Call.init. Not decided: value-level equality of the parsed strings and numbers.",
		"the printer model refs/printer_formats.json reflects runtime/traceback.go of go1.17..1.26", "regexp implements RE2 semantics as compiled by regexp/syntax")
	p("C02", []RuleSel{
		{"SM", []string{"SM-looking-clean", "SM-withhold", "SM-blank", "SM-done-remainder"}},
		{"FL", []string{"FL-line-once", "FL-remainder", "FL-suffix-once", "FL-write-now", "FL-chunk-once", "FL-line-shape", "FL-err-after-data", "FL-fill-account", "FL-reader-fresh"}},
	}, map[string]int{"FL-line-once": 4, "FL-remainder": 3, "FL-suffix-once": 3, "SM-looking-clean": 1, "SM-withhold": 5},
		"Every line read is consumed by the scanner, written to the pass-through writer, or returned in the suffix — exactly one of them, in order — decided over all SSA paths of one iteration of ScanSnapshot's loop and of the code after it (FL-line-once, FL-remainder, FL-write-now), of readLine/readSlice/fill (each chunk delivered once, counts added, error after data) and of the CLI loop (FL-suffix-once: remainder re-fed first or flushed once). Over the extracted scanner automaton: no line is consumed on the way to 'looking' (SM-looking-clean), consumed lines belong to a dump for which a snapshot exists (SM-withhold), at most one blank separator is swallowed (SM-blank), and a consumed terminating line forces the post-loop capture of the read-ahead (SM-done-remainder). Not decided: byte-level cursor arithmetic beyond the shapes checked by FL-line-shape.",
		"io.Writer/io.Reader implementations passed by the caller honour their contracts")
	p("C03", []RuleSel{
		{"SM", []string{"SM-panic", "SM-deref", "RX-groups", "SM-progress"}},
		{"FL", []string{"FL-fill-guard", "FL-suffix-once"}},
		{"BN", []string{"PN-*", "BN-*", "LP-*", "LX-enum"}},
	}, map[string]int{"SM-panic": 19, "SM-deref": 19, "PN-panic": 4, "LP-loop": 10, "BN-neg": 40},
		"No reachable explicit panic, no out-of-range index or nil dereference in the scanner for any line sequence (typestate facts over the extracted automaton: SM-panic, SM-deref, RX-groups), every explicit panic site classified (PN), every index/slice operand built from arithmetic or a search result proved non-negative by an interval analysis with dominating guards (BN-neg) plus the listed upper-bound idioms (BN-idiom/array), every loop counted or matched against its structural termination argument (LP), progress of the scan and CLI loops (SM-progress, FL-suffix-once). Not decided: reader cursor upper bounds (relational), general upper bounds, linear time.",
		"stdlib functions in the read-only table do not panic on any input (regexp, strconv, bytes, strings, net/url, go/parser, html/template)")
	p("C07", []RuleSel{
		{"SM", []string{"SM-ref", "SM-progress", "SM-looking-clean", "SM-done-remainder"}},
		{"FL", []string{"FL-remainder", "FL-suffix-once", "FL-line-once", "FL-reader-fresh"}},
	}, map[string]int{"SM-ref": 19, "FL-remainder": 3, "FL-suffix-once": 3},
		"The transition relation of scan is extracted from SSA (all 19 states × abstract configurations; every path) and compared with the reference automaton refs/scan_automaton.json for every assignment of the line-kind predicates (which line kinds start, continue, end or invalidate a dump); the exclusion facts used by the comparison are themselves verified on the regexp syntax trees. Together with FL-remainder (terminating line + read-ahead returned, no read after the loop), SM-done-remainder and FL-suffix-once (MultiReader(suffix, rest), suffix first) this decides delimitation and resumability at the level of line kinds. Not decided: that two scans of the same dump text give equal snapshots at value level (follows from C06's determinism rules).",
		"the reference automaton is the documented line grammar")
	p("C08", []RuleSel{
		{"SM", []string{"SM-ref", "SM-raceidx", "SM-deref", "SM-first", "SM-append", "RX-groups"}},
		{"RX", []string{"RX-race*"}},
		{"BN", []string{"RACE-*"}},
	}, map[string]int{"SM-ref": 19, "SM-raceidx": 2},
		"Race half of the scanner automaton compared with the reference (one goroutine appended per operation header with id/address/kind taken from the right capture groups, creation frames appended to the goroutine whose id matched, unknown id ⇒ error, footer ends the report), index facts for goroutineIndex (SM-raceidx, SM-deref), language inclusion of tsan's Go report line shapes in the three race patterns (RX-race), IsRace reads the first goroutine's address (RACE-israce). Not decided: numeric value of addresses; IsRace for address 0.",
		"refs/printer_formats.json reflects tsan_report.cpp (Go branch)")
	p("C09", []RuleSel{
		{"FL", []string{"FL-chunk-once", "FL-line-shape", "FL-err-after-data", "FL-fill-account", "FL-fill-slide", "FL-fill-guard", "FL-fill-err", "FL-reader-fresh"}},
		{"AL", []string{"AL-*"}},
		{"SM", []string{"SM-prefix"}},
	}, map[string]int{"FL-chunk-once": 1, "FL-line-shape": 3, "FL-fill-account": 1, "AL-buffer": 1},
		"Delivery independence is decided through its structural necessary conditions: nothing that outlives one readLine call aliases the refillable buffer (AL: inclusion-based points-to from the buffer to the scanner state and results; SM-prefix: the indentation is a fresh copy) — otherwise the outcome depends on when a refill happens; every byte count returned by Read is accounted for even when it comes with an error, the error is reported after the buffered data, unread data is slid correctly, lines are buf[r:r+i+1] with r advanced by the same amount, long lines are the in-order concatenation of buffer-full chunks (FL rules over all paths of fill/readSlice/readLine). Not decided: the relational invariant 0 ≤ r ≤ w ≤ 16384 across refills.",
		"io.Reader contract: 0 <= n <= len(p)")
	p("C10", []RuleSel{
		{"SM", []string{"SM-cut-forward", "SM-cur-only", "SM-append", "SM-panic", "SM-deref"}},
		{"FL", []string{"FL-err-prec", "FL-snapshot", "FL-fill-account", "FL-fill-err", "FL-err-after-data"}},
		{"BN", []string{"WEB-trunc", "BN-neg"}},
	}, map[string]int{"FL-err-prec": 2, "FL-snapshot": 1, "SM-cur-only": 5, "SM-cut-forward": 1},
		"A reader failure is returned as exactly that error unless it is nil/EOF (FL-err-prec over all paths of the scan loop); a snapshot is returned iff a goroutine header was seen (FL-snapshot); data delivered together with an error is not lost and the error is reported after it (FL-fill-account, FL-fill-err, FL-err-after-data); goroutines before the cut are never written again (SM-cur-only, SM-append over the extracted automaton, whose fixpoint is closed under end-of-stream in every configuration: SM-panic, SM-deref); an unterminated last line is not forwarded when it may be the head of a dump line (SM-cut-forward). Not decided: value-level equality of the earlier goroutines with the uncut parse.",
		"")
	p("C11", []RuleSel{
		{"FL", []string{"FL-fill-once", "FL-fill-guard", "FL-write-now", "FL-remainder", "FL-unbuffered", "FL-suffix-once"}},
	}, map[string]int{"FL-fill-once": 1, "FL-fill-guard": 1, "FL-write-now": 1, "FL-unbuffered": 2},
		"The three mechanisms the property rests on are decided over all paths: fill returns after the first Read that delivers data or an error (FL-fill-once) and is reached only when no complete line is buffered (FL-fill-guard); each pass-through line is written by the very iteration that read it, before the next read (FL-write-now, FL-line-once); once the terminating line is known no further read happens (FL-remainder); the CLI writes to unbuffered stdout/stderr and re-feeds the remainder without reading ahead (FL-unbuffered, FL-suffix-once). Not decided: scheduling of the OS pipe.",
		"os.Stdout and colorable writers are unbuffered")
}
