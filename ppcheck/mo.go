package main

// MO — map-iteration order (DESIGN.md §3.5): every range over a map in scope
// is classified; anything that lets Go's randomised iteration order reach an
// output is a violation. Plus the other sources of nondeterminism.

import (
	"fmt"
	"go/ast"
	"go/token"
	"go/types"
	"strings"

	"golang.org/x/tools/go/packages"
	"golang.org/x/tools/go/ssa"
)

func init() {
	register(&Engine{Name: "MO", Doc: "map iteration order and other nondeterminism", Run: runMO})
}

func exprSrc(c *Ctx, n ast.Node) string {
	e := &lxEnv{fset: c.L.Fset}
	return e.src(n)
}

// identsIn lists identifiers used in n.
func identsIn(n ast.Node) map[string]bool {
	out := map[string]bool{}
	ast.Inspect(n, func(x ast.Node) bool {
		if id, ok := x.(*ast.Ident); ok {
			out[id.Name] = true
		}
		return true
	})
	return out
}

func runMO(c *Ctx) (obls []Obl) {
	a := newAgg(c, &obls)
	defer a.flush()
	nRanges := 0
	for _, pn := range []string{"stack", "stack/webstack", "internal", ".", "cmd/pp"} {
		p := c.L.tpkg(pn)
		if p == nil {
			continue
		}
		for _, f := range p.Syntax {
			fname := c.L.Fset.Position(f.Pos()).Filename
			if strings.HasSuffix(fname, "_test.go") {
				continue
			}
			for _, d := range f.Decls {
				fd, ok := d.(*ast.FuncDecl)
				if !ok || fd.Body == nil {
					continue
				}
				ordinal := 0
				var walk func(list []ast.Stmt)
				visitBlock := func(b *ast.BlockStmt) {
					if b != nil {
						walk(b.List)
					}
				}
				walk = func(list []ast.Stmt) {
					for i, s := range list {
						switch st := s.(type) {
						case *ast.RangeStmt:
							if tv, ok := p.TypesInfo.Types[st.X]; ok {
								if _, isMap := tv.Type.Underlying().(*types.Map); isMap {
									nRanges++
									ordinal++
									moClassify(c, a, p, f, fd, st, list[i+1:], ordinal)
								}
							}
							visitBlock(st.Body)
						case *ast.BlockStmt:
							visitBlock(st)
						case *ast.IfStmt:
							visitBlock(st.Body)
							if eb, ok := st.Else.(*ast.BlockStmt); ok {
								visitBlock(eb)
							} else if ei, ok := st.Else.(*ast.IfStmt); ok {
								walk([]ast.Stmt{ei})
							}
						case *ast.ForStmt:
							visitBlock(st.Body)
						case *ast.SwitchStmt:
							for _, cc := range st.Body.List {
								walk(cc.(*ast.CaseClause).Body)
							}
						case *ast.TypeSwitchStmt:
							for _, cc := range st.Body.List {
								walk(cc.(*ast.CaseClause).Body)
							}
						case *ast.SelectStmt:
							for _, cc := range st.Body.List {
								walk(cc.(*ast.CommClause).Body)
							}
						case *ast.LabeledStmt:
							walk([]ast.Stmt{st.Stmt})
						}
						// function literals
						ast.Inspect(s, func(n ast.Node) bool {
							if fl, ok := n.(*ast.FuncLit); ok {
								walk(fl.Body.List)
								return false
							}
							return true
						})
					}
				}
				walk(fd.Body.List)
			}
		}
	}
	c.stat("MO", "map_ranges", nRanges)
	if nRanges == 0 {
		a.ok("MO-range", "no-map-range", "no range over a map in scope", token.NoPos)
	}
	moOtherSources(c, a)
	return
}

// moClassify classifies one range over a map. rest are the statements that
// follow the loop in its block.
func moClassify(c *Ctx, a *flAgg, p *packages.Package, f *ast.File, fd *ast.FuncDecl, st *ast.RangeStmt, rest []ast.Stmt, ordinal int) {
	fn := enclosingFuncName(f, st.Pos())
	key := fmt.Sprintf("%s/range#%d(%s)", fn, ordinal, exprSrc(c, st.X))
	pos := st.Pos()
	// (A) any-match: the body only declares locals from pure expressions and
	// returns constants under conditions; the function returns a constant after.
	if moAnyMatch(p, st) || moAnyMatchSSA(c, st.For) {
		a.ok("MO-range", key, "class A (any-match): the loop only returns a constant when some entry satisfies a condition; the result does not depend on the visiting order", pos)
		return
	}
	// (B) collect-then-sort
	if target, ok := moCollect(p, st); ok {
		if how, ok := moSortedBeforeUse(c, p, target, rest); ok {
			a.ok("MO-range", key, "class B (collect-then-sort): entries are only appended to "+target+", which is then totally ordered by "+how+" before any other use", pos)
			return
		} else if how != "" {
			a.bad("MO-range", key, "entries are collected into "+target+" in map order and "+how, pos)
			return
		}
	}
	// (D) the bucket lookup of Aggregate: first match wins, unique by equivalence
	if (fn == "Snapshot.Aggregate" || moCalledFromAggregate(c, fn)) && moLookupLoop(c, st) {
		dep := []string{}
		for _, e := range []string{"EQ", "AG"} {
			for _, o := range c.run(engines[e]) {
				if o.Status != Discharged && (strings.HasPrefix(o.Rule, "EQ-key") || strings.HasPrefix(o.Rule, "EQ-lift") || strings.HasPrefix(o.Rule, "EQ-sig") || strings.HasPrefix(o.Rule, "EQ-merge-class") || o.Rule == "AG-once" || o.Rule == "AG-rekey") {
					dep = append(dep, o.Rule+":"+o.Key)
				}
			}
		}
		if len(dep) == 0 {
			a.ok("MO-range", key, "class D (unique match): the lookup takes the first similar key, and at most one key is similar because similarity is an equivalence relation and merged keys stay in their class (EQ-key, EQ-lift, EQ-merge-class, AG-once, AG-rekey all discharged on this run)", pos)
		} else {
			a.bad("MO-range", key, "the lookup takes the first similar key in map order, and uniqueness of that key is not established on this run ("+strings.Join(dep, ", ")+"): which bucket a goroutine joins depends on the iteration order", pos)
		}
		return
	}
	a.bad("MO-range", key, "the effect of this loop may depend on Go's randomised map iteration order (it is neither an any-match test, nor collect-then-sort, nor a lookup with a unique match)", pos)
}

func isConstExpr(p *packages.Package, e ast.Expr) bool {
	if tv, ok := p.TypesInfo.Types[e]; ok && tv.Value != nil {
		return true
	}
	if id, ok := e.(*ast.Ident); ok && (id.Name == "true" || id.Name == "false" || id.Name == "nil") {
		return true
	}
	return false
}

func moAnyMatch(p *packages.Package, st *ast.RangeStmt) bool {
	var check func(list []ast.Stmt) bool
	check = func(list []ast.Stmt) bool {
		for _, s := range list {
			switch x := s.(type) {
			case *ast.AssignStmt:
				if x.Tok != token.DEFINE {
					return false
				}
				for _, r := range x.Rhs {
					if hasCallOtherThan(r, "len") {
						return false
					}
				}
			case *ast.DeclStmt:
			case *ast.IfStmt:
				if x.Else != nil {
					return false
				}
				if x.Init != nil {
					as, ok := x.Init.(*ast.AssignStmt)
					if !ok || as.Tok != token.DEFINE {
						return false
					}
				}
				if len(x.Body.List) != 1 {
					return false
				}
				ret, ok := x.Body.List[0].(*ast.ReturnStmt)
				if !ok {
					return false
				}
				for _, r := range ret.Results {
					if !isConstExpr(p, r) {
						return false
					}
				}
			default:
				return false
			}
		}
		return true
	}
	return check(st.Body.List)
}

func findIdent(n ast.Node, name string) *ast.Ident {
	var out *ast.Ident
	ast.Inspect(n, func(x ast.Node) bool {
		if id, ok := x.(*ast.Ident); ok && id.Name == name && out == nil {
			out = id
		}
		return out == nil
	})
	return out
}

func hasCallOtherThan(e ast.Expr, allowed ...string) bool {
	bad := false
	ast.Inspect(e, func(n ast.Node) bool {
		if call, ok := n.(*ast.CallExpr); ok {
			name := ""
			if id, ok := call.Fun.(*ast.Ident); ok {
				name = id.Name
			}
			if !contains(allowed, name) {
				bad = true
			}
		}
		return !bad
	})
	return bad
}

// moCollect: the body is "x = append(x, e)" possibly under an if.
func moCollect(p *packages.Package, st *ast.RangeStmt) (string, bool) {
	target := ""
	var check func(list []ast.Stmt) bool
	check = func(list []ast.Stmt) bool {
		for _, s := range list {
			switch x := s.(type) {
			case *ast.AssignStmt:
				if len(x.Lhs) != 1 || len(x.Rhs) != 1 || x.Tok != token.ASSIGN {
					return false
				}
				id, ok := x.Lhs[0].(*ast.Ident)
				if !ok {
					return false
				}
				call, ok := x.Rhs[0].(*ast.CallExpr)
				if !ok {
					return false
				}
				fn, ok := call.Fun.(*ast.Ident)
				if !ok || fn.Name != "append" || len(call.Args) < 2 {
					return false
				}
				if a0, ok := call.Args[0].(*ast.Ident); !ok || a0.Name != id.Name {
					return false
				}
				if target != "" && target != id.Name {
					return false
				}
				target = id.Name
			case *ast.IfStmt:
				if x.Else != nil || x.Init != nil || hasCallOtherThan(x.Cond, "len") {
					return false
				}
				if !check(x.Body.List) {
					return false
				}
			case *ast.ExprStmt:
				// an operation on the entry's own value only (sort.Ints(c.ids)):
				// independent of the order in which entries are visited
				call, ok := x.X.(*ast.CallExpr)
				if !ok || len(call.Args) != 1 {
					return false
				}
				sel, ok := call.Fun.(*ast.SelectorExpr)
				if !ok {
					return false
				}
				if pk, ok := sel.X.(*ast.Ident); !ok || !(pk.Name == "sort" && (sel.Sel.Name == "Ints" || sel.Sel.Name == "Strings") || pk.Name == "slices" && sel.Sel.Name == "Sort") {
					return false
				}
				val, _ := st.Value.(*ast.Ident)
				if val == nil {
					return false
				}
				for id := range identsIn(call.Args[0]) {
					if id != val.Name {
						if _, isField := p.TypesInfo.Uses[findIdent(call.Args[0], id)].(*types.Var); !isField || !p.TypesInfo.Uses[findIdent(call.Args[0], id)].(*types.Var).IsField() {
							return false
						}
					}
				}
			default:
				return false
			}
		}
		return true
	}
	if !check(st.Body.List) || target == "" {
		return "", false
	}
	return target, true
}

// moSortedBeforeUse: the first statement after the loop that mentions the
// slice totally sorts it.
func moSortedBeforeUse(c *Ctx, p *packages.Package, target string, rest []ast.Stmt) (string, bool) {
	for _, s := range rest {
		if !identsIn(s)[target] {
			continue
		}
		es, ok := s.(*ast.ExprStmt)
		if !ok {
			return "is used before being sorted: " + exprSrc(c, s), false
		}
		call, ok := es.X.(*ast.CallExpr)
		if !ok {
			return "is used before being sorted", false
		}
		sel, ok := call.Fun.(*ast.SelectorExpr)
		if !ok {
			return "is used before being sorted", false
		}
		pk, _ := sel.X.(*ast.Ident)
		if pk == nil || (pk.Name != "sort" && pk.Name != "slices") || len(call.Args) < 1 {
			return "is used before being sorted", false
		}
		// sort.Sort(sort.Reverse(sort.StringSlice(x))): the standard library's
		// total orders on strings/ints/floats, possibly reversed
		if pk.Name == "sort" && (sel.Sel.Name == "Sort" || sel.Sel.Name == "Stable") && len(call.Args) == 1 {
			arg := call.Args[0]
			rev := ""
			if c1, ok := arg.(*ast.CallExpr); ok && len(c1.Args) == 1 {
				if s1, ok := c1.Fun.(*ast.SelectorExpr); ok {
					if p1, _ := s1.X.(*ast.Ident); p1 != nil && p1.Name == "sort" && s1.Sel.Name == "Reverse" {
						arg, rev = c1.Args[0], "sort.Reverse of "
					}
				}
			}
			if c2, ok := arg.(*ast.CallExpr); ok && len(c2.Args) == 1 {
				if s2, ok := c2.Fun.(*ast.SelectorExpr); ok {
					if p2, _ := s2.X.(*ast.Ident); p2 != nil && p2.Name == "sort" && (s2.Sel.Name == "StringSlice" || s2.Sel.Name == "IntSlice" || s2.Sel.Name == "Float64Slice") {
						if id, ok := c2.Args[0].(*ast.Ident); ok && id.Name == target {
							return "sort." + sel.Sel.Name + " with " + rev + "sort." + s2.Sel.Name + " (total)", true
						}
					}
				}
			}
		}
		if a0, ok := call.Args[0].(*ast.Ident); !ok || a0.Name != target {
			return "is used before being sorted", false
		}
		if pk.Name == "slices" {
			// slices.Sort orders any cmp.Ordered element type totally
			if sel.Sel.Name == "Sort" {
				return "slices.Sort", true
			}
			if (sel.Sel.Name == "SortFunc" || sel.Sel.Name == "SortStableFunc") && len(call.Args) == 2 {
				if fl, ok := call.Args[1].(*ast.FuncLit); ok {
					var ps []string
					for _, f := range fl.Type.Params.List {
						for _, n := range f.Names {
							ps = append(ps, n.Name)
						}
					}
					if len(ps) == 2 {
						acc := map[string]bool{}
						for _, o := range c.run(engines["LX"]) {
							if o.Rule == "LX-swo" && o.Status == Discharged {
								acc[o.Key] = true
							}
						}
						e := &lxEnv{info: p.TypesInfo, fset: c.L.Fset, pair: map[string]string{ps[0]: ps[1], ps[1]: ps[0]}, acc: acc, l: ps[0], r: ps[1], leftLocals: map[string]bool{}}
						res := e.analyse(lxCmpToLess(fl.Body))
						if !res.ok {
							return "is sorted with a comparator that is not a recognised strict order: " + res.why, false
						}
						last := strings.ReplaceAll(res.last, " ", "")
						if res.total && strings.HasSuffix(last, ".IDs[0]") {
							return "slices." + sel.Sel.Name + " with a three-way comparator chain that ends in a key unique per element (" + res.last + ")", true
						}
						return "is sorted with a comparator that leaves ties (the last key " + res.last + " is not unique per element)", false
					}
				}
			}
			return "is sorted with slices." + sel.Sel.Name + ", whose comparator is not analysed", false
		}
		switch sel.Sel.Name {
		case "Strings", "Ints", "Float64s":
			return "sort." + sel.Sel.Name, true
		case "Sort", "Stable":
			// the element order must be total: Less is a[i] < a[j] (LX-swo for that type)
			t := p.TypesInfo.TypeOf(call.Args[0])
			if nt, ok := t.(*types.Named); ok {
				for _, o := range c.run(engines["LX"]) {
					if o.Rule == "LX-swo" && o.Key == nt.Obj().Name()+".Less" && o.Status == Discharged {
						return "sort." + sel.Sel.Name + " with " + nt.Obj().Name() + ".Less (a[i] < a[j], total)", true
					}
				}
			}
			return "is sorted with an order not known to be total", false
		case "Slice", "SliceStable":
			// the comparator of THIS call must be a chain that ends in a key that is unique per element
			lit, _ := call.Args[1].(*ast.FuncLit)
			if lit == nil || len(call.Args) != 2 {
				return "is sorted with a comparator that is not a function literal", false
			}
			var ps []string
			for _, f := range lit.Type.Params.List {
				for _, n := range f.Names {
					ps = append(ps, n.Name)
				}
			}
			if len(ps) != 2 {
				return "is sorted with an unexpected comparator", false
			}
			acc := map[string]bool{}
			for _, o := range c.run(engines["LX"]) {
				if o.Rule == "LX-swo" && o.Status == Discharged {
					acc[o.Key] = true
				}
			}
			cbody, cl, cr := lxDelegate(p.Syntax, p.TypesInfo, c.L.Fset, lit.Body, ps[0], ps[1])
			e := &lxEnv{info: p.TypesInfo, fset: c.L.Fset, pair: map[string]string{cl: cr, cr: cl}, acc: acc, l: cl, r: cr, leftLocals: map[string]bool{}}
			res := e.analyse(cbody)
			if !res.ok {
				return "is sorted with a comparator that is not a recognised strict order: " + res.why, false
			}
			last := strings.ReplaceAll(res.last, " ", "")
			unique := res.total && (strings.HasSuffix(last, ".IDs[0]") || last == target+"["+ps[0]+"]")
			if unique {
				return "sort." + sel.Sel.Name + " with a comparator chain that ends in a key unique per element (" + res.last + ")", true
			}
			return "is sorted with a comparator that leaves ties: elements that tie keep their random map order", false
		}
		return "is used before being sorted", false
	}
	return "is never sorted", false
}

func moLookupLoop(c *Ctx, st *ast.RangeStmt) bool {
	// the bucket lookup: the body tests `similar` on the entry. That the lookup
	// stops at the match and inserts once is decided on the SSA paths by
	// AG-once (a dependency of class D), whatever way the loop is written
	// (break under a flag, labelled continue, early return from a helper).
	found := false
	ast.Inspect(st.Body, func(n ast.Node) bool {
		if call, ok := n.(*ast.CallExpr); ok {
			if sel, ok := call.Fun.(*ast.SelectorExpr); ok && sel.Sel.Name == "similar" {
				found = true
			}
		}
		return !found
	})
	return found
}

// moOtherSources: math/rand, time.Now, select with several ready cases,
// pointer formatting, goroutines — anything else that can make two runs differ.
func moOtherSources(c *Ctx, a *flAgg) {
	type hit struct {
		fn  *ssa.Function
		pos token.Pos
		msg string
		key string
	}
	var hits []hit
	okTime := 0
	for _, pn := range []string{"stack", "stack/webstack", "internal"} {
		for _, f := range c.L.SrcFuncs(pn) {
			for _, b := range f.Blocks {
				for _, in := range b.Instrs {
					switch in := in.(type) {
					case ssa.CallInstruction:
						cal := in.Common().StaticCallee()
						if cal != nil && cal.Origin() != nil {
							cal = cal.Origin() // instantiations of generic functions (maps.Keys, slices.Sorted)
						}
						if cal != nil && calleePkg(cal) != "" {
							pp := calleePkg(cal)
							switch {
							case pp == "math/rand" || pp == "math/rand/v2" || pp == "crypto/rand":
								hits = append(hits, hit{f, in.Pos(), "uses " + pp, "rand"})
							case pp == "maps" && (strings.HasPrefix(cal.Name(), "Keys") || strings.HasPrefix(cal.Name(), "Values") || strings.HasPrefix(cal.Name(), "All")):
								// an iterator over a map yields in random order: it must go straight into slices.Sorted*
								sortedUse := false
								if v, ok := in.(ssa.Value); ok && v.Referrers() != nil {
									sortedUse = len(*v.Referrers()) > 0
									for _, r := range *v.Referrers() {
										rc, ok := r.(ssa.CallInstruction)
										if !ok {
											sortedUse = false
											break
										}
										rcal := rc.Common().StaticCallee()
										if rcal != nil && rcal.Origin() != nil {
											rcal = rcal.Origin()
										}
										if rcal == nil || calleePkg(rcal) != "slices" || !strings.HasPrefix(rcal.Name(), "Sorted") {
											sortedUse = false
										}
									}
								}
								if !sortedUse {
									hits = append(hits, hit{f, in.Pos(), "iterates a map through maps." + cal.Name() + " without sorting the result (slices.Sorted): the order is random", "maps-iter"})
								}
							case pp == "os" && cal.Name() == "OpenFile" && len(in.Common().Args) == 3:
								// a file written as a whole is created empty: opened
								// for writing without O_TRUNC (or O_APPEND, O_EXCL) it
								// keeps the tail of whatever an earlier run left there
								if k, isC := bnConst(in.Common().Args[1]); isC {
									const oWR, oRDWR, oAPPEND, oEXCL, oTRUNC = 0x1, 0x2, 0x400, 0x80, 0x200
									if k&(oWR|oRDWR) != 0 && k&(oTRUNC|oAPPEND|oEXCL) == 0 {
										hits = append(hits, hit{f, in.Pos(), "a file is opened for writing without truncating it: the output keeps the tail of a longer file left by an earlier run, so it depends on history", "open-no-trunc"})
									}
								}
							case pp == "time" && cal.Name() == "Now":
								if funcKey(f) == "stack.toHTML" {
									okTime++
								} else {
									hits = append(hits, hit{f, in.Pos(), "reads the clock", "time.Now"})
								}
							case pp == "fmt":
								// %p / %v of pointers in constant formats
								if len(in.Common().Args) > 0 {
									for _, arg := range in.Common().Args {
										if k, ok := arg.(*ssa.Const); ok && k.Value != nil && strings.Contains(k.Value.ExactString(), "%p") {
											hits = append(hits, hit{f, in.Pos(), "formats a pointer with %p", "%p"})
										}
									}
								}
							}
						}
						if _, isGo := in.(*ssa.Go); isGo && !(pn == "internal" && strings.HasPrefix(funcKey(f), "internal.Main")) {
							hits = append(hits, hit{f, in.Pos(), "starts a goroutine outside Main's signal handling: what it writes (a report file, the output) then depends on scheduling", "go"})
						}
					case *ssa.Select:
						if pn != "internal" {
							hits = append(hits, hit{f, in.Pos(), "select statement in library code", "select"})
						}
					}
				}
			}
		}
	}
	for _, h := range hits {
		a.bad("MO-source", funcKey(h.fn)+"/"+h.key, "nondeterminism source: "+h.msg, h.pos)
	}
	if len(hits) == 0 {
		a.ok("MO-source", "none", fmt.Sprintf("no math/rand, no clock other than the HTML creation time (%d), no select/goroutine in the library, no pointer formatting", okTime), token.NoPos)
	}
}

// moAnyMatchSSA decides class A on the SSA form, whatever the statements
// look like: the loop over the map at pos carries no state from one entry to
// the next (no phi at its header, no store, map update, send or impure call
// in its body), and every way out of it other than running out of entries is
// a return of one and the same tuple of constants. The function then answers
// "does some entry satisfy the condition", which no visiting order changes.
func moAnyMatchSSA(c *Ctx, pos token.Pos) bool {
	var fn *ssa.Function
	var rng *ssa.Range
	for _, pn := range []string{"stack", "stack/webstack", "internal"} {
		for _, f := range c.L.SrcFuncs(pn) {
			for _, b := range f.Blocks {
				for _, in := range b.Instrs {
					if r, ok := in.(*ssa.Range); ok && r.Pos() == pos {
						fn, rng = f, r
					}
				}
			}
		}
	}
	if rng == nil {
		return false
	}
	if _, isMap := rng.X.Type().Underlying().(*types.Map); !isMap {
		return false
	}
	var header *ssa.BasicBlock
	for _, u := range *rng.Referrers() {
		if nx, ok := u.(*ssa.Next); ok {
			if header != nil && header != nx.Block() {
				return false
			}
			header = nx.Block()
		}
	}
	var loop *loopInfo
	for _, l := range naturalLoops(fn) {
		if l.Header == header {
			loop = l
		}
	}
	if loop == nil {
		return false
	}
	for _, in := range header.Instrs {
		if _, ok := in.(*ssa.Phi); ok {
			return false
		}
	}
	for b := range loop.Body {
		for _, in := range b.Instrs {
			switch in := in.(type) {
			case *ssa.Store, *ssa.MapUpdate, *ssa.Send, *ssa.Go, *ssa.Defer, *ssa.Panic, *ssa.Select, *ssa.RunDefers:
				return false
			case *ssa.Call:
				if _, isB := in.Call.Value.(*ssa.Builtin); isB {
					switch in.Call.Value.Name() {
					case "len", "cap", "min", "max":
						continue
					}
					return false
				}
				cal := in.Call.StaticCallee()
				if cal == nil || !globalPurity.isPure(cal) {
					return false
				}
			case *ssa.UnOp:
				if in.Op == token.ARROW {
					return false
				}
			}
		}
	}
	var want []string
	for b := range loop.Body {
		for _, s := range b.Succs {
			if loop.Body[s] || b == header {
				continue
			}
			// an early exit: the target only returns constants
			if len(s.Instrs) != 1 {
				return false
			}
			ret, ok := s.Instrs[0].(*ssa.Return)
			if !ok {
				return false
			}
			var got []string
			for _, r := range ret.Results {
				k, ok := r.(*ssa.Const)
				if !ok {
					return false
				}
				got = append(got, k.String())
			}
			if want == nil {
				want = got
			} else if strings.Join(want, ",") != strings.Join(got, ",") {
				return false
			}
		}
	}
	return true
}

// moCalledFromAggregate: name is a function of package stack that Aggregate
// calls directly (the grouping loop moved into a helper; AG decides it there).
func moCalledFromAggregate(c *Ctx, name string) bool {
	ag := c.L.Func("stack", "Snapshot", "Aggregate")
	if ag == nil {
		return false
	}
	for _, b := range ag.Blocks {
		for _, in := range b.Instrs {
			if call, ok := in.(*ssa.Call); ok {
				if g := call.Call.StaticCallee(); g != nil && g.Pkg == ag.Pkg && g.Signature.Recv() == nil && g.Name() == name {
					return true
				}
			}
		}
	}
	return false
}
