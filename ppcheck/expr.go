package main

import (
	"fmt"
	"go/constant"
	"go/token"
	"go/types"
	"sort"
	"strings"

	"golang.org/x/tools/go/ssa"
)

// Expr is a symbolic value: the structural description of how an SSA value
// was computed along one path. Rules match on Expr trees, never on text.
type Expr struct {
	Op   string // see the constructors below
	Args []*Expr
	// Aux data by Op.
	Const  constant.Value // OpConst (nil for the nil constant)
	Name   string         // param/global/field/builtin/callee display name
	Fn     *ssa.Function  // static callee or closure
	Glob   *ssa.Global
	Method *types.Func // invoke-mode callee
	Type   types.Type
	Tok    token.Token // binop/unop
	ID     int         // alloc / fresh ordinal
	Pos    token.Pos
	// Parts: for a struct value loaded as a whole (OpInit) from a cell whose
	// fields were stored one by one, the field values at the time of the load.
	Parts map[string]*Expr
	str   string
}

const (
	OpConst    = "const"
	OpParam    = "param"
	OpFreeVar  = "freevar"
	OpGlobal   = "global" // address of a package-level variable
	OpFunc     = "func"   // function value
	OpAlloc    = "alloc"  // address of a local / heap cell
	OpFresh    = "fresh"  // unknown value (havoc)
	OpInit     = "init"   // initial content of the cell whose address is Args[0]
	OpZero     = "zero"
	OpCall     = "call"    // Args[0]=callee (for dynamic), Args[1:]=arguments; static: Fn
	OpBuiltin  = "builtin" // Name, Args
	OpInvoke   = "invoke"  // Args[0]=receiver
	OpExtract  = "extract" // Args[0], ID=index
	OpField    = "field"   // Args[0] struct value, Name
	OpFieldAddr = "fieldaddr"
	OpIndex     = "index" // Args[0] collection value, Args[1] index
	OpIndexAddr = "indexaddr"
	OpLookup    = "lookup" // map/string lookup
	OpSlice     = "slice"  // Args[0], lo, hi, max (nil Expr allowed)
	OpBin       = "bin"
	OpUn        = "un"
	OpConvert   = "convert" // also ChangeType, MakeInterface, ChangeInterface
	OpMakeSlice = "makeslice"
	OpMakeMap   = "makemap"
	OpMakeChan  = "makechan"
	OpClosure   = "closure"
	OpRange     = "range"
	OpNext      = "next"
	OpTypeAssert = "typeassert"
	OpSel        = "select"
)

func (e *Expr) isConst() bool { return e != nil && e.Op == OpConst }

func (e *Expr) isNilConst() bool { return e != nil && e.Op == OpConst && e.Const == nil }

func (e *Expr) boolConst() (v, ok bool) {
	if e.isConst() && e.Const != nil && e.Const.Kind() == constant.Bool {
		return constant.BoolVal(e.Const), true
	}
	return false, false
}

func (e *Expr) intConst() (int64, bool) {
	if e.isConst() && e.Const != nil && e.Const.Kind() == constant.Int {
		v, ok := constant.Int64Val(e.Const)
		return v, ok
	}
	return 0, false
}

func mkConstBool(b bool) *Expr {
	return &Expr{Op: OpConst, Const: constant.MakeBool(b), Type: types.Typ[types.Bool]}
}

func mkConstInt(v int64, t types.Type) *Expr {
	return &Expr{Op: OpConst, Const: constant.MakeInt64(v), Type: t}
}

// printer context: the home package, for unqualified names.
var exprHome *types.Package

func qual(p *types.Package) string {
	if p == nil || p == exprHome {
		return ""
	}
	return p.Name()
}

func constName(t types.Type, v constant.Value) string {
	nt, ok := t.(*types.Named)
	if !ok || v == nil || nt.Obj().Pkg() == nil {
		return ""
	}
	sc := nt.Obj().Pkg().Scope()
	for _, n := range sc.Names() {
		if c, ok := sc.Lookup(n).(*types.Const); ok && types.Identical(c.Type(), t) && constant.Compare(c.Val(), token.EQL, v) {
			return c.Name()
		}
	}
	return ""
}

// String renders Go-like text. Two Exprs with the same String are treated
// as the same value on a path (there is no CSE in go/ssa).
func (e *Expr) String() string {
	if e == nil {
		return "_"
	}
	if e.str != "" {
		return e.str
	}
	e.str = e.render(nil)
	return e.str
}

// Canon renders like String but lets hook abbreviate sub-trees.
func (e *Expr) Canon(hook func(*Expr) (string, bool)) string {
	if e == nil {
		return "_"
	}
	return e.render(hook)
}

func stripAddr(s string) (string, bool) {
	if strings.HasPrefix(s, "&") {
		return s[1:], true
	}
	return s, false
}

func (e *Expr) render(hook func(*Expr) (string, bool)) string {
	if hook != nil {
		if s, ok := hook(e); ok {
			return s
		}
		if e.str != "" && e.ID > 0 && e.Op != OpExtract && e.Op != OpAlloc && e.Op != OpFresh && e.Op != OpNext && e.Op != OpRange && e.Op != OpMakeMap && e.Op != OpTypeAssert && e.Op != OpSel {
			// iteration-tagged call: keep the primes
			n := strings.Count(e.str[len(strings.TrimRight(e.str, "'")):], "'")
			c := *e
			c.ID = 0
			c.str = ""
			return c.render(hook) + strings.Repeat("'", n)
		}
	}
	S := func(x *Expr) string {
		if x == nil {
			return "_"
		}
		if hook == nil {
			return x.String()
		}
		return x.render(hook)
	}
	switch e.Op {
	case OpConst:
		if e.Const == nil {
			return "nil"
		}
		if n := constName(e.Type, e.Const); n != "" {
			return n
		}
		return e.Const.ExactString()
	case OpParam, OpFreeVar:
		return e.Name
	case OpGlobal:
		q := ""
		if e.Glob != nil && e.Glob.Pkg != nil {
			q = qual(e.Glob.Pkg.Pkg)
		}
		if q != "" {
			return "&" + q + "." + e.Name
		}
		return "&" + e.Name
	case OpFunc:
		return fnName(e.Fn)
	case OpAlloc:
		return fmt.Sprintf("&%s", e.Name)
	case OpFresh:
		if e.ID == 0 {
			return "?" + e.Name
		}
		return fmt.Sprintf("%s@%d", e.Name, e.ID)
	case OpInit:
		s, ok := stripAddr(S(e.Args[0]))
		if ok {
			return s
		}
		return "*(" + s + ")"
	case OpZero:
		return "zero"
	case OpCall:
		var as []string
		for _, a := range e.Args[1:] {
			as = append(as, S(a))
		}
		if e.Fn != nil {
			return fnName(e.Fn) + "(" + strings.Join(as, ", ") + ")"
		}
		return "(" + S(e.Args[0]) + ")(" + strings.Join(as, ", ") + ")"
	case OpInvoke:
		var as []string
		for _, a := range e.Args[1:] {
			as = append(as, S(a))
		}
		return S(e.Args[0]) + "." + e.Name + "(" + strings.Join(as, ", ") + ")"
	case OpBuiltin:
		var as []string
		for _, a := range e.Args {
			as = append(as, S(a))
		}
		return e.Name + "(" + strings.Join(as, ", ") + ")"
	case OpExtract:
		return fmt.Sprintf("%s#%d", S(e.Args[0]), e.ID)
	case OpField:
		return S(e.Args[0]) + "." + e.Name
	case OpFieldAddr:
		b := S(e.Args[0])
		if s, ok := stripAddr(b); ok {
			return "&" + s + "." + e.Name
		}
		return "&" + b + "." + e.Name
	case OpIndex, OpLookup:
		return S(e.Args[0]) + "[" + S(e.Args[1]) + "]"
	case OpIndexAddr:
		b := S(e.Args[0])
		if s, ok := stripAddr(b); ok { // pointer to array
			return "&" + s + "[" + S(e.Args[1]) + "]"
		}
		return "&" + b + "[" + S(e.Args[1]) + "]"
	case OpSlice:
		b := S(e.Args[0])
		if s, ok := stripAddr(b); ok {
			b = s
		}
		p := func(x *Expr) string {
			if x == nil {
				return ""
			}
			return S(x)
		}
		s := b + "[" + p(e.Args[1]) + ":" + p(e.Args[2])
		if e.Args[3] != nil {
			s += ":" + p(e.Args[3])
		}
		return s + "]"
	case OpBin:
		return "(" + S(e.Args[0]) + " " + e.Tok.String() + " " + S(e.Args[1]) + ")"
	case OpUn:
		if e.Tok == token.MUL {
			s, ok := stripAddr(S(e.Args[0]))
			if ok {
				return s
			}
			return "*(" + s + ")"
		}
		return e.Tok.String() + S(e.Args[0])
	case OpConvert:
		if e.Name == "iface" || e.Name == "changetype" {
			return S(e.Args[0])
		}
		return types.TypeString(e.Type, func(p *types.Package) string { return qual(p) }) + "(" + S(e.Args[0]) + ")"
	case OpMakeSlice:
		return "make(" + typeStr(e.Type) + ", " + S(e.Args[0]) + ", " + S(e.Args[1]) + ")"
	case OpMakeMap:
		return "make(" + typeStr(e.Type) + ")"
	case OpMakeChan:
		return "make(" + typeStr(e.Type) + ")"
	case OpClosure:
		var as []string
		for _, a := range e.Args {
			as = append(as, S(a))
		}
		return "closure " + fnName(e.Fn) + "[" + strings.Join(as, ", ") + "]"
	case OpRange:
		return fmt.Sprintf("range#%d(%s)", e.ID, S(e.Args[0]))
	case OpNext:
		return fmt.Sprintf("next(%s)@%d", S(e.Args[0]), e.ID)
	case OpTypeAssert:
		return S(e.Args[0]) + ".(" + typeStr(e.Type) + ")"
	case OpSel:
		return "select"
	}
	return "<" + e.Op + ">"
}

func typeStr(t types.Type) string {
	if t == nil {
		return "?"
	}
	return types.TypeString(t, func(p *types.Package) string { return qual(p) })
}

func fnName(f *ssa.Function) string {
	if f == nil {
		return "<nil-func>"
	}
	s := f.RelString(exprHome)
	s = strings.ReplaceAll(s, modPath+"/", "")
	return s
}

// walk visits e and all sub-expressions.
func (e *Expr) walk(f func(*Expr) bool) {
	if e == nil {
		return
	}
	if !f(e) {
		return
	}
	for _, a := range e.Args {
		a.walk(f)
	}
}

// mentions reports whether sub (by String) occurs in e.
func (e *Expr) mentions(pred func(*Expr) bool) bool {
	found := false
	e.walk(func(x *Expr) bool {
		if found {
			return false
		}
		if pred(x) {
			found = true
			return false
		}
		return true
	})
	return found
}

// calleeIs reports whether e is a static call of the function with the given
// package path and name ("regexp", "(*Regexp).FindSubmatch").
func (e *Expr) calleeIs(pkgPath, name string) bool {
	if e == nil || e.Op != OpCall || e.Fn == nil {
		return false
	}
	return fnIs(e.Fn, pkgPath, name)
}

func fnIs(f *ssa.Function, pkgPath, name string) bool {
	if f == nil {
		return false
	}
	var pp string
	if f.Pkg != nil {
		pp = f.Pkg.Pkg.Path()
	} else if o := f.Object(); o != nil && o.Pkg() != nil {
		pp = o.Pkg().Path()
	}
	if pp != pkgPath {
		return false
	}
	n := f.Name()
	if recv := f.Signature.Recv(); recv != nil {
		t := recv.Type()
		ptr := ""
		if p, ok := t.(*types.Pointer); ok {
			t = p.Elem()
			ptr = "*"
		}
		if nt, ok := t.(*types.Named); ok {
			n = "(" + ptr + nt.Obj().Name() + ")." + n
		}
	}
	return n == name
}

// globalLoaded returns the global variable whose value e is (a load of its
// address), or nil.
func (e *Expr) globalLoaded() *ssa.Global {
	if e == nil {
		return nil
	}
	switch e.Op {
	case OpInit, OpUn:
		if e.Op == OpUn && e.Tok != token.MUL {
			return nil
		}
		if a := e.Args[0]; a.Op == OpGlobal {
			return a.Glob
		}
	case OpConvert:
		return e.Args[0].globalLoaded()
	}
	return nil
}

// globalsMentioned lists the names of module globals referenced in e.
func (e *Expr) globalsMentioned() []string {
	var out []string
	seen := map[string]bool{}
	e.walk(func(x *Expr) bool {
		if x.Op == OpGlobal && !seen[x.Name] {
			seen[x.Name] = true
			out = append(out, x.Name)
		}
		return true
	})
	return out
}

// linear renders an integer expression built from + and - as a canonical sum
// (terms sorted, constants folded), so that (a+b)+1 and a+(b+1) compare equal.
func (e *Expr) linear() string {
	terms := map[string]int64{}
	var k int64
	var walk func(x *Expr, sign int64)
	walk = func(x *Expr, sign int64) {
		if x == nil {
			return
		}
		if v, ok := x.intConst(); ok {
			k += sign * v
			return
		}
		if x.Op == OpBin && (x.Tok == token.ADD || x.Tok == token.SUB) {
			walk(x.Args[0], sign)
			if x.Tok == token.ADD {
				walk(x.Args[1], sign)
			} else {
				walk(x.Args[1], -sign)
			}
			return
		}
		terms[x.String()] += sign
	}
	walk(e, 1)
	var ks []string
	for t := range terms {
		ks = append(ks, t)
	}
	sort.Strings(ks)
	var b strings.Builder
	for _, t := range ks {
		if terms[t] == 0 {
			continue
		}
		fmt.Fprintf(&b, "%+d*%s ", terms[t], t)
	}
	fmt.Fprintf(&b, "%+d", k)
	return b.String()
}
