package main

// LOC — path rebasing rules (C18). Structural only: which roots are found
// for a given disk layout depends on file-system probes and is not decided.

import (
	"fmt"
	"go/constant"
	"go/token"
	"go/types"
	"sort"
	"strings"

	"golang.org/x/tools/go/ssa"
)

func init() {
	register(&Engine{Name: "LOC", Doc: "path rebasing rules", Run: runLOC})
}

func runLOC(c *Ctx) (obls []Obl) {
	a := newAgg(c, &obls)
	defer a.flush()
	locBranches(c, a)
	locSeparators(c, a)
	locSearchBounds(c, a)
	locTestMain(c, a)
	locConsts(c, a)
	locAll(c, a)
	locOrder(c, a)
	locProbe(c, a)
	locSkip(c, a)
	locRootSuffix(c, a)
	locWiring(c, a)
	return
}

// locRootSuffix: a remote root is derived from a probe isRootedIn(local +
// dir, parts) only when the remote prefix the probe returns ends with the
// same dir ("/src", "/pkg/mod"), and the root recorded is that prefix
// without the dir. isRootedIn returns the prefix of the first tail of the
// path that exists below the probed directory: without the suffix test any
// file whose tail happens to exist there (errors/errors.go) installs a bogus
// root that explains none of the frames it is meant for.
func locRootSuffix(c *Ctx, a *flAgg) {
	const rule = "LOC-root-suffix"
	fn := c.MustFunc(a.obls, rule, "stack", "Snapshot", "findRoots")
	if fn == nil {
		return
	}
	exprHome = fn.Pkg.Pkg
	loops := outermostLoops(naturalLoops(fn))
	if len(loops) != 1 {
		a.und(rule, "findRoots", "the file loop was not found", fn.Pos())
		return
	}
	l := loops[0]
	seg := &SPE{Fn: fn, Start: l.Header, MaxVisits: 2, SeedEnv: seedStraight(fn, l.Header)}
	seg.Stop = func(from, to *ssa.BasicBlock) bool { return (to == l.Header && l.Body[from]) || (l.Body[from] && !l.Body[to]) }
	seg.Explore()
	type verdict struct {
		ok  bool
		why string
		pos token.Pos
	}
	res := map[string]*verdict{}
	note := func(key string, ok bool, why string, pos token.Pos) {
		v := res[key]
		if v == nil {
			v = &verdict{ok: true, pos: pos}
			res[key] = v
		}
		if !ok && v.ok {
			v.ok, v.why, v.pos = false, why, pos
		}
	}
	for _, p := range seg.Paths {
		for _, ev := range p.Events {
			var root *Expr
			var what string
			switch {
			case ev.Kind == EvStore && strings.HasSuffix(ev.Addr.String(), ".RemoteGOROOT"):
				root, what = ev.Val, "RemoteGOROOT"
			case ev.Kind == EvMapUpd && strings.Contains(ev.Addr.String(), "RemoteGOPATHs"):
				root, what = ev.Key, "RemoteGOPATHs"
			default:
				continue
			}
			if _, isC := constStr(root); isC {
				continue
			}
			var probe *Expr
			root.walk(func(e *Expr) bool {
				if probe == nil && e.calleeIs(stackPkg, "isRootedIn") {
					probe = e
				}
				return probe == nil
			})
			if probe == nil || len(probe.Args) < 3 {
				note(what+"/derived", false, "a root is recorded that is not the result of a disk probe: "+root.String(), ev.Pos)
				continue
			}
			dir := probe.Args[1]
			suf := ""
			if dir.Op == OpBin && dir.Tok == token.ADD {
				suf, _ = constStr(dir.Args[1])
			}
			if suf == "" {
				note(what+"/probe", false, "the probed directory is not <local root> + constant directory: "+dir.String(), ev.Pos)
				continue
			}
			key := what + suf
			guarded := false
			for _, lt := range p.Lits {
				at := lt.Atom
				if lt.Pol && at.calleeIs("strings", "HasSuffix") && len(at.Args) == 3 && at.Args[1].String() == probe.String() {
					if s2, ok := constStr(at.Args[2]); ok && s2 == suf {
						guarded = true
					}
				}
			}
			if !guarded {
				note(key, false, "the prefix returned by the probe of <local>"+suf+" is recorded as a root without testing that it ends with "+suf+" ("+litsString(p)+")", ev.Pos)
				continue
			}
			// the root is the prefix without the directory
			want := fmt.Sprintf("%s[:(len(%s) - %d)]", probe.String(), probe.String(), len(suf))
			if got := root.String(); got != want {
				note(key, false, "the recorded root is "+got+", not the probe result without its "+suf+" suffix", ev.Pos)
				continue
			}
			// a remote GOPATH is mapped to the local GOPATH that was probed
			if what == "RemoteGOPATHs" && dir.Op == OpBin && ev.Val != nil && ev.Val.String() != dir.Args[0].String() {
				note(key, false, "the remote root is mapped to "+ev.Val.String()+", not to the local root "+dir.Args[0].String()+" under which the file was found", ev.Pos)
				continue
			}
			note(key, true, "", ev.Pos)
		}
	}
	if len(res) == 0 {
		a.und(rule, "findRoots", "no root is recorded in the file loop", fn.Pos())
		return
	}
	keys := make([]string, 0, len(res))
	for k := range res {
		keys = append(keys, k)
	}
	sort.Strings(keys)
	for _, k := range keys {
		if v := res[k]; v.ok {
			a.ok(rule, k, "recorded only when the probe's remote prefix ends with the probed directory, and without it", v.pos)
		} else {
			a.bad(rule, k, v.why+": a file whose tail merely coincides with a file below the probed directory installs a root that explains none of the frames it stands for, and the real root is never probed", v.pos)
		}
	}
}

// locOrder: roots are tried innermost first: the keys come in descending
// lexical order (a nested root has its parent as a proper prefix, so it is
// lexically larger).
func locOrder(c *Ctx, a *flAgg) {
	fn := c.MustFunc(a.obls, "LOC-order", "stack", "", "sortedKeys")
	if fn == nil {
		return
	}
	// accepted forms: sort.Strings + in-place reversal; sort.Sort(sort.Reverse(sort.StringSlice(x)))
	sorted, reversed, other := false, false, ""
	for _, b := range fn.Blocks {
		for _, in := range b.Instrs {
			call, ok := in.(*ssa.Call)
			if !ok {
				continue
			}
			cal := call.Call.StaticCallee()
			if cal != nil && cal.Origin() != nil {
				cal = cal.Origin()
			}
			if cal != nil && calleePkg(cal) == "slices" {
				switch cal.Name() {
				case "Sort":
					sorted = true
				case "Reverse":
					reversed = true
				default:
					other = "slices." + cal.Name()
				}
				continue
			}
			if cal == nil || calleePkg(cal) != "sort" {
				continue
			}
			switch cal.Name() {
			case "Strings":
				sorted = true
			case "Reverse":
				reversed = true
			case "Sort", "Stable":
				// with Reverse(StringSlice)
				sorted = true
			default:
				other = "sort." + cal.Name()
			}
		}
	}
	// in-place reversal loop: two cursors i up, j down, swap out[i], out[j]
	for _, l := range naturalLoops(fn) {
		up, down, swaps := false, false, 0
		for _, in := range l.Header.Instrs {
			phi, ok := in.(*ssa.Phi)
			if !ok {
				break
			}
			// the value the cursor starts with
			var init ssa.Value
			for i, e := range phi.Edges {
				if !l.Body[phi.Block().Preds[i]] {
					init = e
				}
			}
			isLast := func(v ssa.Value) bool { // len(x) - 1
				bo, ok := v.(*ssa.BinOp)
				if !ok || bo.Op != token.SUB || bnLenOf(bo.X) == nil {
					return false
				}
				k, isC := bnConst(bo.Y)
				return isC && k == 1
			}
			for i, e := range phi.Edges {
				if !l.Body[phi.Block().Preds[i]] {
					continue
				}
				if bo, ok := e.(*ssa.BinOp); ok && bo.X == ssa.Value(phi) {
					if k, isC := bnConst(bo.Y); isC && k == 1 {
						if bo.Op == token.ADD {
							if z, isC := bnConst(init); isC && z == 0 {
								up = true
							} else {
								other = "the ascending cursor of the reversal does not start at 0"
							}
						} else if bo.Op == token.SUB {
							if isLast(init) {
								down = true
							} else {
								other = "the descending cursor of the reversal does not start at the last element"
							}
						}
					}
				}
			}
		}
		// the two stores exchange the elements at the two cursors: each
		// writes, at its own index, the element loaded from the other's
		type swapSt struct{ at, from string }
		var sts []swapSt
		for b := range l.Body {
			for _, in := range b.Instrs {
				if st, ok := in.(*ssa.Store); ok {
					if ia, isIdx := st.Addr.(*ssa.IndexAddr); isIdx {
						swaps++
						from := "?"
						if ld, ok := st.Val.(*ssa.UnOp); ok && ld.Op == token.MUL {
							if ia2, ok := ld.X.(*ssa.IndexAddr); ok && ia2.X == ia.X {
								from = ssaIdxKey(ia2.Index, 0)
							}
						}
						sts = append(sts, swapSt{ssaIdxKey(ia.Index, 0), from})
						// the mirror index written as (invariant) - i instead of a second cursor
						if bo, ok := ia.Index.(*ssa.BinOp); ok && bo.Op == token.SUB {
							if ph, ok := bo.Y.(*ssa.Phi); ok && ph.Block() == l.Header {
								if xi, ok := bo.X.(ssa.Instruction); !ok || !l.Body[xi.Block()] {
									// (len-1) - i
									isLastV := false
									if b2, ok := bo.X.(*ssa.BinOp); ok && b2.Op == token.SUB && bnLenOf(b2.X) != nil {
										if k, isC := bnConst(b2.Y); isC && k == 1 {
											isLastV = true
										}
									}
									if isLastV {
										down = true
									} else {
										other = "the mirror index of the reversal is not (len-1)-i"
									}
								}
							}
						}
					}
				}
			}
		}
		if up && down && swaps == 2 {
			if len(sts) == 2 && sts[0].at != sts[1].at && sts[0].from == sts[1].at && sts[1].from == sts[0].at {
				reversed = true
			} else if len(sts) == 2 {
				other = fmt.Sprintf("the reversal does not exchange the elements at its two cursors (x[%s] = x[%s]; x[%s] = x[%s])", sts[0].at, sts[0].from, sts[1].at, sts[1].from)
			}
		}
	}
	// the list that is sorted holds the keys and nothing else: it starts empty
	for _, b := range fn.Blocks {
		for _, in := range b.Instrs {
			if mk, ok := in.(*ssa.MakeSlice); ok {
				if k, isC := bnConst(mk.Len); !isC || k != 0 {
					other = "the key list does not start empty (make with a length): it holds empty strings besides the keys, and the empty root matches every path under its separator"
				}
			}
		}
	}
	if sorted && reversed && other == "" {
		a.ok("LOC-order", "sortedKeys", "roots are tried in descending lexical order: a root nested in another one is tried before its parent", fn.Pos())
	} else {
		a.bad("LOC-order", "sortedKeys", fmt.Sprintf("the root order is not 'sorted lexically, then reversed' (sorted=%v reversed=%v other=%s): a parent root can be tried before a root nested in it, so frames of the nested module get the parent's import path and relative path", sorted, reversed, other), fn.Pos())
	}
}

// locProbe: for every file not yet explained, every local GOPATH is probed
// (src first, then pkg/mod); nothing but a hit ends the probing.
func locProbe(c *Ctx, a *flAgg) {
	fn := c.MustFunc(a.obls, "LOC-probe", "stack", "Snapshot", "findRoots")
	if fn == nil {
		return
	}
	exprHome = fn.Pkg.Pkg
	var inner *loopInfo
	// the loop whose body calls isRootedIn twice, in findRoots or in a helper it was extracted to
	cands := []*ssa.Function{fn}
	seenF := map[*ssa.Function]bool{fn: true}
	for _, b := range blocksWithHelpers(fn) {
		if !seenF[b.Parent()] {
			seenF[b.Parent()] = true
			cands = append(cands, b.Parent())
		}
	}
	// the loop that ranges over the local GOPATHs (the field, or a []string
	// parameter of a helper the loop was moved to), if it can be told that way
	rangesGopaths := func(l *loopInfo) bool {
		for _, in := range l.Header.Instrs {
			bo, ok := in.(*ssa.BinOp)
			if !ok || bo.Op != token.LSS {
				continue
			}
			lc, ok := bo.Y.(*ssa.Call)
			if !ok || bnCallee(lc) != "builtin.len" {
				continue
			}
			switch x := lc.Call.Args[0].(type) {
			case *ssa.UnOp:
				if fa, ok := x.X.(*ssa.FieldAddr); ok && addrLast(fa) == "LocalGOPATHs" {
					return true
				}
			case *ssa.Parameter:
				if x.Parent() != fn && x.Type().String() == "[]string" {
					return true
				}
			}
		}
		return false
	}
	for _, cf := range cands {
		for _, l := range naturalLoops(cf) {
			calls := false
			for b := range l.Body {
				for _, in := range b.Instrs {
					if call, ok := in.(*ssa.Call); ok {
						if cal := call.Call.StaticCallee(); cal != nil && cal.Name() == "isRootedIn" {
							calls = true
						}
					}
				}
			}
			if calls && rangesGopaths(l) {
				inner = l
				fn = cf
			}
		}
	}
	for _, cf := range cands {
		if inner != nil {
			break
		}
		for _, l := range naturalLoops(cf) {
			n := 0
			for b := range l.Body {
				for _, in := range b.Instrs {
					if call, ok := in.(*ssa.Call); ok {
						if cal := call.Call.StaticCallee(); cal != nil && cal.Name() == "isRootedIn" {
							n++
						} else if cal != nil && cal.Blocks != nil && defaultInline(cal) {
							// a helper outside the pinned vocabulary that probes
							for _, hb := range cal.Blocks {
								for _, hin := range hb.Instrs {
									if hc, ok := hin.(*ssa.Call); ok {
										if c2 := hc.Call.StaticCallee(); c2 != nil && c2.Name() == "isRootedIn" {
											n++
										}
									}
								}
							}
						}
					}
				}
			}
			if n == 2 {
				inner = l
				fn = cf
			}
		}
	}
	if inner == nil {
		a.und("LOC-probe", "findRoots/gopath-loop", "the loop probing the local GOPATHs was not found", fn.Pos())
		return
	}
	seg := &SPE{Fn: fn, Start: inner.Header, MaxVisits: 4}
	seg.Stop = func(from, to *ssa.BasicBlock) bool {
		return (to == inner.Header && inner.Body[from]) || (inner.Body[from] && !inner.Body[to])
	}
	seg.Explore()
	ok, n := true, 0
	why := ""
	for _, p := range seg.Paths {
		if !(p.Term == "stop" && p.End == inner.Header) {
			continue
		}
		n++
		var probes []string
		for _, ev := range p.Events {
			if ev.Kind == EvCall && ev.Val.calleeIs(stackPkg, "isRootedIn") {
				probes = append(probes, ev.Val.Args[1].String())
			}
		}
		if len(probes) != 2 || !strings.HasSuffix(probes[0], `+ "/src")`) || !strings.HasSuffix(probes[1], `+ "/pkg/mod")`) {
			ok = false
			why = fmt.Sprintf("an iteration that continues with the next GOPATH made the probes %v instead of <gopath>/src then <gopath>/pkg/mod (%s)", probes, litsString(p))
		}
	}
	if ok && n > 0 {
		a.ok("LOC-probe", "findRoots/gopath-loop", "every local GOPATH is probed for src and pkg/mod before the next one is tried; only a hit ends the search", fn.Pos())
	} else {
		a.bad("LOC-probe", "findRoots/gopath-loop", "a local GOPATH can be skipped without being probed: "+why+": a second remote root that resolves into an already mapped local GOPATH is never detected", fn.Pos())
	}
}

// locSkip: in the file loop of findRoots an iteration may end without
// probing the disk only for a file that is already explained by a detected
// root (remote GOROOT prefix, a remote GOPATH, a local module); every other
// file is probed, whatever happened to the files before it.
func locSkip(c *Ctx, a *flAgg) {
	fn := c.MustFunc(a.obls, "LOC-probe", "stack", "Snapshot", "findRoots")
	if fn == nil {
		return
	}
	exprHome = fn.Pkg.Pkg
	loops := outermostLoops(naturalLoops(fn))
	if len(loops) != 1 {
		a.und("LOC-probe", "findRoots/skip", "the file loop was not found", fn.Pos())
		return
	}
	l := loops[0]
	seg := &SPE{Fn: fn, Start: l.Header, MaxVisits: 2, SeedEnv: seedStraight(fn, l.Header)}
	seg.Stop = func(from, to *ssa.BasicBlock) bool { return (to == l.Header && l.Body[from]) || (l.Body[from] && !l.Body[to]) }
	seg.Explore()
	n, okAll := 0, true
	why := ""
	wrongTable := ""
	for _, p := range seg.Paths {
		if !(p.Term == "stop" && p.End == l.Header) {
			continue
		}
		n++
		probes := 0
		hit := false // a remote GOROOT/GOPATH root was recorded in this iteration
		for _, ev := range p.Events {
			if (ev.Kind == EvMapUpd && strings.Contains(ev.Addr.String(), "RemoteGOPATHs")) || (ev.Kind == EvStore && strings.HasSuffix(ev.Addr.String(), ".RemoteGOROOT")) {
				hit = true
			}
			// a detected remote GOROOT is kept: the frames seen so far were
			// explained by it
			if ev.Kind == EvStore && strings.HasSuffix(ev.Addr.String(), ".RemoteGOROOT") {
				if empty, have := p.lit("(" + fn.Params[0].Name() + ".RemoteGOROOT == \"\")"); !have || !empty {
					okAll = false
					why = "the remote GOROOT is probed for and overwritten although one was already detected: the root recorded is no longer a prefix of the frames attributed to it"
				}
			}
			if ev.Kind != EvCall || ev.Val.Op != OpCall || ev.Val.Fn == nil {
				continue
			}
			switch ev.Val.Fn.Name() {
			case "isRootedIn", "isGoModule", "isFile":
				probes++
				if hit && ev.Val.Fn.Name() != "isRootedIn" {
					okAll = false
					why = "after a GOROOT/GOPATH root was recorded for the file, the module probes still run for it (" + ev.Val.Fn.Name() + "): a file below a GOPATH is also registered as a local module"
				}
			}
		}
		if probes > 0 {
			continue
		}
		explained := false
		for _, lt := range p.Lits {
			if !lt.Pol {
				continue
			}
			at := lt.Atom
			// explained by a remote GOPATH (src or pkg/mod below it) or by
			// a local module: each helper with its own table
			if at.calleeIs(stackPkg, "hasSrcPrefix") && len(at.Args) == 3 {
				if strings.HasSuffix(at.Args[2].String(), ".RemoteGOPATHs") {
					explained = true
				} else {
					wrongTable = "hasSrcPrefix is applied to " + at.Args[2].String() + ", not to the remote GOPATHs"
				}
			}
			if at.calleeIs(stackPkg, "hasPrefix") && len(at.Args) == 3 {
				if strings.HasSuffix(at.Args[2].String(), ".LocalGomods") {
					explained = true
				} else {
					wrongTable = "hasPrefix is applied to " + at.Args[2].String() + ", not to the local modules"
				}
			}
			if at.calleeIs("strings", "HasPrefix") && strings.Contains(at.String(), "RemoteGOROOT") {
				// ... under a remote GOROOT that was detected (not the empty string)
				if empty, have := p.lit("(" + fn.Params[0].Name() + ".RemoteGOROOT == \"\")"); have && !empty {
					explained = true
				}
				// ... at a path-component boundary: GOROOT + "/src/"
				if len(at.Args) == 3 {
					if k, isC := trailConst(at.Args[2]); isC && !strings.HasSuffix(k, "/") {
						wrongTable = fmt.Sprintf("the standard-library test compares with GOROOT + %q, which also matches a sibling directory whose name begins the same way", k)
					} else if isC && k != "/src/" {
						// what is skipped as "explained by GOROOT" is what updateLocations resolves through GOROOT
						wrongTable = fmt.Sprintf("files under GOROOT + %q are skipped as explained, but updateLocations only resolves files under GOROOT + \"/src/\": a GOPATH or module cache that lies below the GOROOT directory is never detected", k)
					}
				}
			}
		}
		if !explained {
			okAll = false
			why = litsString(p)
			if wrongTable != "" {
				why = wrongTable
			}
		}
	}
	if okAll && wrongTable != "" {
		okAll, why = false, wrongTable
	}
	// every file is looked at: the loop ends when the list does
	if early := leftEarly(seg.Paths, l, nil); len(early) > 0 {
		a.bad("LOC-probe", "findRoots/all-files", "the loop over the files is left before the list is exhausted ("+litsString(early[0])+"): the files behind that one are never looked at, so their roots are not detected", pathPos(early[0], fn))
	} else {
		a.ok("LOC-probe", "findRoots/all-files", "the loop over the files ends only when every file was looked at", fn.Pos())
	}
	switch {
	case n == 0:
		a.und("LOC-probe", "findRoots/skip", "no iteration of the file loop was explored", fn.Pos())
	case okAll:
		a.ok("LOC-probe", "findRoots/skip", "a file is left unprobed only when a detected root already explains it", fn.Pos())
	default:
		a.bad("LOC-probe", "findRoots/skip", "a file that no detected root explains can be skipped without looking at the disk ("+why+"): a root whose first file in sorted order is missing locally is then never detected although other files of it exist", fn.Pos())
	}
}

// locAll: the location update reaches every goroutine, both stacks and every
// frame unconditionally (no short-circuit that skips the rest after a miss).
func locAll(c *Ctx, a *flAgg) {
	for _, t := range []struct{ recv, name, callee string }{
		{"Snapshot", "guessPaths", "updateLocations"},
		{"Stack", "updateLocations", "updateLocations"},
	} {
		fn := c.MustFunc(a.obls, "LOC-all", "stack", t.recv, t.name)
		if fn == nil {
			continue
		}
		exprHome = fn.Pkg.Pkg
		loops := outermostLoops(naturalLoops(fn))
		if len(loops) != 1 {
			a.und("LOC-all", t.recv+"."+t.name, "element loop not found", fn.Pos())
			continue
		}
		l := loops[0]
		seg := &SPE{Fn: fn, Start: l.Header, MaxVisits: 2}
		seg.Stop = func(from, to *ssa.BasicBlock) bool { return (to == l.Header && l.Body[from]) || (l.Body[from] && !l.Body[to]) }
		seg.Explore()
		ok, n := true, 0
		for _, p := range seg.Paths {
			if !(p.Term == "stop" && p.End == l.Header) {
				continue
			}
			n++
			calls := 0
			for _, ev := range p.Events {
				if ev.Kind == EvCall && ev.Val.Op == OpCall && ev.Val.Fn != nil && ev.Val.Fn.Name() == t.callee {
					calls++
				}
			}
			if calls != 1 {
				ok = false
			}
		}
		if ok && n > 0 {
			a.ok("LOC-all", t.recv+"."+t.name, "every element is updated exactly once per iteration, whatever the result for the previous ones", fn.Pos())
		} else {
			a.bad("LOC-all", t.recv+"."+t.name, "an iteration can skip the location update of its element (short-circuit on an earlier miss): complete goroutines lose their local paths and classes because of an unrelated unresolved frame", fn.Pos())
		}
	}
	// Signature.updateLocations: both stacks, unconditionally
	if fn := c.MustFunc(a.obls, "LOC-all", "stack", "Signature", "updateLocations"); fn != nil {
		exprHome = fn.Pkg.Pkg
		x := &SPE{Fn: fn, MaxVisits: 2}
		x.Explore()
		ok := len(x.Paths) > 0
		for _, p := range x.Paths {
			n := 0
			for _, ev := range p.Events {
				if ev.Kind == EvCall && ev.Val.Op == OpCall && ev.Val.Fn != nil && ev.Val.Fn.Name() == "updateLocations" {
					n++
				}
			}
			if n != 2 {
				ok = false
			}
		}
		if ok {
			a.ok("LOC-all", "Signature.updateLocations", "creator stack and stack are both updated on every path", fn.Pos())
		} else {
			a.bad("LOC-all", "Signature.updateLocations", "a path updates only one of the two stacks", fn.Pos())
		}
	}
	locFilesAll(c, a)
	locSplitRunes(c, a)
	locIsFile(c, a)
}

// locIsFile (LOC-search/isFile): "the file exists locally" follows symbolic
// links: the probe uses os.Stat (or opens the file), not os.Lstat, whose
// answer for a link is about the link itself - in a link-farm GOROOT or
// GOPATH (bazel, nix, stow) every source file is a link, and no root would be
// found although every frame's file exists.
func locIsFile(c *Ctx, a *flAgg) {
	fn := c.L.Func("stack", "", "isFile")
	if fn == nil {
		return
	}
	follows, lstat := false, false
	for _, b := range fn.Blocks {
		for _, in := range b.Instrs {
			if call, ok := in.(*ssa.Call); ok {
				if cal := call.Call.StaticCallee(); cal != nil && calleePkg(cal) == "os" {
					switch cal.Name() {
					case "Stat", "Open", "ReadFile":
						follows = true
					case "Lstat", "Readlink":
						lstat = true
					}
				}
			}
		}
	}
	switch {
	case lstat:
		a.bad("LOC-search", "isFile/follows-links", "the existence probe uses os.Lstat: a source file that is a symbolic link is reported as absent, so roots of link-farm trees are never detected although the files exist locally", fn.Pos())
	case follows:
		a.ok("LOC-search", "isFile/follows-links", "the existence probe follows symbolic links (os.Stat)", fn.Pos())
	default:
		a.und("LOC-search", "isFile/follows-links", "no os.Stat/Open call found in isFile", fn.Pos())
	}
}

// locFilesAll (LOC-all/getFiles): the files the roots are searched from are
// the files of all frames: every iteration of the innermost loop of getFiles
// records its frame's RemoteSrcPath, whatever its name looks like. A root
// under which the dump only has assembly or C files is otherwise never
// detected, and those frames stay unresolved although they exist locally.
func locFilesAll(c *Ctx, a *flAgg) {
	fn := c.L.Func("stack", "", "getFiles")
	if fn == nil {
		return
	}
	exprHome = fn.Pkg.Pkg
	var inner *loopInfo
	for _, l := range naturalLoops(fn) {
		// the innermost loop that contains a map update or an append
		has := false
		for b := range l.Body {
			for _, in := range b.Instrs {
				if _, ok := in.(*ssa.MapUpdate); ok {
					has = true
				}
			}
		}
		if has && (inner == nil || len(l.Body) < len(inner.Body)) {
			inner = l
		}
	}
	if inner == nil {
		a.und("LOC-all", "getFiles", "the loop recording the files was not found", fn.Pos())
		return
	}
	l := inner
	seg := &SPE{Fn: fn, Start: l.Header, MaxVisits: 2}
	seg.Stop = func(from, to *ssa.BasicBlock) bool { return (to == l.Header && l.Body[from]) || (l.Body[from] && !l.Body[to]) }
	seg.Explore()
	n, ok := 0, true
	why := ""
	for _, p := range seg.Paths {
		if !(p.Term == "stop" && p.End == l.Header) {
			continue
		}
		n++
		rec := false
		for _, ev := range p.Events {
			if ev.Kind == EvMapUpd && strings.HasSuffix(ev.Key.String(), ".RemoteSrcPath") {
				rec = true
			}
		}
		// ... or it is in the set already (comma-ok lookup under the same key)
		for _, lt := range p.Lits {
			if at := lt.Atom; lt.Pol && at.Op == OpExtract && at.ID == 1 && at.Args[0].Op == OpLookup && len(at.Args[0].Args) > 1 && strings.HasSuffix(at.Args[0].Args[1].String(), ".RemoteSrcPath") {
				rec = true
			}
		}
		if !rec {
			ok, why = false, litsString(p)
		}
	}
	switch {
	case n == 0:
		a.und("LOC-all", "getFiles", "no iteration of the frame loop was explored", fn.Pos())
	case ok:
		a.ok("LOC-all", "getFiles", "the file of every frame takes part in the search for the roots", fn.Pos())
	default:
		a.bad("LOC-all", "getFiles", "a frame's file can be left out of the search for the roots ("+why+"): a root under which the dump has only such files is never detected and its frames stay unresolved although they exist locally", fn.Pos())
	}
}

// locSplitRunes (LOC-search/splitPath): the components splitPath returns are
// made of the characters of the path: a character appended to a component is
// a rune obtained by ranging over the path (string(rune) is the character),
// never a single byte of it (string(byte) re-encodes every byte of a
// multi-byte character, so a directory named "café" is probed as "cafÃ©").
func locSplitRunes(c *Ctx, a *flAgg) {
	fn := c.L.Func("stack", "", "splitPath")
	if fn == nil {
		return
	}
	n, bad := 0, ""
	for _, b := range fn.Blocks {
		for _, in := range b.Instrs {
			cv, ok := in.(*ssa.Convert)
			if !ok {
				continue
			}
			bt, ok := cv.Type().Underlying().(*types.Basic)
			if !ok || bt.Kind() != types.String {
				continue
			}
			ft, ok := cv.X.Type().Underlying().(*types.Basic)
			if !ok || ft.Info()&types.IsInteger == 0 {
				continue
			}
			n++
			if ft.Kind() == types.Uint8 {
				bad = "a single byte of the path is converted with string(...)"
			}
		}
	}
	if bad != "" {
		a.bad("LOC-search", "splitPath/characters", bad+": the bytes of a multi-byte character are re-encoded one by one, so a root or module directory with a non-ASCII name is probed under a different name and never found", fn.Pos())
	} else {
		a.ok("LOC-search", "splitPath/characters", fmt.Sprintf("components are built from the runes of the path or from substrings of it (%d rune conversions)", n), fn.Pos())
	}
}

func constStr(e *Expr) (string, bool) {
	if e != nil && e.isConst() && e.Const != nil && e.Const.Kind() == constant.String {
		return constant.StringVal(e.Const), true
	}
	return "", false
}

func locBranches(c *Ctx, a *flAgg) {
	fn := c.MustFunc(a.obls, "LOC-branch", "stack", "Call", "updateLocations")
	if fn == nil {
		return
	}
	exprHome = fn.Pkg.Pkg
	locAllRoots(a, fn)
	x := &SPE{Fn: fn, MaxVisits: 2}
	x.Explore()
	c.stat("LOC", "updateLocations_paths", len(x.Paths))
	recv := fn.Params[0].Name()
	names := []string{}
	for _, p := range fn.Params[1:] {
		names = append(names, p.Name())
	}
	if len(names) != 4 {
		a.und("LOC-branch", "updateLocations/signature", "unexpected signature", fn.Pos())
		return
	}
	goroot, localgoroot, gomods, gopaths := names[0], names[1], names[2], names[3]
	remote := recv + ".RemoteSrcPath"
	for _, p := range x.Paths {
		if p.Term != "return" || len(p.Results) != 1 {
			continue
		}
		pos := pathPos(p, fn)
		res, isC := p.Results[0].boolConst()
		if !isC {
			a.und("LOC-branch", "updateLocations/result", "non-constant result", pos)
			continue
		}
		var stores []Event
		for _, ev := range p.Events {
			if ev.Kind == EvStore && strings.HasPrefix(ev.Addr.String(), "&"+recv+".") {
				stores = append(stores, ev)
			}
		}
		if !res {
			if len(stores) == 0 {
				a.ok("LOC-branch", "updateLocations/no-match", "a frame under none of the roots is left untouched (unknown, no local path)", pos)
			} else {
				a.bad("LOC-branch", "updateLocations/no-match", "a frame that matches no root is modified: "+stores[0].String(), pos)
			}
			continue
		}
		// the matching prefix test
		var pref *Expr
		for _, lt := range p.Lits {
			if lt.Pol && lt.Atom.calleeIs("strings", "HasPrefix") && lt.Atom.Args[1].String() == remote {
				pref = lt.Atom.Args[2]
			}
		}
		if pref == nil || pref.Op != OpBin || pref.Tok != token.ADD {
			a.bad("LOC-branch", "updateLocations/match", "a match is reported without a prefix test of the remote path against root+separator", pos)
			continue
		}
		root, sepE := pref.Args[0], pref.Args[1]
		sep, ok := constStr(sepE)
		if !ok || !strings.HasSuffix(sep, "/") {
			a.bad("LOC-sep", "updateLocations/separator", "the root is matched without a trailing path separator ("+pref.String()+"): a sibling directory whose name starts with the root's name would match", pos)
			continue
		}
		a.ok("LOC-sep", "updateLocations/separator", "roots are matched at a path-component boundary", pos)
		kind, wantLoc, wantMid, wantBase := "", "", "", ""
		rs := root.String()
		switch {
		case root.Op == OpParam && root.Name == goroot && sep == "/src/":
			kind, wantLoc, wantMid, wantBase = "goroot", "Stdlib", "src", localgoroot
		case strings.HasPrefix(rs, "sortedKeys("+gopaths+")[") && sep == "/src/":
			kind, wantLoc, wantMid, wantBase = "gopath-src", "GOPATH", "src", gopaths+"["+rs+"]"
		case strings.HasPrefix(rs, "sortedKeys("+gopaths+")[") && sep == "/pkg/mod/":
			kind, wantLoc, wantMid, wantBase = "gopath-mod", "GoPkg", "pkg/mod", gopaths+"["+rs+"]"
		case strings.HasPrefix(rs, "sortedKeys("+gomods+")[") && sep == "/":
			kind, wantLoc = "gomod", "GoMod"
		default:
			a.bad("LOC-branch", "updateLocations/match", "unrecognised root/separator pair "+pref.String(), pos)
			continue
		}
		key := "updateLocations/" + kind
		if kind == "goroot" {
			// an undetected remote GOROOT is the empty string: "/src/" would then match every path under /src
			if empty, have := p.lit("(" + goroot + " == \"\")"); have && !empty {
				a.ok("LOC-branch", key+"/root-known", "the standard-library root is only matched when a remote GOROOT was detected", pos)
			} else {
				a.bad("LOC-branch", key+"/root-known", "the standard-library prefix is matched although no remote GOROOT may have been detected: with an empty root the prefix is \"/src/\" and every file under /src is classed as standard library and given a local path under the local GOROOT", pos)
			}
		}
		cell := func(f string) *Expr { return p.Cells["&"+recv+"."+f] }
		// RelSrcPath = remote[len(prefix):]
		rel := cell("RelSrcPath")
		okRel := false
		if rel != nil && rel.Op == OpSlice && rel.Args[0].String() == remote && rel.Args[1] != nil && rel.Args[2] == nil {
			lo := rel.Args[1].String()
			if lo == "len("+pref.String()+")" || (sep == "/" && lo == "(len("+rs+") + 1)") {
				okRel = true
			}
		}
		// LocalSrcPath
		okLocal := false
		local := cell("LocalSrcPath")
		if kind == "gomod" {
			okLocal = local != nil && local.String() == remote
		} else if local != nil && local.calleeIs(stackPkg, "pathJoin") && local.Args[1].Op == OpSlice {
			arr := local.Args[1].Args[0].String()
			v0, v1, v2 := p.Cells[arr+"[0]"], p.Cells[arr+"[1]"], p.Cells[arr+"[2]"]
			mid, _ := constStr(v1)
			if v0 != nil && v2 != nil && v0.String() == wantBase && mid == wantMid && rel != nil && v2.String() == rel.String() {
				okLocal = true
			}
		}
		// Location only when unknown
		unk, haveUnk := p.lit("(" + recv + ".Location == LocationUnknown)")
		loc := cell("Location")
		okLoc := false
		switch {
		case !haveUnk:
		case unk:
			okLoc = loc != nil && loc.String() == wantLoc
		default:
			okLoc = loc == nil
		}
		// ImportPath: the directory part of the relative path (under the module's
		// path for a local module); untouched when the file sits directly in the root
		okImp := false
		imp := cell("ImportPath")
		if rel != nil {
			isDir := func(e *Expr) bool { // rel[:LastIndexByte(rel, '/')]
				if e == nil || e.Op != OpSlice || e.Args[0].String() != rel.String() || e.Args[1] != nil || e.Args[2] == nil {
					return false
				}
				ix := e.Args[2]
				if !ix.calleeIs("strings", "LastIndexByte") || len(ix.Args) != 3 || ix.Args[1].String() != rel.String() {
					return false
				}
				k, isC := ix.Args[2].intConst()
				return isC && k == '/'
			}
			noSlash, haveSlash := false, false
			for _, lt := range p.Lits {
				at := lt.Atom
				if at.Op == OpBin && at.Tok == token.EQL && at.Args[0].calleeIs("strings", "LastIndexByte") && len(at.Args[0].Args) == 3 && at.Args[0].Args[1].String() == rel.String() {
					if k, isC := at.Args[1].intConst(); isC && k == -1 {
						noSlash, haveSlash = lt.Pol, true
					}
				}
			}
			pkgS := gomods + "[" + rs + "]"
			switch {
			case !haveSlash:
			case kind == "gomod" && noSlash:
				okImp = imp != nil && imp.String() == pkgS
			case kind == "gomod":
				// module path + "/" + directory, however the concatenation is grouped
				var parts []*Expr
				var flat func(e *Expr)
				flat = func(e *Expr) {
					if e != nil && e.Op == OpBin && e.Tok == token.ADD && len(e.Args) == 2 {
						flat(e.Args[0])
						flat(e.Args[1])
						return
					}
					parts = append(parts, e)
				}
				flat(imp)
				if len(parts) == 3 && parts[0] != nil && parts[0].String() == pkgS && isDir(parts[2]) {
					if sep, ok := constStr(parts[1]); ok && sep == "/" {
						okImp = true
					}
				}
			case noSlash:
				okImp = imp == nil
			default:
				okImp = isDir(imp)
			}
		}
		if okRel && okLocal && okLoc && okImp {
			a.ok("LOC-branch", key, fmt.Sprintf("root kind %s: class %s (only when still unknown), relative path = what follows the matched prefix, local path ends with the relative path, import path = its directory part", kind, wantLoc), pos)
		} else {
			a.bad("LOC-branch", key, fmt.Sprintf("root kind %s: relative path ok=%v, local path ok=%v, class %s only-when-unknown ok=%v, import path ok=%v", kind, okRel, okLocal, wantLoc, okLoc, okImp), pos)
		}
	}
}

// locSeparators: hasPrefix / hasSrcPrefix report a match only at a path
// separator after the root.
func locSeparators(c *Ctx, a *flAgg) {
	for _, name := range []string{"hasPrefix", "hasSrcPrefix"} {
		fn := c.MustFunc(a.obls, "LOC-sep", "stack", "", name)
		if fn == nil {
			continue
		}
		exprHome = fn.Pkg.Pkg
		x := &SPE{Fn: fn, MaxVisits: 2}
		x.Explore()
		nTrue := 0
		okAll := true
		why := ""
		valRoot, otherRoot := false, ""
		for _, p := range x.Paths {
			if p.Term != "return" || len(p.Results) != 1 {
				continue
			}
			if v, isC := p.Results[0].boolConst(); !isC || !v {
				continue
			}
			nTrue++
			rootEq, sepOK := false, false
			// the roots are the keys of the map (remote root -> local
			// root); its values are local directories, which a remote path
			// never begins with
			isKey := func(e *Expr) bool {
				return e.Op == OpExtract && e.ID == 1 && e.Args[0].Op == OpNext
			}
			isVal := func(e *Expr) bool {
				return e.Op == OpExtract && e.ID == 2 && e.Args[0].Op == OpNext || e.Op == OpLookup
			}
			for _, lt := range p.Lits {
				// the same two tests written with strings.HasPrefix
				if at := lt.Atom; lt.Pol && at.calleeIs("strings", "HasPrefix") && len(at.Args) == 3 {
					subj, pre := at.Args[1], at.Args[2]
					if subj.Op == OpParam && !pre.isConst() {
						rootEq = true // p begins with the root
						if isVal(pre) {
							valRoot = true
						} else if !isKey(pre) {
							otherRoot = pre.String()
						}
					}
					if s, ok := constStr(pre); ok && strings.HasPrefix(s, "/") && subj.Op == OpSlice && subj.Args[0].Op == OpParam && subj.Args[1] != nil && strings.HasPrefix(subj.Args[1].String(), "len(") {
						sepOK = true // what follows the root begins with a separator
					}
				}
				if !lt.Pol || lt.Atom.Op != OpBin || lt.Atom.Tok != token.EQL {
					continue
				}
				l, r := lt.Atom.Args[0], lt.Atom.Args[1]
				for _, pr := range [][2]*Expr{{l, r}, {r, l}} {
					x, y := pr[0], pr[1]
					// p[:len(prefix)] == prefix
					if x.Op == OpSlice && x.Args[0].Op == OpParam && x.Args[1] == nil && x.Args[2] != nil && strings.HasPrefix(x.Args[2].String(), "len(") && "len("+y.String()+")" == x.Args[2].String() {
						rootEq = true
						if isVal(y) {
							valRoot = true
						} else if !isKey(y) {
							otherRoot = y.String()
						}
					}
					// p[len(prefix)] == '/'
					if k, ok := y.intConst(); ok && k == '/' && (x.Op == OpIndex || x.Op == OpLookup) {
						if strings.HasPrefix(x.Args[1].String(), "len(") {
							sepOK = true
						}
					}
					// p[l:l+len(sep)] == "/src/"
					if s, ok := constStr(y); ok && strings.HasPrefix(s, "/") && strings.HasSuffix(s, "/") && x.Op == OpSlice && x.Args[1] != nil && strings.HasPrefix(x.Args[1].String(), "len(") {
						sepOK = true
						// the slice compared with the directory name has its length
						if hi := x.Args[2]; hi != nil {
							if k, isC := constOffset(hi, x.Args[1].String()); isC && k != int64(len(s)) {
								sepOK = false
								why = fmt.Sprintf("%d bytes behind the root are compared with the %d bytes of %q, which is never equal", k, len(s), s)
							}
						}
					}
				}
			}
			if !rootEq || !sepOK {
				okAll = false
				why = fmt.Sprintf("a match is reported with root-equality=%v, separator-after-root=%v on %s", rootEq, sepOK, litsString(p))
			}
		}
		if nTrue > 0 && valRoot {
			a.bad("LOC-sep", name+"/key", "the path is compared with the values of the root map (the local directories), not with its keys (the remote roots the dump's paths begin with): a file under a known remote root is not recognised as explained, and one that happens to lie under a local directory is", fn.Pos())
		} else if nTrue > 0 && otherRoot != "" {
			a.und("LOC-sep", name+"/key", "the root the path is compared with is not a key of the root map: "+otherRoot, fn.Pos())
		} else if nTrue > 0 {
			a.ok("LOC-sep", name+"/key", "the roots compared are the keys of the map (remote roots)", fn.Pos())
		}
		if nTrue == 0 {
			a.und("LOC-sep", name, "no path returns true", fn.Pos())
		} else if okAll {
			a.ok("LOC-sep", name, "a path is attributed to a root only if the root is followed by a path separator", fn.Pos())
		} else {
			a.bad("LOC-sep", name, why+": a file under a sibling directory whose name begins with the root's name is treated as already explained and never resolved", fn.Pos())
		}
	}
}

// locSearchBounds: the upward search for go.mod covers every ancestor
// directory, the root split search every split point.
func locSearchBounds(c *Ctx, a *flAgg) {
	if fn := c.MustFunc(a.obls, "LOC-search", "stack", "gomodCache", "isGoModule"); fn != nil {
		ok, why := countedLoopShape(fn, "len(parts)", token.GTR, 0, -1)
		if ok {
			a.ok("LOC-search", "isGoModule/bounds", "the go.mod search walks from the file's directory up to and including the first path component", fn.Pos())
		} else {
			a.bad("LOC-search", "isGoModule/bounds", "the upward go.mod search does not cover i = len(parts) .. 1: "+why+" (a module rooted at the first path component is not found)", fn.Pos())
		}
	}
	if fn := c.L.Func("stack", "gomodCache", "isGoModule"); fn != nil && len(fn.Params) > 1 {
		// what a hit returns: (directory holding go.mod, module path read
		// from it) - both are strings, so the swapped pair compiles
		exprHome = fn.Pkg.Pkg
		x := &SPE{Fn: fn, MaxVisits: 2}
		x.Explore()
		parts := fn.Params[1].Name()
		nHit, bad := 0, ""
		for _, p := range x.Paths {
			if p.Term != "return" || len(p.Results) != 2 {
				continue
			}
			if _, isC := constStr(p.Results[0]); isC {
				if _, isC2 := constStr(p.Results[1]); isC2 {
					continue
				}
			}
			nHit++
			d, m := p.Results[0].String(), p.Results[1].String()
			if !strings.Contains(d, parts+"[") || strings.Contains(d, "FindSubmatch") || strings.Contains(d, "ReadFile") {
				bad = "the first result of a hit is " + d + ", not the directory joined from the path components"
			} else if !strings.Contains(m, "FindSubmatch(") || !strings.HasSuffix(m, "[1])") {
				bad = "the second result of a hit is " + m + ", not the module path captured from go.mod"
			}
		}
		switch {
		case nHit == 0:
			a.und("LOC-search", "isGoModule/results", "no path of isGoModule reports a module", fn.Pos())
		case bad != "":
			a.bad("LOC-search", "isGoModule/results", bad+": local modules are recorded with directory and import path exchanged, so no frame is attributed to its module", fn.Pos())
		default:
			a.ok("LOC-search", "isGoModule/results", "a hit returns (directory that holds go.mod, module path captured from it)", fn.Pos())
		}
	}
	if fn := c.MustFunc(a.obls, "LOC-search", "stack", "", "isRootedIn"); fn != nil {
		ok, why := countedLoopShape(fn, "1", token.LSS, -1, 1)
		if ok {
			a.ok("LOC-search", "isRootedIn/bounds", "every split point 1..len(parts)-1 of the path is tried", fn.Pos())
		} else {
			a.bad("LOC-search", "isRootedIn/bounds", "the split-point search does not cover 1..len(parts)-1: "+why, fn.Pos())
		}
	}
}

// countedLoopShape checks the single loop of fn: init, comparison against a
// bound (constant bound if boundConst >= 0, else len(parts)), step.
func countedLoopShape(fn *ssa.Function, init string, cmp token.Token, boundConst int64, step int64) (bool, string) {
	loops := outermostLoops(naturalLoops(fn))
	if len(loops) != 1 {
		return false, fmt.Sprintf("%d loops", len(loops))
	}
	l := loops[0]
	for _, in := range l.Header.Instrs {
		phi, ok := in.(*ssa.Phi)
		if !ok {
			break
		}
		var initV, stepV ssa.Value
		for i, e := range phi.Edges {
			if l.Body[phi.Block().Preds[i]] {
				stepV = e
			} else {
				initV = e
			}
		}
		if initV == nil || stepV == nil {
			continue
		}
		bo, ok := stepV.(*ssa.BinOp)
		if !ok || bo.X != ssa.Value(phi) {
			continue
		}
		st, isC := bnConst(bo.Y)
		if !isC {
			continue
		}
		if bo.Op == token.SUB {
			st = -st
		}
		if st != step {
			return false, fmt.Sprintf("step %d", st)
		}
		// init
		is := ""
		if k, ok := bnConst(initV); ok {
			is = fmt.Sprint(k)
		} else if S := bnLenOf(initV); S != nil {
			is = "len(" + S.Name() + ")"
		}
		if init == "len(parts)" {
			if !strings.HasPrefix(is, "len(") {
				return false, "initial value " + is
			}
		} else if is != init {
			return false, "initial value " + is
		}
		// condition in the header
		ifi, ok := l.Header.Instrs[len(l.Header.Instrs)-1].(*ssa.If)
		if !ok {
			return false, "no loop condition"
		}
		cond, ok := ifi.Cond.(*ssa.BinOp)
		if !ok || cond.X != ssa.Value(phi) || cond.Op != cmp {
			return false, "loop condition " + ifi.Cond.String()
		}
		if boundConst >= 0 {
			if k, ok := bnConst(cond.Y); !ok || k != boundConst {
				return false, "bound " + cond.Y.String()
			}
		} else if bnLenOf(cond.Y) == nil {
			return false, "bound " + cond.Y.String()
		}
		return true, ""
	}
	return false, "no induction variable"
}

// locTestMain: the go-test generated main counts as standard library.
func locTestMain(c *Ctx, a *flAgg) {
	fn := c.MustFunc(a.obls, "LOC-testmain", "stack", "Call", "init")
	if fn == nil {
		return
	}
	exprHome = fn.Pkg.Pkg
	x := &SPE{Fn: fn, MaxVisits: 2}
	x.Explore()
	recv := fn.Params[0].Name()
	ok, n := true, 0
	wrong := ""
	for _, p := range x.Paths {
		is, have := false, false
		for _, lt := range p.Lits {
			s := lt.Atom.String()
			if strings.Contains(s, recv+".DirSrc") || strings.Contains(s, "DirSrc") || strings.Contains(s, "_testmain.go") {
				if lt.Atom.Op == OpBin && lt.Atom.Tok == token.EQL {
					if k, okk := constStr(lt.Atom.Args[1]); okk && strings.HasSuffix(k, "_testmain.go") {
						is, have = lt.Pol, true
						// the last two path elements are compared with
						// "_test/_testmain.go"
						want := recv + ".DirSrc"
						if d := p.Cells["&"+recv+".DirSrc"]; d != nil {
							want = d.String()
						}
						if lt.Atom.Args[0].String() != want {
							wrong = "the value compared with the generated main's name is " + lt.Atom.Args[0].String() + ", not the frame's DirSrc (directory/file)"
						}
						if k != "_test/_testmain.go" && k != "_test\\_testmain.go" {
							wrong = fmt.Sprintf("the name of the generated main is %q, go test writes _test/_testmain.go", k)
						}
					}
				}
			}
		}
		loc := p.Cells["&"+recv+".Location"]
		if have && is {
			n++
			if loc == nil || loc.String() != "Stdlib" {
				ok = false
			}
		} else if loc != nil {
			ok = false
		}
	}
	if ok && n > 0 && wrong != "" {
		a.bad("LOC-testmain", "Call.init", wrong+": the generated test main is never recognised", fn.Pos())
	} else if ok && n > 0 {
		a.ok("LOC-testmain", "Call.init", "_test/_testmain.go is classified as standard library, and nothing else is classified at parse time", fn.Pos())
	} else {
		a.bad("LOC-testmain", "Call.init", "the generated test main is not (only) classified as Stdlib at parse time", fn.Pos())
	}
}

// locConsts: the directory constants agree between the sibling functions.
func locConsts(c *Ctx, a *flAgg) {
	collect := func(f *ssa.Function) map[string]bool {
		out := map[string]bool{}
		if f == nil {
			return out
		}
		for _, b := range blocksWithHelpers(f) {
			for _, in := range b.Instrs {
				var ops []*ssa.Value
				for _, op := range in.Operands(ops) {
					if k, ok := (*op).(*ssa.Const); ok && k.Value != nil && k.Value.Kind() == constant.String {
						s := constant.StringVal(k.Value)
						if strings.Contains(s, "src") || strings.Contains(s, "pkg/mod") {
							out[s] = true
						}
					}
				}
			}
		}
		return out
	}
	fr := collect(c.L.Func("stack", "Snapshot", "findRoots"))
	hs := collect(c.L.Func("stack", "", "hasSrcPrefix"))
	ul := collect(c.L.Func("stack", "Call", "updateLocations"))
	// the directory names, whatever separators are attached to the constant
	// (where the separators must be is LOC-sep / LOC-branch / LOC-root-suffix)
	ok := true
	extra := []string{}
	for _, m := range []map[string]bool{fr, hs, ul} {
		names := map[string]bool{}
		for s := range m {
			n := strings.Trim(s, "/")
			names[n] = true
			if n != "src" && n != "pkg/mod" {
				extra = append(extra, s)
			}
		}
		if !names["src"] || !names["pkg/mod"] {
			ok = false
		}
	}
	sort.Strings(extra)
	if ok && len(extra) == 0 {
		a.ok("LOC-consts", "src+pkg/mod", "findRoots, hasSrcPrefix and updateLocations agree on the directory names /src and /pkg/mod", token.NoPos)
	} else {
		a.bad("LOC-consts", "src+pkg/mod", fmt.Sprintf("the sibling functions do not use the same directory constants (unexpected: %v)", extra), token.NoPos)
	}
}

// locWiring (LOC-wiring): the roots that findRoots detected are the ones the
// frames are matched against. Backwards from Call.updateLocations, whose
// parameters have the roles goroot (remote GOROOT), localgoroot, localgomods
// and gopaths (remote GOPATH -> local), every call site of a role-carrying
// function in package stack must feed each role with the caller's parameter
// of the same role, until the call that reads them from the snapshot, where
// the values must be the fields RemoteGOROOT, LocalGOROOT, LocalGomods and
// RemoteGOPATHs in that order of roles. Two of the four have the same type
// twice over: swapping them compiles, and passes every test in which the
// remote and the local root are the same directory.
func locWiring(c *Ctx, a *flAgg) {
	const rule = "LOC-wiring"
	leaf := c.MustFunc(a.obls, rule, "stack", "Call", "updateLocations")
	if leaf == nil {
		return
	}
	want := map[string]string{"goroot": "RemoteGOROOT", "localgoroot": "LocalGOROOT", "localgomods": "LocalGomods", "gopaths": "RemoteGOPATHs"}
	type slot struct {
		fn  *ssa.Function
		idx int
	}
	role := map[slot]string{}
	n := 0
	// the roles are positions of the leaf (receiver, then the four roots), the
	// same reading LOC-branch checks the body against
	if len(leaf.Params) == 5 {
		for i, r := range []string{"goroot", "localgoroot", "localgomods", "gopaths"} {
			role[slot{leaf, i + 1}] = r
			n++
		}
	}
	if n != 4 {
		a.und(rule, "Call.updateLocations/params", fmt.Sprintf("expected the four root parameters goroot, localgoroot, localgomods, gopaths; found %d of them", n), leaf.Pos())
		return
	}
	fns := c.L.SrcFuncs("stack")
	work := []*ssa.Function{leaf}
	seen := map[*ssa.Function]bool{}
	tops := 0
	for len(work) > 0 {
		h := work[0]
		work = work[1:]
		if seen[h] {
			continue
		}
		seen[h] = true
		for _, g := range fns {
			for _, b := range g.Blocks {
				for _, in := range b.Instrs {
					ci, ok := in.(ssa.CallInstruction)
					if !ok || ci.Common().StaticCallee() != h {
						continue
					}
					for i := range h.Params {
						r := role[slot{h, i}]
						if r == "" || i >= len(ci.Common().Args) {
							continue
						}
						key := funcKey(g) + "->" + funcKey(h) + "/" + r
						switch arg := ci.Common().Args[i].(type) {
						case *ssa.Parameter:
							pi := -1
							for k, q := range g.Params {
								if q == arg {
									pi = k
								}
							}
							if old := role[slot{g, pi}]; old != "" && old != r {
								a.bad(rule, key, fmt.Sprintf("parameter %s is passed on both as %s and as %s", arg.Name(), old, r), in.Pos())
								continue
							}
							role[slot{g, pi}] = r
							a.ok(rule, key, "passed on unchanged", in.Pos())
							if !seen[g] {
								work = append(work, g)
							}
						case *ssa.UnOp:
							fa, isF := arg.X.(*ssa.FieldAddr)
							if arg.Op == token.MUL && isF && addrLast(fa) == want[r] {
								tops++
								a.ok(rule, key, "read from the snapshot field "+want[r], in.Pos())
							} else {
								got := arg.String()
								if isF {
									got = "field " + addrLast(fa)
								}
								a.bad(rule, key, fmt.Sprintf("the %s handed to the frames is %s, not the snapshot's %s: frames are matched against (or mapped into) the wrong root whenever the two differ", r, got, want[r]), in.Pos())
							}
						default:
							a.bad(rule, key, fmt.Sprintf("the %s handed on is neither the caller's own %s nor the snapshot's %s (%s)", r, r, want[r], arg.String()), in.Pos())
						}
					}
				}
			}
		}
	}
	if tops == 0 {
		a.und(rule, "top", "no call reads the roots from the snapshot", leaf.Pos())
	}
}

// locAllRoots: a loop over the roots in Call.updateLocations (and in helpers
// it was split into) is left early only by a match: every edge out of such a
// loop other than the one taken when the roots are exhausted leads to code
// that returns true and reaches no further loop. A `break` on some ordering
// argument ("the roots are sorted, none of the remaining ones can match")
// leaves roots untried.
func locAllRoots(a *flAgg, fn *ssa.Function) {
	fns := []*ssa.Function{fn}
	seen := map[*ssa.Function]bool{fn: true}
	for _, b := range blocksWithHelpers(fn) {
		if !seen[b.Parent()] {
			seen[b.Parent()] = true
			fns = append(fns, b.Parent())
		}
	}
	n := 0
	for _, f := range fns {
		loops := naturalLoops(f)
		headers := map[*ssa.BasicBlock]bool{}
		for _, l := range loops {
			headers[l.Header] = true
		}
		for _, l := range loops {
			for b := range l.Body {
				if b == l.Header {
					continue
				}
				for _, s := range b.Succs {
					if l.Body[s] {
						continue
					}
					// inner loops of l leave into l, not out of it: only edges that leave every enclosing... this edge leaves l
					n++
					ok := true
					why := ""
					vis := map[*ssa.BasicBlock]bool{}
					var dfs func(x *ssa.BasicBlock)
					dfs = func(x *ssa.BasicBlock) {
						if vis[x] || !ok {
							return
						}
						vis[x] = true
						if headers[x] {
							ok, why = false, "goes on to the next loop"
							return
						}
						for _, in := range x.Instrs {
							if ret, isR := in.(*ssa.Return); isR {
								for _, r := range ret.Results {
									k, isC := r.(*ssa.Const)
									if !isC || k.Value == nil || k.Value.String() != "true" {
										ok, why = false, "returns something else than true"
									}
								}
							}
						}
						for _, y := range x.Succs {
							dfs(y)
						}
					}
					dfs(s)
					pos := token.NoPos
					if len(b.Instrs) > 0 {
						pos = b.Instrs[len(b.Instrs)-1].Pos()
					}
					if pos == token.NoPos && len(s.Instrs) > 0 {
						pos = s.Instrs[0].Pos()
					}
					if ok {
						a.ok("LOC-branch", "updateLocations/all-roots", "a loop over the roots is left early only with a match", pos)
					} else {
						a.bad("LOC-branch", "updateLocations/all-roots", "a loop over the roots can be left before all roots were tried without having matched ("+why+"): frames under the roots not reached stay unknown, without local path", pos)
					}
				}
			}
		}
	}
	if n == 0 {
		a.ok("LOC-branch", "updateLocations/all-roots", "no loop over the roots is left early", fn.Pos())
	}
}

// ssaIdxKey: a structural name for an index value (no CSE in go/ssa: the same
// expression written twice is two instructions).
func ssaIdxKey(v ssa.Value, depth int) string {
	if depth > 4 {
		return v.Name()
	}
	switch t := v.(type) {
	case *ssa.Const:
		return t.Value.String()
	case *ssa.BinOp:
		return "(" + ssaIdxKey(t.X, depth+1) + t.Op.String() + ssaIdxKey(t.Y, depth+1) + ")"
	case *ssa.Call:
		if b, ok := t.Call.Value.(*ssa.Builtin); ok && len(t.Call.Args) == 1 {
			return b.Name() + "(" + ssaIdxKey(t.Call.Args[0], depth+1) + ")"
		}
	}
	return v.Name()
}

// constOffset: e == base + k for a constant k (through nested +/- constants).
func constOffset(e *Expr, base string) (int64, bool) {
	if e == nil {
		return 0, false
	}
	if e.String() == base {
		return 0, true
	}
	if e.Op == OpBin && len(e.Args) == 2 && (e.Tok == token.ADD || e.Tok == token.SUB) {
		if k, isC := e.Args[1].intConst(); isC {
			if in, ok := constOffset(e.Args[0], base); ok {
				if e.Tok == token.SUB {
					return in - k, true
				}
				return in + k, true
			}
		}
		if k, isC := e.Args[0].intConst(); isC && e.Tok == token.ADD {
			if in, ok := constOffset(e.Args[1], base); ok {
				return in + k, true
			}
		}
	}
	return 0, false
}

// trailConst: the constant string a concatenation ends with.
func trailConst(e *Expr) (string, bool) {
	if k, ok := constStr(e); ok {
		return k, true
	}
	if e.Op == OpBin && e.Tok == token.ADD && len(e.Args) == 2 {
		return trailConst(e.Args[1])
	}
	return "", false
}
