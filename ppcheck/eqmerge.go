package main

import (
	"fmt"
	"go/token"
	"go/types"
	"strings"

	"golang.org/x/tools/go/ssa"
)

// eqMerge decides the merge functions (C12, C05): what a merged value is
// made of, on every path.
func eqMerge(c *Ctx, a *flAgg) {
	eqArgsMerge(c, a)
	eqCallMerge(c, a)
	eqStackMerge(c, a)
	eqSignatureMerge(c, a)
}

func allocCells(p *Path, alloc string) map[string]*Expr {
	out := map[string]*Expr{}
	for k, v := range p.Cells {
		if strings.HasPrefix(k, alloc+".") {
			out[strings.TrimPrefix(k, alloc+".")] = v
		}
	}
	return out
}

func eqArgsMerge(c *Ctx, a *flAgg) {
	q := newEq(c, a, "Args", "merge", "EQ-merge-show")
	if q == nil {
		return
	}
	fn := q.fn
	exprHome = fn.Pkg.Pkg
	loops := outermostLoops(naturalLoops(fn))
	if len(loops) != 1 {
		a.und("EQ-merge-show", "Args.merge/loop", fmt.Sprintf("expected one loop over the values, found %d", len(loops)), fn.Pos())
		return
	}
	l := loops[0]
	seed := seedStraight(fn, l.Header)
	// the result object
	var outAlloc *Expr
	var outValues, outElided *Expr
	{
		x := &SPE{Fn: fn, MaxVisits: 1}
		x.Stop = func(from, to *ssa.BasicBlock) bool { return to == l.Header }
		x.Explore()
		if len(x.Paths) == 1 {
			for k, v := range x.Paths[0].Cells {
				if strings.HasSuffix(k, ".Values") && strings.HasPrefix(k, "&") {
					outValues = v
					n := strings.TrimSuffix(k, ".Values")
					outAlloc = &Expr{Op: OpAlloc, Name: strings.TrimPrefix(n, "&")}
					_ = n
				}
				if strings.HasSuffix(k, ".Elided") {
					outElided = v
				}
			}
		}
	}
	if outAlloc == nil || outValues == nil {
		a.und("EQ-merge-show", "Args.merge/result", "result object not recognised", fn.Pos())
		return
	}
	// fresh values of the left length; Elided of the left
	okFresh := outValues.Op == OpMakeSlice && outValues.Args[0].String() == "len("+q.l+".Values)"
	if okFresh {
		a.ok("EF-fresh-merge", "Args.merge/values", "the merged values live in a new slice of the left operand's length", fn.Pos())
	} else {
		a.bad("EF-fresh-merge", "Args.merge/values", "the merged argument list is not a new slice make([]Arg, len(left.Values)): writing the merge result would modify the bucket key's or the snapshot's arguments ("+outValues.String()+")", fn.Pos())
	}
	if outElided != nil && outElided.String() == q.l+".Elided" {
		a.ok("EQ-merge-show", "Args.merge/elided", "Elided is the left operand's (equal on both sides by similarity)", fn.Pos())
	} else {
		a.bad("EQ-merge-show", "Args.merge/elided", "Elided of the merged list is not taken from the operands", fn.Pos())
	}
	seg := &SPE{Fn: fn, Start: l.Header, MaxVisits: 2, SeedEnv: seed}
	seg.Stop = func(from, to *ssa.BasicBlock) bool { return to == l.Header && l.Body[from] }
	seg.Explore()
	dst := strings.TrimPrefix(outAlloc.Name, "&") + ".Values"
	cases := map[string]bool{}
	otherField := false
	defer func() {
		if !otherField {
			a.ok("EQ-merge-show", "Args.merge/other-field", "the merged list is built from Values and Elided only (no per-member rendering is carried over)", fn.Pos())
		}
	}()
	outName := strings.TrimPrefix(outAlloc.Name, "&")
	for _, p := range seg.Paths {
		pos := pathPos(p, fn)
		// the merged list carries nothing but Values and Elided: any other field
		// (the source-annotated rendering Processed) describes one member only
		for _, ev := range p.Events {
			if ev.Kind != EvStore {
				continue
			}
			as, _ := stripAddr(ev.Addr.String())
			if strings.HasPrefix(as, outName+".") && !strings.HasPrefix(as, outName+".Values") && as != outName+".Elided" {
				otherField = true
				a.bad("EQ-merge-show", "Args.merge/other-field", "the merged argument list receives "+strings.TrimPrefix(as, outName+".")+" = "+ev.Val.String()+": a field other than Values/Elided describes one member only, yet it is what the renderers prefer to show", ev.Pos)
			}
		}
		if p.Term == "return" {
			// after the loop: returns the result object
			if len(p.Results) == 1 && strings.HasSuffix(p.Results[0].String(), strings.TrimPrefix(outAlloc.Name, "&")) {
				a.ok("EQ-merge-show", "Args.merge/returns", "the built list is returned", pos)
			} else if len(p.Results) == 1 {
				a.bad("EQ-merge-show", "Args.merge/returns", "merge does not return the list it built: "+p.Results[0].String(), pos)
			}
			continue
		}
		// one element: find index and the left element copy
		var idx string
		for _, ev := range p.Events {
			if ev.Kind == EvIndex && ev.Addr.String() == q.l+".Values" {
				idx = ev.Val.String()
				break
			}
		}
		if idx == "" {
			a.und("EQ-merge-show", "Args.merge/element", "element index not recognised", pos)
			continue
		}
		lElem := q.l + ".Values[" + idx + "]"
		rElem := q.r + ".Values[" + idx + "]"
		// stores into dst[idx]
		stores := map[string]*Expr{}
		whole := (*Expr)(nil)
		for _, ev := range p.Events {
			if ev.Kind != EvStore {
				continue
			}
			as, _ := stripAddr(ev.Addr.String())
			pre := dst + "[" + idx + "]"
			if as == pre {
				whole = ev.Val
			} else if strings.HasPrefix(as, pre+".") {
				stores[strings.TrimPrefix(as, pre+".")] = ev.Val
			} else if strings.HasPrefix(as, dst+"[") {
				a.bad("EQ-merge-show", "Args.merge/other-index", "element "+idx+" writes to another index of the result: "+as, pos)
			} else if !strings.HasPrefix(ev.Addr.String(), "&l") && ev.Addr.Op != OpAlloc && addrBase(ev.Addr).Op != OpAlloc {
				a.bad("EF-fresh-merge", "Args.merge/foreign-store", "merge writes outside its result: "+as, pos)
			}
		}
		// a composite literal stored as a whole into the (zeroed) element is
		// the field stores it abbreviates
		if whole != nil && whole.Op == OpInit && whole.Parts != nil && len(whole.Args) == 1 && len(stores) == 0 {
			if ab := addrBase(whole.Args[0]); ab != nil && ab.Op == OpAlloc && strings.HasPrefix(ab.Name, "complit") {
				for f, v := range whole.Parts {
					stores[f] = v
				}
				whole = nil
			}
		}
		lIsAgg := false
		haveAgg := false
		var eqCall *Expr
		eqPol := false
		for _, lt := range p.Lits {
			s := lt.Atom.String()
			if strings.HasSuffix(s, ".IsAggregate") && !strings.Contains(s, "==") {
				lIsAgg, haveAgg = lt.Pol, true
			}
			if lt.Atom.Op == OpCall && lt.Atom.Fn != nil && shortFn(lt.Atom.Fn) == "Arg.equal" {
				eqCall, eqPol = lt.Atom, lt.Pol
			}
		}
		isL := func(e *Expr, f string) bool {
			if e == nil {
				return false
			}
			s := e.String()
			return s == lElem+"."+f || s == "l."+f // range copy "l"
		}
		switch {
		case haveAgg && lIsAgg:
			cases["aggregate"] = true
			v, _ := stores["IsAggregate"].boolConst()
			f := stores["Fields"]
			okF := f != nil && f.Op == OpCall && f.Fn != nil && shortFn(f.Fn) == "Args.merge" && len(f.Args) == 3 &&
				(f.Args[1].String() == "&"+lElem+".Fields" || f.Args[1].String() == "&l.Fields") && f.Args[2].String() == "&"+rElem+".Fields"
			if v && okF && whole == nil {
				a.ok("EQ-merge-show", "Args.merge/aggregate", "an aggregate is merged field by field with the same position of the other side", pos)
			} else {
				a.bad("EQ-merge-show", "Args.merge/aggregate", fmt.Sprintf("an aggregate element must become {IsAggregate: true, Fields: left.Fields.merge(&right.Fields)} (IsAggregate=%v fields-ok=%v)", v, okF), pos)
			}
		case eqCall == nil:
			a.bad("EQ-merge-show", "Args.merge/scalar-gate", "a scalar element is merged without comparing both sides with equal: a value held by only one member could be shown as common", pos)
		case !(len(eqCall.Args) == 3 && eqCall.Args[2].String() == "&"+rElem):
			a.bad("EQ-merge-show", "Args.merge/scalar-gate", "equal is not applied to the same position of both sides: "+eqCall.String(), pos)
		case eqPol:
			cases["equal"] = true
			if whole != nil && (whole.String() == lElem || whole.String() == "l") && len(stores) == 0 {
				a.ok("EQ-merge-show", "Args.merge/equal", "an argument equal on both sides is shown unchanged", pos)
			} else {
				a.bad("EQ-merge-show", "Args.merge/equal", "an argument that is equal on both sides is not copied unchanged", pos)
			}
		default:
			cases["differs"] = true
			nm := stores["Name"]
			star := nm != nil && nm.isConst() && nm.Const != nil && nm.Const.ExactString() == `"*"`
			if star && whole == nil {
				a.ok("EQ-merge-show", "Args.merge/differs", "an argument that differs between the sides is replaced by the wildcard", pos)
			} else {
				a.bad("EQ-merge-show", "Args.merge/differs", "an argument that differs between the sides is not shown as '*'", pos)
			}
			// class preservation: Value and IsPtr of the left side are kept, nothing of the right side is
			if isL(stores["Value"], "Value") && isL(stores["IsPtr"], "IsPtr") {
				a.ok("EQ-merge-class", "Args.merge/keeps-left-class", "the wildcard keeps the left side's value and pointer-ness, so the merged key stays in the similarity class of the bucket", pos)
			} else {
				a.bad("EQ-merge-class", "Args.merge/keeps-left-class", "the merged argument does not keep the left side's Value and IsPtr: the merged key can leave the similarity class of its bucket (later members are then put in a new bucket)", pos)
			}
			for f, v := range stores {
				if strings.Contains(v.String(), q.r+".Values[") {
					a.bad("EQ-merge-class", "Args.merge/right-leak:"+f, "a field of the merged argument is taken from the right side", pos)
				}
			}
		}
	}
	for _, k := range []string{"aggregate", "equal", "differs"} {
		if !cases[k] {
			a.bad("EQ-merge-show", "Args.merge/case:"+k, "the case '"+k+"' is not distinguished by Args.merge", fn.Pos())
		}
	}
}

func eqCallMerge(c *Ctx, a *flAgg) {
	q := newEq(c, a, "Call", "merge", "EQ-merge-show")
	if q == nil {
		return
	}
	fn := q.fn
	exprHome = fn.Pkg.Pkg
	x := &SPE{Fn: fn, MaxVisits: 2}
	x.Explore()
	st, _ := fn.Signature.Results().At(0).Type().Underlying().(*types.Struct)
	if st == nil {
		a.und("EQ-merge-show", "Call.merge/result", "result is not a struct", fn.Pos())
		return
	}
	for _, p := range x.Paths {
		if p.Term != "return" || len(p.Results) != 1 {
			continue
		}
		pos := pathPos(p, fn)
		res := loadOf(p.Results[0])
		if res == nil || res.Op != OpAlloc {
			a.bad("EQ-merge-show", "Call.merge/result", "the merged call is not a newly built value: "+p.Results[0].String(), pos)
			continue
		}
		cells := allocCells(p, res.String())
		// a whole-struct copy of the left call (merged := *c) gives every field
		// that is not overwritten afterwards the left call's value
		wholeLeft := false
		if w := p.Cells[res.String()]; w != nil {
			ws := w.String()
			if ws == "*("+q.l+")" || ws == "*"+q.l {
				wholeLeft = true
			}
		}
		for i := 0; i < st.NumFields(); i++ {
			f := st.Field(i).Name()
			if f == "_" {
				continue
			}
			v := cells[f]
			if v == nil && wholeLeft {
				v = &Expr{Op: OpParam, Name: q.l + "." + f}
			}
			switch {
			case f == "Args":
				ok := v != nil && v.Op == OpCall && v.Fn != nil && shortFn(v.Fn) == "Args.merge" && len(v.Args) == 3 && v.Args[1].String() == "&"+q.l+".Args" && v.Args[2].String() == "&"+q.r+".Args"
				if ok {
					a.ok("EQ-merge-show", "Call.merge/Args", "arguments are merged position by position", pos)
				} else {
					a.bad("EQ-merge-show", "Call.merge/Args", "the merged call's arguments are not left.Args.merge(&right.Args)", pos)
				}
			case v != nil && v.String() == q.l+"."+f:
				a.ok("EQ-merge-show", "Call.merge/"+f, "copied from the left call (equal on both sides by similarity, or derived from such fields)", pos)
			default:
				got := "zero value"
				if v != nil {
					got = v.String()
				}
				a.bad("EQ-merge-show", "Call.merge/"+f, "field "+f+" of a merged frame is not the left frame's ("+got+"): the bucket would show or be ordered by something none of its members has", pos)
			}
		}
	}
}

func eqStackMerge(c *Ctx, a *flAgg) {
	q := newEq(c, a, "Stack", "merge", "EQ-merge-show")
	if q == nil {
		return
	}
	fn := q.fn
	exprHome = fn.Pkg.Pkg
	x := &SPE{Fn: fn, MaxVisits: 3}
	x.Explore()
	okAny := false
	for _, p := range x.Paths {
		if p.Term != "return" || len(p.Results) != 1 {
			continue
		}
		pos := pathPos(p, fn)
		res := p.Results[0]
		resName := res.String()
		if res.Op != OpAlloc {
			// returned by value: the value of a local struct built in this call is as new as a pointer to it
			local := false
			for al := range p.Allocs {
				if strings.TrimPrefix(al, "&") == resName {
					local, resName = true, al
				}
			}
			if !local {
				a.bad("EF-fresh-merge", "Stack.merge/result", "the merged stack is not a new object", pos)
				continue
			}
		}
		cells := allocCells(p, resName)
		calls := cells["Calls"]
		if calls == nil || calls.Op != OpMakeSlice || calls.Args[0].String() != "len("+q.l+".Calls)" {
			a.bad("EF-fresh-merge", "Stack.merge/calls", "the merged frames are not a new slice of the left stack's length", pos)
			continue
		}
		if e := cells["Elided"]; e == nil || e.String() != q.l+".Elided" {
			a.bad("EQ-merge-show", "Stack.merge/elided", "Elided is not the left stack's", pos)
			a.bad("EQ-merge-class", "Stack.merge/keeps-elided", "the merged stack does not keep the Elided flag its members share: Stack.similar compares it, so the merged key leaves the similarity class of its bucket and later members open a new one", pos)
		} else {
			a.ok("EQ-merge-class", "Stack.merge/keeps-elided", "the merged stack keeps the Elided flag, which similarity compares", pos)
		}
		// every executed iteration i stores dst[i] = left.Calls[i].merge(&right.Calls[i])
		n := 0
		bad := false
		for _, ev := range p.Events {
			if ev.Kind != EvStore {
				continue
			}
			as, _ := stripAddr(ev.Addr.String())
			if !strings.HasPrefix(as, calls.String()+"[") {
				continue
			}
			i := strings.TrimSuffix(strings.TrimPrefix(as, calls.String()+"["), "]")
			v := ev.Val
			ok := v.Op == OpCall && v.Fn != nil && shortFn(v.Fn) == "Call.merge" && len(v.Args) == 3 && v.Args[1].String() == "&"+q.l+".Calls["+i+"]" && v.Args[2].String() == "&"+q.r+".Calls["+i+"]"
			if !ok {
				bad = true
			}
			n++
		}
		if bad {
			a.bad("EQ-merge-show", "Stack.merge/frames", "a merged frame is not left.Calls[i].merge(&right.Calls[i]) at the same index", pos)
		} else if n > 0 {
			okAny = true
			a.ok("EQ-merge-show", "Stack.merge/frames", "frame i of the merged stack is the merge of frame i of both sides", pos)
		}
		a.ok("EF-fresh-merge", "Stack.merge/result", "a new stack with a new frame slice is returned", pos)
	}
	if !okAny {
		a.bad("EQ-merge-show", "Stack.merge/frames", "no path merges the frames", fn.Pos())
	}
}

func eqSignatureMerge(c *Ctx, a *flAgg) {
	q := newEq(c, a, "Signature", "merge", "EQ-sig-scalars")
	if q == nil {
		return
	}
	fn := q.fn
	exprHome = fn.Pkg.Pkg
	x := &SPE{Fn: fn, MaxVisits: 2}
	x.Explore()
	c.stat("EQ", "Signature.merge_paths", len(x.Paths))
	for _, p := range x.Paths {
		if p.Term != "return" || len(p.Results) != 1 {
			continue
		}
		pos := pathPos(p, fn)
		res := p.Results[0]
		if res.Op != OpAlloc {
			continue // AG-fresh-key reports this
		}
		cells := allocCells(p, res.String())
		val := func(f string) string {
			if v := cells[f]; v != nil {
				return v.String()
			}
			return "<zero>"
		}
		ls, rs := q.l, q.r
		// min
		lt, have := p.lit("(" + rs + ".SleepMin < " + ls + ".SleepMin)")
		wantMin := ls + ".SleepMin"
		if lt {
			wantMin = rs + ".SleepMin"
		}
		if have && val("SleepMin") == wantMin {
			a.ok("EQ-sig-scalars", "Signature.merge/SleepMin", "the lower sleep bound is the minimum of both sides", pos)
		} else {
			a.bad("EQ-sig-scalars", "Signature.merge/SleepMin", fmt.Sprintf("SleepMin of the merged signature is not min(left, right) on the path %s (value %s)", litsString(p), val("SleepMin")), pos)
		}
		gt, have2 := p.lit("(" + ls + ".SleepMax < " + rs + ".SleepMax)")
		wantMax := ls + ".SleepMax"
		if gt {
			wantMax = rs + ".SleepMax"
		}
		if have2 && val("SleepMax") == wantMax {
			a.ok("EQ-sig-scalars", "Signature.merge/SleepMax", "the upper sleep bound is the maximum of both sides", pos)
		} else {
			a.bad("EQ-sig-scalars", "Signature.merge/SleepMax", fmt.Sprintf("SleepMax of the merged signature is not max(left, right) on the path %s (value %s)", litsString(p), val("SleepMax")), pos)
		}
		// Locked = l || r
		ll, haveL := p.lit(ls + ".Locked")
		lk := cells["Locked"]
		okLocked := false
		if lk != nil {
			if v, isC := lk.boolConst(); isC && v && haveL && ll {
				okLocked = true
			}
			if lk.String() == rs+".Locked" && haveL && !ll {
				okLocked = true
			}
			if lk.Op == OpBin && (lk.Tok == token.OR || lk.Tok == token.LOR) {
				okLocked = true
			}
		}
		if okLocked {
			a.ok("EQ-sig-scalars", "Signature.merge/Locked", "locked iff some member is", pos)
		} else {
			a.bad("EQ-sig-scalars", "Signature.merge/Locked", "Locked of the merged signature is not (left || right)", pos)
		}
		if val("State") == ls+".State" && val("CreatedBy") == ls+".CreatedBy" {
			a.ok("EQ-sig-scalars", "Signature.merge/State+CreatedBy", "state and creator are the left side's (equal/similar on both sides)", pos)
		} else {
			a.bad("EQ-sig-scalars", "Signature.merge/State+CreatedBy", "state or creator of the merged signature are not the left side's", pos)
		}
		stv := cells["Stack"]
		okStack := false
		ad := loadOf(stv)
		if ad == nil {
			ad = stv // Stack.merge returning the stack by value
		}
		if ad != nil && ad.Op == OpCall && ad.Fn != nil && shortFn(ad.Fn) == "Stack.merge" && len(ad.Args) == 3 && ad.Args[1].String() == "&"+ls+".Stack" && ad.Args[2].String() == "&"+rs+".Stack" {
			okStack = true
		}
		if okStack {
			a.ok("EQ-sig-scalars", "Signature.merge/Stack", "the stack is the merge of both stacks", pos)
		} else {
			a.bad("EQ-sig-scalars", "Signature.merge/Stack", "the merged signature's stack is not left.Stack.merge(&right.Stack)", pos)
		}
	}
}
