package main

// RB — relational bounds of the buffered line reader (C03, C09, C02, C11).
//
// An abstract interpretation of the methods of every struct type that owns a
// fixed byte array and integer cursors (today: stack.reader). Domain:
// octahedra (one bound per direction with coefficients in {−1,0,1}) over the
// integer fields, their values at method entry (ghosts) and the loop
// variables, at loop heads and method boundaries; exact linear constraint
// sets along the loop-free segments in between (Fourier–Motzkin in
// rbpoly.go). The type invariant is *inferred*: least fixpoint (with
// widening) of "zero value, then any sequence of calls of the methods used
// from outside". Methods only called from sibling methods are analysed in
// their calling contexts and summarised as a relation between entry and
// exit values of the fields.
//
// Rules:
//   RB-slice    every slice/index of the array is within 0 <= lo <= hi <= N
//   RB-inv      the inferred invariant (reported), established by the zero value
//   RB-panic    an explicit panic in these methods is unreachable, or reachable
//               only when the io.Reader returns a negative count (contract)
//   RB-writers  the cursor fields are written by the methods only; field
//               addresses do not escape
//   RB-nonempty the slice handed to Read is non-empty
//
// Trusted: io.Reader contract  n <= len(p)  (bufio trusts the same).

import (
	"fmt"
	"go/ast"
	"go/token"
	"go/types"
	"sort"
	"strings"

	"golang.org/x/tools/go/ssa"
)

func init() {
	register(&Engine{Name: "RB", Doc: "relational bounds of the line reader (octahedron domain)", Run: runRB})
}

type rbType struct {
	named  *types.Named
	st     *types.Struct
	ints   map[int]string // field index -> pseudo variable
	arrays map[int]int64  // field index -> length
	meths  []*ssa.Function
	isMeth map[*ssa.Function]bool
	entry  map[*ssa.Function]bool
}

type rbRun struct {
	c      *Ctx
	a      *flAgg
	t      *rbType
	cache  map[string]*rbOct
	depth  int
	nseg   int
	nobl   int
	callNo int
	budget int
}

func runRB(c *Ctx) (obls []Obl) {
	a := newAgg(c, &obls)
	defer a.flush()
	var found []*rbType
	for _, short := range []string{"stack", "stack/webstack", "internal"} {
		sp := c.L.pkg(short)
		if sp == nil {
			continue
		}
		var names []string
		for n := range sp.Members {
			names = append(names, n)
		}
		sort.Strings(names)
		for _, n := range names {
			tm, ok := sp.Members[n].(*ssa.Type)
			if !ok {
				continue
			}
			named, ok := tm.Type().(*types.Named)
			if !ok {
				continue
			}
			st, ok := named.Underlying().(*types.Struct)
			if !ok {
				continue
			}
			t := &rbType{named: named, st: st, ints: map[int]string{}, arrays: map[int]int64{}, isMeth: map[*ssa.Function]bool{}, entry: map[*ssa.Function]bool{}}
			for i := 0; i < st.NumFields(); i++ {
				ft := st.Field(i).Type().Underlying()
				if b, ok := ft.(*types.Basic); ok && b.Kind() == types.Int {
					t.ints[i] = "F." + st.Field(i).Name()
				}
				if ar, ok := ft.(*types.Array); ok {
					if b, ok := ar.Elem().Underlying().(*types.Basic); ok && b.Kind() == types.Byte {
						t.arrays[i] = ar.Len()
					}
				}
			}
			if len(t.arrays) == 0 || len(t.ints) == 0 {
				continue
			}
			ms := c.L.Prog.MethodSets.MethodSet(types.NewPointer(named))
			for i := 0; i < ms.Len(); i++ {
				f := c.L.Prog.MethodValue(ms.At(i))
				if f != nil && f.Blocks != nil && f.Synthetic == "" {
					t.meths = append(t.meths, f)
					t.isMeth[f] = true
				}
			}
			sort.Slice(t.meths, func(i, j int) bool { return t.meths[i].Name() < t.meths[j].Name() })
			if len(t.meths) > 0 {
				found = append(found, t)
			}
		}
	}
	if len(found) == 0 {
		a.und("RB-inv", "no-type", "no struct with a byte array and integer cursors found (expected stack.reader)", token.NoPos)
		return
	}
	c.stat("RB", "types", len(found))
	for _, t := range found {
		r := &rbRun{c: c, a: a, t: t}
		r.run()
	}
	return
}

func (r *rbRun) tname() string { return r.t.named.Obj().Name() }

// fieldVars in declaration order.
func (r *rbRun) fieldVars() []string {
	var idx []int
	for i := range r.t.ints {
		idx = append(idx, i)
	}
	sort.Ints(idx)
	var out []string
	for _, i := range idx {
		out = append(out, r.t.ints[i])
	}
	return out
}

func ghost(f string) string { return "0" + f } // value at method entry

func (r *rbRun) run() {
	t := r.t
	// who may write / escape
	r.writers()
	// entry methods: called from outside the method set (or not called at all)
	calledInside := map[*ssa.Function]bool{}
	calledOutside := map[*ssa.Function]bool{}
	for _, short := range []string{"stack", "stack/webstack", "internal", ""} {
		for _, f := range r.c.L.SrcFuncs(short) {
			for _, b := range f.Blocks {
				for _, in := range b.Instrs {
					cc, ok := in.(ssa.CallInstruction)
					if !ok {
						continue
					}
					cal := cc.Common().StaticCallee()
					if cal == nil || !t.isMeth[cal] {
						continue
					}
					if t.isMeth[f] {
						calledInside[cal] = true
					} else {
						calledOutside[cal] = true
					}
				}
			}
		}
	}
	var entries []*ssa.Function
	for _, m := range t.meths {
		if calledOutside[m] || !calledInside[m] {
			t.entry[m] = true
			entries = append(entries, m)
		}
	}
	fv := r.fieldVars()
	// the zero value
	inv := &rbOct{vars: fv, bot: true}
	zero := &rbPoly{}
	for _, f := range fv {
		zero.eq(linVar(f))
	}
	inv.joinWiden(octOf(zero, fv))
	rounds := 0
	for ; rounds < 12; rounds++ {
		changed := false
		r.cache = map[string]*rbOct{}
		r.a = newAgg(r.c, r.a.obls) // obligations of the last round only
		agg := r.a
		for _, m := range entries {
			r.budget = 200000
			ex := r.method(m, inv)
			if ex.bot {
				continue
			}
			// exit state over the fields only
			post := octOf(ex.poly(), fv)
			if inv.joinWiden(post) {
				changed = true
			}
		}
		if !changed {
			r.unreachedPanics(agg)
			agg.ok("RB-inv", r.tname()+"/invariant", "inferred type invariant (zero value, closed under every sequence of "+fmt.Sprint(len(entries))+" entry methods): "+inv.String(), t.named.Obj().Pos())
			agg.flush()
			break
		}
	}
	if rounds == 12 {
		r.a.und("RB-inv", r.tname()+"/invariant", "invariant inference did not stabilise", t.named.Obj().Pos())
		r.a.flush()
	}
	r.c.stat("RB", r.tname()+"_invariant", inv.String())
	r.c.stat("RB", r.tname()+"_rounds", rounds+1)
	r.c.stat("RB", r.tname()+"_segments", r.nseg)
	var en []string
	for _, m := range entries {
		en = append(en, m.Name())
	}
	r.c.stat("RB", r.tname()+"_entry_methods", strings.Join(en, ","))
}

// writers: the integer fields are stored only by the methods, their
// addresses are only loaded and stored through, and constructions leave the
// zero value.
func (r *rbRun) writers() {
	t := r.t
	a := r.a
	n := 0
	for _, short := range []string{"stack", "stack/webstack", "internal", ""} {
		for _, f := range r.c.L.SrcFuncs(short) {
			for _, b := range f.Blocks {
				for _, in := range b.Instrs {
					fa, ok := in.(*ssa.FieldAddr)
					if !ok {
						continue
					}
					pt, ok := fa.X.Type().Underlying().(*types.Pointer)
					if !ok || !types.Identical(pt.Elem(), t.named) {
						continue
					}
					if _, isInt := t.ints[fa.Field]; !isInt {
						continue
					}
					n++
					key := r.tname() + "/" + fnName(f) + "/" + t.st.Field(fa.Field).Name()
					for _, u := range *fa.Referrers() {
						switch u := u.(type) {
						case *ssa.UnOp:
							if u.Op != token.MUL {
								a.und("RB-writers", key, "cursor address used in "+u.String(), u.Pos())
							}
						case *ssa.Store:
							if u.Addr != fa {
								a.bad("RB-writers", key, "address of a cursor field is stored: it may be written from elsewhere", u.Pos())
							} else if !t.isMeth[f] {
								a.bad("RB-writers", key, "cursor field written outside the methods of "+r.tname()+": the inferred invariant does not cover this write", u.Pos())
							}
						case *ssa.DebugRef:
						default:
							a.bad("RB-writers", key, "address of a cursor field escapes ("+fmt.Sprintf("%T", u)+")", fa.Pos())
						}
					}
					a.ok("RB-writers", key, "field address only loaded / stored through by a method", fa.Pos())
				}
			}
		}
	}
	r.c.stat("RB", r.tname()+"_cursor_sites", n)
}

// ---------------------------------------------------------------------

type rbFn struct {
	r      *rbRun
	fn     *ssa.Function
	recv   *ssa.Parameter
	loops  map[*ssa.BasicBlock]*loopInfo
	hdr    map[*ssa.BasicBlock]*rbOct
	hvars  map[*ssa.BasicBlock][]string
	exit   *rbOct
	exvars []string
	work   []*ssa.BasicBlock
	inWork map[*ssa.BasicBlock]bool
	fa     map[ssa.Value]string // address value -> field pseudo variable
	lens   map[ssa.Value]rbLin  // slice value -> length
	conds  map[ssa.Value]rbCond
	contr  map[string]bool // variables that are Read counts
	ctx    string
	retLen bool // the method returns one slice: its length is part of the summary
	retInt bool // the method returns one integer: its value is part of the summary
}

const rbRetLen = "$retlen"

// rbReturnsInt: the method returns one integer: its value, as a function of
// the cursors, is part of the summary (under the same name as a slice length).
func rbReturnsInt(fn *ssa.Function) bool {
	res := fn.Signature.Results()
	return res.Len() == 1 && isIntType(res.At(0).Type())
}

func rbReturnsSlice(fn *ssa.Function) bool {
	res := fn.Signature.Results()
	if res.Len() != 1 {
		return false
	}
	_, ok := res.At(0).Type().Underlying().(*types.Slice)
	return ok
}

type rbCond struct {
	op   token.Token
	x, y rbLin
}

// method analyses fn from the octahedron `in` over the fields and returns the
// exit octahedron over fields + ghosts.
// intParams: the integer parameters of a method (after the receiver), by name.
func rbIntParams(fn *ssa.Function) []string {
	var out []string
	for i, p := range fn.Params {
		if i > 0 && isIntType(p.Type()) {
			out = append(out, p.Name())
		}
	}
	return out
}

func (r *rbRun) method(fn *ssa.Function, in *rbOct) *rbOct {
	key := fn.Name() + "|" + in.key()
	if o, ok := r.cache[key]; ok {
		return o
	}
	r.depth++
	defer func() { r.depth-- }()
	fv := r.fieldVars()
	f := &rbFn{r: r, fn: fn, loops: map[*ssa.BasicBlock]*loopInfo{}, hdr: map[*ssa.BasicBlock]*rbOct{}, hvars: map[*ssa.BasicBlock][]string{},
		inWork: map[*ssa.BasicBlock]bool{}, fa: map[ssa.Value]string{}, lens: map[ssa.Value]rbLin{}, conds: map[ssa.Value]rbCond{}, contr: map[string]bool{}}
	if r.depth > 6 {
		r.a.und("RB-slice", r.tname()+"/"+fn.Name()+"/recursion", "recursive method: not summarised", fn.Pos())
		o := &rbOct{vars: fv}
		r.cache[key] = o
		return o
	}
	if len(fn.Params) == 0 {
		o := &rbOct{vars: fv}
		return o
	}
	f.recv = fn.Params[0]
	for _, l := range naturalLoops(fn) {
		f.loops[l.Header] = l
	}
	f.exvars = append(append([]string{}, fv...), mapStrings(fv, ghost)...)
	// integer parameters are immutable: the exit relation may mention them
	f.exvars = append(f.exvars, rbIntParams(fn)...)
	if rbReturnsSlice(fn) {
		f.retLen = true
		f.exvars = append(f.exvars, rbRetLen)
	} else if rbReturnsInt(fn) {
		f.retInt = true
		f.exvars = append(f.exvars, rbRetLen)
	}
	f.exit = &rbOct{vars: f.exvars, bot: true}
	st := in.poly()
	for _, v := range fv {
		st.eq(linVar(ghost(v)).plus(linVar(v), -1))
	}
	// provisional result for (impossible) recursion
	r.cache[key] = &rbOct{vars: f.exvars}
	f.walk(fn.Blocks[0], nil, st, 0)
	for len(f.work) > 0 {
		h := f.work[0]
		f.work = f.work[1:]
		f.inWork[h] = false
		f.walk(h, nil, f.hdr[h].poly(), 0)
	}
	r.cache[key] = f.exit
	return f.exit
}

func mapStrings(in []string, f func(string) string) []string {
	out := make([]string, len(in))
	for i, s := range in {
		out[i] = f(s)
	}
	return out
}

func isIntType(t types.Type) bool {
	b, ok := t.Underlying().(*types.Basic)
	return ok && b.Info()&types.IsInteger != 0
}

func (f *rbFn) vname(v ssa.Value) string { return v.Name() }

func (f *rbFn) lin(v ssa.Value) (rbLin, bool) {
	switch v := v.(type) {
	case *ssa.Const:
		if v.Value != nil && isIntType(v.Type()) {
			if i, ok := constInt64(v); ok {
				return linConst(i), true
			}
		}
		return rbLin{}, false
	}
	if isIntType(v.Type()) {
		return linVar(f.vname(v)), true
	}
	return rbLin{}, false
}

func constInt64(c *ssa.Const) (int64, bool) {
	if c.Value == nil {
		return 0, false
	}
	i := c.Int64()
	if c.Value.String() != fmt.Sprint(i) {
		return 0, false
	}
	return i, true
}

// headerVars: fields, ghosts, the integer phis of the header and the integer
// values defined outside the loop that its body uses.
func (f *rbFn) headerVars(h *ssa.BasicBlock) []string {
	if vs, ok := f.hvars[h]; ok {
		return vs
	}
	l := f.loops[h]
	vs := append([]string{}, f.exvars...)
	seen := map[string]bool{}
	for _, v := range vs {
		seen[v] = true
	}
	add := func(v ssa.Value) {
		if _, isC := v.(*ssa.Const); isC || !isIntType(v.Type()) {
			return
		}
		n := f.vname(v)
		if !seen[n] && len(vs) < 9 {
			seen[n] = true
			vs = append(vs, n)
		}
	}
	for _, in := range h.Instrs {
		if p, ok := in.(*ssa.Phi); ok {
			add(p)
		}
	}
	var blocks []*ssa.BasicBlock
	for b := range l.Body {
		blocks = append(blocks, b)
	}
	sort.Slice(blocks, func(i, j int) bool { return blocks[i].Index < blocks[j].Index })
	for _, b := range blocks {
		for _, in := range b.Instrs {
			for _, op := range in.Operands(nil) {
				if *op == nil {
					continue
				}
				if d, ok := (*op).(ssa.Instruction); ok && d.Block() != nil && !l.Body[d.Block()] {
					add(*op)
					// a slice made before the loop and used in it: what its length is expressed in
					if ln, ok := f.lens[*op]; ok {
						for v := range ln.co {
							if !seen[v] && len(vs) < 12 {
								seen[v] = true
								vs = append(vs, v)
							}
						}
					}
				} else if _, ok := (*op).(*ssa.Parameter); ok {
					add(*op)
				}
			}
		}
	}
	f.hvars[h] = vs
	return vs
}

// arrive joins a state into a loop header.
func (f *rbFn) arrive(h, from *ssa.BasicBlock, st *rbPoly) {
	st = st.clone()
	// simultaneous phi binding
	idx := -1
	for i, p := range h.Preds {
		if p == from {
			idx = i
		}
	}
	type bind struct {
		name string
		val  rbLin
		ok   bool
	}
	var bs []bind
	for _, in := range h.Instrs {
		p, ok := in.(*ssa.Phi)
		if !ok {
			break
		}
		if !isIntType(p.Type()) {
			continue
		}
		l, ok := f.lin(p.Edges[idx])
		bs = append(bs, bind{f.vname(p), l, ok})
	}
	for i, b := range bs {
		if b.ok {
			st.eq(linVar(fmt.Sprintf("$phi%d", i)).plus(b.val, -1))
		}
	}
	for _, b := range bs {
		st.eliminate(b.name)
	}
	for i, b := range bs {
		if b.ok {
			st.eq(linVar(b.name).plus(linVar(fmt.Sprintf("$phi%d", i)), -1))
		}
	}
	vars := f.headerVars(h)
	in := octOf(st, vars)
	cur := f.hdr[h]
	if cur == nil {
		cur = &rbOct{vars: vars, bot: true}
		f.hdr[h] = cur
	}
	if cur.joinWiden(in) && !f.inWork[h] {
		f.inWork[h] = true
		f.work = append(f.work, h)
	}
}

func (f *rbFn) key(what string) string { return f.r.tname() + "/" + f.fn.Name() + "/" + what }

// srcOf renders the source expression at a bracket position.
func (f *rbFn) srcOf(pos token.Pos) string {
	_, file := f.r.c.L.FileOf(pos)
	if file == nil {
		return "?"
	}
	out := ""
	ast.Inspect(file, func(n ast.Node) bool {
		if n == nil || out != "" {
			return false
		}
		if n.Pos() > pos || n.End() < pos {
			return false
		}
		switch e := n.(type) {
		case *ast.SliceExpr:
			if e.Lbrack == pos {
				out = types.ExprString(e)
			}
		case *ast.IndexExpr:
			if e.Lbrack == pos {
				out = types.ExprString(e)
			}
		case *ast.CallExpr:
			if e.Lparen == pos || e.Pos() == pos {
				out = types.ExprString(e)
			}
		}
		return true
	})
	if out == "" {
		return "?"
	}
	return out
}

func (f *rbFn) need(st *rbPoly, rule, key string, l rbLin, what string, pos token.Pos) {
	f.r.nobl++
	if st.overflow {
		f.r.a.und(rule, key, "coefficient overflow in the constraint system", pos)
		return
	}
	if st.entails(l) {
		f.r.a.ok(rule, key, what+" holds on every path (octahedron + Fourier–Motzkin)", pos)
		return
	}
	// witness: the part of the state over the variables of l
	keep := map[string]bool{}
	for v := range l.co {
		keep[v] = true
	}
	f.r.a.bad(rule, key, what+" is not implied: required "+l.String()+" >= 0, known about these values: "+st.project(keep).String(), pos)
}

// walk interprets block b (entered from prev) and continues to the
// successors until a loop header or an exit.
func (f *rbFn) walk(b, prev *ssa.BasicBlock, st *rbPoly, depth int) {
	r := f.r
	r.nseg++
	r.budget--
	if r.budget < 0 || depth > 400 {
		r.a.und("RB-slice", f.key("budget"), "path budget exhausted", f.fn.Pos())
		return
	}
	st = st.clone()
	atHeaderStart := prev == nil && f.loops[b] != nil
	for _, in := range b.Instrs {
		if st.bot {
			return
		}
		switch in := in.(type) {
		case *ssa.Phi:
			if atHeaderStart || !isIntType(in.Type()) {
				continue // bound by arrive
			}
			if f.loops[b] != nil {
				continue
			}
			for i, p := range b.Preds {
				if p == prev {
					st.eliminate(f.vname(in))
					if l, ok := f.lin(in.Edges[i]); ok {
						st.eq(linVar(f.vname(in)).plus(l, -1))
					}
				}
			}
		case *ssa.FieldAddr:
			if in.X == ssa.Value(f.recv) {
				if v, ok := r.t.ints[in.Field]; ok {
					f.fa[in] = v
				}
			}
		case *ssa.UnOp:
			if in.Op == token.MUL {
				if fv, ok := f.fa[in.X]; ok {
					st.eliminate(f.vname(in))
					st.eq(linVar(f.vname(in)).plus(linVar(fv), -1))
				} else if isIntType(in.Type()) {
					st.eliminate(f.vname(in))
				}
			} else if in.Op == token.SUB && isIntType(in.Type()) {
				st.eliminate(f.vname(in))
				if l, ok := f.lin(in.X); ok {
					st.eq(linVar(f.vname(in)).plus(l, 1))
				}
			}
		case *ssa.Store:
			if fv, ok := f.fa[in.Addr]; ok {
				if l, ok := f.lin(in.Val); ok {
					st.eq(linVar("$new").plus(l, -1))
					st.eliminate(fv)
					st.eq(linVar(fv).plus(linVar("$new"), -1))
					st.eliminate("$new")
				} else {
					st.eliminate(fv)
				}
			}
		case *ssa.BinOp:
			x, okx := f.lin(in.X)
			y, oky := f.lin(in.Y)
			switch in.Op {
			case token.ADD, token.SUB:
				if isIntType(in.Type()) {
					st.eliminate(f.vname(in))
					if okx && oky {
						k := int64(1)
						if in.Op == token.SUB {
							k = -1
						}
						st.eq(linVar(f.vname(in)).plus(x.plus(y, k), -1))
					}
				}
			case token.MUL:
				if isIntType(in.Type()) {
					st.eliminate(f.vname(in))
					if okx && oky {
						if len(x.co) == 0 {
							st.eq(linVar(f.vname(in)).plus(y.scale(x.c), -1))
						} else if len(y.co) == 0 {
							st.eq(linVar(f.vname(in)).plus(x.scale(y.c), -1))
						}
					}
				}
			case token.LSS, token.LEQ, token.GTR, token.GEQ, token.EQL, token.NEQ:
				if okx && oky {
					f.conds[in] = rbCond{in.Op, x, y}
				}
			default:
				if isIntType(in.Type()) {
					st.eliminate(f.vname(in))
				}
			}
		case *ssa.Convert:
			if isIntType(in.Type()) {
				st.eliminate(f.vname(in))
			}
		case *ssa.Slice:
			f.slice(st, in)
		case *ssa.IndexAddr:
			if n, ok := f.arrayLen(in.X); ok {
				if l, ok := f.lin(in.Index); ok {
					src := f.srcOf(in.Pos())
					f.need(st, "RB-slice", f.key("index:"+src), l, "0 <= index", in.Pos())
					f.need(st, "RB-slice", f.key("index<N:"+src), linConst(n-1).plus(l, -1), "index < "+fmt.Sprint(n), in.Pos())
				}
			}
		case *ssa.Extract:
			if isIntType(in.Type()) {
				st.eliminate(f.vname(in))
				if call, ok := in.Tuple.(*ssa.Call); ok && in.Index == 0 {
					if arg, ok := f.isRead(call); ok {
						if ln, ok := f.lens[arg]; ok {
							// io.Reader contract: n <= len(p)
							st.ge(ln.plus(linVar(f.vname(in)), -1))
						}
						f.contr[f.vname(in)] = true
					}
				}
			}
		case *ssa.Call:
			f.call(st, in)
		case *ssa.Defer, *ssa.Go, *ssa.RunDefers:
			r.a.und("RB-slice", f.key("defer"), "defer/go in a cursor method is not modelled", in.Pos())
		case *ssa.If:
			c, ok := f.conds[in.Cond]
			if !ok {
				f.next(b, b.Succs[0], st, depth)
				f.next(b, b.Succs[1], st, depth)
				return
			}
			for side, succ := range b.Succs {
				for _, alt := range rbBranch(c, side == 0) {
					s2 := st.clone()
					for _, k := range alt {
						s2.add(k)
					}
					if s2.feasible() {
						f.next(b, succ, s2, depth)
					}
				}
			}
			return
		case *ssa.Jump:
			f.next(b, b.Succs[0], st, depth)
			return
		case *ssa.Return:
			if !st.feasible() {
				return
			}
			if f.retLen {
				// the length of the returned slice, as a function of the cursors
				st.eliminate(rbRetLen)
				if len(in.Results) == 1 {
					if l, ok := f.lens[in.Results[0]]; ok {
						st.eq(linVar(rbRetLen).plus(l, -1))
					} else {
						st.ge(linVar(rbRetLen))
					}
				}
			}
			if f.retInt {
				st.eliminate(rbRetLen)
				if len(in.Results) == 1 {
					if l, ok := f.lin(in.Results[0]); ok {
						st.eq(linVar(rbRetLen).plus(l, -1))
					}
				}
			}
			f.exit.joinWiden(octOf(st, f.exvars))
			return
		case *ssa.Panic:
			f.panicAt(st, in)
			return
		default:
			if v, ok := in.(ssa.Value); ok && isIntType(v.Type()) {
				st.eliminate(f.vname(v))
			}
		}
	}
}

func (f *rbFn) next(from, to *ssa.BasicBlock, st *rbPoly, depth int) {
	if st.bot {
		return
	}
	if f.loops[to] != nil {
		f.arrive(to, from, st)
		return
	}
	f.walk(to, from, st, depth+1)
}

// rbBranch: the constraint alternatives of taking (or not) a comparison.
func rbBranch(c rbCond, taken bool) [][]rbCons {
	op := c.op
	if !taken {
		switch op {
		case token.LSS:
			op = token.GEQ
		case token.LEQ:
			op = token.GTR
		case token.GTR:
			op = token.LEQ
		case token.GEQ:
			op = token.LSS
		case token.EQL:
			op = token.NEQ
		case token.NEQ:
			op = token.EQL
		}
	}
	d := c.y.plus(c.x, -1) // y − x
	switch op {
	case token.LSS: // x < y
		return [][]rbCons{{{l: d.addc(-1)}}}
	case token.LEQ:
		return [][]rbCons{{{l: d}}}
	case token.GTR:
		return [][]rbCons{{{l: d.scale(-1).addc(-1)}}}
	case token.GEQ:
		return [][]rbCons{{{l: d.scale(-1)}}}
	case token.EQL:
		return [][]rbCons{{{l: d, eq: true}}}
	default: // NEQ
		return [][]rbCons{{{l: d.addc(-1)}}, {{l: d.scale(-1).addc(-1)}}}
	}
}

func (f *rbFn) arrayLen(x ssa.Value) (int64, bool) {
	fa, ok := x.(*ssa.FieldAddr)
	if !ok || fa.X != ssa.Value(f.recv) {
		return 0, false
	}
	n, ok := f.r.t.arrays[fa.Field]
	return n, ok
}

func (f *rbFn) slice(st *rbPoly, in *ssa.Slice) {
	n, isArr := f.arrayLen(in.X)
	if !isArr {
		// a slice of a slice: length known only when the operand's is
		if base, ok := f.lens[in.X]; ok && in.Max == nil {
			lo, hi := linConst(0), base
			okb := true
			if in.Low != nil {
				lo, okb = f.lin(in.Low)
			}
			if in.High != nil && okb {
				hi, okb = f.lin(in.High)
			}
			if okb {
				src := f.srcOf(in.Pos())
				if in.Low != nil {
					f.need(st, "RB-slice", f.key("lo>=0:"+src), lo, "0 <= low", in.Pos())
					f.need(st, "RB-slice", f.key("lo<=hi:"+src), hi.plus(lo, -1), "low <= high", in.Pos())
				}
				if in.High != nil {
					f.need(st, "RB-slice", f.key("hi<=len:"+src), base.plus(hi, -1), "high <= length of the sliced value", in.Pos())
				}
				f.lens[in] = hi.plus(lo, -1)
			}
		}
		return
	}
	lo, hi := linConst(0), linConst(n)
	ok := true
	if in.Low != nil {
		lo, ok = f.lin(in.Low)
	}
	if in.High != nil && ok {
		hi, ok = f.lin(in.High)
	}
	src := f.srcOf(in.Pos())
	if !ok {
		f.r.a.und("RB-slice", f.key("slice:"+src), "non-linear slice bound", in.Pos())
		return
	}
	if in.Low != nil {
		f.need(st, "RB-slice", f.key("lo>=0:"+src), lo, "0 <= low", in.Pos())
	}
	if in.Low != nil || in.High != nil {
		f.need(st, "RB-slice", f.key("lo<=hi:"+src), hi.plus(lo, -1), "low <= high", in.Pos())
	}
	if in.High != nil {
		f.need(st, "RB-slice", f.key("hi<=N:"+src), linConst(n).plus(hi, -1), "high <= "+fmt.Sprint(n), in.Pos())
	}
	if in.Low == nil && in.High == nil {
		f.r.a.ok("RB-slice", f.key("whole:"+src), "whole array", in.Pos())
	}
	f.lens[in] = hi.plus(lo, -1)
}

// isRead recognises an io.Reader-shaped Read([]byte) (int, error) call.
func (f *rbFn) isRead(c *ssa.Call) (ssa.Value, bool) {
	cc := c.Common()
	var sig *types.Signature
	name := ""
	if cc.IsInvoke() {
		name = cc.Method.Name()
		sig, _ = cc.Method.Type().(*types.Signature)
	} else if cal := cc.StaticCallee(); cal != nil && cal.Signature.Recv() != nil {
		name = cal.Name()
		sig = cal.Signature
	}
	if name != "Read" || sig == nil || sig.Params().Len() != 1 || sig.Results().Len() != 2 {
		return nil, false
	}
	args := cc.Args
	if len(args) == 0 {
		return nil, false
	}
	return args[len(args)-1], true
}

var rbSearchFuncs = map[string]bool{
	"bytes.IndexByte": true, "bytes.Index": true, "bytes.LastIndexByte": true, "bytes.LastIndex": true, "bytes.IndexAny": true,
	"strings.IndexByte": true, "strings.Index": true, "strings.LastIndexByte": true, "strings.LastIndex": true,
}

func (f *rbFn) call(st *rbPoly, in *ssa.Call) {
	r := f.r
	cc := in.Common()
	res := f.vname(in)
	if isIntType(in.Type()) {
		st.eliminate(res)
	}
	if b, ok := cc.Value.(*ssa.Builtin); ok {
		switch b.Name() {
		case "len", "cap":
			if l, ok := f.lens[cc.Args[0]]; ok && b.Name() == "len" {
				st.eq(linVar(res).plus(l, -1))
			} else {
				st.ge(linVar(res))
			}
		case "copy":
			st.ge(linVar(res))
			for _, a := range cc.Args {
				if l, ok := f.lens[a]; ok {
					st.ge(l.plus(linVar(res), -1))
				}
			}
			// copy returns the smaller of the two lengths: when one is known
			// to be no larger than the other, that one exactly
			if len(cc.Args) == 2 {
				l0, ok0 := f.lens[cc.Args[0]]
				l1, ok1 := f.lens[cc.Args[1]]
				if ok0 && ok1 {
					switch {
					case st.entails(l0.plus(l1, -1)): // len(dst) >= len(src)
						st.eq(linVar(res).plus(l1, -1))
					case st.entails(l1.plus(l0, -1)):
						st.eq(linVar(res).plus(l0, -1))
					}
				}
			}
		}
		return
	}
	if arg, ok := f.isRead(in); ok {
		if l, ok := f.lens[arg]; ok {
			f.need(st, "RB-nonempty", f.key("read:"+f.srcOf(in.Pos())), l.addc(-1), "the buffer handed to Read has room for at least one byte", in.Pos())
		}
		return
	}
	cal := cc.StaticCallee()
	if cal == nil {
		f.escapes(in)
		return
	}
	if cal.Pkg != nil && rbSearchFuncs[cal.Pkg.Pkg.Name()+"."+cal.Name()] && isIntType(in.Type()) {
		st.ge(linVar(res).addc(1))
		if l, ok := f.lens[cc.Args[0]]; ok {
			st.ge(l.addc(-1).plus(linVar(res), -1))
		}
		return
	}
	if r.t.isMeth[cal] && len(cc.Args) > 0 && cc.Args[0] == ssa.Value(f.recv) {
		fv := r.fieldVars()
		// the callee's integer parameters, bound to the arguments
		r.callNo++
		pnames := rbIntParams(cal)
		parg := func(v string) string { return fmt.Sprintf("$arg%d.%s", r.callNo, v) }
		stIn := st.clone()
		evars := append([]string{}, fv...)
		for i, p := range cal.Params {
			if i == 0 || !isIntType(p.Type()) || i >= len(cc.Args) {
				continue
			}
			if l, ok := f.lin(cc.Args[i]); ok {
				stIn.eq(linVar(p.Name()).plus(l, -1))
				st.eq(linVar(parg(p.Name())).plus(l, -1))
			}
			evars = append(evars, p.Name())
		}
		entry := octOf(stIn, evars)
		sum := r.method(cal, entry)
		if sum.bot {
			st.bot = true
			return
		}
		pre := func(v string) string { return fmt.Sprintf("$pre%d%s", r.callNo, v) }
		for _, v := range fv {
			st.eq(linVar(pre(v)).plus(linVar(v), -1))
		}
		for _, v := range fv {
			st.eliminate(v)
		}
		sp := sum.poly()
		for _, c := range sp.cs {
			st.add(rbCons{eq: c.eq, l: c.l.rename(func(v string) string {
				if strings.HasPrefix(v, "0F.") {
					return pre(v[1:])
				}
				for _, pn := range pnames {
					if v == pn {
						return parg(pn)
					}
				}
				if v == rbRetLen {
					return fmt.Sprintf("$retlen%d", r.callNo)
				}
				return v
			})})
		}
		if rbReturnsSlice(cal) {
			f.lens[in] = linVar(fmt.Sprintf("$retlen%d", r.callNo))
		} else if rbReturnsInt(cal) {
			st.eq(linVar(res).plus(linVar(fmt.Sprintf("$retlen%d", r.callNo)), -1))
		}
		st.tidy()
		return
	}
	f.escapes(in)
}

// escapes: the receiver handed to anything but a sibling method.
func (f *rbFn) escapes(in *ssa.Call) {
	for _, a := range in.Common().Args {
		if a == ssa.Value(f.recv) {
			f.r.a.und("RB-writers", f.key("escape:"+f.srcOf(in.Pos())), "the receiver is passed to a function that is not a method of the type", in.Pos())
		}
	}
}

func panicText(in *ssa.Panic) string {
	msg := "panic"
	if mi, ok := in.X.(*ssa.MakeInterface); ok {
		if c, ok := mi.X.(*ssa.Const); ok && c.Value != nil {
			msg = strings.Trim(c.Value.ExactString(), `"`)
		}
	}
	return msg
}

// unreachedPanics: a panic the final round never reached is unreachable
// under the inferred invariant (its guard was pruned as infeasible).
func (r *rbRun) unreachedPanics(agg *flAgg) {
	for _, m := range r.t.meths {
		for _, b := range m.Blocks {
			for _, in := range b.Instrs {
				if p, ok := in.(*ssa.Panic); ok {
					key := r.tname() + "/" + m.Name() + "/panic:" + panicText(p)
					if agg.res["RB-panic"] == nil || agg.res["RB-panic"][key] == nil {
						agg.ok("RB-panic", key, "unreachable: no path of the abstract interpretation reaches it under the inferred invariant and calling contexts", p.Pos())
					}
				}
			}
		}
	}
}

func (f *rbFn) panicAt(st *rbPoly, in *ssa.Panic) {
	key := f.key("panic:" + panicText(in))
	if !st.feasible() {
		f.r.a.ok("RB-panic", key, "unreachable under the inferred invariant and calling context", in.Pos())
		return
	}
	s2 := st.clone()
	for v := range f.contr {
		s2.ge(linVar(v))
	}
	if !s2.feasible() {
		f.r.a.ok("RB-panic", key, "reachable only when the io.Reader returns a negative count (contract violation by the caller's reader)", in.Pos())
		return
	}
	keep := map[string]bool{}
	for _, v := range f.exvars {
		keep[v] = true
	}
	f.r.a.bad("RB-panic", key, "explicit panic reachable with cursors: "+st.project(keep).String(), in.Pos())
}
