package main

// EF / AL — effect and aliasing rules, clients of ptsolve (DESIGN.md §3.4).

import (
	"fmt"
	"go/token"
	"go/types"
	"sort"
	"strings"
	"text/template/parse"

	"golang.org/x/tools/go/ssa"
)

func init() {
	register(&Engine{Name: "EF", Doc: "effects / immutability", Run: runEF})
	register(&Engine{Name: "AL", Doc: "buffer aliasing", Run: runAL})
}

// renderEntries lists the functions that aggregate or render a snapshot.
func renderEntries(c *Ctx) []*ssa.Function {
	var out []*ssa.Function
	add := func(pkg, recv, name string) {
		if f := c.L.Func(pkg, recv, name); f != nil {
			out = append(out, f)
		}
	}
	add("stack", "Snapshot", "Aggregate")
	add("stack", "Snapshot", "IsRace")
	add("stack", "Snapshot", "ToHTML")
	add("stack", "Aggregated", "ToHTML")
	for _, n := range []string{"funcClass", "minus", "pkgURL", "srcURL", "symbol", "toHTML"} {
		add("stack", "", n)
	}
	// String-like methods callable from templates and fmt
	for _, m := range [][2]string{{"Func", "String"}, {"Arg", "String"}, {"Args", "String"}, {"Signature", "SleepString"}, {"Location", "String"}} {
		add("stack", m[0], m[1])
	}
	for _, n := range []string{"writeBucketsToConsole", "writeGoroutinesToConsole", "calcBucketsLengths", "calcGoroutinesLengths", "processInner"} {
		add("internal", "", n)
	}
	for _, m := range [][2]string{{"Palette", "BucketHeader"}, {"Palette", "GoroutineHeader"}, {"Palette", "StackLines"}, {"Palette", "callLine"}, {"pathFormat", "formatCall"}, {"pathFormat", "createdByString"}} {
		add("internal", m[0], m[1])
	}
	return out
}

func isModelType(t types.Type) bool {
	for {
		switch u := t.(type) {
		case *types.Pointer:
			t = u.Elem()
			continue
		case *types.Slice:
			t = u.Elem()
			continue
		case *types.Named:
			if u.Obj().Pkg() != nil && u.Obj().Pkg().Path() == stackPkg {
				switch u.Obj().Name() {
				case "Snapshot", "Aggregated", "Goroutine", "Signature", "Stack", "Call", "Args", "Arg", "Func", "Bucket", "Opts":
					return true
				}
			}
		}
		return false
	}
}

func runEF(c *Ctx) (obls []Obl) {
	a := newAgg(c, &obls)
	defer a.flush()
	efImmut(c, a)
	efGlobals(c, a)
	efOpts(c, a)
	efOnly(c, a, "EF-name-only", "nameArguments", "", []string{"Name"}, "Arg")
	efOnly(c, a, "EF-augment-only", "augment", "Snapshot", []string{"Processed"}, "Args")
	efTpl(c, a)
	efAST(c, a)
	return
}

// efImmut: nothing reachable from aggregation/rendering writes through
// snapshot-derived memory.
func efImmut(c *Ctx, a *flAgg) {
	s := newPtSolver(c.L, false)
	entries := renderEntries(c)
	if len(entries) < 20 {
		a.und("EF-immut", "entries", fmt.Sprintf("only %d of the aggregation/rendering entry points were found", len(entries)), token.NoPos)
	}
	prot := -1
	for _, f := range entries {
		s.reach(f)
		for _, p := range f.Params {
			switch p.Type().Underlying().(type) {
			case *types.Pointer, *types.Slice, *types.Map, *types.Interface:
				if !isModelType(p.Type()) {
					continue
				}
				if prot < 0 {
					prot = s.seedSelf(p, "SNAPSHOT")
				} else {
					n := s.node(p)
					delete(s.nocarry, n)
					s.pts[n][prot] = struct{}{}
				}
			}
		}
	}
	s.solve()
	st := s.stats()
	c.stat("EF", "immut", st)
	nSink := 0
	byFn := map[string]bool{}
	for _, k := range s.sinks {
		if _, ok := s.pts[k.node][prot]; ok {
			nSink++
			// key: function + what is written
			what := k.what
			if st, ok := k.in.(*ssa.Store); ok {
				what = "store:" + addrField(st.Addr)
			}
			a.bad("EF-immut", funcKey(k.fn)+"/"+what, "aggregation/rendering writes into memory of the snapshot ("+k.what+"): the snapshot is modified, and two goroutines rendering it race", k.pos)
			byFn[funcKey(k.fn)] = true
		}
	}
	// external callees receiving snapshot memory must be read-only
	for _, e := range s.ext {
		touches := false
		for _, n := range e.args {
			if _, ok := s.pts[n][prot]; ok {
				touches = true
			}
		}
		if !touches {
			continue
		}
		if strings.HasPrefix(e.name, "invoke:") {
			// interface method: io.Writer.Write, error.Error, fmt.Stringer...: the receiver is not snapshot memory?
			if _, ok := s.pts[e.args[0]][prot]; !ok || e.resolved {
				continue // snapshot data is only an argument (e.g. written out), or the method is a module function analysed itself
			}
			a.und("EF-immut", funcKey(e.fn)+"/"+e.name, "an interface method is invoked on snapshot memory", e.pos)
			continue
		}
		if extMutatesArg0[e.name] {
			continue // reported as sink
		}
		if (!extReadOnly[e.pkg] && !extReadOnlyFn(e.pkg, e.name)) || extMutator(e.pkg, e.name) {
			a.und("EF-immut", funcKey(e.fn)+"/ext:"+e.name, "snapshot memory is passed to "+e.name+", which is not in the read-only table", e.pos)
		}
	}
	for _, f := range sortedFuncs(s.done) {
		if !byFn[funcKey(f)] {
			a.ok("EF-immut", funcKey(f), "no write site of this function can reach snapshot memory", f.Pos())
		}
	}
	c.stat("EF", "immut_sinks_on_snapshot", nSink)
}

func sortedFuncs(m map[*ssa.Function]bool) []*ssa.Function {
	var out []*ssa.Function
	for f := range m {
		out = append(out, f)
	}
	sort.Slice(out, func(i, j int) bool { return funcKey(out[i]) < funcKey(out[j]) })
	return out
}

// addrField names the field (chain) an address designates.
func addrField(v ssa.Value) string {
	var sel []string
	for {
		switch x := v.(type) {
		case *ssa.FieldAddr:
			st := x.X.Type().Underlying().(*types.Pointer).Elem().Underlying().(*types.Struct)
			sel = append([]string{st.Field(x.Field).Name()}, sel...)
			v = x.X
			continue
		case *ssa.IndexAddr:
			sel = append([]string{"[]"}, sel...)
			v = x.X
			continue
		}
		break
	}
	if len(sel) == 0 {
		return "*"
	}
	return strings.Join(sel, ".")
}

// efGlobals: in stack and stack/webstack no package-level variable (or memory
// loaded from one) is written outside init, nor handed to a callee that is not
// read-only.
func efGlobals(c *Ctx, a *flAgg) {
	for _, pn := range []string{"stack", "stack/webstack", "internal"} {
		s := newPtSolver(c.L, false)
		var fns []*ssa.Function
		for _, f := range c.L.SrcFuncs(pn) {
			if f.Name() == "init" && f.Parent() == nil {
				// run init too, so that what globals hold is known, but its stores are allowed
				s.reach(f)
				continue
			}
			fns = append(fns, f)
			s.reach(f)
		}
		s.solve()
		// objects reachable from globals of module packages
		from := objset{}
		for g, o := range s.globObj {
			if g.Pkg != nil && strings.HasPrefix(g.Pkg.Pkg.Path(), modPath) {
				from[o] = struct{}{}
			}
		}
		G := s.closure(from)
		// constant data: slice literals of init are in G as well
		n := 0
		bad := map[string]bool{}
		for _, k := range s.sinks {
			if k.fn.Name() == "init" && k.fn.Parent() == nil {
				continue
			}
			hit := -1
			for o := range s.pts[k.node] {
				if _, ok := G[o]; ok {
					hit = o
				}
			}
			if hit < 0 {
				continue
			}
			n++
			key := funcKey(k.fn) + "/" + s.objName[hit]
			if pn == "internal" && (strings.HasPrefix(funcKey(k.fn), "internal.Main") || strings.HasPrefix(funcKey(k.fn), "internal.init")) {
				// Main runs once per process: flag variables and the log output are process configuration
				a.ok("EF-globals", "internal:"+key, "Main is the command-line entry (one call per process); listed for reference", k.pos)
				continue
			}
			bad[funcKey(k.fn)] = true
			a.bad("EF-globals", key, "package-level state ("+s.objName[hit]+") is written after initialisation ("+k.what+"): concurrent calls race on it and a call can depend on earlier calls", k.pos)
		}
		for _, e := range s.ext {
			if e.fn.Name() == "init" && e.fn.Parent() == nil {
				continue
			}
			if (extReadOnly[e.pkg] && !extMutator(e.pkg, e.name)) || extReadOnlyFn(e.pkg, e.name) || strings.HasPrefix(e.name, "invoke:") || pn == "internal" {
				continue
			}
			for _, an := range e.args {
				for o := range s.pts[an] {
					if _, ok := G[o]; ok {
						bad[funcKey(e.fn)] = true
						a.bad("EF-globals", funcKey(e.fn)+"/ext:"+e.name, "package-level state ("+s.objName[o]+") is handed to "+e.name+", which is not known to be read-only: state can survive from one call to the next", e.pos)
					}
				}
			}
		}
		if pn != "internal" {
			for _, f := range fns {
				if !bad[funcKey(f)] {
					a.ok("EF-globals", funcKey(f), "writes no package-level state", f.Pos())
				}
			}
		}
		c.stat("EF", "globals_"+pn, s.stats())
	}
}

// efOpts: ScanSnapshot writes nothing through opts. Field-based: opts is only
// read, and no value loaded from a LocalGOPATHs field is written through.
func efOpts(c *Ctx, a *flAgg) {
	fn := c.MustFunc(a.obls, "EF-opts", "stack", "", "ScanSnapshot")
	if fn == nil {
		return
	}
	var optsP *ssa.Parameter
	for _, p := range fn.Params {
		if strings.HasSuffix(p.Type().String(), "stack.Opts") {
			optsP = p
		}
	}
	if optsP == nil {
		a.und("EF-opts", "ScanSnapshot/opts", "parameter opts not found", fn.Pos())
		return
	}
	// (1) uses of opts in ScanSnapshot and isValid: loads of fields, nil test, call of isValid only
	var derived func(v ssa.Value, f *ssa.Function, depth int)
	seenFn := map[*ssa.Function]bool{}
	derived = func(v ssa.Value, f *ssa.Function, depth int) {
		refs := v.Referrers()
		if refs == nil {
			return
		}
		for _, r := range *refs {
			switch r := r.(type) {
			case *ssa.FieldAddr:
				// the field address may only be loaded
				for _, rr := range *r.Referrers() {
					switch rr := rr.(type) {
					case *ssa.UnOp:
					case *ssa.Store:
						if rr.Addr == r {
							a.bad("EF-opts", funcKey(f)+"/store:"+addrField(r), "the options passed by the caller are written", rr.Pos())
						}
					case *ssa.DebugRef:
					default:
						a.bad("EF-opts", funcKey(f)+"/escape:"+addrField(r), "the address of a field of the caller's options escapes", rr.Pos())
					}
				}
			case *ssa.BinOp, *ssa.DebugRef, *ssa.If:
			case *ssa.Call:
				cal := r.Call.StaticCallee()
				if cal != nil && cal.Pkg == f.Pkg && cal.Blocks != nil {
					for i, arg := range r.Call.Args {
						if arg == v && !seenFn[cal] {
							seenFn[cal] = true
							derived(cal.Params[i], cal, depth+1)
						}
					}
				} else {
					a.bad("EF-opts", funcKey(f)+"/call", "the caller's options are passed to a function outside the package", r.Pos())
				}
			case *ssa.Store:
				a.bad("EF-opts", funcKey(f)+"/store-opts", "the options pointer is stored", r.Pos())
			case *ssa.Phi:
				derived(r, f, depth)
			default:
				a.bad("EF-opts", funcKey(f)+"/use", fmt.Sprintf("unexpected use of opts: %T", r), r.Pos())
			}
		}
	}
	derived(optsP, fn, 0)
	a.ok("EF-opts", "ScanSnapshot/opts-read-only", "opts is only tested, read field by field and passed to isValid", fn.Pos())
	// (2) the shared slice Opts.LocalGOPATHs == Snapshot.LocalGOPATHs is never written through
	nLoads := 0
	for _, pn := range []string{"stack", "stack/webstack", "internal"} {
		for _, f := range c.L.SrcFuncs(pn) {
			for _, b := range f.Blocks {
				for _, in := range b.Instrs {
					ld, ok := in.(*ssa.UnOp)
					if !ok || ld.Op != token.MUL {
						continue
					}
					fa, ok := ld.X.(*ssa.FieldAddr)
					if !ok || addrLast(fa) != "LocalGOPATHs" {
						continue
					}
					nLoads++
					// follow the slice value
					var follow func(v ssa.Value, seen map[ssa.Value]bool)
					follow = func(v ssa.Value, seen map[ssa.Value]bool) {
						if seen[v] || v.Referrers() == nil {
							return
						}
						seen[v] = true
						for _, r := range *v.Referrers() {
							switch r := r.(type) {
							case *ssa.IndexAddr:
								for _, rr := range *r.Referrers() {
									if st, ok := rr.(*ssa.Store); ok && st.Addr == r {
										a.bad("EF-opts", funcKey(f)+"/LocalGOPATHs-element-store", "an element of LocalGOPATHs is overwritten: the slice is shared with the caller's Opts, so scanning modifies the options (and concurrent scans race)", st.Pos())
									}
								}
							case *ssa.Slice, *ssa.Phi:
								follow(r.(ssa.Value), seen)
							case *ssa.Call:
								if bi, ok := r.Call.Value.(*ssa.Builtin); ok {
									if (bi.Name() == "append" || bi.Name() == "copy") && r.Call.Args[0] == v {
										a.bad("EF-opts", funcKey(f)+"/LocalGOPATHs-"+bi.Name(), "LocalGOPATHs is the target of "+bi.Name()+": the slice is shared with the caller's Opts", r.Pos())
									}
								} else if cal := r.Call.StaticCallee(); cal != nil && extMutatesArg0[calleePkg(cal)+"."+cal.Name()] && len(r.Call.Args) > 0 && r.Call.Args[0] == v {
									a.bad("EF-opts", funcKey(f)+"/LocalGOPATHs-sort", "LocalGOPATHs is sorted in place: the slice is shared with the caller's Opts", r.Pos())
								}
							}
						}
					}
					follow(ld, map[ssa.Value]bool{})
				}
			}
		}
	}
	a.ok("EF-opts", "LocalGOPATHs/shared-slice-read-only", fmt.Sprintf("no value loaded from a LocalGOPATHs field (%d loads) is an element-store, append, copy or sort target", nLoads), fn.Pos())
}

func addrLast(fa *ssa.FieldAddr) string {
	st := fa.X.Type().Underlying().(*types.Pointer).Elem().Underlying().(*types.Struct)
	return st.Field(fa.Field).Name()
}

// efOnly: the stores reachable from fn on non-fresh memory of the model types
// touch only the allowed fields of the given struct.
func efOnly(c *Ctx, a *flAgg, rule, name, recv string, allowed []string, owner string) {
	fn := c.MustFunc(a.obls, rule, "stack", recv, name)
	if fn == nil {
		return
	}
	s := newPtSolver(c.L, false)
	s.reach(fn)
	prot := -1
	for _, p := range fn.Params {
		switch p.Type().Underlying().(type) {
		case *types.Pointer, *types.Slice:
			if prot < 0 {
				prot = s.seedSelf(p, "SNAPSHOT")
			} else {
				s.pts[s.node(p)][prot] = struct{}{}
			}
		}
	}
	s.solve()
	n := 0
	for _, k := range s.sinks {
		if _, ok := s.pts[k.node][prot]; !ok {
			continue
		}
		n++
		fld := "?"
		typ := ""
		switch in := k.in.(type) {
		case *ssa.Store:
			fld = addrField(in.Addr)
			if fa, ok := in.Addr.(*ssa.FieldAddr); ok {
				t := fa.X.Type().Underlying().(*types.Pointer).Elem()
				if nt, ok := t.(*types.Named); ok {
					typ = nt.Obj().Name()
				}
				fld = addrLast(fa)
			}
		case ssa.CallInstruction:
			// append/copy: the destination field
			if len(in.Common().Args) > 0 {
				if ld, ok := in.Common().Args[0].(*ssa.UnOp); ok {
					if fa, ok := ld.X.(*ssa.FieldAddr); ok {
						fld = addrLast(fa)
						if nt, ok := fa.X.Type().Underlying().(*types.Pointer).Elem().(*types.Named); ok {
							typ = nt.Obj().Name()
						}
					}
				}
			}
		}
		if typ == owner && contains(allowed, fld) {
			a.ok(rule, funcKey(k.fn)+"/"+typ+"."+fld, "writes only "+owner+"."+strings.Join(allowed, ","), k.pos)
		} else {
			a.bad(rule, funcKey(k.fn)+"/"+typ+"."+fld, fmt.Sprintf("%s writes %s.%s of the snapshot (%s); only %s.%s may change", name, typ, fld, k.what, owner, strings.Join(allowed, ",")), k.pos)
		}
	}
	if n == 0 {
		a.und(rule, name+"/no-write", "no write to the snapshot found: anchor changed?", fn.Pos())
	}
	c.stat("EF", name, s.stats())
}

// efTpl: every field/method chain of the HTML template resolves to a field
// or to a method that is among the entries of EF-immut.
func efTpl(c *Ctx, a *flAgg) {
	src, ok := indexHTMLConst(c)
	if !ok {
		a.und("EF-tpl", "indexHTML", "template constant not found", token.NoPos)
		return
	}
	trees, err := parse.Parse("t", src, "{{", "}}", funcMapNames(c),
		map[string]interface{}{"and": 1, "or": 1, "not": 1, "len": 1, "index": 1, "eq": 1, "ne": 1, "lt": 1, "le": 1, "gt": 1, "ge": 1, "printf": 1, "print": 1, "println": 1, "html": 1, "js": 1, "urlquery": 1, "call": 1, "slice": 1})
	if err != nil {
		a.bad("EF-tpl", "indexHTML/parse", "the template does not parse: "+err.Error(), token.NoPos)
		return
	}
	allowedMethods := map[string]bool{}
	for _, f := range renderEntries(c) {
		allowedMethods[f.Name()] = true
	}
	// time.Time.String on .Now
	allowedMethods["String"] = true
	sp := c.L.pkg("stack")
	modelFields := map[string]bool{}
	modelMethods := map[string]bool{}
	for _, tn := range []string{"Snapshot", "Aggregated", "Goroutine", "Signature", "Stack", "Call", "Args", "Arg", "Func", "Bucket"} {
		t := sp.Type(tn)
		if t == nil {
			continue
		}
		st, _ := t.Type().Underlying().(*types.Struct)
		var addFields func(st *types.Struct)
		addFields = func(st *types.Struct) {
			for i := 0; i < st.NumFields(); i++ {
				f := st.Field(i)
				modelFields[f.Name()] = true
				if f.Embedded() {
					ft := f.Type()
					if p, ok := ft.(*types.Pointer); ok {
						ft = p.Elem()
					}
					if es, ok := ft.Underlying().(*types.Struct); ok {
						addFields(es)
					}
				}
			}
		}
		if st != nil {
			addFields(st)
		}
		for _, typ := range []types.Type{t.Type(), types.NewPointer(t.Type())} {
			ms := c.L.Prog.MethodSets.MethodSet(typ)
			for i := 0; i < ms.Len(); i++ {
				modelMethods[ms.At(i).Obj().Name()] = true
			}
		}
	}
	dataKeys := map[string]bool{"Aggregated": true, "Footer": true, "Snapshot": true, "Favicon": true, "GOMAXPROCS": true, "Now": true, "Version": true}
	n := 0
	var walk func(node parse.Node)
	check := func(ids []string, pos parse.Pos) {
		for _, id := range ids {
			n++
			switch {
			case dataKeys[id] || modelFields[id]:
			case modelMethods[id]:
				if allowedMethods[id] {
					a.ok("EF-tpl", "indexHTML/method:"+id, "the template calls a method covered by EF-immut", token.NoPos)
				} else {
					a.bad("EF-tpl", "indexHTML/method:"+id, "the template calls method "+id+", which is not among the functions checked for immutability", token.NoPos)
				}
			default:
				a.bad("EF-tpl", "indexHTML/ident:"+id, "the template refers to "+id+", which is neither a data key, a field nor a method of the model", token.NoPos)
			}
		}
	}
	walk = func(node parse.Node) {
		switch x := node.(type) {
		case *parse.ListNode:
			if x != nil {
				for _, n := range x.Nodes {
					walk(n)
				}
			}
		case *parse.ActionNode:
			walk(x.Pipe)
		case *parse.PipeNode:
			if x != nil {
				for _, cm := range x.Cmds {
					walk(cm)
				}
			}
		case *parse.CommandNode:
			for _, ar := range x.Args {
				walk(ar)
			}
		case *parse.FieldNode:
			check(x.Ident, x.Pos)
		case *parse.VariableNode:
			if len(x.Ident) > 1 {
				check(x.Ident[1:], x.Pos)
			}
		case *parse.ChainNode:
			walk(x.Node)
			check(x.Field, x.Pos)
		case *parse.IfNode:
			walk(x.Pipe)
			walk(x.List)
			walk(x.ElseList)
		case *parse.RangeNode:
			walk(x.Pipe)
			walk(x.List)
			walk(x.ElseList)
		case *parse.WithNode:
			walk(x.Pipe)
			walk(x.List)
			walk(x.ElseList)
		case *parse.TemplateNode:
			walk(x.Pipe)
		}
	}
	for _, name := range sortedKeysOf(trees) {
		walk(trees[name].Root)
	}
	c.stat("EF", "template_field_refs", n)
	if n > 0 {
		a.ok("EF-tpl", "indexHTML/fields", fmt.Sprintf("%d field references in the template resolve to data keys or model fields (templates cannot assign to fields)", n), token.NoPos)
	}
}

// indexHTMLConst returns the value of the constant indexHTML.
func indexHTMLConst(c *Ctx) (string, bool) {
	sp := c.L.pkg("stack")
	if sp == nil {
		return "", false
	}
	k, _ := sp.Members["indexHTML"].(*ssa.NamedConst)
	if k == nil || k.Value.Value == nil {
		return "", false
	}
	return constantString(k.Value)
}

// ---------------------------------------------------------------------------

// runAL: the refillable read buffer is not reachable from anything that
// outlives the readLine call that returned a slice of it.
func runAL(c *Ctx) (obls []Obl) {
	a := newAgg(c, &obls)
	defer a.flush()
	fn := c.MustFunc(&obls, "AL-buffer", "stack", "", "ScanSnapshot")
	if fn == nil {
		return
	}
	s := newPtSolver(c.L, true)
	s.reach(fn)
	s.solve()
	// BUF: the reader object (its embedded array is the buffer)
	var bufObj = -1
	var stateObj = -1
	var snapObjs = objset{}
	for v, o := range s.allocObj {
		al, ok := v.(*ssa.Alloc)
		if !ok || al.Parent() != fn {
			continue
		}
		t := al.Type().Underlying().(*types.Pointer).Elem()
		switch {
		case strings.HasSuffix(t.String(), "stack.reader"):
			bufObj = o
		case strings.HasSuffix(t.String(), "stack.scanningState"):
			stateObj = o
		case strings.HasSuffix(t.String(), "stack.Snapshot"):
			snapObjs[o] = struct{}{}
		}
	}
	if bufObj < 0 || stateObj < 0 {
		a.und("AL-buffer", "ScanSnapshot/objects", "the local reader and scanner state of ScanSnapshot were not found", fn.Pos())
		return
	}
	c.stat("AL", "solver", s.stats())
	check := func(key string, from objset, what string) {
		cl := s.closure(from)
		if _, ok := cl[bufObj]; ok {
			// find a witness store: a sink whose value may be BUF and whose target is in the closure
			wit := ""
			wpos := fn.Pos()
			for _, k := range s.sinks {
				if k.val < 0 {
					continue
				}
				if _, ok := s.pts[k.val][bufObj]; !ok {
					continue
				}
				for o := range s.pts[k.node] {
					if _, ok := cl[o]; ok && o != bufObj {
						wit = fmt.Sprintf("%s in %s stores a slice of the buffer into %s", k.what, funcKey(k.fn), s.objName[o])
						wpos = k.pos
					}
				}
			}
			a.bad("AL-buffer", key, what+" can reach the reader's refillable buffer ("+wit+"): its content changes when the buffer is refilled or slid, so the outcome depends on how the input is delivered", wpos)
		} else {
			a.ok("AL-buffer", key, what+" cannot reach the refillable buffer: every kept value is a copy", fn.Pos())
		}
	}
	check("ScanSnapshot/scanner-state", objset{stateObj: {}}, "the scanner state (prefix, goroutines being built)")
	check("ScanSnapshot/snapshot", snapObjs, "the returned snapshot")
	check("ScanSnapshot/results", s.pts[s.ret(fn)], "a result of ScanSnapshot (snapshot, suffix, error)")
	return
}

// efAST (EF-ast-readonly): the syntax trees that go/parser returns are kept
// in the per-snapshot cache and consulted for every frame of the file: code
// that reads them must not write them. The result of every parser.Parse*
// call in package stack is a seed object standing for the whole tree; no
// store, in-place append, or library call that rewrites its argument
// (slices.Insert/Delete/Reverse/Sort..., sort.*) may reach that memory.
var slicesMutators = map[string]bool{"Insert": true, "Delete": true, "DeleteFunc": true, "Reverse": true, "Sort": true, "SortFunc": true, "SortStableFunc": true,
	"Compact": true, "CompactFunc": true, "Replace": true, "Clip": false}

func efAST(c *Ctx, a *flAgg) {
	const rule = "EF-ast-readonly"
	s := newPtSolver(c.L, false)
	fns := c.L.SrcFuncs("stack")
	for _, f := range fns {
		s.reach(f)
	}
	seeds := objset{}
	nParse := 0
	for _, f := range fns {
		for _, b := range f.Blocks {
			for _, in := range b.Instrs {
				call, ok := in.(*ssa.Call)
				if !ok {
					continue
				}
				cal := call.Call.StaticCallee()
				if cal == nil || calleePkg(cal) != "go/parser" || !strings.HasPrefix(cal.Name(), "Parse") {
					continue
				}
				nParse++
				o := s.newObj("AST", nil, call)
				s.pts[s.contNode[o]][o] = struct{}{}
				s.pts[s.keyNode[o]][o] = struct{}{}
				n := s.comp(call, 0)
				delete(s.nocarry, n)
				s.pts[n][o] = struct{}{}
				seeds[o] = struct{}{}
			}
		}
	}
	if nParse == 0 {
		a.und(rule, "parse-sites", "no call of go/parser found in package stack", token.NoPos)
		return
	}
	s.solve()
	A := s.closure(seeds)
	bad := 0
	for _, k := range s.sinks {
		hit := false
		for o := range s.pts[k.node] {
			if _, ok := A[o]; ok {
				hit = true
			}
		}
		if hit {
			bad++
			a.bad(rule, funcKey(k.fn)+"/"+k.what, "a cached syntax tree is written ("+k.what+"): the next frame of the same file is decoded against a modified tree", k.pos)
		}
	}
	for _, e := range s.ext {
		touches := false
		for _, an := range e.args {
			for o := range s.pts[an] {
				if _, ok := A[o]; ok {
					touches = true
				}
			}
		}
		if !touches || strings.HasPrefix(e.name, "invoke:") {
			continue
		}
		short := e.name
		if i := strings.LastIndexByte(short, '.'); i >= 0 {
			short = short[i+1:]
		}
		mut := extMutatesArg0[e.name] || extMutator(e.pkg, e.name) || (e.pkg == "slices" && slicesMutators[short]) || e.pkg == "sort"
		if mut {
			bad++
			a.bad(rule, funcKey(e.fn)+"/ext:"+e.name, "part of a cached syntax tree is handed to "+e.name+", which rewrites its argument in place: later frames of the same function are decoded against a shifted parameter list", e.pos)
		}
	}
	c.stat("EF", "ast_parse_sites", nParse)
	c.stat("EF", "ast_objects", len(A))
	if bad == 0 {
		a.ok(rule, "stack", fmt.Sprintf("nothing in package stack writes memory of a parsed syntax tree (%d parse site(s), %d write sites and %d library calls looked at)", nParse, len(s.sinks), len(s.ext)), token.NoPos)
	}
}
