package main

// Rename normalisation. The rules name functions, methods, fields, package
// variables and constants of the pinned tree (refs/vocabulary.txt). When an
// identifier of that vocabulary is missing from the tree under analysis and
// exactly one new identifier of the same kind, owner and type has appeared,
// it is the same thing under a new name: the program is re-loaded with the
// old spelling substituted at every use (an in-memory overlay computed from
// the type checker's own def/use information), so a rename is not a change
// to any rule. Ambiguous cases are left alone (the rule anchored on the
// missing name then reports an unresolved anchor).

import (
	"fmt"
	"go/ast"
	"go/types"
	"os"
	"path/filepath"
	"sort"
	"strings"

	"golang.org/x/tools/go/packages"
)

type vocabEntry struct {
	Pkg, Kind, Parent, Name, Sig string
}

func (v vocabEntry) group() string { return v.Pkg + "\t" + v.Kind + "\t" + v.Parent + "\t" + v.Sig }
func (v vocabEntry) line() string  { return v.group() + "\t" + v.Name }

var scopePkgs = []string{"", "/stack", "/stack/webstack", "/internal"}

// vocabOf lists the named things of the packages in scope with the object
// behind each.
func vocabOf(pkgs map[string]*packages.Package) ([]vocabEntry, map[string]types.Object) {
	var out []vocabEntry
	objs := map[string]types.Object{}
	for _, s := range scopePkgs {
		p := pkgs[modPath+s]
		if p == nil || p.Types == nil {
			continue
		}
		qual := func(o *types.Package) string {
			if o == p.Types {
				return ""
			}
			return o.Path()
		}
		add := func(kind, parent, name, sig string, o types.Object) {
			e := vocabEntry{Pkg: p.PkgPath, Kind: kind, Parent: parent, Name: name, Sig: sig}
			out = append(out, e)
			objs[e.line()] = o
		}
		sc := p.Types.Scope()
		for _, n := range sc.Names() {
			o := sc.Lookup(n)
			switch o := o.(type) {
			case *types.Func:
				add("func", "", n, types.TypeString(o.Type(), qual), o)
			case *types.Var:
				add("var", "", n, types.TypeString(o.Type(), qual), o)
			case *types.Const:
				add("const", "", n, types.TypeString(o.Type(), qual)+"="+o.Val().ExactString(), o)
			case *types.TypeName:
				named, ok := o.Type().(*types.Named)
				if !ok {
					add("type", "", n, types.TypeString(o.Type().Underlying(), qual), o)
					continue
				}
				// a type is identified by its shape with its own name blanked
				shape := types.TypeString(named.Underlying(), qual)
				var ms []string
				for i := 0; i < named.NumMethods(); i++ {
					ms = append(ms, named.Method(i).Name())
				}
				sort.Strings(ms)
				add("type", "", n, strings.ReplaceAll(shape+" methods:"+strings.Join(ms, ","), n, "·"), o)
				for i := 0; i < named.NumMethods(); i++ {
					m := named.Method(i)
					sig := m.Type().(*types.Signature)
					add("method", n, m.Name(), types.TypeString(types.NewSignatureType(nil, nil, nil, sig.Params(), sig.Results(), sig.Variadic()), qual), m)
				}
				if st, ok := named.Underlying().(*types.Struct); ok {
					for i := 0; i < st.NumFields(); i++ {
						f := st.Field(i)
						if f.Embedded() {
							continue
						}
						add("field", n, f.Name(), fmt.Sprintf("#%d %s", i, types.TypeString(f.Type(), qual)), f)
					}
				}
			}
		}
	}
	sort.Slice(out, func(i, j int) bool { return out[i].line() < out[j].line() })
	return out, objs
}

func readVocab(verif string) map[string]bool {
	b, err := os.ReadFile(filepath.Join(verif, "refs", "vocabulary.txt"))
	if err != nil {
		return nil
	}
	m := map[string]bool{}
	for _, l := range strings.Split(string(b), "\n") {
		if l != "" && !strings.HasPrefix(l, "#") {
			m[l] = true
		}
	}
	return m
}

type rename struct {
	obj      types.Object
	from, to string // current name -> vocabulary name
	kind     string
}

// detectRenames matches missing vocabulary entries with new ones of the same
// group. typesOnly restricts to type names (their spelling occurs inside
// the signatures of everything else).
func detectRenames(ref map[string]bool, pkgs map[string]*packages.Package, typesOnly bool) []rename {
	if ref == nil {
		return nil
	}
	cur, objs := vocabOf(pkgs)
	curSet := map[string]bool{}
	for _, e := range cur {
		curSet[e.line()] = true
	}
	missing := map[string][]string{} // group -> names
	for l := range ref {
		if !curSet[l] {
			i := strings.LastIndexByte(l, '\t')
			missing[l[:i]] = append(missing[l[:i]], l[i+1:])
		}
	}
	added := map[string][]vocabEntry{}
	for _, e := range cur {
		if !ref[e.line()] {
			added[e.group()] = append(added[e.group()], e)
		}
	}
	var out []rename
	for g, names := range missing {
		as := added[g]
		if len(names) != 1 || len(as) != 1 {
			continue
		}
		if typesOnly != (as[0].Kind == "type") {
			continue
		}
		out = append(out, rename{obj: objs[as[0].line()], from: as[0].Name, to: names[0], kind: as[0].Kind})
	}
	sort.Slice(out, func(i, j int) bool { return out[i].from < out[j].from })
	return out
}

// overlayFor rewrites every identifier that refers to a renamed object back
// to its vocabulary name.
func overlayFor(pkgs map[string]*packages.Package, rs []rename, prev map[string][]byte) map[string][]byte {
	target := map[types.Object]string{}
	for _, r := range rs {
		target[r.obj] = r.to
	}
	type edit struct {
		off, n int
		text   string
	}
	edits := map[string][]edit{}
	for path, p := range pkgs {
		if !strings.HasPrefix(path, modPath) || p.TypesInfo == nil {
			continue
		}
		visit := func(id *ast.Ident, o types.Object) {
			if to, ok := target[o]; ok && id.Name != to {
				pos := p.Fset.Position(id.Pos())
				edits[pos.Filename] = append(edits[pos.Filename], edit{pos.Offset, len(id.Name), to})
			}
		}
		for id, o := range p.TypesInfo.Defs {
			if o != nil {
				visit(id, o)
			}
		}
		for id, o := range p.TypesInfo.Uses {
			visit(id, o)
		}
	}
	out := map[string][]byte{}
	for k, v := range prev {
		out[k] = v
	}
	for file, es := range edits {
		src, ok := out[file]
		if !ok {
			b, err := os.ReadFile(file)
			if err != nil {
				continue
			}
			src = b
		}
		sort.Slice(es, func(i, j int) bool { return es[i].off > es[j].off })
		last := -1
		for _, e := range es {
			if e.off == last {
				continue // the same identifier recorded by two packages
			}
			last = e.off
			if e.off+e.n <= len(src) {
				src = append(append(append([]byte{}, src[:e.off]...), e.text...), src[e.off+e.n:]...)
			}
		}
		out[file] = src
	}
	return out
}
