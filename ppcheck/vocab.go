package main

// Rename normalisation. The rules name functions, methods, fields, package
// variables and constants of the pinned tree (refs/vocabulary.txt). When an
// identifier of that vocabulary is missing from the tree under analysis and
// exactly one new identifier of the same kind, owner and type has appeared,
// it is the same thing under a new name: the program is re-loaded with the
// old spelling substituted at every use (an in-memory overlay computed from
// the type checker's own def/use information), so a rename is not a change
// to any rule. Ambiguous cases are left alone (the rule anchored on the
// missing name then reports an unresolved anchor).

import (
	"bytes"
	"fmt"
	"go/ast"
	"go/printer"
	"go/token"
	"go/types"
	"os"
	"path/filepath"
	"sort"
	"strings"

	"golang.org/x/tools/go/packages"
)

type vocabEntry struct {
	Pkg, Kind, Parent, Name, Sig string
	// Flat: for functions and methods, the types of receiver (methods) and
	// parameters, then the results, without names: a function and the method
	// it was turned into (or the reverse) have the same Flat.
	Flat string
}

func (v vocabEntry) group() string { return v.Pkg + "\t" + v.Kind + "\t" + v.Parent + "\t" + v.Sig }
func (v vocabEntry) line() string  { return v.group() + "\t" + v.Name }

func flatSig(recv types.Type, sig *types.Signature, qual types.Qualifier) string {
	var ps []string
	if recv != nil {
		ps = append(ps, types.TypeString(recv, qual))
	}
	for i := 0; i < sig.Params().Len(); i++ {
		t := types.TypeString(sig.Params().At(i).Type(), qual)
		if sig.Variadic() && i == sig.Params().Len()-1 {
			t = "..." + t
		}
		ps = append(ps, t)
	}
	var rs []string
	for i := 0; i < sig.Results().Len(); i++ {
		rs = append(rs, types.TypeString(sig.Results().At(i).Type(), qual))
	}
	return "(" + strings.Join(ps, ",") + ")->(" + strings.Join(rs, ",") + ")"
}

var scopePkgs = []string{"", "/stack", "/stack/webstack", "/internal"}

// vocabOf lists the named things of the packages in scope with the object
// behind each.
func vocabOf(pkgs map[string]*packages.Package) ([]vocabEntry, map[string]types.Object) {
	var out []vocabEntry
	objs := map[string]types.Object{}
	for _, s := range scopePkgs {
		p := pkgs[modPath+s]
		if p == nil || p.Types == nil {
			continue
		}
		qual := func(o *types.Package) string {
			if o == p.Types {
				return ""
			}
			return o.Path()
		}
		add := func(kind, parent, name, sig string, o types.Object) {
			e := vocabEntry{Pkg: p.PkgPath, Kind: kind, Parent: parent, Name: name, Sig: sig}
			if f, ok := o.(*types.Func); ok {
				fs := f.Type().(*types.Signature)
				var rt types.Type
				if fs.Recv() != nil {
					rt = fs.Recv().Type()
				}
				e.Flat = flatSig(rt, fs, qual)
			}
			out = append(out, e)
			objs[e.line()] = o
		}
		sc := p.Types.Scope()
		for _, n := range sc.Names() {
			o := sc.Lookup(n)
			switch o := o.(type) {
			case *types.Func:
				add("func", "", n, types.TypeString(o.Type(), qual), o)
			case *types.Var:
				add("var", "", n, types.TypeString(o.Type(), qual), o)
			case *types.Const:
				add("const", "", n, types.TypeString(o.Type(), qual)+"="+o.Val().ExactString(), o)
			case *types.TypeName:
				named, ok := o.Type().(*types.Named)
				if !ok {
					add("type", "", n, types.TypeString(o.Type().Underlying(), qual), o)
					continue
				}
				// a type is identified by its shape with its own name blanked
				shape := types.TypeString(named.Underlying(), qual)
				var ms []string
				for i := 0; i < named.NumMethods(); i++ {
					ms = append(ms, named.Method(i).Name())
				}
				sort.Strings(ms)
				add("type", "", n, strings.ReplaceAll(shape+" methods:"+strings.Join(ms, ","), n, "·"), o)
				for i := 0; i < named.NumMethods(); i++ {
					m := named.Method(i)
					sig := m.Type().(*types.Signature)
					add("method", n, m.Name(), types.TypeString(types.NewSignatureType(nil, nil, nil, sig.Params(), sig.Results(), sig.Variadic()), qual), m)
				}
				if st, ok := named.Underlying().(*types.Struct); ok {
					for i := 0; i < st.NumFields(); i++ {
						f := st.Field(i)
						if f.Embedded() {
							continue
						}
						add("field", n, f.Name(), fmt.Sprintf("#%d %s", i, types.TypeString(f.Type(), qual)), f)
					}
				}
			}
		}
	}
	sort.Slice(out, func(i, j int) bool { return out[i].line() < out[j].line() })
	return out, objs
}

func readVocab(verif string) map[string]bool {
	b, err := os.ReadFile(filepath.Join(verif, "refs", "vocabulary.txt"))
	if err != nil {
		return nil
	}
	m := map[string]bool{}
	for _, l := range strings.Split(string(b), "\n") {
		if l != "" && !strings.HasPrefix(l, "#") {
			m[l] = true
		}
	}
	return m
}

type rename struct {
	obj      types.Object
	from, to string // current name -> vocabulary name
	kind     string
}

// detectRenames matches missing vocabulary entries with new ones of the same
// group. typesOnly restricts to type names (their spelling occurs inside
// the signatures of everything else).
func detectRenames(ref map[string]bool, pkgs map[string]*packages.Package, typesOnly bool) []rename {
	if ref == nil {
		return nil
	}
	cur, objs := vocabOf(pkgs)
	curSet := map[string]bool{}
	for _, e := range cur {
		curSet[e.line()] = true
	}
	missing := map[string][]string{} // group -> names
	for l := range ref {
		if !curSet[l] {
			i := strings.LastIndexByte(l, '\t')
			missing[l[:i]] = append(missing[l[:i]], l[i+1:])
		}
	}
	added := map[string][]vocabEntry{}
	for _, e := range cur {
		if !ref[e.line()] {
			added[e.group()] = append(added[e.group()], e)
		}
	}
	var out []rename
	for g, names := range missing {
		as := added[g]
		if len(names) > 1 && len(names) == len(as) && as[0].Kind == "var" && !typesOnly {
			// several package variables of one type renamed at once: they are
			// told apart by what they are initialised with (refs/var_inits.txt)
			refInit := readVarInits(verifDir)
			curInit := varInits(pkgs)
			used := map[string]bool{}
			var pairs []rename
			for _, e := range as {
				ci := curInit[e.Pkg+"\t"+e.Name]
				match := ""
				n := 0
				for _, old := range names {
					if ri, ok := refInit[e.Pkg+"\t"+old]; ok && ri == ci && ci != "" && !used[old] {
						match = old
						n++
					}
				}
				if n == 1 {
					used[match] = true
					pairs = append(pairs, rename{obj: objs[e.line()], from: e.Name, to: match, kind: e.Kind})
				}
			}
			if len(pairs) == len(as) {
				out = append(out, pairs...)
			}
			continue
		}
		if len(names) != 1 || len(as) != 1 {
			continue
		}
		if typesOnly != (as[0].Kind == "type") {
			continue
		}
		out = append(out, rename{obj: objs[as[0].line()], from: as[0].Name, to: names[0], kind: as[0].Kind})
	}
	sort.Slice(out, func(i, j int) bool { return out[i].from < out[j].from })
	return out
}

// overlayFor rewrites every identifier that refers to a renamed object back
// to its vocabulary name.
func overlayFor(pkgs map[string]*packages.Package, rs []rename, prev map[string][]byte) map[string][]byte {
	target := map[types.Object]string{}
	for _, r := range rs {
		target[r.obj] = r.to
	}
	type edit struct {
		off, n int
		text   string
	}
	edits := map[string][]edit{}
	for path, p := range pkgs {
		if !strings.HasPrefix(path, modPath) || p.TypesInfo == nil {
			continue
		}
		visit := func(id *ast.Ident, o types.Object) {
			if to, ok := target[o]; ok && id.Name != to {
				pos := p.Fset.Position(id.Pos())
				edits[pos.Filename] = append(edits[pos.Filename], edit{pos.Offset, len(id.Name), to})
			}
		}
		for id, o := range p.TypesInfo.Defs {
			if o != nil {
				visit(id, o)
			}
		}
		for id, o := range p.TypesInfo.Uses {
			visit(id, o)
		}
	}
	out := map[string][]byte{}
	for k, v := range prev {
		out[k] = v
	}
	for file, es := range edits {
		src, ok := out[file]
		if !ok {
			b, err := os.ReadFile(file)
			if err != nil {
				continue
			}
			src = b
		}
		sort.Slice(es, func(i, j int) bool { return es[i].off > es[j].off })
		last := -1
		for _, e := range es {
			if e.off == last {
				continue // the same identifier recorded by two packages
			}
			last = e.off
			if e.off+e.n <= len(src) {
				src = append(append(append([]byte{}, src[:e.off]...), e.text...), src[e.off+e.n:]...)
			}
		}
		out[file] = src
	}
	return out
}

// ---------------------------------------------------------------------
// Reshaping: a function turned into a method of its first parameter's type,
// or a method turned into a function taking its receiver first (possibly
// renamed on the way). Detected by equal flat signatures, undone in the
// overlay by rewriting the declaration and every call.

func readVocabFlat(verif string) map[string]string {
	b, err := os.ReadFile(filepath.Join(verif, "refs", "vocab_flat.txt"))
	if err != nil {
		return nil
	}
	m := map[string]string{}
	for _, l := range strings.Split(string(b), "\n") {
		if i := strings.LastIndexByte(l, '\t'); i > 0 {
			m[l[:i]] = l[i+1:]
		}
	}
	return m
}

type reshape struct {
	obj     *types.Func
	toKind  string // "func" or "method": what the vocabulary has
	toName  string
	pkgPath string
}

func detectReshapes(ref map[string]bool, refFlat map[string]string, pkgs map[string]*packages.Package) []reshape {
	if ref == nil || refFlat == nil {
		return nil
	}
	cur, objs := vocabOf(pkgs)
	curSet := map[string]bool{}
	for _, e := range cur {
		curSet[e.line()] = true
	}
	type miss struct{ kind, name, pkg string }
	missing := map[string][]miss{} // pkg+flat -> entries
	for l := range ref {
		if curSet[l] {
			continue
		}
		f := strings.Split(l, "\t")
		if len(f) != 5 || (f[1] != "func" && f[1] != "method") {
			continue
		}
		if fl := refFlat[l]; fl != "" {
			missing[f[0]+"\t"+fl] = append(missing[f[0]+"\t"+fl], miss{f[1], f[4], f[0]})
		}
	}
	added := map[string][]vocabEntry{}
	for _, e := range cur {
		if !ref[e.line()] && (e.Kind == "func" || e.Kind == "method") && e.Flat != "" {
			added[e.Pkg+"\t"+e.Flat] = append(added[e.Pkg+"\t"+e.Flat], e)
		}
	}
	var out []reshape
	for k, ms := range missing {
		as := added[k]
		if len(ms) != 1 || len(as) != 1 || ms[0].kind == as[0].Kind {
			continue
		}
		fo, ok := objs[as[0].line()].(*types.Func)
		if !ok {
			continue
		}
		out = append(out, reshape{obj: fo, toKind: ms[0].kind, toName: ms[0].name, pkgPath: as[0].Pkg})
	}
	sort.Slice(out, func(i, j int) bool { return out[i].toName < out[j].toName })
	return out
}

type textEdit struct {
	off, end int
	text     string
}

// reshapeOverlay rewrites declarations and calls; ok=false when a use cannot
// be rewritten (method value, function value, cross-package call).
func reshapeOverlay(pkgs map[string]*packages.Package, rs []reshape, prev map[string][]byte) (map[string][]byte, bool) {
	edits := map[string][]textEdit{}
	srcOf := func(file string) []byte {
		if b, ok := prev[file]; ok {
			return b
		}
		b, _ := os.ReadFile(file)
		return b
	}
	for _, r := range rs {
		p := pkgs[r.pkgPath]
		if p == nil {
			return nil, false
		}
		off := func(pos token.Pos) int { return p.Fset.Position(pos).Offset }
		sig := r.obj.Type().(*types.Signature)
		uses := 0
		handled := map[*ast.Ident]bool{}
		for _, f := range p.Syntax {
			file := p.Fset.Position(f.Pos()).Filename
			src := srcOf(file)
			text := func(n ast.Node) string { return string(src[off(n.Pos()):off(n.End())]) }
			ok := true
			ast.Inspect(f, func(n ast.Node) bool {
				switch n := n.(type) {
				case *ast.FuncDecl:
					if p.TypesInfo.Defs[n.Name] != types.Object(r.obj) {
						return true
					}
					handled[n.Name] = true
					if r.toKind == "func" {
						// method -> function: receiver becomes the first parameter
						if n.Recv == nil || len(n.Recv.List) != 1 {
							ok = false
							return false
						}
						rf := n.Recv.List[0]
						rt := text(rf)
						if len(rf.Names) == 0 {
							rt = "_ " + rt
						}
						sep := ""
						if len(n.Type.Params.List) > 0 {
							sep = ", "
						}
						edits[file] = append(edits[file],
							textEdit{off(n.Recv.Opening), off(n.Name.End()), r.toName},
							textEdit{off(n.Type.Params.Opening) + 1, off(n.Type.Params.Opening) + 1, rt + sep})
					} else {
						// function -> method of its first parameter
						ps := n.Type.Params.List
						if n.Recv != nil || len(ps) == 0 || len(ps[0].Names) != 1 {
							ok = false
							return false
						}
						end := off(n.Type.Params.Closing)
						if len(ps) > 1 {
							end = off(ps[1].Pos())
						}
						edits[file] = append(edits[file], textEdit{off(n.Name.Pos()), end, "(" + text(ps[0]) + ") " + r.toName + "("})
					}
				case *ast.CallExpr:
					if r.toKind == "func" {
						sel, isSel := n.Fun.(*ast.SelectorExpr)
						if !isSel || p.TypesInfo.Uses[sel.Sel] != types.Object(r.obj) {
							return true
						}
						handled[sel.Sel] = true
						uses++
						x := text(sel.X)
						xt := p.TypesInfo.TypeOf(sel.X)
						_, recvPtr := sig.Recv().Type().(*types.Pointer)
						_, xPtr := xt.Underlying().(*types.Pointer)
						switch {
						case recvPtr && !xPtr:
							x = "&" + parenIfNeeded(sel.X, x)
						case !recvPtr && xPtr:
							x = "*" + parenIfNeeded(sel.X, x)
						}
						sep := ""
						if len(n.Args) > 0 {
							sep = ", "
						}
						edits[file] = append(edits[file], textEdit{off(n.Fun.Pos()), off(n.Lparen) + 1, r.toName + "(" + x + sep})
					} else {
						id, isId := n.Fun.(*ast.Ident)
						if !isId || p.TypesInfo.Uses[id] != types.Object(r.obj) {
							return true
						}
						handled[id] = true
						uses++
						if len(n.Args) == 0 {
							ok = false
							return false
						}
						end := off(n.Rparen)
						if len(n.Args) > 1 {
							end = off(n.Args[1].Pos())
						}
						edits[file] = append(edits[file], textEdit{off(n.Pos()), end, "(" + text(n.Args[0]) + ")." + r.toName + "("})
					}
				}
				return true
			})
			if !ok {
				return nil, false
			}
		}
		// any other use (a method or function value, another package) cannot be rewritten
		for _, q := range pkgs {
			if q.TypesInfo == nil || !strings.HasPrefix(q.PkgPath, modPath) {
				continue
			}
			for id, o := range q.TypesInfo.Uses {
				if o == types.Object(r.obj) && !handled[id] {
					return nil, false
				}
			}
		}
	}
	out := map[string][]byte{}
	for k, v := range prev {
		out[k] = v
	}
	for file, es := range edits {
		src := srcOf(file)
		sort.Slice(es, func(i, j int) bool { return es[i].off > es[j].off })
		for i, e := range es {
			if i > 0 && e.end > es[i-1].off {
				return nil, false // overlapping edits (nested calls of the reshaped function)
			}
			src = append(append(append([]byte{}, src[:e.off]...), e.text...), src[e.end:]...)
		}
		out[file] = src
	}
	return out, true
}

func parenIfNeeded(n ast.Expr, s string) string {
	switch n.(type) {
	case *ast.Ident, *ast.SelectorExpr, *ast.IndexExpr, *ast.ParenExpr, *ast.CompositeLit:
		return s
	}
	return "(" + s + ")"
}

// varInits: the source text each package-level variable is initialised with
// ("pkgpath\tname" -> text), for variables declared with a single value.
func varInits(pkgs map[string]*packages.Package) map[string]string {
	out := map[string]string{}
	for _, sp := range scopePkgs {
		p := pkgs[modPath+sp]
		if p == nil {
			continue
		}
		for _, f := range p.Syntax {
			for _, d := range f.Decls {
				gd, ok := d.(*ast.GenDecl)
				if !ok || gd.Tok != token.VAR {
					continue
				}
				for _, spc := range gd.Specs {
					vs, ok := spc.(*ast.ValueSpec)
					if !ok || len(vs.Names) != len(vs.Values) {
						continue
					}
					for i, n := range vs.Names {
						var b bytes.Buffer
						printer.Fprint(&b, p.Fset, vs.Values[i])
						out[p.PkgPath+"\t"+n.Name] = strings.Join(strings.Fields(b.String()), " ")
					}
				}
			}
		}
	}
	return out
}

func readVarInits(verif string) map[string]string {
	b, err := os.ReadFile(filepath.Join(verif, "refs", "var_inits.txt"))
	if err != nil {
		return nil
	}
	m := map[string]string{}
	for _, l := range strings.Split(string(b), "\n") {
		parts := strings.SplitN(l, "\t", 3)
		if len(parts) == 3 {
			m[parts[0]+"\t"+parts[1]] = parts[2]
		}
	}
	return m
}
