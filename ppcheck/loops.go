package main

import (
	"sort"

	"golang.org/x/tools/go/ssa"
)

// loopInfo is a natural loop of an SSA function.
type loopInfo struct {
	Header *ssa.BasicBlock
	Body   map[*ssa.BasicBlock]bool
	Latch  []*ssa.BasicBlock // sources of back edges
	Exits  []*ssa.BasicBlock // blocks outside the loop with a predecessor inside
}

func naturalLoops(fn *ssa.Function) []*loopInfo {
	byHeader := map[*ssa.BasicBlock]*loopInfo{}
	for _, b := range fn.Blocks {
		for _, s := range b.Succs {
			if s.Dominates(b) {
				li := byHeader[s]
				if li == nil {
					li = &loopInfo{Header: s, Body: map[*ssa.BasicBlock]bool{s: true}}
					byHeader[s] = li
				}
				li.Latch = append(li.Latch, b)
				// body: nodes that reach b without passing through s
				stack := []*ssa.BasicBlock{b}
				for len(stack) > 0 {
					n := stack[len(stack)-1]
					stack = stack[:len(stack)-1]
					if li.Body[n] {
						continue
					}
					li.Body[n] = true
					stack = append(stack, n.Preds...)
				}
			}
		}
	}
	var out []*loopInfo
	for _, li := range byHeader {
		seen := map[*ssa.BasicBlock]bool{}
		for b := range li.Body {
			for _, s := range b.Succs {
				if !li.Body[s] && !seen[s] {
					seen[s] = true
					li.Exits = append(li.Exits, s)
				}
			}
		}
		sort.Slice(li.Exits, func(i, j int) bool { return li.Exits[i].Index < li.Exits[j].Index })
		out = append(out, li)
	}
	sort.Slice(out, func(i, j int) bool { return out[i].Header.Index < out[j].Header.Index })
	return out
}

// outermost returns the loops not contained in another loop.
func outermostLoops(ls []*loopInfo) []*loopInfo {
	var out []*loopInfo
	for _, l := range ls {
		inner := false
		for _, o := range ls {
			if o != l && o.Body[l.Header] {
				inner = true
			}
		}
		if !inner {
			out = append(out, l)
		}
	}
	return out
}

// segments explores one iteration of a loop: from the header until the
// header is reached again (Term "stop", End == header) or the loop is left
// (Term "stop", End outside) or the function ends.
func segments(fn *ssa.Function, l *loopInfo, maxVisits int) *SPE {
	x := &SPE{Fn: fn, Start: l.Header, MaxVisits: maxVisits}
	x.Stop = func(from, to *ssa.BasicBlock) bool {
		return (to == l.Header && l.Body[from]) || (l.Body[from] && !l.Body[to])
	}
	x.Explore()
	return x
}

// from explores from a block to the end of the function.
func exploreFrom(fn *ssa.Function, b *ssa.BasicBlock, maxVisits int) *SPE {
	x := &SPE{Fn: fn, Start: b, MaxVisits: maxVisits}
	x.Explore()
	return x
}

// callEvents returns the call events of a path whose static callee matches.
func callEvents(p *Path, match func(e *Expr) bool) []Event {
	var out []Event
	for _, ev := range p.Events {
		if (ev.Kind == EvCall || ev.Kind == EvDefer || ev.Kind == EvGo) && ev.Val != nil && match(ev.Val) {
			out = append(out, ev)
		}
	}
	return out
}

func isCallTo(pkgPath, name string) func(e *Expr) bool {
	return func(e *Expr) bool { return e.calleeIs(pkgPath, name) }
}

func isInvoke(method string) func(e *Expr) bool {
	return func(e *Expr) bool { return e.Op == OpInvoke && e.Name == method }
}

func extractOf(call *Expr, i int) string {
	e := &Expr{Op: OpExtract, Args: []*Expr{call}, ID: i}
	return e.String()
}

// litOf looks up the polarity of the literal whose atom renders as s.
func litOf(p *Path, s string) (bool, bool) { return p.lit(s) }
