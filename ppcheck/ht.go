package main

// HT — HTML rendering safety (C17): typed-string conversions, URL value
// lattice, FuncMap table, template lint with HTML context tracking.

import (
	"fmt"
	"go/constant"
	"go/token"
	"go/types"
	"os"
	"path/filepath"
	"regexp"
	"sort"
	"strings"
	"text/template/parse"

	"golang.org/x/tools/go/ssa"
)

func init() {
	register(&Engine{Name: "HT", Doc: "HTML injection safety", Run: runHT})
}

// uval is the abstract value of a string that may become (part of) a URL.
// fixes: certainly begins with a constant https://host/, file:/// or data: prefix.
// noColon: certainly contains no ':' (so it cannot introduce a scheme).
type uval struct {
	fixes, noColon bool
	known          bool
	joined         bool // result of a join of alternatives each of which was acceptable as a whole
	// notWhole: some alternative joined into this value is neither
	// scheme-fixed nor colon-free (a join of "" and a fixed URL is fine as a
	// whole although it has neither property uniformly)
	notWhole bool
}

func mkU(fixes, noColon bool) uval { return uval{fixes: fixes, noColon: noColon, known: true} }

func (u uval) wholeOK() bool { return !u.notWhole && (u.fixes || u.noColon || u.joined) }

func joinU(a, b uval) uval {
	if !a.known {
		return b
	}
	if !b.known {
		return a
	}
	r := uval{fixes: a.fixes && b.fixes, noColon: a.noColon && b.noColon, known: true}
	r.notWhole = a.notWhole || b.notWhole || !(a.fixes || a.noColon || a.joined) || !(b.fixes || b.noColon || b.joined)
	r.joined = true
	return r
}

var schemePrefixes = []string{"https://", "file:///", "data:"}

func constU(s string) uval {
	for _, p := range schemePrefixes {
		if strings.HasPrefix(s, p) {
			// https://host/ : the host must be complete (a '/' after it)
			if p == "https://" && !strings.Contains(s[len(p):], "/") {
				continue
			}
			return mkU(true, false)
		}
	}
	return mkU(false, !strings.Contains(s, ":"))
}

type htAn struct {
	c       *Ctx
	vals    map[ssa.Value]uval
	rets    map[*ssa.Function][]uval
	changed bool
	fns     []*ssa.Function
}

func isStringish(t types.Type) bool {
	b, ok := t.Underlying().(*types.Basic)
	return ok && b.Info()&types.IsString != 0
}

func (h *htAn) get(v ssa.Value) uval {
	if k, ok := v.(*ssa.Const); ok {
		if k.Value != nil && k.Value.Kind() == constant.String {
			return constU(constant.StringVal(k.Value))
		}
		return mkU(false, true) // numbers, nil
	}
	if u, ok := h.vals[v]; ok {
		return u
	}
	if !isStringish(v.Type()) {
		if b, ok := v.Type().Underlying().(*types.Basic); ok && b.Info()&types.IsNumeric != 0 {
			return mkU(false, true)
		}
	}
	return uval{}
}

func (h *htAn) set(v ssa.Value, u uval) {
	old, ok := h.vals[v]
	n := u
	if ok {
		n = joinU(old, u)
	}
	if !ok || n != old {
		h.vals[v] = n
		h.changed = true
	}
}

var rawU = uval{known: true}

func (h *htAn) step(f *ssa.Function) {
	for _, b := range f.Blocks {
		for _, in := range b.Instrs {
			switch in := in.(type) {
			case *ssa.Phi:
				u := uval{}
				for _, e := range in.Edges {
					u = joinU(u, h.get(e))
				}
				if u.known {
					h.set(in, u)
				}
			case *ssa.ChangeType:
				if u := h.get(in.X); u.known {
					h.set(in, u)
				}
			case *ssa.Convert:
				if isStringish(in.Type()) && isStringish(in.X.Type()) {
					if u := h.get(in.X); u.known {
						h.set(in, u)
					}
				} else if isStringish(in.Type()) {
					h.set(in, rawU)
				}
			case *ssa.MakeInterface:
				if u := h.get(in.X); u.known {
					h.set(in, u)
				}
			case *ssa.BinOp:
				if in.Op == token.ADD && isStringish(in.Type()) {
					a, bb := h.get(in.X), h.get(in.Y)
					if a.known && bb.known {
						h.set(in, concatU(a, bb, isEmptyConst(in.X)))
					}
				}
			case *ssa.Slice:
				if isStringish(in.Type()) {
					// a substring of a value without ':' has none; a substring never keeps a fixed prefix (unless from 0, ignored)
					u := h.get(in.X)
					if u.known {
						h.set(in, mkU(false, u.noColon))
					}
				}
			case *ssa.UnOp:
				if in.Op == token.MUL && isStringish(in.Type()) {
					h.set(in, rawU) // loads of fields: dump content
				}
			case *ssa.Field:
				if isStringish(in.Type()) {
					h.set(in, rawU)
				}
			case *ssa.Index, *ssa.Lookup:
				if v, ok := in.(ssa.Value); ok && isStringish(v.Type()) {
					// element of a []string produced from dump content
					h.set(v, rawU)
				}
			case *ssa.Extract:
				if call, ok := in.Tuple.(*ssa.Call); ok {
					if cal := call.Call.StaticCallee(); cal != nil {
						if rs, ok := h.rets[cal]; ok && in.Index < len(rs) && rs[in.Index].known {
							h.set(in, rs[in.Index])
							continue
						}
						if !strings.HasPrefix(calleePkg(cal), modPath) && isStringish(in.Type()) {
							h.set(in, rawU)
						}
					}
				}
			case *ssa.Call:
				h.call(in)
			case *ssa.Return:
				rs := h.rets[f]
				for len(rs) < len(in.Results) {
					rs = append(rs, uval{})
				}
				for i, r := range in.Results {
					u := h.get(r)
					if !u.known {
						continue
					}
					n := joinU(rs[i], u)
					if n != rs[i] {
						rs[i] = n
						h.changed = true
					}
				}
				h.rets[f] = rs
			}
		}
	}
}

func isEmptyConst(v ssa.Value) bool {
	k, ok := v.(*ssa.Const)
	return ok && k.Value != nil && k.Value.Kind() == constant.String && constant.StringVal(k.Value) == ""
}

func concatU(a, b uval, aEmpty bool) uval {
	if aEmpty {
		return b
	}
	if a.fixes {
		return mkU(true, false)
	}
	return mkU(false, a.noColon && b.noColon)
}

func (h *htAn) call(in *ssa.Call) {
	if !isStringish(in.Type()) {
		if _, isTuple := in.Type().(*types.Tuple); !isTuple {
			return
		}
	}
	cal := in.Call.StaticCallee()
	if cal == nil {
		if isStringish(in.Type()) {
			h.set(in, rawU)
		}
		return
	}
	pkg, name := calleePkg(cal), cal.Name()
	if strings.HasPrefix(pkg, modPath) {
		if rs, ok := h.rets[cal]; ok && len(rs) == 1 && rs[0].known && isStringish(in.Type()) {
			h.set(in, rs[0])
		}
		return
	}
	if !isStringish(in.Type()) {
		return
	}
	switch {
	case pkg == "net/url" && name == "QueryEscape":
		h.set(in, mkU(false, true))
	case pkg == "net/url" && name == "EscapedPath":
		h.set(in, rawU) // ':' survives EscapedPath
	case pkg == "fmt" && name == "Sprintf":
		h.set(in, h.sprintf(in))
	case pkg == "html/template" && name == "HTMLEscapeString", pkg == "html" && name == "EscapeString":
		h.set(in, rawU) // safe as HTML, not as a URL start
	case pkg == "strconv":
		h.set(in, mkU(false, true))
	default:
		h.set(in, rawU)
	}
}

func (h *htAn) sprintf(in *ssa.Call) uval {
	args := in.Call.Args
	k, ok := args[0].(*ssa.Const)
	if !ok || k.Value == nil || k.Value.Kind() != constant.String {
		return rawU
	}
	format := constant.StringVal(k.Value)
	// operands: the variadic slice literal
	var ops []ssa.Value
	if len(args) > 1 {
		if sl, ok := args[1].(*ssa.Slice); ok {
			if al, ok := sl.X.(*ssa.Alloc); ok {
				type ent struct {
					i int
					v ssa.Value
				}
				var es []ent
				for _, r := range *al.Referrers() {
					if ia, ok := r.(*ssa.IndexAddr); ok {
						idx, _ := bnConst(ia.Index)
						for _, rr := range *ia.Referrers() {
							if st, ok := rr.(*ssa.Store); ok {
								es = append(es, ent{int(idx), st.Val})
							}
						}
					}
				}
				sort.Slice(es, func(i, j int) bool { return es[i].i < es[j].i })
				for _, e := range es {
					ops = append(ops, e.v)
				}
			}
		}
	}
	first := format
	if i := strings.Index(format, "%"); i >= 0 {
		first = format[:i]
	}
	lit := regexp.MustCompile(`%[-+# 0]*[0-9*]*(\.[0-9*]+)?[a-zA-Z]`).ReplaceAllString(format, "")
	if constU(first).fixes {
		return mkU(true, false)
	}
	nc := !strings.Contains(lit, ":")
	for _, o := range ops {
		v := o
		if mi, ok := v.(*ssa.MakeInterface); ok {
			v = mi.X
		}
		u := h.get(v)
		if !u.known {
			return uval{}
		}
		nc = nc && u.noColon
	}
	return mkU(false, nc)
}

func namedIs(t types.Type, pkg, name string) bool {
	nt, ok := types.Unalias(t).(*types.Named)
	return ok && nt.Obj().Pkg() != nil && nt.Obj().Pkg().Path() == pkg && nt.Obj().Name() == name
}

func runHT(c *Ctx) (obls []Obl) {
	a := newAgg(c, &obls)
	defer a.flush()
	h := &htAn{c: c, vals: map[ssa.Value]uval{}, rets: map[*ssa.Function][]uval{}}
	for _, f := range c.L.SrcFuncs("stack") {
		h.fns = append(h.fns, f)
	}
	for iter := 0; iter < 50; iter++ {
		h.changed = false
		for _, f := range h.fns {
			h.step(f)
		}
		if !h.changed {
			break
		}
	}
	// FuncMap
	funcMap := htFuncMap(c, a)
	// HT-url: what FuncMap functions (and ToHTML helpers) can return as template.URL
	nConv := 0
	for _, f := range h.fns {
		for _, b := range f.Blocks {
			for _, in := range b.Instrs {
				v, ok := in.(ssa.Value)
				if !ok {
					continue
				}
				switch in.(type) {
				case *ssa.ChangeType, *ssa.Convert:
				default:
					continue
				}
				t := v.Type()
				switch {
				case namedIs(t, "html/template", "URL"):
					nConv++
				case namedIs(t, "html/template", "HTML"), namedIs(t, "html/template", "HTMLAttr"), namedIs(t, "html/template", "JS"), namedIs(t, "html/template", "JSStr"), namedIs(t, "html/template", "CSS"), namedIs(t, "html/template", "Srcset"):
					var x ssa.Value
					switch cv := in.(type) {
					case *ssa.ChangeType:
						x = cv.X
					case *ssa.Convert:
						x = cv.X
					}
					key := funcKey(f) + "/" + t.(*types.Named).Obj().Name()
					if htHTMLSafe(x) {
						a.ok("HT-html", key, "the value marked as trusted markup is a constant or the result of HTMLEscapeString", in.Pos())
					} else {
						a.bad("HT-html", key, "dump-derived text is converted to a trusted-markup type without HTMLEscapeString: it would be emitted verbatim", in.Pos())
					}
				}
			}
		}
	}
	c.stat("HT", "url_conversions", nConv)
	htEscape(c, a, h.fns, funcMap)
	for name, f := range funcMap {
		res := f.Signature.Results()
		for i := 0; i < res.Len(); i++ {
			if !namedIs(res.At(i).Type(), "html/template", "URL") {
				continue
			}
			key := "funcmap:" + name
			rs := h.rets[f]
			if i >= len(rs) || !rs[i].known {
				a.und("HT-url", key, "the value returned as template.URL could not be evaluated", f.Pos())
				continue
			}
			if rs[i].wholeOK() {
				a.ok("HT-url", key, "every value returned as a trusted URL is empty, constant, begins with a fixed https://host/, file:/// or data: prefix, or is query-escaped (cannot contain ':')", f.Pos())
			} else {
				a.bad("HT-url", key, "the template function "+name+" can return dump-derived text as a trusted URL without a fixed scheme prefix and without query-escaping: the dump could choose the link scheme (e.g. javascript:)", htWitness(h, f, i))
			}
		}
	}
	htTemplate(c, a)
	htGen(c, a)
	htData(c, a)
	return
}

// htWitness finds a return statement whose operand is not acceptable.
func htWitness(h *htAn, f *ssa.Function, idx int) token.Pos {
	var find func(f *ssa.Function, idx int, depth int) token.Pos
	find = func(f *ssa.Function, idx int, depth int) token.Pos {
		for _, b := range f.Blocks {
			for _, in := range b.Instrs {
				ret, ok := in.(*ssa.Return)
				if !ok || idx >= len(ret.Results) {
					continue
				}
				u := h.get(ret.Results[idx])
				if u.known && !u.wholeOK() {
					// follow into a module callee
					v := ret.Results[idx]
					if ex, ok := v.(*ssa.Extract); ok {
						if call, ok := ex.Tuple.(*ssa.Call); ok {
							if cal := call.Call.StaticCallee(); cal != nil && cal.Blocks != nil && depth < 4 {
								if p := find(cal, ex.Index, depth+1); p.IsValid() {
									return p
								}
							}
						}
					}
					if call, ok := v.(*ssa.Call); ok {
						if cal := call.Call.StaticCallee(); cal != nil && cal.Blocks != nil && depth < 4 {
							if p := find(cal, 0, depth+1); p.IsValid() {
								return p
							}
						}
					}
					return in.Pos()
				}
			}
		}
		return token.NoPos
	}
	if p := find(f, idx, 0); p.IsValid() {
		return p
	}
	return f.Pos()
}

func htHTMLSafe(x ssa.Value) bool {
	switch v := x.(type) {
	case *ssa.Const:
		return true
	case *ssa.Call:
		if cal := v.Call.StaticCallee(); cal != nil {
			p, n := calleePkg(cal), cal.Name()
			return (p == "html/template" && n == "HTMLEscapeString") || (p == "html" && n == "EscapeString")
		}
	case *ssa.BinOp:
		return v.Op == token.ADD && htHTMLSafe(v.X) && htHTMLSafe(v.Y)
	case *ssa.ChangeType:
		return htHTMLSafe(v.X)
	case *ssa.Convert:
		return htHTMLSafe(v.X)
	case *ssa.Parameter:
		// a footer supplied by the caller as template.HTML is the caller's responsibility
		return namedIs(v.Type(), "html/template", "HTML")
	}
	return false
}

var vettedProducers = map[string]string{"funcClass": "HTML", "pkgURL": "URL", "srcURL": "URL", "symbol": "URL", "minus": ""}

// htFuncMap reads the FuncMap literal of toHTML.
func htFuncMap(c *Ctx, a *flAgg) map[string]*ssa.Function {
	out := map[string]*ssa.Function{}
	fn := c.MustFunc(a.obls, "HT-funcmap", "stack", "", "toHTML")
	if fn == nil {
		return out
	}
	for _, b := range blocksWithHelpers(fn) {
		for _, in := range b.Instrs {
			mu, ok := in.(*ssa.MapUpdate)
			if !ok || !namedIs(mu.Map.Type(), "html/template", "FuncMap") && !namedIs(mu.Map.Type(), "text/template", "FuncMap") {
				continue
			}
			k, ok := mu.Key.(*ssa.Const)
			if !ok {
				a.und("HT-funcmap", "toHTML/key", "non-constant FuncMap key", in.Pos())
				continue
			}
			name := constant.StringVal(k.Value)
			v := mu.Value
			if mi, ok := v.(*ssa.MakeInterface); ok {
				v = mi.X
			}
			f, ok := v.(*ssa.Function)
			if !ok {
				a.bad("HT-funcmap", "toHTML/"+name, "a FuncMap entry is not a package-level function", in.Pos())
				continue
			}
			out[name] = f
			typed := ""
			res := f.Signature.Results()
			for i := 0; i < res.Len(); i++ {
				if nt, ok := res.At(i).Type().(*types.Named); ok && nt.Obj().Pkg() != nil && nt.Obj().Pkg().Path() == "html/template" {
					typed = nt.Obj().Name()
				}
			}
			want, vetted := vettedProducers[name]
			switch {
			case name == "html" || name == "urlquery" || name == "js":
				a.bad("HT-funcmap", "toHTML/"+name, "the FuncMap redefines an escaper-changing identifier", in.Pos())
			case vetted && want == typed && f.Name() == name:
				a.ok("HT-funcmap", "toHTML/"+name, "vetted template function (typed result: "+typed+")", in.Pos())
			case typed == "":
				a.ok("HT-funcmap", "toHTML/"+name, "template function with an untyped result: auto-escaped", in.Pos())
			default:
				a.bad("HT-funcmap", "toHTML/"+name, "a template function returning the trusted type "+typed+" is not among the vetted producers", in.Pos())
			}
		}
	}
	if len(out) == 0 {
		a.und("HT-funcmap", "toHTML/none", "no FuncMap entries found", fn.Pos())
	}
	return out
}

// ---------------------------------------------------------------------------
// template lint

type htmlCtx struct {
	state string // text, tag, attrname, aftereq, dq, sq, unq, script, style, comment
	tag   string
	attr  string
	val   string // constant text of the current attribute value so far
}

func (x *htmlCtx) feed(s string) {
	for i := 0; i < len(s); i++ {
		ch := s[i]
		switch x.state {
		case "text":
			if ch == '<' {
				if strings.HasPrefix(s[i:], "<!--") {
					x.state = "comment"
					continue
				}
				x.state = "tagname"
				x.tag = ""
			}
		case "comment":
			if strings.HasPrefix(s[i:], "-->") {
				x.state = "text"
				i += 2
			}
		case "tagname":
			switch {
			case ch == '>':
				x.endTag()
			case ch == ' ' || ch == '\n' || ch == '\t':
				x.state = "tag"
			default:
				x.tag += strings.ToLower(string(ch))
			}
		case "tag":
			switch {
			case ch == '>':
				x.endTag()
			case ch == ' ' || ch == '\n' || ch == '\t' || ch == '/':
			default:
				x.state = "attrname"
				x.attr = strings.ToLower(string(ch))
			}
		case "attrname":
			switch {
			case ch == '=':
				x.state = "aftereq"
			case ch == '>':
				x.endTag()
			case ch == ' ' || ch == '\n' || ch == '\t':
				x.state = "tag"
			default:
				x.attr += strings.ToLower(string(ch))
			}
		case "aftereq":
			x.val = ""
			switch ch {
			case '"':
				x.state = "dq"
			case '\'':
				x.state = "sq"
			case ' ', '\n', '\t':
			case '>':
				x.endTag()
			default:
				x.state = "unq"
				x.val = string(ch)
			}
		case "dq":
			if ch == '"' {
				x.state = "tag"
			} else {
				x.val += string(ch)
			}
		case "sq":
			if ch == '\'' {
				x.state = "tag"
			} else {
				x.val += string(ch)
			}
		case "unq":
			switch ch {
			case ' ', '\n', '\t':
				x.state = "tag"
			case '>':
				x.endTag()
			default:
				x.val += string(ch)
			}
		case "script":
			if strings.HasPrefix(strings.ToLower(s[i:]), "</script") {
				x.state = "text"
			}
		case "style":
			if strings.HasPrefix(strings.ToLower(s[i:]), "</style") {
				x.state = "text"
			}
		}
	}
}

func (x *htmlCtx) endTag() {
	switch x.tag {
	case "script":
		x.state = "script"
	case "style":
		x.state = "style"
	default:
		x.state = "text"
	}
}

func htTemplate(c *Ctx, a *flAgg) {
	src, ok := indexHTMLConst(c)
	if !ok {
		a.und("HT-tpl", "indexHTML", "template constant not found", token.NoPos)
		return
	}
	fns := funcMapNames(c)
	builtins := map[string]interface{}{"and": 1, "or": 1, "not": 1, "len": 1, "index": 1, "eq": 1, "ne": 1, "lt": 1, "le": 1, "gt": 1, "ge": 1, "printf": 1, "print": 1, "println": 1, "html": 1, "js": 1, "urlquery": 1, "call": 1, "slice": 1}
	trees, err := parse.Parse("t", src, "{{", "}}", fns, builtins)
	if err != nil {
		a.bad("HT-tpl", "indexHTML/parse", "the template does not parse: "+err.Error(), token.NoPos)
		return
	}
	nActions := 0
	var walk func(n parse.Node, x *htmlCtx, tree string)
	action := func(x *htmlCtx, what string, tree string) {
		nActions++
		key := fmt.Sprintf("%s/%s", tree, what)
		switch x.state {
		case "text":
			a.ok("HT-tpl", "element-content", "actions in element content are HTML-escaped by html/template", token.NoPos)
		case "dq", "sq":
			switch {
			case strings.HasPrefix(x.attr, "on"):
				a.bad("HT-tpl", key+"@"+x.attr, "an action inside an event-handler attribute", token.NoPos)
			case x.attr == "href" || x.attr == "src" || x.attr == "action" || x.attr == "formaction":
				if x.val == "" || constU(x.val).fixes {
					a.ok("HT-tpl", "url-attribute", "in href/src an action is the whole value or follows constant text that fixes the scheme", token.NoPos)
				} else {
					a.bad("HT-tpl", key+"@"+x.attr, "in a URL attribute an action follows constant text that does not fix the scheme: "+x.val, token.NoPos)
				}
			case x.attr == "style":
				a.bad("HT-tpl", key+"@style", "an action inside a style attribute", token.NoPos)
			default:
				a.ok("HT-tpl", "quoted-attribute", "actions in quoted non-URL attributes are attribute-escaped", token.NoPos)
			}
		case "script", "style":
			a.bad("HT-tpl", key+"@"+x.state, "an action inside <"+x.state+">", token.NoPos)
		case "comment":
			// html/template drops comments
		default:
			a.bad("HT-tpl", key+"@"+x.state, "an action in tag/unquoted-attribute context ("+x.state+", tag "+x.tag+")", token.NoPos)
		}
	}
	var pipeIdents func(p *parse.PipeNode) []string
	pipeIdents = func(p *parse.PipeNode) []string {
		var out []string
		if p == nil {
			return out
		}
		for _, cmd := range p.Cmds {
			for _, arg := range cmd.Args {
				switch v := arg.(type) {
				case *parse.IdentifierNode:
					out = append(out, v.Ident)
				case *parse.PipeNode:
					out = append(out, pipeIdents(v)...)
				}
			}
		}
		return out
	}
	checkIdents := func(p *parse.PipeNode, tree string) {
		for _, id := range pipeIdents(p) {
			if id == "html" || id == "urlquery" || id == "js" {
				a.bad("HT-tpl", tree+"/escaper:"+id, "the template uses the escaper-changing function "+id, token.NoPos)
			}
		}
	}
	walk = func(n parse.Node, x *htmlCtx, tree string) {
		switch v := n.(type) {
		case *parse.ListNode:
			if v != nil {
				for _, c := range v.Nodes {
					walk(c, x, tree)
				}
			}
		case *parse.TextNode:
			x.feed(string(v.Text))
		case *parse.ActionNode:
			checkIdents(v.Pipe, tree)
			if len(v.Pipe.Decl) > 0 {
				return // variable assignment: emits nothing
			}
			action(x, strings.TrimSpace(v.Pipe.String()), tree)
		case *parse.TemplateNode:
			action(x, "template:"+v.Name, tree)
		case *parse.IfNode:
			checkIdents(v.Pipe, tree)
			y := *x
			walk(v.List, x, tree)
			walk(v.ElseList, &y, tree)
			if x.state != y.state {
				a.und("HT-tpl", tree+"/if-context", "the branches of an if end in different HTML contexts", token.NoPos)
			}
		case *parse.WithNode:
			y := *x
			walk(v.List, x, tree)
			walk(v.ElseList, &y, tree)
		case *parse.RangeNode:
			checkIdents(v.Pipe, tree)
			y := *x
			walk(v.List, x, tree)
			if x.state != y.state {
				a.und("HT-tpl", tree+"/range-context", "a range body changes the HTML context", token.NoPos)
			}
			walk(v.ElseList, &y, tree)
			htComplete(a, v, tree)
		}
	}
	for _, name := range sortedKeysOf(trees) {
		x := &htmlCtx{state: "text"}
		walk(trees[name].Root, x, name)
		if x.state != "text" {
			a.und("HT-tpl", name+"/end-context", "the template ends inside "+x.state, token.NoPos)
		}
	}
	c.stat("HT", "template_actions", nActions)
}

// htComplete: the loops over calls, buckets and goroutines emit their row or
// heading unconditionally.
func htComplete(a *flAgg, r *parse.RangeNode, tree string) {
	pipe := r.Pipe.String()
	var want string
	switch {
	case strings.HasSuffix(pipe, ".Calls"):
		want = "<tr>"
	case strings.HasSuffix(pipe, ".Aggregated.Buckets"), strings.HasSuffix(pipe, ".Snapshot.Goroutines"):
		want = "<h1>"
	default:
		return
	}
	key := tree + "/range:" + pipe[strings.LastIndex(pipe, ".")+1:]
	found := false
	for _, n := range r.List.Nodes {
		switch v := n.(type) {
		case *parse.TextNode:
			if strings.Contains(string(v.Text), want) {
				found = true
			}
		case *parse.BreakNode, *parse.ContinueNode:
			a.bad("HT-complete", key, "the loop can skip elements (break/continue)", token.NoPos)
			return
		}
	}
	if found {
		a.ok("HT-complete", key, "every element of the list gets its "+want+" unconditionally", token.NoPos)
	} else {
		a.bad("HT-complete", key, "the element's "+want+" is not emitted unconditionally at the top level of the range body: some frames/buckets/goroutines may be missing from the document", token.NoPos)
	}
}

// htGen: the analysed constant is the shipped template (goroutines.tpl after
// the generator's whitespace rule).
func htGen(c *Ctx, a *flAgg) {
	src, ok := indexHTMLConst(c)
	if !ok {
		return
	}
	b, err := os.ReadFile(filepath.Join(c.Repo, "stack", "goroutines.tpl"))
	if err != nil {
		a.und("HT-gen", "goroutines.tpl", err.Error(), token.NoPos)
		return
	}
	re := regexp.MustCompile("(\\n[ \\t]*)+")
	want := string(re.ReplaceAll(b, []byte("\n")))
	if want == src {
		a.ok("HT-gen", "indexHTML==goroutines.tpl", "the analysed constant is goroutines.tpl after the generator's whitespace rule", token.NoPos)
	} else {
		a.bad("HT-gen", "indexHTML==goroutines.tpl", "data.go is not generated from the current goroutines.tpl: the template that is analysed is not the one that is documented", token.NoPos)
	}
}

// funcMapNames lists the keys of the FuncMap built in toHTML (for parsing
// the template with the names the program registers).
func funcMapNames(c *Ctx) map[string]interface{} {
	out := map[string]interface{}{}
	fn := c.L.Func("stack", "", "toHTML")
	if fn == nil {
		return out
	}
	for _, b := range blocksWithHelpers(fn) {
		for _, in := range b.Instrs {
			if mu, ok := in.(*ssa.MapUpdate); ok {
				if k, ok := mu.Key.(*ssa.Const); ok && k.Value != nil && k.Value.Kind() == constant.String {
					out[constant.StringVal(k.Value)] = 1
				}
			}
		}
	}
	return out
}

// blocksWithHelpers: the blocks of fn and of the helpers outside the pinned
// vocabulary it calls (transitively): lines extracted into a helper still
// belong to the function a rule is anchored in.
func blocksWithHelpers(fn *ssa.Function) []*ssa.BasicBlock {
	var out []*ssa.BasicBlock
	seen := map[*ssa.Function]bool{}
	var visit func(f *ssa.Function, depth int)
	visit = func(f *ssa.Function, depth int) {
		if f == nil || seen[f] || f.Blocks == nil || depth > 3 {
			return
		}
		seen[f] = true
		out = append(out, f.Blocks...)
		for _, b := range f.Blocks {
			for _, in := range b.Instrs {
				if ci, ok := in.(ssa.CallInstruction); ok {
					if cal := ci.Common().StaticCallee(); cal != nil && defaultInline(cal) {
						visit(cal, depth+1)
					}
				}
			}
		}
	}
	visit(fn, 0)
	return out
}

// htData (HT-complete/data:*): every value the page template reads from its
// root — the favicon, the creation time, the Go version, GOMAXPROCS, the
// footer, the snapshot — is put into the data map on every path of both
// ToHTML entry points before the template is executed. A key that is only
// ever tested by a bare {{if .Key}} is optional (the aggregated view). A
// missing key does not fail: html/template renders "<no value>" into the page.
func htData(c *Ctx, a *flAgg) {
	src, ok := indexHTMLConst(c)
	if !ok {
		return
	}
	fns := funcMapNames(c)
	builtins := map[string]interface{}{"and": 1, "or": 1, "not": 1, "len": 1, "index": 1, "eq": 1, "ne": 1, "lt": 1, "le": 1, "gt": 1, "ge": 1, "printf": 1, "print": 1, "println": 1, "html": 1, "js": 1, "urlquery": 1, "call": 1, "slice": 1}
	trees, err := parse.Parse("t", src, "{{", "}}", fns, builtins)
	if err != nil || trees["t"] == nil {
		return
	}
	used := map[string]bool{}
	optional := map[string]bool{}
	var walk func(n parse.Node, root bool)
	walkList := func(l *parse.ListNode, root bool) {
		if l == nil {
			return
		}
		for _, n := range l.Nodes {
			walk(n, root)
		}
	}
	walk = func(n parse.Node, root bool) {
		switch v := n.(type) {
		case *parse.ListNode:
			walkList(v, root)
		case *parse.ActionNode:
			walk(v.Pipe, root)
		case *parse.PipeNode:
			if v == nil {
				return
			}
			for _, cmd := range v.Cmds {
				for _, arg := range cmd.Args {
					walk(arg, root)
				}
			}
		case *parse.FieldNode:
			if root && len(v.Ident) > 0 {
				used[v.Ident[0]] = true
			}
		case *parse.VariableNode:
			if len(v.Ident) > 1 && v.Ident[0] == "$" {
				used[v.Ident[1]] = true
			}
		case *parse.ChainNode:
			walk(v.Node, root)
		case *parse.IfNode:
			if len(v.Pipe.Cmds) == 1 && len(v.Pipe.Cmds[0].Args) == 1 {
				if f, ok := v.Pipe.Cmds[0].Args[0].(*parse.FieldNode); ok && root && len(f.Ident) == 1 {
					optional[f.Ident[0]] = true
				}
			}
			walk(v.Pipe, root)
			walkList(v.List, root)
			walkList(v.ElseList, root)
		case *parse.RangeNode:
			walk(v.Pipe, root)
			walkList(v.List, false)
			walkList(v.ElseList, root)
		case *parse.WithNode:
			walk(v.Pipe, root)
			walkList(v.List, false)
			walkList(v.ElseList, root)
		case *parse.TemplateNode:
			walk(v.Pipe, root)
		}
	}
	walk(trees["t"].Root, true)
	// keys set on every path
	vals := map[*ssa.Function]map[string]string{}
	mustSet := func(fn *ssa.Function, until func(*Expr) bool) map[string]bool {
		vals[fn] = map[string]string{}
		exprHome = fn.Pkg.Pkg
		// (a loop over a small constant table of keys is unrolled)
		x := &SPE{Fn: fn, MaxVisits: 10}
		x.Explore()
		var out map[string]bool
		for _, p := range x.Paths {
			reached := false
			keys := map[string]bool{}
			for _, ev := range p.Events {
				if ev.Kind == EvMapUpd {
					if os.Getenv("PPCHECK_HT_DUMP") != "" {
						fmt.Fprintf(os.Stderr, "HT mapupd key=%v val=%v\n", ev.Key, ev.Val)
						for k, v := range p.Cells {
							if strings.Contains(k, "complit") {
								fmt.Fprintf(os.Stderr, "   cell %s = %v\n", k, v)
							}
						}
					}
					if k, ok := constStr(ev.Key); ok && !reached {
						keys[k] = true
						v := ev.Val.String()
						if old, seen := vals[fn][k]; seen && old != v {
							v = "?"
						}
						vals[fn][k] = v
					}
				}
				// keys of a map literal are stored the same way
				if ev.Kind == EvCall && until(ev.Val) {
					reached = true
				}
			}
			if !reached {
				continue
			}
			if out == nil {
				out = keys
			} else {
				for k := range out {
					if !keys[k] {
						delete(out, k)
					}
				}
			}
		}
		return out
	}
	toHTML := c.L.Func("stack", "", "toHTML")
	if toHTML == nil {
		a.und("HT-complete", "data/toHTML", "toHTML not found", token.NoPos)
		return
	}
	inner := mustSet(toHTML, func(e *Expr) bool {
		return e.Op == OpCall && e.Fn != nil && e.Fn.Name() == "Execute"
	})
	for _, recv := range []string{"Aggregated", "Snapshot"} {
		fn := c.L.Func("stack", recv, "ToHTML")
		if fn == nil {
			continue
		}
		outer := mustSet(fn, func(e *Expr) bool { return e.Op == OpCall && e.Fn == toHTML })
		if outer == nil || inner == nil {
			a.und("HT-complete", "data/"+recv+".ToHTML", "no path reaches the execution of the template", fn.Pos())
			continue
		}
		var missing []string
		for k := range used {
			// a key tested with {{if .K}} may be left out by the page that
			// has nothing to show for it, never by the page named after it
			if optional[k] && k != recv || outer[k] || inner[k] {
				continue
			}
			missing = append(missing, k)
		}
		// the page shows the value it was asked to render
		if len(fn.Params) > 0 {
			rn := fn.Params[0].Name()
			want := map[string]string{recv: rn}
			if recv == "Aggregated" && used["Snapshot"] {
				want["Snapshot"] = rn + ".Snapshot"
			}
			for k, w := range want {
				got, have := vals[fn][k]
				if !have {
					continue // reported as missing
				}
				if got != w {
					a.bad("HT-complete", "data/"+recv+".ToHTML/"+k, "the template's "+k+" is "+got+", not the value ToHTML was called on", fn.Pos())
				} else {
					a.ok("HT-complete", "data/"+recv+".ToHTML/"+k, "the template's "+k+" is "+got, fn.Pos())
				}
			}
		}
		sort.Strings(missing)
		if len(missing) == 0 {
			a.ok("HT-complete", "data/"+recv+".ToHTML", fmt.Sprintf("every root value the template reads (%d keys) is set on every path before the template is executed", len(used)), fn.Pos())
		} else {
			a.bad("HT-complete", "data/"+recv+".ToHTML", "the template reads "+strings.Join(missing, ", ")+" from its root, which is not set on every path: the page shows \"<no value>\" there", fn.Pos())
		}
	}
}
