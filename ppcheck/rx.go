package main

// RX — writer/reader agreement of line formats (DESIGN.md §3.9): language
// inclusion "printer model ⊆ parser pattern" decided on the product of the
// regexp/syntax programs, plus the runtime's wait-reason table.

import (
	"encoding/json"
	"fmt"
	"go/ast"
	"go/parser"
	"go/token"
	"os"
	"path/filepath"
	"regexp/syntax"

	"golang.org/x/tools/go/ssa"
	"sort"
	"strconv"
	"strings"
	"unicode/utf8"
)

func init() {
	register(&Engine{Name: "RX", Doc: "line format inclusion", Run: runRX})
}

type rxModel struct {
	Name    string   `json:"name"`
	Rule    string   `json:"rule"`
	Parser  string   `json:"parser"` // global regexp variable of package stack
	Model   string   `json:"model"`  // full-match regexp of what the printer writes (without EOL / indentation)
	Source  string   `json:"source"`
	Reject  []string `json:"reject,omitempty"` // negative controls: lines the parser must NOT be claimed to accept (documented gaps)
}

type rxRefs struct {
	Comment string    `json:"comment"`
	Models  []rxModel `json:"models"`
}

type rxNFA struct {
	prog *syntax.Prog
}

func rxCompile(pat string, full bool) (*rxNFA, error) {
	if full {
		pat = `^(?:` + pat + `)$`
	}
	re, err := syntax.Parse(pat, syntax.Perl)
	if err != nil {
		return nil, err
	}
	prog, err := syntax.Compile(re.Simplify())
	if err != nil {
		return nil, err
	}
	for _, in := range prog.Inst {
		if in.Op == syntax.InstEmptyWidth && syntax.EmptyOp(in.Arg)&(syntax.EmptyWordBoundary|syntax.EmptyNoWordBoundary) != 0 {
			return nil, fmt.Errorf("word boundary assertions are not supported")
		}
		if (in.Op == syntax.InstRune || in.Op == syntax.InstRune1) && syntax.Flags(in.Arg)&syntax.FoldCase != 0 {
			return nil, fmt.Errorf("case folding is not supported")
		}
	}
	return &rxNFA{prog}, nil
}

// closure follows empty transitions from the kernel.
func (n *rxNFA) closure(kernel []uint32, begin, end bool) (set []uint32, matched bool) {
	seen := map[uint32]bool{}
	var stack []uint32
	stack = append(stack, kernel...)
	for len(stack) > 0 {
		pc := stack[len(stack)-1]
		stack = stack[:len(stack)-1]
		if seen[pc] {
			continue
		}
		seen[pc] = true
		in := &n.prog.Inst[pc]
		switch in.Op {
		case syntax.InstAlt, syntax.InstAltMatch:
			stack = append(stack, in.Out, in.Arg)
		case syntax.InstCapture, syntax.InstNop:
			stack = append(stack, in.Out)
		case syntax.InstEmptyWidth:
			need := syntax.EmptyOp(in.Arg)
			ok := true
			if need&(syntax.EmptyBeginText|syntax.EmptyBeginLine) != 0 && !begin {
				ok = false
			}
			if need&(syntax.EmptyEndText|syntax.EmptyEndLine) != 0 && !end {
				ok = false
			}
			if ok {
				stack = append(stack, in.Out)
			}
		case syntax.InstMatch:
			matched = true
		case syntax.InstRune, syntax.InstRune1, syntax.InstRuneAny, syntax.InstRuneAnyNotNL:
			set = append(set, pc)
		}
	}
	sort.Slice(set, func(i, j int) bool { return set[i] < set[j] })
	return
}

func (n *rxNFA) step(set []uint32, r rune) []uint32 {
	var out []uint32
	seen := map[uint32]bool{}
	for _, pc := range set {
		in := &n.prog.Inst[pc]
		if in.MatchRune(r) && !seen[in.Out] {
			seen[in.Out] = true
			out = append(out, in.Out)
		}
	}
	sort.Slice(out, func(i, j int) bool { return out[i] < out[j] })
	return out
}

func (n *rxNFA) boundaries(b map[rune]bool) {
	for _, in := range n.prog.Inst {
		switch in.Op {
		case syntax.InstRune, syntax.InstRune1:
			rs := in.Rune
			if len(rs) == 1 {
				b[rs[0]] = true
				b[rs[0]+1] = true
			}
			for i := 0; i+1 < len(rs); i += 2 {
				b[rs[i]] = true
				b[rs[i+1]+1] = true
			}
		case syntax.InstRuneAnyNotNL:
			b['\n'] = true
			b['\n'+1] = true
		}
	}
}

func keyOf(a []uint32) string {
	var sb strings.Builder
	for _, x := range a {
		sb.WriteString(strconv.Itoa(int(x)))
		sb.WriteByte(',')
	}
	return sb.String()
}

// rxIncluded decides L(model, full match) ⊆ L(parser, search semantics).
// Returns a witness accepted by the model and not by the parser.
func rxIncluded(model, pars *rxNFA) (ok bool, witness string, states int) {
	bs := map[rune]bool{0: true}
	model.boundaries(bs)
	pars.boundaries(bs)
	var cuts []rune
	for r := range bs {
		if r >= 0 && r <= utf8.MaxRune {
			cuts = append(cuts, r)
		}
	}
	sort.Slice(cuts, func(i, j int) bool { return cuts[i] < cuts[j] })
	// representatives: one rune per interval, excluding newline (a line never contains it) and surrogates
	var reps []rune
	for _, c := range cuts {
		if c == '\n' || (c >= 0xD800 && c <= 0xDFFF) {
			continue
		}
		reps = append(reps, c)
	}
	type st struct {
		mk, pk []uint32
		begin  bool
		sticky bool
		parent int
		via    rune
	}
	start := st{mk: []uint32{uint32(model.prog.Start)}, pk: []uint32{uint32(pars.prog.Start)}, begin: true, parent: -1}
	queue := []st{start}
	seen := map[string]bool{}
	for qi := 0; qi < len(queue); qi++ {
		cur := queue[qi]
		// acceptance at end of string
		_, mAcc := model.closure(cur.mk, cur.begin, true)
		pAcc := cur.sticky
		if !pAcc {
			_, pAcc = pars.closure(cur.pk, cur.begin, true)
		}
		if mAcc && !pAcc {
			var rs []rune
			for i := qi; queue[i].parent >= 0; i = queue[i].parent {
				rs = append([]rune{queue[i].via}, rs...)
			}
			return false, string(rs), len(queue)
		}
		mset, _ := model.closure(cur.mk, cur.begin, false)
		if len(mset) == 0 {
			continue
		}
		pset, pm := pars.closure(cur.pk, cur.begin, false)
		sticky := cur.sticky || pm
		for _, r := range reps {
			mk := model.step(mset, r)
			if len(mk) == 0 {
				continue
			}
			var pk []uint32
			if !sticky {
				pk = pars.step(pset, r)
				// search semantics: the match may start at any later position
				has := false
				for _, x := range pk {
					if x == uint32(pars.prog.Start) {
						has = true
					}
				}
				if !has {
					pk = append(pk, uint32(pars.prog.Start))
					sort.Slice(pk, func(i, j int) bool { return pk[i] < pk[j] })
				}
			}
			k := keyOf(mk) + "|" + keyOf(pk) + "|" + fmt.Sprint(sticky)
			if seen[k] {
				continue
			}
			seen[k] = true
			queue = append(queue, st{mk: mk, pk: pk, sticky: sticky, parent: qi, via: r})
			if len(queue) > 200000 {
				return false, "<state explosion>", len(queue)
			}
		}
	}
	return true, "", len(queue)
}

func runRX(c *Ctx) (obls []Obl) {
	a := newAgg(c, &obls)
	defer a.flush()
	b, err := os.ReadFile(filepath.Join(verifDir, "refs", "printer_formats.json"))
	if err != nil {
		a.und("RX-model", "refs", err.Error(), token.NoPos)
		return
	}
	refs := &rxRefs{}
	if err := json.Unmarshal(b, refs); err != nil {
		a.und("RX-model", "refs", err.Error(), token.NoPos)
		return
	}
	total := 0
	parsers := map[string]*rxNFA{}
	for _, m := range refs.Models {
		rule := m.Rule
		if rule == "" {
			rule = "RX-model"
		}
		pat, ok := regexpPattern(c.L, "stack", m.Parser)
		if !ok {
			a.und(rule, m.Name, "the pattern of "+m.Parser+" is not a single constant compiled in init", token.NoPos)
			continue
		}
		pn := parsers[m.Parser]
		if pn == nil {
			pn, err = rxCompile(pat, false)
			if err != nil {
				a.und(rule, m.Name, m.Parser+": "+err.Error(), token.NoPos)
				continue
			}
			parsers[m.Parser] = pn
		}
		mn, err := rxCompile(m.Model, true)
		if err != nil {
			a.und(rule, m.Name, "model: "+err.Error(), token.NoPos)
			continue
		}
		ok2, wit, n := rxIncluded(mn, pn)
		total += n
		pos := token.NoPos
		if g := c.L.Global("stack", m.Parser); g != nil {
			pos = g.Pos()
		}
		if ok2 {
			a.ok(rule, m.Name, fmt.Sprintf("every line of the shape %q (%s) is accepted by %s (%d product states)", m.Name, m.Source, m.Parser, n), pos)
		} else {
			a.bad(rule, m.Name, fmt.Sprintf("the printer writes lines that %s no longer accepts, e.g. %q (shape: %s, %s)", m.Parser, wit, m.Name, m.Source), pos)
		}
		// negative controls keep the model honest: documented gaps must stay rejected by the decision procedure
		for _, rj := range m.Reject {
			rn, err := rxCompile(regexpQuote(rj), true)
			if err != nil {
				continue
			}
			if inc, _, _ := rxIncluded(rn, pn); inc {
				a.ok(rule, m.Name+"/gap-closed:"+rj, "a line documented as not handled is now accepted (the gap was closed)", pos)
			}
		}
	}
	c.stat("RX", "product_states", total)
	c.stat("RX", "models", len(refs.Models))
	rxStatus(c, a, parsers)
	rxElided(c, a)
	rxAnchor(c, a)
	return
}

func regexpQuote(s string) string {
	var b strings.Builder
	for _, r := range s {
		if strings.ContainsRune(`\.+*?()|[]{}^$`, r) {
			b.WriteByte('\\')
		}
		b.WriteRune(r)
	}
	return b.String()
}

// rxStatus: every wait reason / status string of the installed runtimes,
// with every suffix combination, is accepted by the header pattern and
// contains neither the item separator nor ']'.
func rxStatus(c *Ctx, a *flAgg, parsers map[string]*rxNFA) {
	pat, ok := regexpPattern(c.L, "stack", "reRoutineHeader")
	if !ok {
		a.und("RX-status", "reRoutineHeader", "pattern not constant", token.NoPos)
		return
	}
	pn, err := rxCompile(pat, false)
	if err != nil {
		a.und("RX-status", "reRoutineHeader", err.Error(), token.NoPos)
		return
	}
	roots := []string{}
	if out, ok := goroot(); ok {
		roots = append(roots, out)
	}
	if _, err := os.Stat("/opt/veriftools/go1.26.8/src/runtime/runtime2.go"); err == nil {
		roots = append(roots, "/opt/veriftools/go1.26.8")
	}
	nStr := 0
	for _, root := range roots {
		strs := runtimeStrings(filepath.Join(root, "src", "runtime"))
		ver := filepath.Base(root)
		if len(strs) < 20 {
			a.und("RX-status", "runtime:"+ver, fmt.Sprintf("only %d status strings found in the runtime sources", len(strs)), token.NoPos)
			continue
		}
		bad := ""
		for _, s := range strs {
			if s == "" {
				continue
			}
			nStr++
			if strings.Contains(s, ", ") || strings.Contains(s, "]") {
				bad = fmt.Sprintf("%q contains the item separator or ']'", s)
				break
			}
			for _, suf := range []string{"", " (scan)", " (leaked)", " (durable)"} {
				for _, tail := range []string{"", ", 5 minutes", ", locked to thread", ", 5 minutes, locked to thread", ", synctest bubble 3", ", 5 minutes, locked to thread, synctest bubble 3"} {
					line := "goroutine 7 [" + s + suf + tail + "]:"
					mn, err := rxCompile(regexpQuote(line), true)
					if err != nil {
						continue
					}
					if inc, _, _ := rxIncluded(mn, pn); !inc {
						bad = fmt.Sprintf("header %q is not accepted", line)
					}
				}
			}
			if bad != "" {
				break
			}
		}
		if bad == "" {
			a.ok("RX-status", "runtime:"+ver, fmt.Sprintf("all %d wait-reason/status strings of this runtime, with every suffix combination, are accepted by the header pattern and contain neither ', ' nor ']'", len(strs)), token.NoPos)
		} else {
			a.bad("RX-status", "runtime:"+ver, bad, token.NoPos)
		}
	}
	c.stat("RX", "runtime_status_strings", nStr)
	if len(roots) == 0 {
		a.und("RX-status", "runtime", "no Go toolchain sources found", token.NoPos)
	}
}

func goroot() (string, bool) {
	for _, p := range []string{os.Getenv("GOROOT"), "/usr/lib/go-1.23", "/usr/local/go"} {
		if p == "" {
			continue
		}
		if _, err := os.Stat(filepath.Join(p, "src", "runtime", "runtime2.go")); err == nil {
			return p, true
		}
	}
	return "", false
}

// runtimeStrings reads waitReasonStrings and gStatusStrings from the runtime sources.
func runtimeStrings(dir string) []string {
	var out []string
	fset := token.NewFileSet()
	for _, fn := range []string{"runtime2.go", "traceback.go"} {
		f, err := parser.ParseFile(fset, filepath.Join(dir, fn), nil, 0)
		if err != nil {
			continue
		}
		ast.Inspect(f, func(n ast.Node) bool {
			vs, ok := n.(*ast.ValueSpec)
			if !ok || len(vs.Names) != 1 || len(vs.Values) != 1 {
				return true
			}
			if nm := vs.Names[0].Name; nm != "waitReasonStrings" && nm != "gStatusStrings" {
				return true
			}
			cl, ok := vs.Values[0].(*ast.CompositeLit)
			if !ok {
				return true
			}
			for _, e := range cl.Elts {
				v := e
				if kv, ok := e.(*ast.KeyValueExpr); ok {
					v = kv.Value
				}
				if bl, ok := v.(*ast.BasicLit); ok && bl.Kind == token.STRING {
					if s, err := strconv.Unquote(bl.Value); err == nil {
						out = append(out, s)
					}
				}
			}
			return true
		})
	}
	return out
}

// ---------------------------------------------------------------------------
// RX-elided: isFramesElidedLine is not regexp based. The two marker shapes
// the runtime prints are described as string families (fixed prefix, fixed
// suffix, minimal length); the decision tree of the function is evaluated
// over each family with may/must semantics: no path that some string of the
// family can take may return false.

type strFamily struct {
	name   string
	exact  string // non-empty: the family is this single string
	prefix string
	suffix string
	minLen int
}

func (f strFamily) first() (byte, bool) {
	if f.exact != "" {
		return f.exact[0], true
	}
	if f.prefix != "" {
		return f.prefix[0], true
	}
	return 0, false
}

// may reports whether the literal can be true / can be false for some string of the family.
// intOf evaluates constant integer expressions including len(global []byte).
func intOf(c *Ctx, e *Expr) (int64, bool) {
	if v, ok := e.intConst(); ok {
		return v, true
	}
	if e.Op == OpBuiltin && e.Name == "len" && len(e.Args) == 1 {
		if g := e.Args[0].globalLoaded(); g != nil {
			if s, ok := bytesGlobal(c.L, "stack", g.Name()); ok {
				return int64(len(s)), true
			}
		}
		if s, ok := constStr(e.Args[0]); ok {
			return int64(len(s)), true
		}
	}
	if e.Op == OpBin && len(e.Args) == 2 {
		x, ok1 := intOf(c, e.Args[0])
		y, ok2 := intOf(c, e.Args[1])
		if ok1 && ok2 {
			switch e.Tok {
			case token.ADD:
				return x + y, true
			case token.SUB:
				return x - y, true
			case token.MUL:
				return x * y, true
			}
		}
	}
	return 0, false
}

func (f strFamily) may(c *Ctx, at *Expr) (canT, canF, known bool) {
	bytesOf := func(e *Expr) (string, bool) {
		x := e
		for x != nil && x.Op == OpConvert {
			x = x.Args[0]
		}
		if s, ok := constStr(x); ok {
			return s, true
		}
		if g := e.globalLoaded(); g != nil {
			return bytesGlobal(c.L, "stack", g.Name())
		}
		if e.Op == OpSlice && e.Args[0].Op == OpAlloc {
			return "", false
		}
		return "", false
	}
	switch {
	case at.calleeIs("bytes", "Equal") && len(at.Args) == 3:
		k, ok := bytesOf(at.Args[2])
		if !ok {
			return true, true, false
		}
		if f.exact != "" {
			return f.exact == k, f.exact != k, true
		}
		in := len(k) >= f.minLen && strings.HasPrefix(k, f.prefix) && strings.HasSuffix(k, f.suffix)
		return in, true, true
	case at.calleeIs("bytes", "HasPrefix") && len(at.Args) == 3:
		k, ok := bytesOf(at.Args[2])
		if !ok {
			return true, true, false
		}
		if f.exact != "" {
			h := strings.HasPrefix(f.exact, k)
			return h, !h, true
		}
		if len(k) <= len(f.prefix) {
			h := strings.HasPrefix(f.prefix, k)
			return h, !h, true
		}
		return strings.HasPrefix(k, f.prefix), true, true
	case at.calleeIs("bytes", "HasSuffix") && len(at.Args) == 3:
		k, ok := bytesOf(at.Args[2])
		if !ok {
			return true, true, false
		}
		if f.exact != "" {
			h := strings.HasSuffix(f.exact, k)
			return h, !h, true
		}
		if len(k) <= len(f.suffix) {
			h := strings.HasSuffix(f.suffix, k)
			return h, !h, true
		}
		return strings.HasSuffix(k, f.suffix), true, true
	case at.Op == OpBin && at.Tok == token.LSS:
		// len(line) < K  or  K < len(line)
		if l := at.Args[0]; l.Op == OpBuiltin && l.Name == "len" && l.Args[0].Op == OpParam {
			if k, ok := intOf(c, at.Args[1]); ok {
				if f.exact != "" {
					h := int64(len(f.exact)) < k
					return h, !h, true
				}
				return int64(f.minLen) < k, true, true
			}
		}
		if r := at.Args[1]; r.Op == OpBuiltin && r.Name == "len" && r.Args[0].Op == OpParam {
			if k, ok := intOf(c, at.Args[0]); ok {
				if f.exact != "" {
					h := k < int64(len(f.exact))
					return h, !h, true
				}
				return true, k >= int64(f.minLen), true
			}
		}
	case at.Op == OpBin && at.Tok == token.EQL:
		// len(line) == K, line[0] == c
		if l := at.Args[0]; l.Op == OpBuiltin && l.Name == "len" && l.Args[0].Op == OpParam {
			if k, ok := at.Args[1].intConst(); ok {
				if f.exact != "" {
					h := int64(len(f.exact)) == k
					return h, !h, true
				}
				return k >= int64(f.minLen), true, true
			}
		}
		if ix := loadOf(at.Args[0]); ix != nil && ix.Op == OpIndexAddr && ix.Args[0].Op == OpParam {
			if i, ok := ix.Args[1].intConst(); ok && i == 0 {
				if k, ok := at.Args[1].intConst(); ok {
					if b, okb := f.first(); okb {
						h := int64(b) == k
						return h, !h, true
					}
				}
			}
		}
		if at.Args[0].Op == OpIndex && at.Args[0].Args[0].Op == OpParam {
			if i, ok := at.Args[0].Args[1].intConst(); ok && i == 0 {
				if k, ok := at.Args[1].intConst(); ok {
					if b, okb := f.first(); okb {
						h := int64(b) == k
						return h, !h, true
					}
				}
			}
		}
	}
	return true, true, false
}

func rxElided(c *Ctx, a *flAgg) {
	fn := c.MustFunc(a.obls, "RX-elided", "stack", "", "isFramesElidedLine")
	if fn == nil {
		return
	}
	exprHome = fn.Pkg.Pkg
	x := &SPE{Fn: fn, MaxVisits: 2}
	x.Explore()
	fams := []strFamily{
		{name: "go<=1.20 marker", exact: "...additional frames elided..."},
		{name: "go1.21+ marker '...N frames elided...'", prefix: "...", suffix: " frames elided...", minLen: len("...1 frames elided...")},
	}
	for _, f := range fams {
		ok := true
		why := ""
		for _, p := range x.Paths {
			if p.Term != "return" || len(p.Results) != 1 {
				continue
			}
			feasible := true
			for _, lt := range p.Lits {
				canT, canF, _ := f.may(c, lt.Atom)
				if (lt.Pol && !canT) || (!lt.Pol && !canF) {
					feasible = false
				}
			}
			if !feasible {
				continue
			}
			r := p.Results[0]
			if v, isC := r.boolConst(); isC {
				if !v {
					ok, why = false, "some such line takes the path "+litsString(p)+" and is rejected"
				}
				continue
			}
			at, pol := normAtom(r)
			canT, canF, _ := f.may(c, at)
			if (pol && canF) || (!pol && canT) {
				ok, why = false, "some such line makes the final test "+r.String()+" fail"
			}
		}
		if ok {
			a.ok("RX-elided", f.name, "every elided-frames marker of this shape is recognised by isFramesElidedLine (decision tree evaluated over the string family)", fn.Pos())
		} else {
			a.bad("RX-elided", f.name, "the runtime prints elided-frames markers that isFramesElidedLine no longer recognises: "+why+" (the dump then ends at the marker and the remaining goroutines are lost)", fn.Pos())
		}
	}
	// and nothing but such markers: every accepting path requires the "..." prefix
	for _, p := range x.Paths {
		if p.Term != "return" || len(p.Results) != 1 {
			continue
		}
		if v, isC := p.Results[0].boolConst(); isC && !v {
			continue
		}
		anchored := false
		for _, lt := range p.Lits {
			if lt.Pol && (lt.Atom.calleeIs("bytes", "Equal") || lt.Atom.calleeIs("bytes", "HasPrefix")) {
				anchored = true
			}
		}
		hasSuffixTest := false
		if at, pol := normAtom(p.Results[0]); pol && at.calleeIs("bytes", "HasSuffix") {
			if s, ok := constStr(at.Args[2].Args[0]); ok && strings.Contains(s, "frames elided") {
				hasSuffixTest = true
			}
			if g := at.Args[2].globalLoaded(); g != nil {
				if s, ok := bytesGlobal(c.L, "stack", g.Name()); ok && strings.Contains(s, "frames elided") {
					hasSuffixTest = true
				}
			}
		}
		isEq := false
		for _, lt := range p.Lits {
			if lt.Pol && lt.Atom.calleeIs("bytes", "Equal") {
				isEq = true
			}
		}
		if anchored && (isEq || hasSuffixTest) {
			a.ok("RX-elided", "only-markers", "a line is taken as elided-frames marker only if it is the old marker or starts with '...' and ends with ' frames elided...'", fn.Pos())
		} else {
			a.bad("RX-elided", "only-markers", "isFramesElidedLine accepts lines that are not elided-frames markers (the wording tests were widened): ordinary text after a frame is swallowed into the dump", fn.Pos())
		}
	}
}

// rxAnchor (RX-anchor): every line pattern the scanner applies describes the
// whole line: it begins with ^ and ends with $ in every alternative. Dropping
// the $ keeps every printed line accepted (RX-model is an inclusion) but
// lets a line with arbitrary text behind a header, a frame or a file
// reference count as part of a dump: ordinary output is swallowed and
// parsed as a goroutine or a frame.
var rxAnchorExempt = map[string]string{
	"reUnavail": "open at the end on the pinned tree: the message is only a prefix test and captures nothing",
}

func rxAnchor(c *Ctx, a *flAgg) {
	scan := c.L.Func("stack", "scanningState", "scan")
	if scan == nil {
		a.und("RX-anchor", "scan", "scan not found", token.NoPos)
		return
	}
	// regexp globals loaded in functions reachable from scan inside the package
	seen := map[*ssa.Function]bool{}
	globs := map[*ssa.Global]bool{}
	var visit func(f *ssa.Function)
	visit = func(f *ssa.Function) {
		if f == nil || seen[f] || f.Pkg != scan.Pkg || f.Blocks == nil {
			return
		}
		seen[f] = true
		for _, b := range f.Blocks {
			for _, in := range b.Instrs {
				for _, op := range in.Operands(nil) {
					if g, ok := (*op).(*ssa.Global); ok && g.Pkg == scan.Pkg && strings.HasSuffix(g.Type().String(), "*regexp.Regexp") {
						globs[g] = true
					}
					if fn, ok := (*op).(*ssa.Function); ok {
						visit(fn)
					}
				}
				if mc, ok := in.(*ssa.MakeClosure); ok {
					if fn, ok := mc.Fn.(*ssa.Function); ok {
						visit(fn)
					}
				}
			}
		}
	}
	visit(scan)
	var names []string
	byName := map[string]*ssa.Global{}
	for g := range globs {
		names = append(names, g.Name())
		byName[g.Name()] = g
	}
	sort.Strings(names)
	n := 0
	for _, name := range names {
		g := byName[name]
		pat, ok := regexpPattern(c.L, "stack", name)
		if !ok {
			a.und("RX-anchor", name, "the pattern is not a single constant compiled in init", g.Pos())
			continue
		}
		re, err := syntax.Parse(pat, syntax.Perl)
		if err != nil {
			a.und("RX-anchor", name, err.Error(), g.Pos())
			continue
		}
		n++
		begin, end := rxAnchored(re)
		switch {
		case begin && end:
			a.ok("RX-anchor", name, "the pattern describes the whole line (^...$ in every alternative)", g.Pos())
		case rxAnchorExempt[name] != "" && begin:
			a.ok("RX-anchor", name, "anchored at the start; "+rxAnchorExempt[name], g.Pos())
		case !begin:
			a.bad("RX-anchor", name, "the pattern is not anchored at the start of the line: a line that merely contains a dump line is taken for one", g.Pos())
		default:
			a.bad("RX-anchor", name, "the pattern is not anchored at the end of the line: a line with arbitrary text behind the dump line's shape is swallowed into the dump and parsed", g.Pos())
		}
	}
	c.stat("RX", "anchored_patterns", n)
}

// rxAnchored: does every match of re start at the beginning / end at the end
// of the text?
func rxAnchored(re *syntax.Regexp) (begin, end bool) {
	switch re.Op {
	case syntax.OpBeginText:
		return true, false
	case syntax.OpEndText:
		return false, true
	case syntax.OpCapture:
		return rxAnchored(re.Sub[0])
	case syntax.OpConcat:
		if len(re.Sub) == 0 {
			return false, false
		}
		b, _ := rxAnchored(re.Sub[0])
		_, e := rxAnchored(re.Sub[len(re.Sub)-1])
		if len(re.Sub) == 1 {
			return rxAnchored(re.Sub[0])
		}
		return b, e
	case syntax.OpAlternate:
		begin, end = true, true
		for _, s := range re.Sub {
			b, e := rxAnchored(s)
			begin, end = begin && b, end && e
		}
		return
	}
	return false, false
}
