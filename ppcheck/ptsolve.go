package main

// ptsolve — a small inclusion-based (Andersen-style) points-to analysis
// (DESIGN.md §3.1). x/tools v0.29.0 ships no go/pointer. Context- and
// field-insensitive, restricted to the functions reachable from the chosen
// entries, type-filtered (a node whose static type cannot hold a pointer
// receives no objects).

import (
	"fmt"
	"go/token"
	"go/types"
	"sort"
	"strings"

	"golang.org/x/tools/go/ssa"
)

type objset map[int]struct{}

type ptSink struct {
	node int // address / first operand node
	val  int // stored value node (-1 if none)
	pos  token.Pos
	what string
	fn   *ssa.Function
	in   ssa.Instruction
}

type ptExtCall struct {
	fn     *ssa.Function
	callee *ssa.Function
	args   []int
	pos    token.Pos
	name   string
	pkg    string
	resolved bool // interface call bound to module implementations
}

type ptSolver struct {
	L            *Loaded
	stringsCarry bool
	nodeOf       map[ssa.Value]int
	retOf        map[*ssa.Function]int
	retIdx       map[*ssa.Function][]int
	compOf       map[ssa.Value][]int
	pts          []objset
	nocarry      map[int]bool
	objName      []string
	objFn        []*ssa.Function
	objVal       []ssa.Value
	contNode     []int
	keyNode      []int
	allocObj     map[ssa.Value]int
	fnObj        map[*ssa.Function]int
	globObj      map[*ssa.Global]int
	copies       [][2]int
	loads        [][2]int
	kloads       [][2]int
	kstores      [][2]int
	stores       [][2]int
	ccopy        [][2]int
	rcopies      [][2]int // dst receives everything reachable from src (callbacks of external callees)
	dyn          []ptDyn
	sinks        []ptSink
	ext          []ptExtCall
	done         map[*ssa.Function]bool
	work         []*ssa.Function
	allFns       []*ssa.Function
	implCache    map[string][]*ssa.Function
}

type ptDyn struct {
	fnNode int
	call   ssa.CallInstruction
	bound  map[*ssa.Function]bool
	// extArgs: for a function value handed to an external callee (call ==
	// nil), the nodes of the other arguments: the callee may call back with
	// anything reachable from them (ast.Inspect hands out the nodes of the tree)
	extArgs []int
}

func newPtSolver(L *Loaded, stringsCarry bool) *ptSolver {
	s := &ptSolver{L: L, stringsCarry: stringsCarry, nodeOf: map[ssa.Value]int{}, retOf: map[*ssa.Function]int{}, nocarry: map[int]bool{},
		retIdx: map[*ssa.Function][]int{}, compOf: map[ssa.Value][]int{}, allocObj: map[ssa.Value]int{}, fnObj: map[*ssa.Function]int{}, globObj: map[*ssa.Global]int{}, done: map[*ssa.Function]bool{}, implCache: map[string][]*ssa.Function{}}
	for _, p := range []string{"stack", "stack/webstack", "internal", "."} {
		s.allFns = append(s.allFns, L.SrcFuncs(p)...)
	}
	return s
}

func (s *ptSolver) inMod(f *ssa.Function) bool {
	p := f.Pkg
	for p == nil && f.Parent() != nil {
		f = f.Parent()
		p = f.Pkg
	}
	if p == nil {
		if r := f.Signature.Recv(); r != nil {
			return strings.Contains(r.Type().String(), modPath)
		}
		return false
	}
	return strings.HasPrefix(p.Pkg.Path(), modPath)
}

func (s *ptSolver) newNode() int { s.pts = append(s.pts, objset{}); return len(s.pts) - 1 }

func (s *ptSolver) newObj(name string, fn *ssa.Function, v ssa.Value) int {
	s.objName = append(s.objName, name)
	s.objFn = append(s.objFn, fn)
	s.objVal = append(s.objVal, v)
	s.contNode = append(s.contNode, s.newNode())
	s.keyNode = append(s.keyNode, s.newNode())
	return len(s.objName) - 1
}

func (s *ptSolver) carries(t types.Type, seen map[types.Type]bool) bool {
	if seen[t] {
		return false
	}
	seen[t] = true
	switch u := t.Underlying().(type) {
	case *types.Basic:
		return s.stringsCarry && u.Info()&types.IsString != 0 || u.Kind() == types.UnsafePointer
	case *types.Pointer, *types.Slice, *types.Map, *types.Chan, *types.Signature, *types.Interface:
		return true
	case *types.Struct:
		for i := 0; i < u.NumFields(); i++ {
			if s.carries(u.Field(i).Type(), seen) {
				return true
			}
		}
	case *types.Array:
		return s.carries(u.Elem(), seen)
	case *types.Tuple:
		for i := 0; i < u.Len(); i++ {
			if s.carries(u.At(i).Type(), seen) {
				return true
			}
		}
	}
	return false
}

func (s *ptSolver) node(v ssa.Value) int {
	if n, ok := s.nodeOf[v]; ok {
		return n
	}
	n := s.newNode()
	s.nodeOf[v] = n
	if _, isRange := v.(*ssa.Range); !isRange && !s.carries(v.Type(), map[types.Type]bool{}) {
		s.nocarry[n] = true
	}
	switch v := v.(type) {
	case *ssa.Global:
		o := s.newObj("global:"+v.Name(), nil, v)
		s.globObj[v] = o
		s.pts[n][o] = struct{}{}
	case *ssa.Function:
		o, ok := s.fnObj[v]
		if !ok {
			o = s.newObj("func:"+v.Name(), v, v)
			s.fnObj[v] = o
		}
		s.pts[n][o] = struct{}{}
	}
	return n
}

func (s *ptSolver) ret(f *ssa.Function) int {
	if n, ok := s.retOf[f]; ok {
		return n
	}
	n := s.newNode()
	s.retOf[f] = n
	return n
}

// retAt returns the node of result i of f.
func (s *ptSolver) retAt(f *ssa.Function, i int) int {
	n := f.Signature.Results().Len()
	if n <= 1 {
		return s.ret(f)
	}
	if s.retIdx[f] == nil {
		for k := 0; k < n; k++ {
			s.retIdx[f] = append(s.retIdx[f], s.newNode())
		}
	}
	return s.retIdx[f][i]
}

// comp returns the node of component i of a tuple-valued call.
func (s *ptSolver) comp(v ssa.Value, i int) int {
	t, ok := v.Type().(*types.Tuple)
	if !ok {
		return s.node(v)
	}
	if s.compOf[v] == nil {
		for k := 0; k < t.Len(); k++ {
			n := s.newNode()
			if !s.carries(t.At(k).Type(), map[types.Type]bool{}) {
				s.nocarry[n] = true
			}
			s.compOf[v] = append(s.compOf[v], n)
		}
	}
	return s.compOf[v][i]
}

func (s *ptSolver) fresh(v ssa.Value, name string) int {
	if o, ok := s.allocObj[v]; ok {
		return o
	}
	o := s.newObj(name, nil, v)
	s.allocObj[v] = o
	n := s.node(v)
	delete(s.nocarry, n)
	s.pts[n][o] = struct{}{}
	return o
}

func (s *ptSolver) reach(f *ssa.Function) {
	if f == nil || s.done[f] || len(f.Blocks) == 0 || !s.inMod(f) {
		return
	}
	s.done[f] = true
	s.work = append(s.work, f)
}

// seed makes v point to a new synthetic object whose contents point to
// itself (stands for all memory reachable from v at entry).
func (s *ptSolver) seedSelf(v ssa.Value, name string) int {
	o := s.newObj(name, nil, v)
	s.pts[s.contNode[o]][o] = struct{}{}
	s.pts[s.keyNode[o]][o] = struct{}{}
	n := s.node(v)
	delete(s.nocarry, n)
	s.pts[n][o] = struct{}{}
	return o
}

func calleePkg(callee *ssa.Function) string {
	if callee.Pkg != nil {
		return callee.Pkg.Pkg.Path()
	}
	if o := callee.Object(); o != nil && o.Pkg() != nil {
		return o.Pkg().Path()
	}
	if r := callee.Signature.Recv(); r != nil {
		t := r.Type()
		if p, ok := t.(*types.Pointer); ok {
			t = p.Elem()
		}
		if nt, ok := t.(*types.Named); ok && nt.Obj().Pkg() != nil {
			return nt.Obj().Pkg().Path()
		}
	}
	return ""
}

// external callee tables ---------------------------------------------------

// extReadOnly: packages whose functions do not write through their arguments
// (as far as the analysed code uses them) and are safe for concurrent use.
var extReadOnly = map[string]bool{
	"strings": true, "bytes": true, "strconv": true, "fmt": true, "regexp": true, "errors": true, "unicode": true,
	"unicode/utf8": true, "net/url": true, "math": true, "html/template": true, "html": true, "log": true, "os": true, "path": true,
	"path/filepath": true, "runtime": true, "time": true, "io": true, "go/parser": true, "go/token": true, "go/ast": true,
	"os/user": true, "reflect": true, "regexp/syntax": true, "net/http": true, "text/template": true, "flag": true, "os/signal": true,
	"github.com/mattn/go-colorable": true, "github.com/mattn/go-isatty": true, "github.com/mgutz/ansi": true,
}

// extReadOnlyFn: the functions of package slices/maps that only read their
// arguments (the packages as a whole are not read-only: Sort, Insert,
// Reverse, Delete ... write through the slice).
func extReadOnlyFn(pkg, full string) bool {
	if pkg != "slices" && pkg != "maps" {
		return false
	}
	name := full
	if i := strings.IndexByte(name, '['); i >= 0 {
		name = name[:i]
	}
	if i := strings.LastIndexByte(name, '.'); i >= 0 {
		name = name[i+1:]
	}
	switch name {
	case "Index", "IndexFunc", "Contains", "ContainsFunc", "Equal", "EqualFunc", "Compare", "CompareFunc", "Clone", "Concat", "BinarySearch", "BinarySearchFunc", "Max", "Min", "MaxFunc", "MinFunc", "IsSorted", "IsSortedFunc", "Keys", "Values", "All", "Collect", "Sorted", "SortedFunc":
		return true
	}
	return false
}

// extMutator: methods of otherwise read-only packages that change their
// receiver (a shared *template.Template or *regexp.Regexp is safe to execute
// concurrently, not to (re)parse or reconfigure).
func extMutator(pkg, full string) bool {
	name := full
	if i := strings.LastIndexByte(full, '.'); i >= 0 {
		name = full[i+1:]
	}
	switch pkg {
	case "html/template", "text/template":
		switch name {
		case "Parse", "Funcs", "New", "Delims", "Option", "AddParseTree", "ParseFiles", "ParseGlob", "ParseFS":
			return true
		}
	case "regexp":
		return name == "Longest"
	}
	return false
}

// extMutatesArg0: functions that write through their first argument.
var extMutatesArg0 = map[string]bool{
	"sort.Ints": true, "sort.Strings": true, "sort.Sort": true, "sort.Slice": true, "sort.SliceStable": true, "sort.Stable": true, "sort.Float64s": true,
}

// extFreshResult: the result does not alias the arguments (eager copy/format).
func extFreshResult(pkg, name string) bool {
	switch pkg {
	case "fmt", "strconv", "errors", "math", "unicode", "unicode/utf8", "net/url", "html", "time", "os", "runtime", "html/template":
		return true
	case "strings":
		switch name {
		case "Join", "Replace", "ReplaceAll", "Repeat", "ToUpper", "ToLower", "Title", "Map":
			return true
		}
	case "regexp":
		switch name {
		case "Match", "MatchString", "MustCompile", "Compile", "ReplaceAllString", "ReplaceAll", "String", "NumSubexp", "QuoteMeta":
			return true
		}
	case "bytes":
		switch name {
		case "Equal", "HasPrefix", "HasSuffix", "IndexByte", "Index", "Contains", "Count", "Compare", "NewReader", "Join", "Clone", "ToUpper", "ToLower", "Repeat", "ReplaceAll", "Replace":
			return name != "NewReader"
		}
	case "slices", "maps":
		switch name {
		case "Clone", "Collect", "Sorted", "SortedFunc", "Concat", "Index", "IndexFunc", "ContainsFunc", "Contains", "Equal", "Compare":
			return true
		}
	}
	if pkg == "strings" && name == "Clone" {
		return true
	}
	return false
}

// extSubSlice: every result is a sub-slice of the first argument (no new container).
func extSubSlice(pkg, name string) bool {
	if pkg != "bytes" && pkg != "strings" {
		return false
	}
	switch name {
	case "CutPrefix", "CutSuffix", "Cut", "TrimPrefix", "TrimSuffix", "Trim", "TrimLeft", "TrimRight", "TrimSpace", "TrimFunc", "TrimLeftFunc", "TrimRightFunc":
		return true
	}
	return false
}

// extAliasesArg0Only: the results are sub-slices of the first argument and
// never of the others (prefixes, suffixes, cut sets, separators).
func extAliasesArg0Only(pkg, name string) bool {
	if pkg != "bytes" && pkg != "strings" {
		return false
	}
	switch name {
	case "CutPrefix", "CutSuffix", "Cut", "TrimPrefix", "TrimSuffix", "Trim", "TrimLeft", "TrimRight", "TrimSpace", "TrimFunc", "TrimLeftFunc", "TrimRightFunc",
		"Split", "SplitN", "SplitAfter", "SplitAfterN", "Fields", "FieldsFunc":
		return true
	}
	return false
}

func (s *ptSolver) bindCall(c ssa.CallInstruction, callee *ssa.Function, recvFirst ssa.Value) {
	s.reach(callee)
	args := c.Common().Args
	if recvFirst != nil {
		args = append([]ssa.Value{recvFirst}, args...)
	}
	for i, p := range callee.Params {
		if i < len(args) {
			s.copies = append(s.copies, [2]int{s.node(p), s.node(args[i])})
		}
	}
	if v := c.Value(); v != nil {
		s.bindResults(v, callee)
	}
}

func (s *ptSolver) bindResults(v ssa.Value, callee *ssa.Function) {
	if t, ok := v.Type().(*types.Tuple); ok && callee.Signature.Results().Len() == t.Len() {
		for i := 0; i < t.Len(); i++ {
			s.copies = append(s.copies, [2]int{s.comp(v, i), s.retAt(callee, i)})
		}
		return
	}
	s.copies = append(s.copies, [2]int{s.node(v), s.ret(callee)})
}

func (s *ptSolver) gen(f *ssa.Function) {
	pos := func(p token.Pos) int { return s.L.Fset.Position(p).Line }
	for _, b := range f.Blocks {
		for _, ins := range b.Instrs {
			switch ins := ins.(type) {
			case *ssa.Alloc:
				s.fresh(ins, fmt.Sprintf("alloc:%s:%s", f.Name(), ins.Comment))
			case *ssa.MakeSlice, *ssa.MakeMap, *ssa.MakeChan:
				s.fresh(ins.(ssa.Value), fmt.Sprintf("make:%s@%d", f.Name(), pos(ins.Pos())))
			case *ssa.FieldAddr:
				s.copies = append(s.copies, [2]int{s.node(ins), s.node(ins.X)})
			case *ssa.IndexAddr:
				s.copies = append(s.copies, [2]int{s.node(ins), s.node(ins.X)})
			case *ssa.Field:
				s.copies = append(s.copies, [2]int{s.node(ins), s.node(ins.X)})
			case *ssa.Index:
				if _, isStr := ins.X.Type().Underlying().(*types.Basic); !isStr {
					s.copies = append(s.copies, [2]int{s.node(ins), s.node(ins.X)})
				}
			case *ssa.Slice:
				s.copies = append(s.copies, [2]int{s.node(ins), s.node(ins.X)})
			case *ssa.UnOp:
				if ins.Op == token.MUL || ins.Op == token.ARROW {
					s.loads = append(s.loads, [2]int{s.node(ins), s.node(ins.X)})
				} else {
					s.copies = append(s.copies, [2]int{s.node(ins), s.node(ins.X)})
				}
			case *ssa.Store:
				s.stores = append(s.stores, [2]int{s.node(ins.Addr), s.node(ins.Val)})
				s.sinks = append(s.sinks, ptSink{s.node(ins.Addr), s.node(ins.Val), ins.Pos(), "store", f, ins})
			case *ssa.Phi:
				for _, e := range ins.Edges {
					s.copies = append(s.copies, [2]int{s.node(ins), s.node(e)})
				}
			case *ssa.Convert:
				ft, tt := ins.X.Type().Underlying(), ins.Type().Underlying()
				_, fs := ft.(*types.Slice)
				_, ts := tt.(*types.Slice)
				fb, _ := ft.(*types.Basic)
				tb, _ := tt.(*types.Basic)
				if (fs && tb != nil && tb.Info()&types.IsString != 0) || (ts && fb != nil && fb.Info()&types.IsString != 0) {
					s.fresh(ins, fmt.Sprintf("conv-copy:%s@%d", f.Name(), pos(ins.Pos())))
				} else {
					s.copies = append(s.copies, [2]int{s.node(ins), s.node(ins.X)})
				}
			case *ssa.ChangeType:
				s.copies = append(s.copies, [2]int{s.node(ins), s.node(ins.X)})
			case *ssa.ChangeInterface:
				s.copies = append(s.copies, [2]int{s.node(ins), s.node(ins.X)})
			case *ssa.MakeInterface:
				s.copies = append(s.copies, [2]int{s.node(ins), s.node(ins.X)})
			case *ssa.SliceToArrayPointer:
				s.copies = append(s.copies, [2]int{s.node(ins), s.node(ins.X)})
			case *ssa.TypeAssert:
				s.copies = append(s.copies, [2]int{s.node(ins), s.node(ins.X)})
			case *ssa.Extract:
				if nx, ok := ins.Tuple.(*ssa.Next); ok && !nx.IsString {
					if _, isMap := nx.Iter.(*ssa.Range).X.Type().Underlying().(*types.Map); isMap {
						if ins.Index == 1 {
							s.kloads = append(s.kloads, [2]int{s.node(ins), s.node(nx.Iter)})
						} else if ins.Index == 2 {
							s.loads = append(s.loads, [2]int{s.node(ins), s.node(nx.Iter)})
						}
						break
					}
				}
				if _, isCall := ins.Tuple.(*ssa.Call); isCall {
					s.copies = append(s.copies, [2]int{s.node(ins), s.comp(ins.Tuple, ins.Index)})
					break
				}
				s.copies = append(s.copies, [2]int{s.node(ins), s.node(ins.Tuple)})
			case *ssa.BinOp:
				if ins.Op == token.ADD { // string concatenation builds a new string
					if s.stringsCarry {
						s.fresh(ins, fmt.Sprintf("concat:%s@%d", f.Name(), pos(ins.Pos())))
					}
				}
			case *ssa.Lookup:
				if _, ok := ins.X.Type().Underlying().(*types.Map); ok {
					s.loads = append(s.loads, [2]int{s.node(ins), s.node(ins.X)})
				}
			case *ssa.Range:
				s.copies = append(s.copies, [2]int{s.node(ins), s.node(ins.X)})
			case *ssa.Next:
				// handled at Extract
			case *ssa.MapUpdate:
				s.kstores = append(s.kstores, [2]int{s.node(ins.Map), s.node(ins.Key)})
				s.stores = append(s.stores, [2]int{s.node(ins.Map), s.node(ins.Value)})
				s.sinks = append(s.sinks, ptSink{s.node(ins.Map), s.node(ins.Value), ins.Pos(), "mapupdate", f, ins})
			case *ssa.Send:
				s.stores = append(s.stores, [2]int{s.node(ins.Chan), s.node(ins.X)})
			case *ssa.MakeClosure:
				fn := ins.Fn.(*ssa.Function)
				o := s.newObj("closure:"+fn.Name(), fn, ins)
				n := s.node(ins)
				delete(s.nocarry, n)
				s.pts[n][o] = struct{}{}
				for i, bnd := range ins.Bindings {
					s.copies = append(s.copies, [2]int{s.node(fn.FreeVars[i]), s.node(bnd)})
				}
				s.reach(fn)
			case *ssa.Return:
				for i, r := range ins.Results {
					s.copies = append(s.copies, [2]int{s.ret(f), s.node(r)})
					if len(ins.Results) > 1 {
						s.copies = append(s.copies, [2]int{s.retAt(f, i), s.node(r)})
					}
				}
			case ssa.CallInstruction:
				s.genCall(f, ins)
			}
		}
	}
}

func (s *ptSolver) implementers(iface *types.Interface, name string) []*ssa.Function {
	key := iface.String() + "." + name
	if v, ok := s.implCache[key]; ok {
		return v
	}
	var out []*ssa.Function
	for _, fn := range s.allFns {
		if r := fn.Signature.Recv(); r != nil && fn.Name() == name && types.Implements(r.Type(), iface) {
			out = append(out, fn)
		}
	}
	s.implCache[key] = out
	return out
}

func (s *ptSolver) genCall(f *ssa.Function, c ssa.CallInstruction) {
	com := c.Common()
	val := c.Value()
	line := s.L.Fset.Position(c.Pos()).Line
	if bi, ok := com.Value.(*ssa.Builtin); ok {
		switch bi.Name() {
		case "append":
			s.fresh(val, fmt.Sprintf("append:%s@%d", f.Name(), line))
			s.copies = append(s.copies, [2]int{s.node(val), s.node(com.Args[0])})
			if len(com.Args) > 1 {
				s.ccopy = append(s.ccopy, [2]int{s.node(val), s.node(com.Args[1])})
			}
			if !appendCannotWriteInPlace(com.Args[0]) {
				s.sinks = append(s.sinks, ptSink{s.node(com.Args[0]), -1, c.Pos(), "append (may write into the spare capacity of its first operand)", f, c})
			}
		case "copy":
			s.ccopy = append(s.ccopy, [2]int{s.node(com.Args[0]), s.node(com.Args[1])})
			s.sinks = append(s.sinks, ptSink{s.node(com.Args[0]), -1, c.Pos(), "copy destination", f, c})
		case "delete":
			s.sinks = append(s.sinks, ptSink{s.node(com.Args[0]), -1, c.Pos(), "delete", f, c})
		}
		return
	}
	if com.IsInvoke() {
		name := com.Method.Name()
		iface, _ := com.Value.Type().Underlying().(*types.Interface)
		found := false
		if iface != nil {
			for _, fn := range s.implementers(iface, name) {
				found = true
				s.bindCall(c, fn, com.Value)
			}
		}
		var args []int
		args = append(args, s.node(com.Value))
		for _, a := range com.Args {
			args = append(args, s.node(a))
		}
		pk := ""
		if com.Method.Pkg() != nil {
			pk = com.Method.Pkg().Path()
		}
		s.ext = append(s.ext, ptExtCall{fn: f, args: args, pos: c.Pos(), name: "invoke:" + name, pkg: pk, resolved: found})
		if !found && val != nil {
			o := s.fresh(val, "invoke-result:"+name)
			if t, ok := val.Type().(*types.Tuple); ok {
				for i := 0; i < t.Len(); i++ {
					if n := s.comp(val, i); !s.nocarry[n] {
						s.pts[n][o] = struct{}{}
					}
				}
			}
		}
		return
	}
	if callee := com.StaticCallee(); callee != nil {
		if s.inMod(callee) && len(callee.Blocks) > 0 {
			s.bindCall(c, callee, nil)
			return
		}
		pkg := calleePkg(callee)
		cname := callee.Name()
		if i := strings.IndexByte(cname, '['); i >= 0 {
			cname = cname[:i] // instantiation of a generic function
		}
		full := pkg + "." + cname
		var args []int
		for _, a := range com.Args {
			args = append(args, s.node(a))
		}
		s.ext = append(s.ext, ptExtCall{fn: f, callee: callee, args: args, pos: c.Pos(), name: full, pkg: pkg})
		if extMutatesArg0[full] && len(com.Args) > 0 {
			s.sinks = append(s.sinks, ptSink{s.node(com.Args[0]), -1, c.Pos(), "sorted in place by " + full, f, c})
		}
		// function-valued arguments are called back
		for _, a := range com.Args {
			if _, ok := a.Type().Underlying().(*types.Signature); ok {
				var others []int
				for _, b := range com.Args {
					if _, isF := b.Type().Underlying().(*types.Signature); !isF {
						others = append(others, s.node(b))
					}
				}
				s.dyn = append(s.dyn, ptDyn{fnNode: s.node(a), call: nil, bound: map[*ssa.Function]bool{}, extArgs: others})
			}
		}
		if val != nil && extSubSlice(pkg, cname) && len(com.Args) > 0 {
			// the results are sub-slices of the first argument: same objects, nothing new
			if t, ok := val.Type().(*types.Tuple); ok {
				for i := 0; i < t.Len(); i++ {
					if n := s.comp(val, i); !s.nocarry[n] {
						s.copies = append(s.copies, [2]int{n, s.node(com.Args[0])})
					}
				}
			} else {
				s.copies = append(s.copies, [2]int{s.node(val), s.node(com.Args[0])})
			}
			return
		}
		if val != nil {
			o := s.fresh(val, fmt.Sprintf("ext:%s@%d", full, line))
			targets := []int{s.node(val)}
			if t, ok := val.Type().(*types.Tuple); ok {
				for i := 0; i < t.Len(); i++ {
					n := s.comp(val, i)
					targets = append(targets, n)
					if !s.nocarry[n] {
						s.pts[n][o] = struct{}{}
					}
				}
			}
			if !extFreshResult(pkg, cname) {
				argsIn := com.Args
				if extAliasesArg0Only(pkg, cname) && len(argsIn) > 0 {
					argsIn = argsIn[:1] // the result is a sub-slice of the first argument
				}
				for _, a := range argsIn {
					for _, tn := range targets {
						s.copies = append(s.copies, [2]int{tn, s.node(a)})
					}
					s.copies = append(s.copies, [2]int{s.contNode[o], s.node(a)})
				}
			}
		}
		return
	}
	s.dyn = append(s.dyn, ptDyn{fnNode: s.node(com.Value), call: c, bound: map[*ssa.Function]bool{}})
}

// appendCannotWriteInPlace: the first operand is a full slice expression that
// caps the capacity at the length (x[:n:n]), or a fresh empty literal.
func appendCannotWriteInPlace(v ssa.Value) bool {
	switch v := v.(type) {
	case *ssa.Slice:
		if v.Max != nil && v.High != nil && v.Max == v.High {
			return true
		}
		if al, ok := v.X.(*ssa.Alloc); ok && al.Comment == "slicelit" {
			return true
		}
	case *ssa.Const:
		return v.IsNil()
	}
	return false
}

func (s *ptSolver) addAll(dst int, src objset) bool {
	if s.nocarry[dst] {
		return false
	}
	ch := false
	for o := range src {
		if _, ok := s.pts[dst][o]; !ok {
			s.pts[dst][o] = struct{}{}
			ch = true
		}
	}
	return ch
}

func (s *ptSolver) solve() {
	for iter := 0; iter < 10000; iter++ {
		changed := false
		for len(s.work) > 0 {
			f := s.work[len(s.work)-1]
			s.work = s.work[:len(s.work)-1]
			s.gen(f)
			changed = true
		}
		for _, c := range s.copies {
			if s.addAll(c[0], s.pts[c[1]]) {
				changed = true
			}
		}
		for _, c := range s.loads {
			for o := range s.pts[c[1]] {
				if s.addAll(c[0], s.pts[s.contNode[o]]) {
					changed = true
				}
			}
		}
		for _, c := range s.stores {
			for o := range s.pts[c[0]] {
				if s.addAll(s.contNode[o], s.pts[c[1]]) {
					changed = true
				}
			}
		}
		for _, c := range s.kloads {
			for o := range s.pts[c[1]] {
				if s.addAll(c[0], s.pts[s.keyNode[o]]) {
					changed = true
				}
			}
		}
		for _, c := range s.kstores {
			for o := range s.pts[c[0]] {
				if s.addAll(s.keyNode[o], s.pts[c[1]]) {
					changed = true
				}
			}
		}
		for _, c := range s.ccopy {
			for o1 := range s.pts[c[0]] {
				for o2 := range s.pts[c[1]] {
					if s.addAll(s.contNode[o1], s.pts[s.contNode[o2]]) {
						changed = true
					}
				}
			}
		}
		for _, c := range s.rcopies {
			// dst receives everything reachable from src
			if len(s.pts[c[1]]) == 0 {
				continue
			}
			if s.addAll(c[0], s.closure(s.pts[c[1]])) {
				changed = true
			}
		}
		for i := range s.dyn {
			d := &s.dyn[i]
			for o := range s.pts[d.fnNode] {
				fn := s.objFn[o]
				if fn == nil || d.bound[fn] {
					continue
				}
				d.bound[fn] = true
				changed = true
				s.reach(fn)
				if d.call == nil {
					for _, p := range fn.Params {
						for _, an := range d.extArgs {
							s.rcopies = append(s.rcopies, [2]int{s.node(p), an})
						}
					}
				}
				if d.call != nil {
					args := d.call.Common().Args
					for i, p := range fn.Params {
						if i < len(args) {
							s.copies = append(s.copies, [2]int{s.node(p), s.node(args[i])})
						}
					}
					if v := d.call.Value(); v != nil {
						s.bindResults(v, fn)
					}
				}
			}
		}
		if !changed {
			return
		}
	}
}

// closure returns the objects reachable from the given objects through
// contents (and map keys).
func (s *ptSolver) closure(from objset) objset {
	out := objset{}
	var stack []int
	for o := range from {
		stack = append(stack, o)
	}
	for len(stack) > 0 {
		o := stack[len(stack)-1]
		stack = stack[:len(stack)-1]
		if _, ok := out[o]; ok {
			continue
		}
		out[o] = struct{}{}
		for n := range s.pts[s.contNode[o]] {
			stack = append(stack, n)
		}
		for n := range s.pts[s.keyNode[o]] {
			stack = append(stack, n)
		}
	}
	return out
}

func (s *ptSolver) names(set objset) string {
	var ns []string
	for o := range set {
		ns = append(ns, s.objName[o])
	}
	sort.Strings(ns)
	if len(ns) > 6 {
		ns = append(ns[:6], "...")
	}
	return strings.Join(ns, ",")
}

func (s *ptSolver) stats() map[string]int {
	return map[string]int{"functions": len(s.done), "nodes": len(s.pts), "objects": len(s.objName), "constraints": len(s.copies) + len(s.loads) + len(s.stores) + len(s.ccopy) + len(s.kloads) + len(s.kstores), "write_sites": len(s.sinks), "external_calls": len(s.ext)}
}
