package main

// AG — conservation rules on (*Snapshot).Aggregate (DESIGN.md §3.11).

import (
	"fmt"
	"go/token"
	"go/types"
	"strings"

	"golang.org/x/tools/go/ssa"
)

func init() {
	register(&Engine{Name: "AG", Doc: "aggregation partition rules", Run: runAG})
}

// seedStraight executes the straight-line blocks from the entry up to (not
// including) the block upto and returns the resulting environment, so that
// values defined before a loop have readable names.
func seedStraight(fn *ssa.Function, upto *ssa.BasicBlock) map[ssa.Value]*Expr {
	x := &SPE{Fn: fn}
	x.Stop = func(from, to *ssa.BasicBlock) bool { return to == upto }
	x.MaxVisits = 1
	x.Explore()
	if len(x.Paths) != 1 {
		return nil
	}
	// re-run to capture env: explore again with a hook on finish
	env := map[ssa.Value]*Expr{}
	y := &SPE{Fn: fn, MaxVisits: 1}
	y.Stop = func(from, to *ssa.BasicBlock) bool {
		return to == upto
	}
	y.captureEnv = env
	y.Explore()
	return env
}

func loadOf(e *Expr) *Expr {
	if e != nil && (e.Op == OpInit || (e.Op == OpUn && e.Tok == token.MUL)) {
		return e.Args[0]
	}
	return nil
}

func runAG(c *Ctx) (obls []Obl) {
	a := newAgg(c, &obls)
	defer a.flush()
	fn := c.MustFunc(&obls, "AG-once", "stack", "Snapshot", "Aggregate")
	if fn == nil {
		return obls
	}
	exprHome = fn.Pkg.Pkg
	all := naturalLoops(fn)
	outer := outermostLoops(all)
	// fn1: the function holding the find-or-create loop: Aggregate itself, or
	// a helper Aggregate calls once, outside any loop, for the bucket map
	fn1 := fn
	var l1, l2 *loopInfo
	var helperCall *ssa.Call
	switch {
	case len(outer) == 2 && len(all) == 3:
		l1, l2 = outer[0], outer[1]
	case len(outer) == 1 && len(all) == 1:
		for _, b := range fn.Blocks {
			if all[0].Body[b] {
				continue
			}
			for _, in := range b.Instrs {
				call, ok := in.(*ssa.Call)
				if !ok {
					continue
				}
				g := call.Call.StaticCallee()
				if g == nil || g.Pkg != fn.Pkg || g.Blocks == nil {
					continue
				}
				if _, isMap := call.Type().Underlying().(*types.Map); !isMap {
					continue
				}
				ga := naturalLoops(g)
				if go1 := outermostLoops(ga); len(go1) == 1 && len(ga) == 2 {
					if helperCall != nil {
						a.und("AG-once", "Aggregate/loops", "more than one helper builds a map", in.Pos())
						return obls
					}
					helperCall, fn1, l1, l2 = call, g, go1[0], all[0]
				}
			}
		}
	}
	if l1 == nil {
		a.und("AG-once", "Aggregate/loops", fmt.Sprintf("expected the find-or-create loop (with its lookup loop) and the collect loop, found %d outer / %d loops", len(outer), len(all)), fn.Pos())
		return obls
	}
	levelOf := func(f *ssa.Function) string {
		for _, p := range f.Params {
			if strings.HasSuffix(p.Type().String(), "stack.Similarity") {
				return p.Name()
			}
		}
		return ""
	}
	recv := fn.Params[0].Name()
	if helperCall != nil {
		// the helper is given the receiver's goroutines and the caller's level, unchanged
		okG, okL := false, false
		for _, arg := range helperCall.Call.Args {
			if ld, ok := arg.(*ssa.UnOp); ok && ld.Op == token.MUL {
				if fa, ok := ld.X.(*ssa.FieldAddr); ok && addrLast(fa) == "Goroutines" {
					if pr, ok := fa.X.(*ssa.Parameter); ok && pr.Name() == recv {
						okG = true
					}
				}
			}
			if pr, ok := arg.(*ssa.Parameter); ok && pr.Name() == levelOf(fn) && levelOf(fn) != "" {
				okL = true
			}
			if pr, ok := arg.(*ssa.Parameter); ok && pr.Name() == recv {
				okG = true // the whole snapshot is handed over
			}
		}
		if okG && okL {
			a.ok("AG-level", "Aggregate/helper-args", "the grouping helper receives the snapshot's goroutines and the caller's similarity level unchanged", helperCall.Pos())
		} else {
			a.bad("AG-level", "Aggregate/helper-args", fmt.Sprintf("the grouping helper is not called with the receiver's goroutines (ok=%v) and the caller's level (ok=%v)", okG, okL), helperCall.Pos())
		}
	}
	// all map ranges and updates use the same map
	mapFns := []*ssa.Function{fn}
	if fn1 != fn {
		mapFns = []*ssa.Function{fn1, fn}
	}
	for _, f := range mapFns {
		var theMap ssa.Value
		if f == fn && helperCall != nil {
			theMap = helperCall
		}
		for _, b := range f.Blocks {
			for _, in := range b.Instrs {
				if mm, ok := in.(*ssa.MakeMap); ok {
					if theMap != nil {
						a.und("AG-once", "Aggregate/one-map", "more than one map is created", in.Pos())
					}
					theMap = mm
				}
			}
		}
		for _, b := range f.Blocks {
			for _, in := range b.Instrs {
				switch in := in.(type) {
				case *ssa.Range:
					if _, ok := in.X.Type().Underlying().(*types.Map); ok && in.X != theMap {
						a.bad("AG-once", "Aggregate/one-map", "a range is over another map than the bucket map", in.Pos())
					}
				case *ssa.MapUpdate:
					if in.Map != theMap {
						a.bad("AG-once", "Aggregate/one-map", "an update goes to another map than the bucket map", in.Pos())
					}
				case *ssa.Return:
					if f == fn1 && fn1 != fn && (len(in.Results) != 1 || in.Results[0] != theMap) {
						a.bad("AG-once", "Aggregate/one-map", "the grouping helper does not return the bucket map it filled", in.Pos())
					}
				}
			}
		}
		if theMap != nil && f == fn {
			a.ok("AG-once", "Aggregate/one-map", "lookup, insertion, deletion and collection all use the one bucket map", fn.Pos())
		}
	}
	levelParam := levelOf(fn1)
	// every return of Aggregate comes after the collect loop: no path hands
	// out a result that bypasses grouping and collection
	for _, b := range fn.Blocks {
		for _, in := range b.Instrs {
			if ret, ok := in.(*ssa.Return); ok {
				if l2.Header.Dominates(b) {
					a.ok("AG-back", "Aggregate/all-returns", "every return comes after the collect loop", ret.Pos())
				} else {
					a.bad("AG-back", "Aggregate/all-returns", "a return of Aggregate bypasses the grouping and collect loops: its result is not the aggregation of the receiver (it need not refer back to the snapshot, nor hold its buckets)", ret.Pos())
				}
			}
		}
	}

	seed := seedStraight(fn1, l1.Header)
	seg := &SPE{Fn: fn1, Start: l1.Header, MaxVisits: 3, SeedEnv: seed}
	seg.Stop = func(from, to *ssa.BasicBlock) bool {
		return (to == l1.Header && l1.Body[from]) || (l1.Body[from] && !l1.Body[to])
	}
	// the keys of the bucket map are never nil: every insertion uses the
	// address of a new object or the result of merge (a new object: AG-fresh-key).
	// A "found" flag replaced by the matched key itself relies on it.
	keysNonNil := true
	for _, f := range mapFns {
		for _, b := range f.Blocks {
			for _, in := range b.Instrs {
				mu, ok := in.(*ssa.MapUpdate)
				if !ok {
					continue
				}
				switch k := mu.Key.(type) {
				case *ssa.Alloc:
				case *ssa.Call:
					if cal := k.Call.StaticCallee(); cal == nil || cal.Name() != "merge" {
						keysNonNil = false
					}
				default:
					keysNonNil = false
				}
			}
		}
	}
	if keysNonNil {
		seg.Decide = func(atom *Expr, _ *pathState) (bool, bool) {
			if atom.Op == OpBin && atom.Tok == token.EQL && len(atom.Args) == 2 && atom.Args[1].isNilConst() {
				if k := atom.Args[0]; k.Op == OpExtract && k.ID == 1 && k.Args[0].Op == OpNext {
					return false, true
				}
			}
			return false, false
		}
	}
	seg.Explore()
	c.stat("AG", "find_or_create_paths", len(seg.Paths))
	isSimilar := isCallTo(stackPkg, "(*Signature).similar")
	isEqual := isCallTo(stackPkg, "(*Signature).equal")
	isMerge := isCallTo(stackPkg, "(*Signature).merge")
	nIter := 0
	for _, p := range seg.Paths {
		pos := pathPos(p, fn1)
		if !(p.Term == "stop" && p.End == l1.Header) {
			continue // leaves the loop: no goroutine handled
		}
		nIter++
		// the goroutine of this iteration
		var routine *Expr
		for _, ev := range p.Events {
			if ev.Kind == EvIndex && (strings.HasSuffix(ev.Addr.String(), ".Goroutines") || (ev.Addr.Type != nil && strings.HasSuffix(ev.Addr.Type.String(), "stack.Goroutine") && strings.HasPrefix(ev.Addr.Type.String(), "[]*"))) {
				routine = &Expr{Op: OpUn, Tok: token.MUL, Args: []*Expr{{Op: OpIndexAddr, Args: []*Expr{ev.Addr, ev.Val}}}}
				break
			}
		}
		if routine == nil {
			a.und("AG-once", "Aggregate/iteration", "the goroutine of the iteration was not recognised", pos)
			continue
		}
		rs := routine.String()
		idStr := rs + ".ID"
		firstStr := rs + ".First"
		sigAddr := "&" + rs + ".Signature"
		sims := callEvents(p, isSimilar)
		var matched *Expr
		for i, sc := range sims {
			call := sc.Val
			if len(call.Args) != 4 {
				continue
			}
			if call.Args[2].String() != sigAddr {
				a.bad("AG-level", "Aggregate/similar-args", "similar is not asked about the goroutine of this iteration: "+call.String(), sc.Pos)
			}
			if !(call.Args[3].Op == OpParam && call.Args[3].Name == levelParam) {
				a.bad("AG-level", "Aggregate/level", "the lookup does not use the caller's similarity level unchanged: "+call.Args[3].String(), sc.Pos)
			} else {
				a.ok("AG-level", "Aggregate/level", "the lookup uses the caller's level unchanged", sc.Pos)
			}
			if k := call.Args[1]; !(k.Op == OpExtract && k.ID == 1 && k.Args[0].Op == OpNext) {
				a.bad("AG-level", "Aggregate/similar-args", "similar is not applied to a key of the bucket map: "+k.String(), sc.Pos)
			}
			if v, ok := p.lit(call.String()); ok && v {
				if i != len(sims)-1 {
					a.bad("AG-once", "Aggregate/match-ends-lookup", "the lookup continues after a similar key was found: the goroutine can be counted in two buckets", sc.Pos)
				}
				matched = call
			}
		}
		// insertions of this goroutine's ID
		var appends, creates []Event
		var firstStores []Event
		for _, ev := range p.Events {
			switch ev.Kind {
			case EvStore:
				as := ev.Addr.String()
				if strings.HasSuffix(as, ".ids") && ev.Val.Op == OpBuiltin && ev.Val.Name == "append" {
					appends = append(appends, ev)
				}
				if strings.HasSuffix(as, ".first") && !strings.HasPrefix(as, "&complit") {
					firstStores = append(firstStores, ev)
				}
			case EvMapUpd:
				creates = append(creates, ev)
			}
		}
		elemOf := func(app *Expr) string {
			// append(x, varargs[:]) with varargs[0] stored earlier
			if app.Args[1].Op == OpSlice {
				arr := app.Args[1].Args[0].String()
				if v, ok := p.Cells[arr+"[0]"]; ok {
					return v.String()
				}
			}
			return "?"
		}
		if matched != nil {
			key := matched.Args[1]
			cVal := (&Expr{Op: OpExtract, Args: []*Expr{key.Args[0]}, ID: 2}).String()
			okApp := len(appends) == 1 && elemOf(appends[0].Val) == idStr &&
				appends[0].Addr.String() == "&"+cVal+".ids" && appends[0].Val.Args[0].String() == cVal+".ids"
			// creation on a match path?
			created := false
			for _, cr := range creates {
				if cr.Key.Op == OpAlloc {
					created = true
				}
			}
			if okApp && !created {
				a.ok("AG-once", "Aggregate/match", "on a match the goroutine's id is appended once to the matched bucket, and no bucket is created", pos)
			} else {
				a.bad("AG-once", "Aggregate/match", fmt.Sprintf("on a match the id must be appended exactly once to the matched bucket's ids (appends=%d, created=%v)", len(appends), created), pos)
			}
			// first
			okFirst := false
			for _, fs := range firstStores {
				if fs.Addr.String() != "&"+cVal+".first" {
					continue
				}
				cf, have := p.lit(cVal + ".first")
				if v, isC := fs.Val.boolConst(); isC && v && have && cf {
					okFirst = true
				}
				if fs.Val.String() == firstStr && have && !cf {
					okFirst = true
				}
				if fs.Val.Op == OpBin && (fs.Val.Tok == token.OR || fs.Val.Tok == token.LOR) {
					l, r := fs.Val.Args[0].String(), fs.Val.Args[1].String()
					if (l == cVal+".first" && r == firstStr) || (r == cVal+".first" && l == firstStr) {
						okFirst = true
					}
				}
				// if member.First { first = true }
				if mf, have := p.lit(firstStr); have && mf {
					if v, isC := fs.Val.boolConst(); isC && v {
						okFirst = true
					}
				}
			}
			// ... and nothing stored when the member is not the first goroutine: the flag keeps its value
			if !okFirst {
				stored := false
				for _, fs := range firstStores {
					if fs.Addr.String() == "&"+cVal+".first" {
						stored = true
					}
				}
				if mf, have := p.lit(firstStr); !stored && have && !mf {
					okFirst = true
				}
			}
			if okFirst {
				a.ok("AG-first", "Aggregate/match-first", "the bucket's first flag is OR-ed with the member's", pos)
			} else {
				a.bad("AG-first", "Aggregate/match-first", "on a match the bucket's first flag is not set to (first || member.First)", pos)
			}
			// equality gate and re-keying
			var eq *Expr
			for _, e := range callEvents(p, isEqual) {
				if len(e.Val.Args) == 3 && e.Val.Args[1].String() == key.String() && e.Val.Args[2].String() == sigAddr {
					eq = e.Val
				}
			}
			merges := callEvents(p, isMerge)
			var dels []Event
			for _, ev := range p.Events {
				if ev.Kind == EvCall && ev.Val.Op == OpBuiltin && ev.Val.Name == "delete" {
					dels = append(dels, ev)
				}
			}
			var same, haveEq bool
			if eq != nil {
				same, haveEq = p.lit(eq.String())
			}
			// any other undecided condition between the match and the merge decision is suspicious
			switch {
			case !haveEq:
				a.bad("AG-merge", "Aggregate/merge-gate", "a similar member joins the bucket without being compared for equality with the key: a member that differs from the key is not merged into it", pos)
			case same:
				if len(merges) == 0 && len(creates) == 0 && len(dels) == 0 {
					a.ok("AG-rekey", "Aggregate/equal-member", "an equal member leaves the key untouched", pos)
				} else {
					a.bad("AG-rekey", "Aggregate/equal-member", "the map is changed for a member equal to the key", pos)
				}
			default:
				okMerge := len(merges) == 1 && len(merges[0].Val.Args) == 3 && merges[0].Val.Args[1].String() == key.String() && merges[0].Val.Args[2].String() == sigAddr
				okIns := len(creates) == 1 && okMerge && creates[0].Key.String() == merges[0].Val.String() && creates[0].Val.String() == cVal
				okDel := len(dels) == 1 && len(dels[0].Val.Args) == 2 && dels[0].Val.Args[1].String() == key.String()
				if okMerge {
					a.ok("AG-merge", "Aggregate/merge-gate", "a similar-but-not-equal member is always merged into the key", pos)
				} else {
					a.bad("AG-merge", "Aggregate/merge-gate", "a similar-but-not-equal member is not merged into the key (merge(key, member) missing)", pos)
				}
				if okIns && okDel {
					a.ok("AG-rekey", "Aggregate/rekey", "the bucket is re-inserted under the merged key and the old key deleted: reachable under exactly one key", pos)
				} else {
					a.bad("AG-rekey", "Aggregate/rekey", fmt.Sprintf("after a merge the bucket must be inserted under the merged key (ok=%v) and the old key deleted (ok=%v)", okIns, okDel), pos)
				}
			}
			continue
		}
		// no match: the lookup must have run to completion
		complete := false
		for _, lt := range p.Lits {
			if lt.Atom.Op == OpExtract && lt.Atom.ID == 0 && lt.Atom.Args[0].Op == OpNext && !lt.Pol {
				complete = true
			}
		}
		okCreate := false
		if len(creates) == 1 && len(appends) == 0 && creates[0].Key.Op == OpAlloc && creates[0].Val.Op == OpAlloc {
			k, v := creates[0].Key, creates[0].Val
			kn, _ := stripAddr(k.String())
			vn, _ := stripAddr(v.String())
			keyCopy := p.Cells[k.String()]
			ids := p.Cells["&"+vn+".ids"]
			first := p.Cells["&"+vn+".first"]
			_ = kn
			idOK := false
			if ids != nil && ids.Op == OpSlice {
				if e, ok := p.Cells[ids.Args[0].String()+"[0]"]; ok && e.String() == idStr && freshLen(ids) == 1 {
					idOK = true
				}
			}
			if keyCopy != nil && keyCopy.String() == rs+".Signature" && idOK && first != nil && first.String() == firstStr {
				okCreate = true
			}
		}
		if complete && okCreate {
			a.ok("AG-once", "Aggregate/create", "without a similar key a new bucket {copy of the signature, [id], First} is inserted, once", pos)
		} else {
			a.bad("AG-once", "Aggregate/create", fmt.Sprintf("when no key is similar (lookup complete=%v) exactly one new bucket with a copy of the member's signature, ids=[id] and first=member.First must be inserted (creates=%d, appends=%d)", complete, len(creates), len(appends)), pos)
		}
	}
	if nIter == 0 {
		a.und("AG-once", "Aggregate/iteration", "no iteration path found", fn.Pos())
	}
	// collect loop
	seg2 := &SPE{Fn: fn, Start: l2.Header, MaxVisits: 2}
	seg2.Stop = func(from, to *ssa.BasicBlock) bool { return to == l2.Header && l2.Body[from] }
	seg2.Explore()
	c.stat("AG", "collect_paths", len(seg2.Paths))
	for _, p := range seg2.Paths {
		pos := pathPos(p, fn)
		if p.Term == "stop" {
			// one bucket collected
			var next *Expr
			for _, lt := range p.Lits {
				if lt.Atom.Op == OpExtract && lt.Atom.ID == 0 && lt.Atom.Args[0].Op == OpNext && lt.Pol {
					next = lt.Atom.Args[0]
				}
			}
			if next == nil {
				a.und("AG-sorted", "Aggregate/collect", "collect iteration not recognised", pos)
				continue
			}
			sig := (&Expr{Op: OpExtract, Args: []*Expr{next}, ID: 1}).String()
			cv := (&Expr{Op: OpExtract, Args: []*Expr{next}, ID: 2}).String()
			sorted := false
			for _, ev := range callEvents(p, func(e *Expr) bool {
				return e.calleeIs("sort", "Ints") || (e.Op == OpCall && e.Fn != nil && e.Fn.Origin() != nil && calleePkg(e.Fn.Origin()) == "slices" && e.Fn.Origin().Name() == "Sort") || e.calleeIs("slices", "Sort")
			}) {
				if len(ev.Val.Args) == 2 && ev.Val.Args[1].String() == cv+".ids" {
					sorted = true
				}
			}
			var bucket string
			for k := range p.Cells {
				if strings.HasPrefix(k, "&complit") && strings.HasSuffix(k, ".IDs") {
					bucket = strings.TrimSuffix(k, ".IDs")
				}
			}
			get := func(f string) string {
				if v := p.Cells[bucket+"."+f]; v != nil {
					return v.String()
				}
				return ""
			}
			okB := bucket != "" && get("IDs") == cv+".ids" && get("First") == cv+".first" && (get("Signature") == "*("+sig+")" || get("Signature") == "*"+sig)
			appended := false
			var appends []*Expr
			for _, ev := range p.Events {
				if ev.Kind == EvStore && strings.HasSuffix(ev.Addr.String(), "&bs") {
					appends = append(appends, ev.Val)
				}
			}
			// the list may also be a plain local (not captured by the comparator): its new value flows into the loop's phi
			for _, v := range p.StopPhis {
				appends = append(appends, v)
			}
			for _, v := range appends {
				if v != nil && v.Op == OpBuiltin && v.Name == "append" && len(v.Args) == 2 && v.Args[1].Op == OpSlice {
					if e, ok := p.Cells[v.Args[1].Args[0].String()+"[0]"]; ok && e.String() == bucket {
						appended = true
					}
				}
			}
			if sorted {
				a.ok("AG-sorted", "Aggregate/ids-sorted", "every bucket's id list goes through sort.Ints after its last append", pos)
			} else {
				a.bad("AG-sorted", "Aggregate/ids-sorted", "a bucket's ids are not sorted with sort.Ints before being published", pos)
			}
			if okB && appended {
				a.ok("AG-collect", "Aggregate/bucket", "every map entry becomes exactly one Bucket{key signature, its ids, its first flag}", pos)
			} else {
				a.bad("AG-collect", "Aggregate/bucket", fmt.Sprintf("a map entry must become one Bucket{Signature: *key, IDs: c.ids, First: c.first} appended to the result (fields ok=%v, appended=%v; First=%s)", okB, appended, get("First")), pos)
			}
			continue
		}
		if p.Term != "return" || len(p.Results) != 1 {
			continue
		}
		// after the loop: stable sort of bs, then &Aggregated{Snapshot: s, Buckets: bs}
		res := p.Results[0]
		rn, _ := stripAddr(res.String())
		snap := p.Cells["&"+rn+".Snapshot"]
		bk := p.Cells["&"+rn+".Buckets"]
		if res.Op == OpAlloc && snap != nil && snap.Op == OpParam && snap.Name == recv && bk != nil && (strings.HasPrefix(bk.String(), "bs") || strings.Contains(bk.String(), "phi:bs")) {
			a.ok("AG-back", "Aggregate/result", "the aggregation refers back to the snapshot it was made from and carries the collected buckets", pos)
		} else {
			a.bad("AG-back", "Aggregate/result", "the result is not &Aggregated{Snapshot: receiver, Buckets: collected buckets}", pos)
		}
		nSort := 0
		for _, ev := range p.Events {
			if ev.Kind == EvCall && ev.Val.Op == OpCall && ev.Val.Fn != nil {
				fn := ev.Val.Fn
				if fn.Origin() != nil {
					fn = fn.Origin()
				}
				if pk := calleePkg(fn); pk == "sort" || (pk == "slices" && strings.HasPrefix(fn.Name(), "Sort")) {
					nSort++
				}
			}
		}
		if nSort != 1 {
			a.bad("AG-back", "Aggregate/one-sort", fmt.Sprintf("%d sorts of the bucket list", nSort), pos)
		}
	}
	// freshness of merged keys (needed by the re-keying)
	for _, m := range []struct{ recv, why string }{{"Signature", "re-keying deletes the old key after inserting the merged one"}} {
		mf := c.MustFunc(&obls, "AG-fresh-key", "stack", m.recv, "merge")
		if mf == nil {
			continue
		}
		for _, b := range mf.Blocks {
			for _, in := range b.Instrs {
				ret, ok := in.(*ssa.Return)
				if !ok {
					continue
				}
				al, isAlloc := ret.Results[0].(*ssa.Alloc)
				if isAlloc && al.Heap {
					a.ok("AG-fresh-key", "Signature.merge/returns-new", "merge returns a newly allocated signature ("+m.why+")", in.Pos())
				} else {
					a.bad("AG-fresh-key", "Signature.merge/returns-new", "merge can return something else than a new signature (e.g. its receiver): "+m.why+", so the bucket would be lost", in.Pos())
				}
			}
		}
	}
	return obls
}
