package main

// EQ — comparison-only functions decided over their finite quotient
// (DESIGN.md §3.6). similar/equal/merge touch their operands only through
// field loads and comparisons, so each is a decision tree over a handful of
// atoms; the tree extracted from SSA is compared with the reference formula
// for every truth assignment of the atoms.

import (
	"fmt"
	"go/token"
	"go/types"
	"sort"
	"strings"

	"golang.org/x/tools/go/ssa"
)

func init() {
	register(&Engine{Name: "EQ", Doc: "similarity / equality / merge decision trees", Run: runEQ})
}

type eqCtx struct {
	c    *Ctx
	a    *flAgg
	fn   *ssa.Function
	l, r string // operand parameter names
	lvl  string // level parameter name ("" if none)
	cur  string // rendering of the level constant currently substituted
}

// fieldPath returns ("l"|"r", "Func.Complete") for loads of operand fields.
func (q *eqCtx) fieldPath(e *Expr) (side, path string, ok bool) {
	ad := loadOf(e)
	if ad == nil {
		// value-typed field chain: Field(Field(load(x)))
		if e != nil && e.Op == OpField {
			s, p, ok := q.fieldPath(e.Args[0])
			if ok {
				if p == "" {
					return s, e.Name, true
				}
				return s, p + "." + e.Name, true
			}
		}
		return "", "", false
	}
	var sel []string
	for ad != nil && (ad.Op == OpFieldAddr || ad.Op == OpIndexAddr) {
		if ad.Op == OpIndexAddr {
			return "", "", false
		}
		sel = append([]string{ad.Name}, sel...)
		ad = ad.Args[0]
	}
	if ad == nil || ad.Op != OpParam {
		return "", "", false
	}
	switch ad.Name {
	case q.l:
		return "l", strings.Join(sel, "."), true
	case q.r:
		return "r", strings.Join(sel, "."), true
	}
	return "", "", false
}

// addrPath: same for an address expression (&x.F.G).
func (q *eqCtx) addrPath(ad *Expr) (side, path string, ok bool) {
	var sel []string
	for ad != nil && ad.Op == OpFieldAddr {
		sel = append([]string{ad.Name}, sel...)
		ad = ad.Args[0]
	}
	if ad == nil || ad.Op != OpParam {
		return "", "", false
	}
	switch ad.Name {
	case q.l:
		return "l", strings.Join(sel, "."), true
	case q.r:
		return "r", strings.Join(sel, "."), true
	}
	return "", "", false
}

// callName canonicalises a recursive comparison call:
// "Args.similar(l.Args,r.Args,level)".
func (q *eqCtx) callName(e *Expr) (string, bool) {
	if e == nil || e.Op != OpCall || e.Fn == nil {
		return "", false
	}
	var as []string
	for _, a := range e.Args[1:] {
		switch {
		case a.Op == OpParam && a.Name == q.l:
			as = append(as, "l")
		case a.Op == OpParam && a.Name == q.r:
			as = append(as, "r")
		case a.Op == OpParam && a.Name == q.lvl:
			as = append(as, "level")
		case a.isConst() && q.cur != "" && a.String() == q.cur:
			as = append(as, "level")
		case a.isConst():
			as = append(as, a.String())
		default:
			if s, p, ok := q.addrPath(a); ok {
				as = append(as, s+"."+p)
			} else {
				as = append(as, "?"+a.String())
			}
		}
	}
	return shortFn(e.Fn) + "(" + strings.Join(as, ",") + ")", true
}

// atom names a branch atom.
func (q *eqCtx) atom(a *Expr) string {
	if a.Op == OpBin && (a.Tok == token.EQL || a.Tok == token.LSS) {
		s1, p1, ok1 := q.fieldPath(a.Args[0])
		s2, p2, ok2 := q.fieldPath(a.Args[1])
		if ok1 && ok2 {
			if a.Tok == token.EQL && p1 == p2 && s1 != s2 {
				return "eq:" + p1
			}
			return fmt.Sprintf("%s:%s.%s,%s.%s", map[token.Token]string{token.EQL: "eq", token.LSS: "lt"}[a.Tok], s1, p1, s2, p2)
		}
		// len(x.F) == len(y.F)
		if a.Tok == token.EQL && a.Args[0].Op == OpBuiltin && a.Args[0].Name == "len" && a.Args[1].Op == OpBuiltin && a.Args[1].Name == "len" {
			s1, p1, ok1 := q.fieldPath(a.Args[0].Args[0])
			s2, p2, ok2 := q.fieldPath(a.Args[1].Args[0])
			if ok1 && ok2 && p1 == p2 && s1 != s2 {
				return "eqlen:" + p1
			}
		}
	}
	if s, p, ok := q.fieldPath(a); ok {
		return s + ":" + p
	}
	if n, ok := q.callName(a); ok {
		return "call:" + n
	}
	return "?" + a.String()
}

type eqPath struct {
	lits map[string]bool
	out  string
	p    *Path
}

// tree extracts the decision tree of fn with the level parameter fixed.
func (q *eqCtx) tree(level *Expr) ([]eqPath, *SPE) {
	exprHome = q.fn.Pkg.Pkg
	q.cur = ""
	if level != nil {
		q.cur = level.String()
	}
	x := &SPE{Fn: q.fn, MaxVisits: 2}
	x.ParamVal = func(p *ssa.Parameter) *Expr {
		if level != nil && p.Name() == q.lvl {
			return level
		}
		return nil
	}
	x.Explore()
	var out []eqPath
	for _, p := range x.Paths {
		ep := eqPath{lits: map[string]bool{}, p: p}
		for _, l := range p.Lits {
			ep.lits[q.atom(l.Atom)] = l.Pol
		}
		switch {
		case p.Term != "return" || len(p.Results) != 1:
			ep.out = "?" + p.Term
		default:
			r := p.Results[0]
			if v, ok := r.boolConst(); ok {
				ep.out = map[bool]string{true: "T", false: "F"}[v]
			} else if n, ok := q.callName(r); ok {
				ep.out = "call:" + n
			} else {
				at, pol := normAtom(r)
				n := q.atom(at)
				if !pol {
					n = "!" + n
				}
				ep.out = "val:" + n
			}
		}
		out = append(out, ep)
	}
	return out, x
}

// equivalent enumerates all assignments of the atoms.
// ref returns the expected outcome: "T", "F", "call:...", or "val:<atom>" (the
// truth value of that atom).
func eqEquivalent(paths []eqPath, refAtoms []string, feasible func(map[string]bool) bool, ref func(map[string]bool) string) (mismatch string, n int) {
	set := map[string]bool{}
	for _, a := range refAtoms {
		set[a] = true
	}
	for _, p := range paths {
		for a := range p.lits {
			set[a] = true
		}
	}
	atoms := sortedKeysOf(set)
	if len(atoms) > 16 {
		return fmt.Sprintf("too many atoms (%d)", len(atoms)), 0
	}
	for m := 0; m < 1<<len(atoms); m++ {
		asg := map[string]bool{}
		for i, a := range atoms {
			asg[a] = m&(1<<i) != 0
		}
		if feasible != nil && !feasible(asg) {
			continue
		}
		n++
		var hit *eqPath
		cnt := 0
		for i := range paths {
			ok := true
			for a, v := range paths[i].lits {
				if asg[a] != v {
					ok = false
					break
				}
			}
			if ok {
				hit = &paths[i]
				cnt++
			}
		}
		want := ref(asg)
		norm := func(o string) string {
			// val:<atom> resolves to T/F under the assignment
			if strings.HasPrefix(o, "val:") {
				at := o[4:]
				neg := strings.HasPrefix(at, "!")
				at = strings.TrimPrefix(at, "!")
				if v, ok := asg[at]; ok {
					if v != neg {
						return "T"
					}
					return "F"
				}
			}
			// call:<name> resolves to the atom call:<name> when that atom is assigned
			if strings.HasPrefix(o, "call:") {
				if v, ok := asg[o]; ok {
					if v {
						return "T"
					}
					return "F"
				}
			}
			return o
		}
		var as []string
		for _, a := range atoms {
			if asg[a] {
				as = append(as, a)
			}
		}
		if cnt != 1 {
			return fmt.Sprintf("%d paths match the assignment {%s}", cnt, strings.Join(as, ",")), n
		}
		if norm(hit.out) != norm(want) {
			return fmt.Sprintf("with {%s} true (others false) the function yields %s, the reference %s", strings.Join(as, ","), hit.out, want), n
		}
	}
	return "", n
}

// boolFieldConsistency: eq:F <=> (l:F == r:F) for boolean fields.
func boolFieldConsistency(asg map[string]bool) bool {
	for a, v := range asg {
		if strings.HasPrefix(a, "eq:") {
			f := a[3:]
			lv, ok1 := asg["l:"+f]
			rv, ok2 := asg["r:"+f]
			if ok1 && ok2 && v != (lv == rv) {
				return false
			}
		}
	}
	return true
}

func (q *eqCtx) levelConst(name string) *Expr {
	sp := q.c.L.pkg("stack")
	k, _ := sp.Members[name].(*ssa.NamedConst)
	if k == nil {
		return nil
	}
	return &Expr{Op: OpConst, Const: k.Value.Value, Type: k.Type()}
}

var levels = []string{"ExactFlags", "ExactLines", "AnyPointer", "AnyValue"}

func newEq(c *Ctx, a *flAgg, recv, name string, rule string) *eqCtx {
	// an "equal" that no longer exists (equality delegated to similar at the
	// strictest level, the unused method removed) leaves nothing to decide,
	// provided its "similar" sibling is there
	if name == "equal" && c.L.Func("stack", recv, "equal") == nil && c.L.Func("stack", recv, "similar") != nil {
		a.ok(rule, recv+".equal", "no separate equality on this type: equality is similarity at the strictest level (decided there)", token.NoPos)
		return nil
	}
	fn := c.MustFunc(a.obls, rule, "stack", recv, name)
	if fn == nil {
		return nil
	}
	q := &eqCtx{c: c, a: a, fn: fn}
	if len(fn.Params) < 2 {
		a.und(rule, recv+"."+name+"/signature", "unexpected signature", fn.Pos())
		return nil
	}
	q.l, q.r = fn.Params[0].Name(), fn.Params[1].Name()
	if len(fn.Params) > 2 {
		q.lvl = fn.Params[2].Name()
	}
	return q
}

// argSimilarRef is the kernel of the per-level key of one scalar argument
// (refs: property C05 statement).
func argSimilarRef(level string) func(map[string]bool) string {
	return func(v map[string]bool) string {
		if !v["eq:IsAggregate"] {
			return "F"
		}
		if v["l:IsAggregate"] {
			return "call:Args.similar(l.Fields,r.Fields,level)"
		}
		b := func(x bool) string {
			if x {
				return "T"
			}
			return "F"
		}
		switch level {
		case "ExactFlags", "ExactLines":
			return b(v["eq:Name"] && v["eq:IsOffsetTooLarge"] && v["eq:IsPtr"] && v["eq:Value"])
		case "AnyPointer":
			return b(v["eq:IsOffsetTooLarge"] && v["eq:IsPtr"] && (v["l:IsPtr"] || v["eq:Value"]))
		default:
			return "T"
		}
	}
}

func runEQ(c *Ctx) (obls []Obl) {
	a := newAgg(c, &obls)
	defer a.flush()
	total := 0
	// --- Arg.similar per level
	if q := newEq(c, a, "Arg", "similar", "EQ-key"); q != nil {
		for _, lv := range levels {
			k := q.levelConst(lv)
			if k == nil {
				a.und("EQ-key", "level:"+lv, "similarity constant not found", q.fn.Pos())
				continue
			}
			paths, x := q.tree(k)
			if x.Truncated > 0 {
				a.und("EQ-key", "Arg.similar/"+lv, "loop in Arg.similar", q.fn.Pos())
			}
			mm, n := eqEquivalent(paths, []string{"eq:IsAggregate", "l:IsAggregate", "eq:Name", "eq:IsOffsetTooLarge", "eq:IsPtr", "eq:Value", "l:IsPtr"}, boolFieldConsistency, argSimilarRef(lv))
			total += n
			if mm == "" {
				a.ok("EQ-key", "Arg.similar/"+lv, fmt.Sprintf("equals the kernel of the %s key for all %d assignments of the compared fields", lv, n), q.fn.Pos())
			} else {
				a.bad("EQ-key", "Arg.similar/"+lv, "Arg.similar differs from the "+lv+" key: "+mm, q.fn.Pos())
			}
		}
		// an unknown level is never similar
		paths, _ := q.tree(&Expr{Op: OpConst, Const: q.levelConst("AnyValue").Const, Type: q.levelConst("AnyValue").Type})
		_ = paths
	}
	// reference sanity: each key is an equivalence and the levels refine
	eqRefSanity(a, c)
	// --- Arg.equal = Arg.similar(ExactFlags)
	if q := newEq(c, a, "Arg", "equal", "EQ-key"); q != nil {
		paths, _ := q.tree(nil)
		if len(paths) == 1 && paths[0].out == "call:Arg.similar(l,r,ExactFlags)" && len(paths[0].lits) == 0 {
			a.ok("EQ-key", "Arg.equal", "Arg.equal is Arg.similar at ExactFlags", q.fn.Pos())
		} else {
			outs := []string{}
			for _, p := range paths {
				outs = append(outs, p.out)
			}
			a.bad("EQ-key", "Arg.equal", "Arg.equal is not Arg.similar(ExactFlags): "+strings.Join(outs, " | "), q.fn.Pos())
		}
	}
	// --- conjunction-shaped comparisons
	conj := func(recv, name, rule string, atoms []string, lastCall string, perLevel func(lv string) []string) {
		q := newEq(c, a, recv, name, rule)
		if q == nil {
			return
		}
		lvls := []string{""}
		if q.lvl != "" {
			lvls = levels
		}
		if name == "equal" && recv == "Call" && eqDelegates(q, recv) {
			a.ok(rule, recv+"."+name, "Call.equal is Call.similar at ExactFlags, which compares the same fields and the arguments exactly (decided as Call.similar/ExactFlags)", q.fn.Pos())
			return
		}
		for _, lv := range lvls {
			var k *Expr
			if lv != "" {
				k = q.levelConst(lv)
			}
			paths, x := q.tree(k)
			if x.Truncated > 0 {
				a.und(rule, recv+"."+name, "unexpected loop", q.fn.Pos())
			}
			need := append([]string{}, atoms...)
			if perLevel != nil {
				need = append(need, perLevel(lv)...)
			}
			ref := func(v map[string]bool) string {
				for _, at := range need {
					if !v[at] {
						return "F"
					}
				}
				if lastCall != "" {
					return "call:" + lastCall
				}
				return "T"
			}
			mm, n := eqEquivalent(paths, need, boolFieldConsistency, ref)
			total += n
			key := recv + "." + name
			if lv != "" {
				key += "/" + lv
			}
			if mm == "" {
				a.ok(rule, key, fmt.Sprintf("is the conjunction of %v and %s (%d assignments)", need, lastCall, n), q.fn.Pos())
			} else {
				a.bad(rule, key, "differs from the conjunction of "+strings.Join(need, ", ")+" and "+lastCall+": "+mm, q.fn.Pos())
			}
		}
	}
	conj("Call", "similar", "EQ-lift", []string{"eq:Line", "eq:Func.Complete", "eq:RemoteSrcPath"}, "Args.similar(l.Args,r.Args,level)", nil)
	conj("Call", "equal", "EQ-lift", []string{"eq:Line", "eq:Func.Complete", "eq:RemoteSrcPath"}, "Args.equal(l.Args,r.Args)", nil)
	conj("Signature", "similar", "EQ-sig-scalars", []string{"eq:State", "call:Stack.similar(l.CreatedBy,r.CreatedBy,level)"}, "Stack.similar(l.Stack,r.Stack,level)", func(lv string) []string {
		if lv == "ExactFlags" {
			return []string{"eq:Locked"}
		}
		return nil
	})
	conj("Signature", "equal", "EQ-sig-scalars", []string{"eq:State", "call:Stack.equal(l.CreatedBy,r.CreatedBy)", "eq:Locked", "eq:SleepMin", "eq:SleepMax"}, "Stack.equal(l.Stack,r.Stack)", nil)
	// --- pointwise liftings
	eqPointwise(c, a, "Args", "similar", "Values", []string{"eq:Elided", "eqlen:Values"}, "Arg.similar")
	eqPointwise(c, a, "Args", "equal", "Values", []string{"eq:Elided", "eqlen:Values"}, "Arg.equal")
	eqPointwise(c, a, "Stack", "similar", "Calls", []string{"eqlen:Calls", "eq:Elided"}, "Call.similar")
	eqPointwise(c, a, "Stack", "equal", "Calls", []string{"eqlen:Calls", "eq:Elided"}, "Call.equal")
	// --- sleep is never read by similar
	eqNoRead(c, a)
	// --- merge
	eqMerge(c, a)
	c.stat("EQ", "assignments_enumerated", total)
	return obls
}

// eqRefSanity checks, on a small complete model of scalar arguments, that
// each reference key is an equivalence relation and that the levels refine.
func eqRefSanity(a *flAgg, c *Ctx) {
	type arg struct {
		name, val int
		tl, ptr   bool
	}
	var dom []arg
	for n := 0; n < 2; n++ {
		for v := 0; v < 3; v++ {
			for _, tl := range []bool{false, true} {
				for _, p := range []bool{false, true} {
					dom = append(dom, arg{n, v, tl, p})
				}
			}
		}
	}
	sim := func(lv string, x, y arg) bool {
		v := map[string]bool{"eq:IsAggregate": true, "l:IsAggregate": false, "eq:Name": x.name == y.name, "eq:IsOffsetTooLarge": x.tl == y.tl, "eq:IsPtr": x.ptr == y.ptr, "eq:Value": x.val == y.val, "l:IsPtr": x.ptr}
		return argSimilarRef(lv)(v) == "T"
	}
	n := 0
	for li, lv := range levels {
		okE := true
		for _, x := range dom {
			if !sim(lv, x, x) {
				okE = false
			}
			for _, y := range dom {
				if sim(lv, x, y) != sim(lv, y, x) {
					okE = false
				}
				if li+1 < len(levels) && sim(lv, x, y) && !sim(levels[li+1], x, y) {
					a.bad("EQ-key", "reference/refines:"+lv, "the reference key of "+lv+" does not refine "+levels[li+1], token.NoPos)
				}
				for _, z := range dom {
					n++
					if sim(lv, x, y) && sim(lv, y, z) && !sim(lv, x, z) {
						okE = false
					}
				}
			}
		}
		if okE {
			a.ok("EQ-key", "reference/equivalence:"+lv, "the reference key is reflexive, symmetric and transitive on the complete 3-value model of a scalar argument", token.NoPos)
		} else {
			a.bad("EQ-key", "reference/equivalence:"+lv, "the reference key is not an equivalence relation", token.NoPos)
		}
		if li+1 < len(levels) {
			a.ok("EQ-key", "reference/refines:"+lv, "the partition of "+lv+" refines that of "+levels[li+1], token.NoPos)
		}
	}
	c.stat("EQ", "reference_model_triples", n)
}

// eqDelegates: recv.equal is written as `return l.similar(r, ExactFlags)`.
// For Args, Call and Stack, similar at ExactFlags compares exactly what equal
// compares (Arg.equal is Arg.similar(ExactFlags): EQ-key), so the delegation
// is the same function and recv.similar/ExactFlags is what gets decided.
func eqDelegates(q *eqCtx, recv string) bool {
	x := &SPE{Fn: q.fn, MaxVisits: 1}
	x.Explore()
	if len(x.Paths) != 1 || len(x.Paths[0].Lits) != 0 || x.Paths[0].Term != "return" || len(x.Paths[0].Results) != 1 {
		return false
	}
	r := x.Paths[0].Results[0]
	if r.Op != OpCall || r.Fn == nil || shortFn(r.Fn) != recv+".similar" || len(r.Args) != 4 {
		return false
	}
	if r.Args[1].String() != q.l || r.Args[2].String() != q.r {
		return false
	}
	lv, ok := r.Args[3].intConst()
	if !ok {
		return false
	}
	k := q.levelConst("ExactFlags")
	kv, ok2 := k.intConst()
	return ok2 && kv == lv
}

// eqPointwise checks the shape "guards && for all i: elem(a.F[i], r.F[i])".
func eqPointwise(c *Ctx, a *flAgg, recv, name, field string, guards []string, elem string) {
	q := newEq(c, a, recv, name, "EQ-lift")
	if q == nil {
		return
	}
	if name == "equal" && eqDelegates(q, recv) {
		a.ok("EQ-lift", recv+"."+name, recv+".equal is "+recv+".similar at ExactFlags, which compares the same things element by element (decided as "+recv+".similar)", q.fn.Pos())
		return
	}
	exprHome = q.fn.Pkg.Pkg
	x := &SPE{Fn: q.fn, MaxVisits: 3}
	x.Explore()
	key := recv + "." + name
	okAll := true
	why := ""
	fail := func(s string) {
		if okAll {
			why = s
		}
		okAll = false
	}
	nTrue := 0
	for _, p := range x.Paths {
		if p.Term != "return" || len(p.Results) != 1 {
			fail("path does not return")
			continue
		}
		res, isConst := p.Results[0].boolConst()
		if !isConst {
			fail("non-constant result " + p.Results[0].String())
			continue
		}
		// classify literals
		guardTrue := map[string]bool{}
		guardFalse := false
		elemFalse := false
		loopDone := false
		for _, lt := range p.Lits {
			n := q.atom(lt.Atom)
			switch {
			case contains(guards, n):
				if !lt.Pol {
					guardFalse = true
				} else {
					guardTrue[n] = true
				}
			case strings.HasPrefix(n, "?") && lt.Atom.Op == OpBin && lt.Atom.Tok == token.LSS && isLenOf(q, lt.Atom.Args[1], field):
				// loop control: k < len(x.F)
				if !lt.Pol {
					loopDone = true
				}
			case strings.HasPrefix(n, "?") && lt.Atom.Op == OpBin && lt.Atom.Tok == token.EQL && isLenOf(q, lt.Atom.Args[0], field):
				// loop control: len(x.F) == 0
				if z, ok := lt.Atom.Args[1].intConst(); ok && z == 0 && lt.Pol {
					loopDone = true
				}
			case lt.Atom.Op == OpCall && lt.Atom.Fn != nil && shortFn(lt.Atom.Fn) == elem:
				// arguments: element i of l and element i of r, same i
				call := lt.Atom
				i1, ok1 := elemIndex(q, call.Args[1], "l", field, p, call)
				i2, ok2 := elemIndex(q, call.Args[2], "r", field, p, call)
				if !ok1 || !ok2 || i1 != i2 {
					fail("the element comparison is not between the same index of both operands: " + call.String())
				}
				if len(call.Args) == 4 && !(call.Args[3].Op == OpParam && call.Args[3].Name == q.lvl) {
					fail("the level is not passed unchanged to the element comparison")
				}
				if !lt.Pol {
					elemFalse = true
				}
			default:
				fail("unexpected condition " + n)
			}
		}
		if res {
			for _, g := range guards {
				if !guardTrue[g] {
					fail("returns true on a path that never tested " + g + " (" + litsString(p) + ")")
				}
			}
		}
		switch {
		case res && (guardFalse || elemFalse || !loopDone):
			fail("returns true although a guard or an element comparison failed, or before all elements were compared")
		case !res && !(guardFalse || elemFalse):
			fail("returns false although every guard and element comparison held")
		}
		if res {
			nTrue++
		}
	}
	// all guards must actually be tested
	seen := map[string]bool{}
	for _, p := range x.Paths {
		for _, lt := range p.Lits {
			seen[q.atom(lt.Atom)] = true
		}
	}
	for _, g := range guards {
		if !seen[g] {
			fail("guard " + g + " is not tested")
		}
	}
	if nTrue == 0 {
		fail("no path returns true")
	}
	if okAll {
		a.ok("EQ-lift", key, fmt.Sprintf("is %v && for all i: %s(l.%s[i], r.%s[i]) (%d paths, loop unrolled twice)", guards, elem, field, field, len(x.Paths)), q.fn.Pos())
	} else {
		a.bad("EQ-lift", key, "is not the pointwise lifting of "+elem+" under "+strings.Join(guards, ",")+": "+why, q.fn.Pos())
	}
}

func isLenOf(q *eqCtx, e *Expr, field string) bool {
	if e.Op == OpBuiltin && e.Name == "len" && len(e.Args) == 1 {
		_, p, ok := q.fieldPath(e.Args[0])
		return ok && p == field
	}
	return false
}

func contains(xs []string, s string) bool {
	for _, x := range xs {
		if x == s {
			return true
		}
	}
	return false
}

// elemIndex recognises &x.F[i] (or the address of a range copy of x.F[i]).
func elemIndex(q *eqCtx, e *Expr, side, field string, p *Path, call *Expr) (string, bool) {
	if e.Op == OpIndexAddr {
		s, pth, ok := q.fieldPath(e.Args[0])
		if ok && s == side && pth == field {
			return e.Args[1].String(), true
		}
	}
	if e.Op == OpAlloc {
		// range copy: the cell holds x.F[i] at the time of the call
		idx, found := "", false
		for _, ev := range p.Events {
			if (ev.Kind == EvCall || ev.Kind == EvLits) && ev.Val == call {
				break
			}
			if ev.Kind == EvStore && ev.Addr.String() == e.String() {
				found = false
				if ad := loadOf(ev.Val); ad != nil && ad.Op == OpIndexAddr {
					s, pth, ok := q.fieldPath(ad.Args[0])
					if ok && s == side && pth == field {
						idx, found = ad.Args[1].String(), true
					}
				}
			}
		}
		return idx, found
	}
	return "", false
}

// eqNoRead: nothing reachable from Signature.similar reads SleepMin/SleepMax.
func eqNoRead(c *Ctx, a *flAgg) {
	root := c.L.Func("stack", "Signature", "similar")
	if root == nil {
		return
	}
	seen := map[*ssa.Function]bool{}
	var visit func(f *ssa.Function)
	bad := false
	visit = func(f *ssa.Function) {
		if f == nil || seen[f] || f.Blocks == nil {
			return
		}
		seen[f] = true
		for _, b := range f.Blocks {
			for _, in := range b.Instrs {
				switch in := in.(type) {
				case *ssa.FieldAddr:
					st := in.X.Type().Underlying().(*types.Pointer).Elem().Underlying().(*types.Struct)
					if n := st.Field(in.Field).Name(); n == "SleepMin" || n == "SleepMax" {
						bad = true
						a.bad("EQ-noread", funcKey(f)+"/"+n, "the sleep duration is read on the way of deciding similarity: it could separate goroutines", in.Pos())
					}
				case *ssa.Field:
					st := in.X.Type().Underlying().(*types.Struct)
					if n := st.Field(in.Field).Name(); n == "SleepMin" || n == "SleepMax" {
						bad = true
						a.bad("EQ-noread", funcKey(f)+"/"+n, "the sleep duration is read on the way of deciding similarity", in.Pos())
					}
				case ssa.CallInstruction:
					if cal := in.Common().StaticCallee(); cal != nil && cal.Pkg == f.Pkg {
						visit(cal)
					}
				}
			}
		}
	}
	visit(root)
	if !bad {
		var fs []string
		for f := range seen {
			fs = append(fs, funcKey(f))
		}
		sort.Strings(fs)
		a.ok("EQ-noread", "Signature.similar", fmt.Sprintf("no function reachable from Signature.similar reads SleepMin/SleepMax (%d functions)", len(fs)), root.Pos())
	}
}
