package main

// Linear-inequality sets over integer variables with Fourier–Motzkin
// projection: the numeric core of the RB engine (rb.go). A conjunction of
// constraints  Σ a_i·x_i + c >= 0  /  == 0  with int64 coefficients, kept
// normalised (gcd-reduced, constants tightened for integers, one bound per
// direction). Everything here is a sound over-approximation of the integer
// solutions: "infeasible" answers are proofs, "feasible" answers are not.

import (
	"fmt"
	"sort"
	"strings"
)

type rbLin struct {
	co map[string]int64
	c  int64
}

func linConst(c int64) rbLin { return rbLin{co: map[string]int64{}, c: c} }
func linVar(v string) rbLin  { return rbLin{co: map[string]int64{v: 1}} }

func (l rbLin) clone() rbLin {
	m := make(map[string]int64, len(l.co))
	for k, v := range l.co {
		m[k] = v
	}
	return rbLin{co: m, c: l.c}
}

// plus returns l + k·o.
func (l rbLin) plus(o rbLin, k int64) rbLin {
	r := l.clone()
	for v, a := range o.co {
		r.co[v] += k * a
		if r.co[v] == 0 {
			delete(r.co, v)
		}
	}
	r.c += k * o.c
	return r
}

func (l rbLin) scale(k int64) rbLin { return linConst(0).plus(l, k) }
func (l rbLin) addc(c int64) rbLin  { r := l.clone(); r.c += c; return r }

func (l rbLin) vars() []string {
	vs := make([]string, 0, len(l.co))
	for v := range l.co {
		vs = append(vs, v)
	}
	sort.Strings(vs)
	return vs
}

func (l rbLin) dir() string {
	var sb strings.Builder
	for _, v := range l.vars() {
		fmt.Fprintf(&sb, "%+d*%s ", l.co[v], v)
	}
	return sb.String()
}

func (l rbLin) String() string {
	var sb strings.Builder
	for _, v := range l.vars() {
		a := l.co[v]
		switch {
		case a == 1:
			sb.WriteString("+" + v)
		case a == -1:
			sb.WriteString("-" + v)
		default:
			fmt.Fprintf(&sb, "%+d%s", a, v)
		}
	}
	if l.c != 0 || len(l.co) == 0 {
		fmt.Fprintf(&sb, "%+d", l.c)
	}
	return strings.TrimPrefix(sb.String(), "+")
}

func (l rbLin) rename(f func(string) string) rbLin {
	r := linConst(l.c)
	for v, a := range l.co {
		r.co[f(v)] += a
	}
	return r
}

type rbCons struct {
	l  rbLin
	eq bool
}

func (c rbCons) String() string {
	if c.eq {
		return c.l.String() + " == 0"
	}
	return c.l.String() + " >= 0"
}

type rbPoly struct {
	cs       []rbCons
	bot      bool
	overflow bool // a coefficient left the safe range: results are unusable
}

func (p *rbPoly) clone() *rbPoly {
	q := &rbPoly{bot: p.bot, overflow: p.overflow, cs: make([]rbCons, len(p.cs))}
	copy(q.cs, p.cs) // rbLin values are treated as immutable
	return q
}

func gcd64(a, b int64) int64 {
	if a < 0 {
		a = -a
	}
	if b < 0 {
		b = -b
	}
	for b != 0 {
		a, b = b, a%b
	}
	return a
}

func floorDiv(a, b int64) int64 { // b > 0
	q := a / b
	if a%b != 0 && a < 0 {
		q--
	}
	return q
}

const rbCoefLimit = 1 << 40

// norm reduces a constraint; ok=false means it is trivially true (drop),
// bot=true that it is trivially false.
func (p *rbPoly) norm(c rbCons) (out rbCons, keep bool) {
	var g int64
	for v, a := range c.l.co {
		if a == 0 {
			delete(c.l.co, v)
			continue
		}
		if a > rbCoefLimit || a < -rbCoefLimit {
			p.overflow = true
		}
		g = gcd64(g, a)
	}
	if c.l.c > rbCoefLimit*1024 || c.l.c < -rbCoefLimit*1024 {
		p.overflow = true
	}
	if g == 0 {
		if (c.eq && c.l.c != 0) || (!c.eq && c.l.c < 0) {
			p.bot = true
		}
		return c, false
	}
	if g > 1 {
		l := linConst(0)
		for v, a := range c.l.co {
			l.co[v] = a / g
		}
		if c.eq {
			if c.l.c%g != 0 {
				p.bot = true
				return c, false
			}
			l.c = c.l.c / g
		} else {
			l.c = floorDiv(c.l.c, g)
		}
		c.l = l
	}
	if c.eq {
		// canonical sign: first variable positive
		vs := c.l.vars()
		if c.l.co[vs[0]] < 0 {
			c.l = c.l.scale(-1)
		}
	}
	return c, true
}

func (p *rbPoly) add(c rbCons) {
	if p.bot {
		return
	}
	c.l = c.l.clone()
	c, keep := p.norm(c)
	if !keep {
		return
	}
	p.cs = append(p.cs, c)
}

func (p *rbPoly) ge(l rbLin) { p.add(rbCons{l: l}) }           // l >= 0
func (p *rbPoly) eq(l rbLin) { p.add(rbCons{l: l, eq: true}) } // l == 0

// tidy keeps one (the tightest) bound per direction and detects directly
// contradictory pairs.
func (p *rbPoly) tidy() {
	if p.bot {
		p.cs = nil
		return
	}
	best := map[string]int{}
	var out []rbCons
	for _, c := range p.cs {
		k := c.l.dir()
		if c.eq {
			k = "=" + k
		}
		if i, ok := best[k]; ok {
			if c.eq {
				if out[i].l.c != c.l.c {
					p.bot = true
					p.cs = nil
					return
				}
			} else if c.l.c < out[i].l.c {
				out[i] = c
			}
			continue
		}
		best[k] = len(out)
		out = append(out, c)
	}
	// l + c1 >= 0 and -l + c2 >= 0 with c1 + c2 < 0 is empty
	for _, c := range out {
		if c.eq {
			continue
		}
		if j, ok := best[c.l.scale(-1).dir()]; ok && !out[j].eq && out[j].l.c+c.l.c < 0 {
			p.bot = true
			p.cs = nil
			return
		}
	}
	p.cs = out
}

func (p *rbPoly) allVars() []string {
	set := map[string]bool{}
	for _, c := range p.cs {
		for v := range c.l.co {
			set[v] = true
		}
	}
	vs := make([]string, 0, len(set))
	for v := range set {
		vs = append(vs, v)
	}
	sort.Strings(vs)
	return vs
}

// eliminate projects the variable away.
func (p *rbPoly) eliminate(v string) {
	if p.bot {
		return
	}
	// an equality mentioning v: substitute
	ei := -1
	for i, c := range p.cs {
		if c.eq && c.l.co[v] != 0 {
			if ei < 0 || abs64(c.l.co[v]) < abs64(p.cs[ei].l.co[v]) {
				ei = i
			}
		}
	}
	old := p.cs
	p.cs = nil
	if ei >= 0 {
		e := old[ei]
		a := e.l.co[v]
		sa := int64(1)
		if a < 0 {
			sa = -1
		}
		for i, c := range old {
			if i == ei {
				continue
			}
			b := c.l.co[v]
			if b == 0 {
				p.cs = append(p.cs, c)
				continue
			}
			// |a|·c − (b·sign a)·e  has no v
			n := c.l.scale(abs64(a)).plus(e.l, -b*sa)
			delete(n.co, v)
			p.add(rbCons{l: n, eq: c.eq})
			if p.bot {
				return
			}
		}
		if abs64(a) != 1 {
			// v = −rest/a must be an integer: not representable; dropping it is sound
		}
		p.tidy()
		return
	}
	var pos, neg []rbCons
	for _, c := range old {
		b := c.l.co[v]
		switch {
		case b == 0:
			p.cs = append(p.cs, c)
		case b > 0:
			pos = append(pos, c)
		default:
			neg = append(neg, c)
		}
	}
	if len(pos)*len(neg) > 4000 {
		// giving up bounds is sound (weaker state), never a proof
		p.tidy()
		return
	}
	for _, a := range pos {
		for _, b := range neg {
			n := a.l.scale(-b.l.co[v]).plus(b.l, a.l.co[v])
			delete(n.co, v)
			p.add(rbCons{l: n})
			if p.bot {
				return
			}
		}
	}
	p.tidy()
}

func abs64(a int64) int64 {
	if a < 0 {
		return -a
	}
	return a
}

// pickVar chooses the cheapest variable to eliminate next.
func (p *rbPoly) pickVar(skip map[string]bool) (string, bool) {
	type cnt struct{ eq, pos, neg int }
	m := map[string]*cnt{}
	for _, c := range p.cs {
		for v, a := range c.l.co {
			if skip[v] {
				continue
			}
			k := m[v]
			if k == nil {
				k = &cnt{}
				m[v] = k
			}
			switch {
			case c.eq:
				k.eq++
			case a > 0:
				k.pos++
			default:
				k.neg++
			}
		}
	}
	best, bestCost := "", 1<<62
	vs := make([]string, 0, len(m))
	for v := range m {
		vs = append(vs, v)
	}
	sort.Strings(vs)
	for _, v := range vs {
		k := m[v]
		cost := k.pos*k.neg - k.pos - k.neg
		if k.eq > 0 {
			cost = -1000
		}
		if cost < bestCost {
			best, bestCost = v, cost
		}
	}
	return best, best != ""
}

// project keeps only the given variables.
func (p *rbPoly) project(keep map[string]bool) *rbPoly {
	q := p.clone()
	q.tidy()
	for !q.bot {
		v, ok := q.pickVar(keep)
		if !ok {
			break
		}
		q.eliminate(v)
	}
	return q
}

func (p *rbPoly) feasible() bool {
	if p.bot {
		return false
	}
	q := p.project(nil)
	return !q.bot
}

// entails reports whether every integer point of p satisfies l >= 0.
func (p *rbPoly) entails(l rbLin) bool {
	if p.bot {
		return true
	}
	q := p.clone()
	q.ge(l.scale(-1).addc(-1))
	return !q.feasible() && !q.overflow
}

// minOf returns the greatest proven lower bound of l over p.
func (p *rbPoly) minOf(l rbLin) (int64, bool) {
	if p.bot {
		return 0, false
	}
	q := p.clone()
	const z = "$z"
	q.eq(linVar(z).plus(l, -1))
	r := q.project(map[string]bool{z: true})
	if r.bot || r.overflow {
		return 0, false
	}
	have := false
	var lb int64
	for _, c := range r.cs {
		a := c.l.co[z]
		if a == 0 {
			continue
		}
		// a·z + c >= 0  (or == 0)
		var b int64
		switch {
		case a > 0:
			b = -floorDiv(c.l.c, a) // z >= ceil(-c/a)
		case c.eq:
			b = -floorDiv(-c.l.c, -a)
		default:
			continue
		}
		if !have || b > lb {
			have, lb = true, b
		}
	}
	return lb, have
}

func (p *rbPoly) String() string {
	if p.bot {
		return "⊥"
	}
	ss := make([]string, len(p.cs))
	for i, c := range p.cs {
		ss[i] = c.String()
	}
	sort.Strings(ss)
	return strings.Join(ss, " ∧ ")
}

// ---------------------------------------------------------------------
// Octahedra: for a small variable set, one lower bound per direction with
// coefficients in {−1,0,1} (at most rbMaxNZ non-zero).

const rbMaxNZ = 3

type rbOct struct {
	vars  []string
	lb    map[string]int64 // direction key -> bound:  dir − lb >= 0
	dirs  map[string]rbLin
	relax map[string]int
	bot   bool
}

func rbDirections(vars []string) []rbLin {
	var out []rbLin
	var rec func(i int, cur rbLin, nz int)
	rec = func(i int, cur rbLin, nz int) {
		if i == len(vars) {
			if nz > 0 {
				out = append(out, cur.clone())
			}
			return
		}
		rec(i+1, cur, nz)
		if nz < rbMaxNZ {
			for _, a := range []int64{1, -1} {
				n := cur.clone()
				n.co[vars[i]] = a
				rec(i+1, n, nz+1)
			}
		}
	}
	rec(0, linConst(0), 0)
	// four-variable directions only for "difference now vs difference at entry":
	// ±((a − b) − (0a − 0b))
	has := map[string]bool{}
	for _, v := range vars {
		has[v] = true
	}
	for i, a := range vars {
		for _, b := range vars[i+1:] {
			if strings.HasPrefix(a, "0") || strings.HasPrefix(b, "0") || !has["0"+a] || !has["0"+b] {
				continue
			}
			d := rbLin{co: map[string]int64{a: 1, b: -1, "0" + a: -1, "0" + b: 1}}
			out = append(out, d, d.scale(-1))
		}
	}
	return out
}

// octOf abstracts p to the octahedron over vars.
func octOf(p *rbPoly, vars []string) *rbOct {
	o := &rbOct{vars: vars, lb: map[string]int64{}, dirs: map[string]rbLin{}, relax: map[string]int{}}
	keep := map[string]bool{}
	for _, v := range vars {
		keep[v] = true
	}
	q := p.project(keep)
	if q.bot {
		o.bot = true
		return o
	}
	for _, d := range rbDirections(vars) {
		if b, ok := q.minOf(d); ok {
			k := d.dir()
			o.lb[k] = b
			o.dirs[k] = d
		}
	}
	return o
}

func (o *rbOct) poly() *rbPoly {
	p := &rbPoly{}
	if o.bot {
		p.bot = true
		return p
	}
	// Irredundant presentation: a bound is dropped when it is the sum (or
	// half the sum) of two bounds that are kept; processed from the widest
	// direction to the narrowest, each removal is justified by constraints
	// kept at that moment, so no circular justification is possible.
	keys := sortedKeysOf(o.lb)
	sort.SliceStable(keys, func(i, j int) bool { return len(o.dirs[keys[i]].co) > len(o.dirs[keys[j]].co) })
	kept := map[string]bool{}
	for _, k := range keys {
		kept[k] = true
	}
	small := func(l rbLin) bool {
		if len(l.co) == 0 {
			return false
		}
		for _, a := range l.co {
			if a < -1 || a > 1 {
				return false
			}
		}
		return true
	}
	for _, k := range keys {
		d, lb := o.dirs[k], o.lb[k]
		red := false
		for _, k1 := range keys {
			if k1 == k || !kept[k1] {
				continue
			}
			for _, mult := range []int64{1, 2} {
				d2 := d.scale(mult).plus(o.dirs[k1], -1)
				if !small(d2) {
					continue
				}
				k2 := d2.dir()
				if k2 == k || !kept[k2] {
					continue
				}
				if lb2, ok := o.lb[k2]; ok && o.lb[k1]+lb2 >= mult*lb {
					red = true
				}
			}
			if red {
				break
			}
		}
		if red {
			kept[k] = false
		}
	}
	for _, k := range keys {
		if !kept[k] {
			continue
		}
		d, lb := o.dirs[k], o.lb[k]
		nk := d.scale(-1).dir()
		if nlb, ok := o.lb[nk]; ok && kept[nk] && nlb == -lb {
			if k < nk {
				p.eq(d.addc(-lb))
			}
			continue
		}
		p.ge(d.addc(-lb))
	}
	p.tidy()
	return p
}

// joinWiden merges an incoming octahedron; after two relaxations a direction
// is given up (widening). Returns true when o changed.
func (o *rbOct) joinWiden(in *rbOct) bool {
	if in.bot {
		return false
	}
	if o.relax == nil {
		o.relax = map[string]int{}
	}
	if o.bot {
		o.bot = false
		o.lb, o.dirs = map[string]int64{}, map[string]rbLin{}
		for k, b := range in.lb {
			o.lb[k], o.dirs[k] = b, in.dirs[k]
		}
		return true
	}
	changed := false
	for k, b := range o.lb {
		nb, ok := in.lb[k]
		switch {
		case ok && nb >= b:
		case ok && o.relax[k] < 2:
			o.lb[k] = nb
			o.relax[k]++
			changed = true
		default:
			delete(o.lb, k)
			changed = true
		}
	}
	return changed
}

func (o *rbOct) String() string {
	if o.bot {
		return "⊥"
	}
	// only the irredundant-looking part: unary and binary bounds plus the rest that are not implied
	p := o.poly()
	var ss []string
	for _, c := range p.cs {
		if len(c.l.co) <= 2 {
			ss = append(ss, c.String())
		}
	}
	base := &rbPoly{}
	for _, c := range p.cs {
		if len(c.l.co) <= 2 {
			base.cs = append(base.cs, c)
		}
	}
	for _, c := range p.cs {
		if len(c.l.co) > 2 && !base.entails(c.l) {
			ss = append(ss, c.String())
		}
	}
	sort.Strings(ss)
	return strings.Join(ss, " ∧ ")
}

func (o *rbOct) key() string {
	if o.bot {
		return "⊥"
	}
	var sb strings.Builder
	for _, k := range sortedKeysOf(o.lb) {
		fmt.Fprintf(&sb, "%s>=%d;", k, o.lb[k])
	}
	return sb.String()
}
