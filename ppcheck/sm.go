package main

// SM — scanner state-machine extraction and typestate (DESIGN.md §3.2).
//
// The transition relation of (*scanningState).scan is extracted by
// enumerating, for every constant of type `state` and every abstract
// configuration of the scanner fields, the SSA paths of scan with the state
// cell folded. Rules are then decided over the finite relation.

import (
	"encoding/json"
	"fmt"
	"go/constant"
	"go/token"
	"go/types"
	"os"
	"path/filepath"
	"regexp/syntax"
	"sort"
	"strings"

	"golang.org/x/tools/go/ssa"
)

func init() {
	register(&Engine{Name: "SM", Doc: "scanner state machine", Run: runSM})
}

// smConfig is an abstract configuration of the scanner between two calls.
type smConfig struct {
	State string
	Gne   bool // s.Goroutines non-empty (false: nil)
	Pne   bool // s.prefix non-empty
	C     bool // last goroutine's Stack.Calls non-empty
	B     bool // last goroutine's CreatedBy.Calls has >= 1 element
	I     bool // 0 <= goroutineIndex < len(Goroutines)
	R     bool // Goroutines[goroutineIndex].CreatedBy.Calls non-empty
}

func (c smConfig) String() string {
	f := func(b bool, s string) string {
		if b {
			return s
		}
		return "-"
	}
	return fmt.Sprintf("%s[%s%s%s%s%s%s]", c.State, f(c.Gne, "G"), f(c.Pne, "P"), f(c.C, "C"), f(c.B, "B"), f(c.I, "I"), f(c.R, "R"))
}

// smTrans is one path of scan from one configuration.
type smTrans struct {
	From     smConfig
	Lits     map[string]bool // canonical atom -> polarity
	LitOrder []string
	To       string
	Consumed string
	Err      string
	Effects  []string
	Term     string
	Next     []smConfig
	Problems []smProblem // typestate problems on this path
	Path     *Path
	InLoop   map[string]bool
}

type smProblem struct {
	Rule, Key, Msg string
	Pos            token.Pos
}

func (t *smTrans) guard() string {
	var g []string
	for _, a := range t.LitOrder {
		if strings.HasPrefix(a, "loop:") {
			continue
		}
		if t.Lits[a] {
			g = append(g, a)
		} else {
			g = append(g, "!"+a)
		}
	}
	return strings.Join(g, ",")
}

func (t *smTrans) String() string {
	return fmt.Sprintf("%s --[%s]--> %s consumed=%s err=%s effects=%v", t.From, t.guard(), t.To, t.Consumed, t.Err, t.Effects)
}

// scanModel holds everything resolved about scan.
type scanModel struct {
	c        *Ctx
	fn       *ssa.Function
	lineP    *ssa.Parameter
	recvP    *ssa.Parameter
	states   map[int64]string
	stateVal map[string]int64
	stateT   types.Type
	trans    []*smTrans
	reach    map[smConfig]bool
	order    []smConfig
	truncated int
	ambiguous []string
	cfgP      bool // the configuration being summarised has an indentation prefix
	l0Blank   bool // ... and on this path the line is empty: nothing to remove, L0 is L
	ref       *refAutomaton
	infeasible int
}

const (
	gorStr = "s.Snapshot.Goroutines"
	curStr = "s.Snapshot.Goroutines[(len(s.Snapshot.Goroutines) - 1)]"
)

func buildScanModel(c *Ctx, obls *[]Obl) *scanModel {
	fn := c.MustFunc(obls, "SM-ref", "stack", "scanningState", "scan")
	if fn == nil {
		return nil
	}
	m := &scanModel{c: c, fn: fn, states: map[int64]string{}, stateVal: map[string]int64{}, reach: map[smConfig]bool{}}
	if len(fn.Params) != 2 {
		*obls = append(*obls, Obl{Rule: "SM-ref", Key: "anchor:scan-signature", Status: Undecided, Msg: "scan no longer has (receiver, line) parameters"})
		return nil
	}
	m.recvP, m.lineP = fn.Params[0], fn.Params[1]
	sp := c.L.pkg("stack")
	st := sp.Type("state")
	if st == nil {
		*obls = append(*obls, Obl{Rule: "SM-ref", Key: "anchor:type-state", Status: Undecided, Msg: "type state not found"})
		return nil
	}
	m.stateT = st.Type()
	sc := sp.Pkg.Scope()
	for _, n := range sc.Names() {
		if k, ok := sc.Lookup(n).(*types.Const); ok && types.Identical(k.Type(), m.stateT) {
			v, _ := constant.Int64Val(k.Val())
			m.states[v] = k.Name()
			m.stateVal[k.Name()] = v
		}
	}
	if _, ok := m.stateVal["looking"]; !ok {
		*obls = append(*obls, Obl{Rule: "SM-ref", Key: "anchor:state-looking", Status: Undecided, Msg: "constant looking not found"})
		return nil
	}
	return m
}

// isLine: expression derived from the line parameter by slicing.
func (m *scanModel) isLine(e *Expr) bool {
	for e != nil {
		switch e.Op {
		case OpParam:
			return e.Name == m.lineP.Name()
		case OpSlice:
			e = e.Args[0]
		default:
			return false
		}
	}
	return false
}

// stripped: the line expression has had the indentation prefix cut off (a
// slice whose low bound is len(s.prefix)).
func (m *scanModel) stripped(e *Expr) bool {
	for e != nil && e.Op == OpSlice {
		if lo := e.Args[1]; lo != nil && strings.Contains(lo.String(), "s.prefix") {
			return true
		}
		e = e.Args[0]
	}
	return false
}

// lineName: "L" for the line the states classify (after the indentation
// prefix, if any, has been removed), "L0" for the line with its indentation
// still on in a configuration where there is one.
func (m *scanModel) lineName(e *Expr) string {
	if !m.isLine(e) {
		return ""
	}
	if m.cfgP && !m.l0Blank && !m.stripped(e) {
		return "L0"
	}
	return "L"
}

// isBlank0 recognises len(line with its indentation on) == 0.
func (m *scanModel) isBlank0(a *Expr) bool {
	if a.Op != OpBin || a.Tok != token.EQL {
		return false
	}
	if z, ok := a.Args[1].intConst(); !ok || z != 0 {
		return false
	}
	l := a.Args[0]
	return l.Op == OpBuiltin && l.Name == "len" && len(l.Args) == 1 && m.cfgP && m.isLine(l.Args[0]) && !m.stripped(l.Args[0])
}

func (m *scanModel) hook(e *Expr) (string, bool) {
	if n := m.lineName(e); n != "" {
		return n, true
	}
	if e.calleeIs(modPath+"/stack", "trimLeftSpace") && len(e.Args) == 2 && m.lineName(e.Args[1]) == "L" {
		return "L", true // leading blanks of race report lines are not significant for the line kind
	}
	if e.Op == OpInit || (e.Op == OpUn && e.Tok == token.MUL) {
		if e.String() == curStr {
			return "cur", true
		}
	}
	return "", false
}

// submatchOf returns the regexp global whose FindSubmatch on the line
// produced e, or "".
func (m *scanModel) submatchOf(e *Expr) (glob string, subject *Expr) {
	if e != nil && e.Op == OpCall && (e.calleeIs("regexp", "(*Regexp).FindSubmatch") || e.calleeIs("regexp", "(*Regexp).FindStringSubmatch")) && len(e.Args) == 3 {
		if g := e.Args[1].globalLoaded(); g != nil {
			return g.Name(), e.Args[2]
		}
	}
	return "", nil
}

// atomName gives the canonical vocabulary name of a branch atom and whether
// the name has the opposite polarity of the atom.
func (m *scanModel) atomName(a *Expr) (name string, flip bool) {
	subj := func(x *Expr) string {
		if s, ok := m.hook(x); ok && s == "L" {
			return ""
		}
		if isItem(x) {
			return "(item)"
		}
		return "(" + x.Canon(m.hook) + ")"
	}
	if _, ok := m.idMatchAtom(a); ok {
		return "id-match", false
	}
	if a.Op == OpBin && a.Tok == token.LSS {
		if _, ok := a.Args[0].intConst(); ok {
			if l := a.Args[1]; l.Op == OpBuiltin && l.Name == "len" && len(l.Args) == 1 {
				x := l.Args[0]
				switch {
				case strings.HasPrefix(x.String(), gorStr) || strings.HasPrefix(x.String(), "append("+gorStr):
					return "loop:goroutines", false
				case x.calleeIs("bytes", "Split") || isItemsTail(x):
					return "loop:items", false
				}
				return "loop:" + x.Canon(m.hook), false
			}
		}
	}
	switch {
	case a.Op == OpBin && a.Tok == token.EQL && a.Args[1].isNilConst():
		if g, s := m.submatchOf(a.Args[0]); g != "" {
			return "m:" + g + subj(s), true
		}
		// extract#1(call) == nil  -> errnil:callee
		if x := a.Args[0]; x.Op == OpExtract && x.Args[0].Op == OpCall && x.Args[0].Fn != nil {
			return "errnil:" + shortFn(x.Args[0].Fn), false
		}
		if x := a.Args[0]; x.Op == OpCall && x.Fn != nil {
			return "errnil:" + shortFn(x.Fn), false
		}
	case a.Op == OpCall && (a.calleeIs("regexp", "(*Regexp).Match") || a.calleeIs("regexp", "(*Regexp).MatchString")) && len(a.Args) == 3:
		if g := a.Args[1].globalLoaded(); g != nil {
			return "m:" + g.Name() + subj(a.Args[2]), false
		}
	case a.Op == OpCall && a.calleeIs("bytes", "Equal") && len(a.Args) == 3:
		l, r := a.Args[1], a.Args[2]
		if g := r.globalLoaded(); g != nil {
			return "eq:" + g.Name() + subj(l), false
		}
		if g := l.globalLoaded(); g != nil {
			return "eq:" + g.Name() + subj(r), false
		}
	case a.Op == OpCall && a.calleeIs("bytes", "HasSuffix") && len(a.Args) == 3:
		if g := a.Args[2].globalLoaded(); g != nil && a.Args[1].Op == OpParam {
			return "eol:" + g.Name(), false
		}
	case a.Op == OpCall && a.calleeIs("bytes", "HasPrefix") && len(a.Args) == 3:
		if m.isLine(a.Args[1]) && strings.HasSuffix(a.Args[2].String(), "s.prefix") {
			return "indent-ok", false
		}
	case a.Op == OpBin && a.Tok == token.EQL:
		if z, ok := a.Args[1].intConst(); ok && z == 0 {
			if l := a.Args[0]; l.Op == OpBuiltin && l.Name == "len" && len(l.Args) == 1 {
				if m.isBlank0(a) {
					return "blank0", false
				}
				if s, ok := m.hook(l.Args[0]); ok && s == "L" {
					return "blank", false
				}
			}
		}
	case a.Op == OpExtract && a.Args[0].Op == OpCall && a.Args[0].Fn != nil:
		call := a.Args[0]
		fn := shortFn(call.Fn)
		if fn == "atou" && len(call.Args) == 2 {
			// atou(match[k])
			if ix := call.Args[1]; ix.Op == OpInit || ix.Op == OpUn {
				if ia := ix.Args[0]; ia.Op == OpIndexAddr {
					if g, _ := m.submatchOf(ia.Args[0]); g != "" {
						return fmt.Sprintf("ok:atou(%s,%s)", g, ia.Args[1].String()), false
					}
				}
			}
		}
		// the "found" result is the boolean one, wherever it stands in the tuple
		isBool := false
		if a.Type != nil {
			if bt, ok := a.Type.Underlying().(*types.Basic); ok && bt.Kind() == types.Bool {
				isBool = true
			}
		}
		if a.ID == 0 || isBool {
			return "found:" + fn, false
		}
		return fmt.Sprintf("%s#%d", fn, a.ID), false
	case a.Op == OpCall && a.Fn != nil && a.Fn.Pkg != nil && a.Fn.Pkg.Pkg.Path() == modPath+"/stack":
		return "is:" + shortFn(a.Fn), false
	}
	return a.Canon(m.hook), false
}

// isItem: element k >= 1 of the comma separated header items.
func isItem(x *Expr) bool {
	if x.Op == OpInit || (x.Op == OpUn && x.Tok == token.MUL) {
		if ia := x.Args[0]; ia.Op == OpIndexAddr && (ia.Args[0].calleeIs("bytes", "Split") || isItemsTail(ia.Args[0])) {
			return true
		}
	}
	return false
}

// idMatchAtom recognises "parsed id == s.Goroutines[k].ID".
func (m *scanModel) idMatchAtom(a *Expr) (k int64, ok bool) {
	if a.Op != OpBin || a.Tok != token.EQL {
		return 0, false
	}
	for i := 0; i < 2; i++ {
		g, id := a.Args[i], a.Args[1-i]
		if !(id.Op == OpExtract && id.ID == 0 && id.Args[0].Op == OpCall && id.Args[0].Fn != nil && shortFn(id.Args[0].Fn) == "atou") {
			continue
		}
		// g: load(&(load(&G[k])).ID)
		if g.Op != OpInit && !(g.Op == OpUn && g.Tok == token.MUL) {
			continue
		}
		fa := g.Args[0]
		if fa.Op != OpFieldAddr || fa.Name != "ID" {
			continue
		}
		p := fa.Args[0]
		if p.Op != OpInit && !(p.Op == OpUn && p.Tok == token.MUL) {
			continue
		}
		ia := p.Args[0]
		if ia.Op != OpIndexAddr {
			continue
		}
		if kk, ok := ia.Args[1].intConst(); ok && strings.HasPrefix(ia.Args[0].String(), gorStr) {
			return kk, true
		}
	}
	return 0, false
}

func shortFn(f *ssa.Function) string {
	n := f.Name()
	if recv := f.Signature.Recv(); recv != nil {
		t := recv.Type()
		if p, ok := t.(*types.Pointer); ok {
			t = p.Elem()
		}
		if nt, ok := t.(*types.Named); ok {
			n = nt.Obj().Name() + "." + n
		}
	}
	return n
}

// ptrClass classifies a pointer value used as base of a store/deref.
func (m *scanModel) ptrClass(e *Expr, idxNow, gorNow string) string {
	if e == nil {
		return "?"
	}
	switch e.Op {
	case OpParam:
		if e.Name == m.recvP.Name() {
			return "s"
		}
		return "param:" + e.Name
	case OpAlloc:
		return "local:" + e.Name
	case OpConst:
		if e.Const == nil {
			return "nil"
		}
	case OpGlobal:
		return "global:" + e.Name
	}
	s := e.String()
	if s == curStr {
		return "cur"
	}
	if s == "s.Snapshot" {
		return "snapshot"
	}
	// load of &G[i]
	if e.Op == OpInit || (e.Op == OpUn && e.Tok == token.MUL) {
		if a := e.Args[0]; a.Op == OpIndexAddr {
			coll, ix := a.Args[0].String(), a.Args[1]
			if coll == gorNow || coll == gorStr {
				if ix.String() == idxNow || ix.String() == "s.goroutineIndex" {
					return "idx"
				}
				if _, ok := ix.intConst(); ok {
					return "g[" + ix.String() + "]"
				}
				return "g[?]"
			}
		}
	}
	if e.Op == OpAlloc {
		return "local"
	}
	return "?:" + s
}

// accessPath splits an address into (base pointer value, field/index selectors).
func accessPath(a *Expr) (base *Expr, sel []string, idx []*Expr) {
	for a != nil {
		switch a.Op {
		case OpFieldAddr:
			sel = append([]string{a.Name}, sel...)
			a = a.Args[0]
		case OpIndexAddr:
			sel = append([]string{"[]"}, sel...)
			idx = append([]*Expr{a.Args[1]}, idx...)
			// base of index: a slice value (load of some address) or pointer to array
			b := a.Args[0]
			if b.Op == OpInit || (b.Op == OpUn && b.Tok == token.MUL) {
				a = b.Args[0]
				continue
			}
			return b, sel, idx
		default:
			return a, sel, idx
		}
	}
	return nil, sel, idx
}

// explore runs SPE for one configuration.
func (m *scanModel) explore(cfg smConfig) []*smTrans {
	exprHome = m.fn.Pkg.Pkg
	x := &SPE{Fn: m.fn, MaxVisits: 3}
	if m.c.Tier == "thorough" {
		x.MaxVisits = 4
	}
	x.InitCell = func(addr *Expr) *Expr {
		if addr.String() == "&s.state" {
			return &Expr{Op: OpConst, Const: constant.MakeInt64(m.stateVal[cfg.State]), Type: m.stateT}
		}
		return nil
	}
	x.Decide = func(atom *Expr, st *pathState) (bool, bool) {
		if atom.Op == OpBin && atom.Tok == token.EQL {
			l, r := atom.Args[0], atom.Args[1]
			if z, ok := r.intConst(); ok && z == 0 && l.Op == OpBuiltin && l.Name == "len" {
				switch l.Args[0].String() {
				case gorStr:
					return !cfg.Gne, true
				case "s.prefix":
					return !cfg.Pne, true
				}
			}
			if r.isNilConst() && l.String() == gorStr {
				return !cfg.Gne, true
			}
		}
		return false, false
	}
	x.Explore()
	m.truncated += x.Truncated
	var out []*smTrans
	for _, p := range x.Paths {
		if p.Ambiguous != "" {
			m.ambiguous = append(m.ambiguous, p.Ambiguous)
		}
		out = append(out, m.summarise(cfg, p))
	}
	return out
}

func (m *scanModel) summarise(cfg smConfig, p *Path) *smTrans {
	t := &smTrans{From: cfg, Lits: map[string]bool{}, Term: p.Term, Path: p}
	m.cfgP = cfg.Pne
	m.l0Blank = false
	defer func() { m.cfgP, m.l0Blank = false, false }()
	for _, l := range p.Lits {
		if l.Pol && m.isBlank0(l.Atom) {
			m.l0Blank = true
		}
	}
	for _, l := range p.Lits {
		n, flip := m.atomName(l.Atom)
		pol := l.Pol != flip
		if old, ok := t.Lits[n]; ok {
			// the same canonical atom decided twice (loop iterations): existential
			if old != pol {
				t.Lits[n] = true
			}
			continue
		}
		t.Lits[n] = pol
		t.LitOrder = append(t.LitOrder, n)
	}
	if v, ok := t.Lits["blank0"]; ok && v {
		// an empty line has no indentation to remove: it is the line classified
		if _, ok := t.Lits["blank"]; !ok {
			t.Lits["blank"] = true
			t.LitOrder = append(t.LitOrder, "blank")
		}
	}
	if _, ok := t.Lits["loop:goroutines"]; ok {
		// the search loop over the goroutines ran: without a positive match
		// literal no goroutine matched
		if _, ok := t.Lits["id-match"]; !ok {
			t.Lits["id-match"] = false
			t.LitOrder = append(t.LitOrder, "id-match")
		}
	} else if !cfg.Gne {
		// no goroutine at all: the loop body is not entered
		for _, l := range p.Lits {
			_ = l
		}
	}
	// outcome
	t.To = cfg.State
	if v, ok := p.Cells["&s.state"]; ok {
		if k, ok := v.intConst(); ok {
			t.To = m.states[k]
		} else {
			t.To = "?" + v.String()
		}
	}
	if p.Term == "panic" {
		t.Consumed, t.Err = "-", "panic:"+p.Results[0].Canon(m.hook)
	} else if len(p.Results) == 2 {
		t.Consumed = m.consumedName(p.Results[0])
		t.Err = m.errName(p.Results[1])
	}
	m.effects(cfg, p, t)
	return t
}

func (m *scanModel) consumedName(e *Expr) string {
	if v, ok := e.boolConst(); ok {
		if v {
			return "T"
		}
		return "F"
	}
	a, pol := normAtom(e)
	n, flip := m.atomName(a)
	if pol != flip {
		return n
	}
	return "!" + n
}

func (m *scanModel) errName(e *Expr) string {
	if e.isNilConst() {
		return "nil"
	}
	x := e
	for x.Op == OpConvert {
		x = x.Args[0]
	}
	switch {
	case x.calleeIs("fmt", "Errorf"), x.calleeIs("errors", "New"):
		return "new"
	case x.Op == OpExtract && x.Args[0].Op == OpCall && x.Args[0].Fn != nil:
		return "err:" + shortFn(x.Args[0].Fn)
	case x.Op == OpCall && x.Fn != nil:
		return "err:" + shortFn(x.Fn)
	}
	return "?" + e.Canon(m.hook)
}

// effects walks the events of a path in order, derives effect tokens,
// checks the typestate requirements and computes the successor facts.
func (m *scanModel) effects(cfg smConfig, p *Path, t *smTrans) {
	f := cfg // facts evolve along the path
	appended := false
	gorNow := gorStr
	idxNow := "s.goroutineIndex"
	pendingLast := false
	emptyPrealloc := false
	var emptyPos token.Pos
	lastBeforeAppend := false
	var lastBeforePos token.Pos
	var pendingPos token.Pos
	var pendingVal *Expr
	eff := map[string]bool{}
	prefixSucc := []bool{cfg.Pne}
	problem := func(rule, key, msg string, pos token.Pos) {
		t.Problems = append(t.Problems, smProblem{Rule: rule, Key: key, Msg: msg, Pos: pos})
	}
	lit := func(name string) (bool, bool) {
		v, ok := t.Lits[name]
		return v, ok
	}
	_ = lit
	// value classifiers
	isAppendTo := func(v *Expr, prev string) (elem *Expr, ok bool) {
		// append(prev-or-fresh, varargs[:]) where prev is the previous content
		if v.Op == OpBuiltin && v.Name == "append" && len(v.Args) == 2 {
			b := v.Args[0].String()
			fresh := isEmptyPrealloc(v.Args[0])
			if b == prev || fresh {
				return v.Args[1], true
			}
		}
		return nil, false
	}
	// the end-of-line trimming: the only slices taken of the line as passed in
	// are line[:len(line)-2] after a CRLF test and line[:len(line)-1] after an
	// LF test that succeeded
	trimmedSeen := false
	for _, ev := range p.Events {
		if ev.Kind != EvSlice || ev.Addr == nil || ev.Addr.Op != OpParam || ev.Addr.Name != m.lineP.Name() {
			continue
		}
		trimmedSeen = true
		v := ev.Val
		want := int64(0)
		glob := ""
		if crlf, ok := t.Lits["eol:crlf"]; ok && crlf {
			want, glob = 2, "crlf"
		} else if lf, ok := t.Lits["eol:lf"]; ok && lf {
			want, glob = 1, "lf"
		}
		good := false
		if want > 0 && v.Op == OpSlice && len(v.Args) == 4 && v.Args[1] == nil && v.Args[2] != nil && v.Args[3] == nil {
			hi := v.Args[2]
			if hi.Op == OpBin && hi.Tok == token.SUB && hi.Args[0].Op == OpBuiltin && hi.Args[0].Name == "len" && len(hi.Args[0].Args) == 1 && hi.Args[0].Args[0].Op == OpParam {
				if k, isC := hi.Args[1].intConst(); isC && k == want {
					good = true
				}
				if r := hi.Args[1]; r.Op == OpBuiltin && r.Name == "len" && len(r.Args) == 1 {
					if g := r.Args[0].globalLoaded(); g != nil && g.Name() == glob {
						good = true
					}
				}
			}
		}
		// an unterminated last line keeps all its bytes; its indentation prefix may be cut off
		if v.Op == OpSlice && len(v.Args) == 4 && v.Args[1] != nil && v.Args[2] == nil && v.Args[3] == nil && strings.Contains(v.Args[1].String(), "s.prefix") {
			good = true
		}
		if !good {
			problem("SM-ref", "state:"+cfg.State+"/eol-trim", "the line terminator is not removed as line[:len(line)-2] for CRLF / line[:len(line)-1] for LF: "+v.Canon(m.hook)+" — every later test and every parsed field sees other bytes than the line", ev.Pos)
		}
	}
	// a terminated line that is looked at (any test beyond the terminator
	// itself) is looked at without its terminator
	if !trimmedSeen {
		term := false
		if v, ok := t.Lits["eol:crlf"]; ok && v {
			term = true
		}
		if v, ok := t.Lits["eol:lf"]; ok && v {
			term = true
		}
		other := 0
		for n := range t.Lits {
			if !strings.HasPrefix(n, "eol:") {
				other++
			}
		}
		if term && other > 0 {
			problem("SM-ref", "state:"+cfg.State+"/eol-trim", "the line terminator is recognised but never removed: the tests that follow see the line with its CR/LF", p.Lits[0].Pos)
		}
	}
	for _, ev := range p.Events {
		switch ev.Kind {
		case EvDeref:
			switch cl := m.ptrClass(ev.Addr, idxNow, gorNow); {
			case cl == "nil":
				problem("SM-deref", "state:"+cfg.State+"/deref-nil-cur", "the current goroutine is dereferenced but no goroutine exists in this configuration ("+cfg.String()+")", ev.Pos)
			case cl == "cur" && !cfg.Gne:
				problem("SM-deref", "state:"+cfg.State+"/deref-cur", "cur dereferenced while s.Goroutines is empty", ev.Pos)
			case cl == "idx" && !f.I:
				problem("SM-deref", "state:"+cfg.State+"/deref-idx", "s.Goroutines[s.goroutineIndex] used while the index is not known to be valid", ev.Pos)
			}
		case EvIndex:
			m.checkIndex(cfg, &f, p, t, ev, idxNow, gorNow, problem)
		case EvStore:
			base, sel, _ := accessPath(ev.Addr)
			cl := m.ptrClass(base, idxNow, gorNow)
			path := strings.Join(sel, ".")
			switch {
			case cl == "s" && path == "state":
				// recorded through the final cell
			case cl == "s" && path == "prefix":
				switch {
				case ev.Val.isNilConst():
					eff["prefix:=nil"] = true
					prefixSucc = []bool{false}
				default:
					if el, ok := isAppendTo(ev.Val, "\x00"); ok || strings.HasPrefix(ev.Val.String(), "append(") {
						_ = el
						src := ev.Val.Args[1]
						g := ""
						src.walk(func(x *Expr) bool {
							if gg, _ := m.submatchOf(x); gg != "" {
								g = gg
							}
							return true
						})
						if g != "" && strings.HasPrefix(ev.Val.Args[0].String(), "slicelit") || strings.HasPrefix(ev.Val.Args[0].String(), "make") || ev.Val.Args[0].isNilConst() {
							eff["prefix:=indent("+g+")"] = true
							prefixSucc = []bool{false, true}
							break
						}
					}
					eff["prefix:=other"] = true
					problem("SM-prefix", "state:"+cfg.State+"/prefix-alias", "s.prefix is set to something that is not a fresh copy of the matched indentation: "+ev.Val.Canon(m.hook), ev.Pos)
					prefixSucc = []bool{false, true}
				}
			case cl == "s" && path == "goroutineIndex":
				v := ev.Val
				vs := v.String()
				switch {
				case vs == "(len("+gorNow+") - 1)" && (appended || f.Gne):
					eff["index:=last"] = true
					f.I, f.R = true, false
					if !appended {
						lastBeforeAppend, lastBeforePos = true, ev.Pos
					}
				case !appended && (vs == "len("+gorNow+")" || (vs == "0" && !cfg.Gne)):
					// the index of the goroutine appended next: judged at the append
					pendingLast, pendingPos, pendingVal = true, ev.Pos, v
					f.I, f.R = false, false
				default:
					if k, ok := v.intConst(); ok {
						// must be the range index of the goroutine whose ID matched
						matched := false
						inRange := k == 0 && cfg.Gne
						for _, l := range p.Lits {
							if kk, ok := m.idMatchAtom(l.Atom); ok && l.Pol && kk == k {
								matched = true
							}
							if l.Pol && l.Atom.String() == fmt.Sprintf("(%d < len(%s))", k, gorNow) {
								inRange = true
							}
						}
						if matched && inRange {
							eff["index:=match"] = true
							f.I, f.R = true, false
							break
						}
					}
					eff["index:=other"] = true
					f.I, f.R = false, false
					problem("SM-raceidx", "state:"+cfg.State+"/index-other", "goroutineIndex is set to a value that is neither the last goroutine nor the goroutine whose ID matched: "+v.Canon(m.hook), ev.Pos)
				}
				idxNow = vs
			case cl == "snapshot" && path == "Goroutines":
				if el, ok := isAppendTo(ev.Val, gorNow); ok {
					_ = el
					appended = true
					emptyPrealloc = false
					f.Gne = true
					f.C, f.B = false, false
					if pendingLast {
						pendingLast = false
						eff["index:=last"] = true
						f.I, f.R = true, false
					}
					if lastBeforeAppend {
						// "last" was taken before this append: it is the goroutine before the new one
						lastBeforeAppend = false
						delete(eff, "index:=last")
						eff["index:=other"] = true
						f.I, f.R = false, false
						problem("SM-raceidx", "state:"+cfg.State+"/index-other", "goroutineIndex is set to the last goroutine before a goroutine is appended: it refers to the goroutine before the new one, whose frames then go to the wrong goroutine", lastBeforePos)
					}
					m.checkNewGoroutine(cfg, p, t, ev, problem, eff)
				} else if isEmptyPrealloc(ev.Val) {
					if cfg.Gne {
						problem("SM-append", "state:"+cfg.State+"/goroutines-reset", "s.Goroutines is replaced while it holds goroutines", ev.Pos)
					}
					emptyPrealloc, emptyPos = true, ev.Pos
				} else {
					eff["goroutines:=other"] = true
					problem("SM-append", "state:"+cfg.State+"/goroutines-other", "s.Goroutines is written by something else than an append at the end: "+ev.Val.Canon(m.hook), ev.Pos)
				}
				gorNow = ev.Val.String()
			case cl == "cur" || cl == "idx" || strings.HasPrefix(cl, "g["):
				m.goroutineStore(cfg, &f, p, t, ev, cl, path, appended, eff, problem, isAppendTo)
			case strings.HasPrefix(cl, "local"):
				// locals: no effect outside
			case cl == "s":
				eff["s."+path+":=?"] = true
				problem("SM-ref", "state:"+cfg.State+"/store-s."+path, "unexpected store to scanner field "+path, ev.Pos)
			default:
				eff["store:"+cl+"."+path] = true
				problem("SM-cur-only", "state:"+cfg.State+"/store:"+path, "store through an unrecognised pointer "+cl, ev.Pos)
			}
		case EvCall:
			m.callEffect(cfg, &f, p, t, ev, idxNow, gorNow, eff, problem)
		case EvMapUpd, EvSend, EvGo, EvDefer:
			problem("SM-ref", "state:"+cfg.State+"/"+ev.Kind, "unexpected "+ev.Kind+" in scan", ev.Pos)
		}
	}
	if emptyPrealloc {
		// "non-nil" means "has goroutines" to ScanSnapshot and its callers
		problem("SM-append", "state:"+cfg.State+"/goroutines-empty", "s.Goroutines is set to an empty, non-nil list and the line ends without a goroutine being appended: ScanSnapshot takes non-nil for 'a dump was found' and returns a snapshot without goroutines, whose first goroutine IsRace and the renderers then index", emptyPos)
	}
	if pendingLast {
		eff["index:=other"] = true
		f.I, f.R = false, false
		problem("SM-raceidx", "state:"+cfg.State+"/index-other", "goroutineIndex is set to the index behind the last goroutine and no goroutine is appended: "+pendingVal.Canon(m.hook), pendingPos)
	}
	for e := range eff {
		t.Effects = append(t.Effects, e)
	}
	sort.Strings(t.Effects)
	// successor configurations
	if p.Term == "return" {
		for _, pn := range prefixSucc {
			n := f
			n.State = t.To
			n.Pne = pn
			t.Next = append(t.Next, n)
		}
	}
}

func (m *scanModel) checkNewGoroutine(cfg smConfig, p *Path, t *smTrans, ev Event, problem func(rule, key, msg string, pos token.Pos), eff map[string]bool) {
	// the stores into the new goroutine (composite literal) on this path
	fields := map[string]string{}
	for _, e := range p.Events {
		if e.Kind != EvStore {
			continue
		}
		base, sel, _ := accessPath(e.Addr)
		if base == nil || base.Op != OpAlloc || !strings.HasPrefix(base.Name, "complit") {
			continue
		}
		if pt, ok := base.Type.Underlying().(*types.Pointer); !ok || !strings.HasSuffix(typeStr(pt.Elem()), "Goroutine") {
			continue
		}
		f := strings.TrimPrefix(strings.Join(sel, "."), "Signature.")
		// a struct built in a local and stored as a whole: its fields, the
		// zero value for those never assigned
		if v := e.Val; v.Op == OpInit && v.Type != nil && len(v.Args) == 1 {
			if stt, ok := v.Type.Underlying().(*types.Struct); ok {
				if ab := addrBase(v.Args[0]); ab != nil && ab.Op == OpAlloc {
					pre := ""
					if f != "Signature" {
						pre = f + "."
					}
					for i := 0; i < stt.NumFields(); i++ {
						fl := stt.Field(i)
						if pv := v.Parts[fl.Name()]; pv != nil {
							fields[pre+fl.Name()] = m.valueToken(pv)
						} else if z := zeroOf(fl.Type()); z != nil && z.Const != nil {
							fields[pre+fl.Name()] = m.valueToken(z)
						}
					}
					continue
				}
			}
		}
		fields[f] = m.valueToken(e.Val)
	}
	first := fields["First"]
	if first == "" {
		first = "F" // zero value
	}
	want := "F"
	if !cfg.Gne {
		want = "T"
	}
	if first != want {
		problem("SM-first", "state:"+cfg.State+"/first="+first, fmt.Sprintf("a goroutine is appended with First=%s while s.Goroutines non-empty=%v", first, cfg.Gne), ev.Pos)
	}
	fields["First"] = "first"
	if first != want {
		fields["First"] = "!first(" + first + ")"
	}
	// Locked and the sleep fields must agree with what the header items say
	if v, ok := fields["Locked"]; ok {
		lk := t.Lits["eq:lockedToThread(item)"]
		if (v == "T") == lk && (v == "T" || v == "F") {
			fields["Locked"] = "locked"
		}
	}
	for _, f := range []string{"SleepMin", "SleepMax"} {
		if v, ok := fields[f]; ok {
			mi := t.Lits["m:reMinutes(item)"]
			if (mi && v == "atou(reMinutes(item),1)") || (!mi && v == "0") {
				fields[f] = "minutes"
			}
		}
	}
	var fs []string
	for _, k := range sortedKeysOf(fields) {
		fs = append(fs, k+"="+fields[k])
	}
	eff["new-goroutine{"+strings.Join(fs, ",")+"}"] = true
}

// valueToken abbreviates a stored value to what it was parsed from.
func (m *scanModel) valueToken(v *Expr) string {
	if b, ok := v.boolConst(); ok {
		if b {
			return "T"
		}
		return "F"
	}
	if k, ok := v.intConst(); ok {
		return fmt.Sprint(k)
	}
	group := func(x *Expr) (string, bool) {
		// load(&match[k])
		if x.Op == OpInit || (x.Op == OpUn && x.Tok == token.MUL) {
			if ia := x.Args[0]; ia.Op == OpIndexAddr {
				if g, subj := m.submatchOf(ia.Args[0]); g != "" {
					s := g
					if isItem(subj) {
						s += "(item)"
					} else if !m.isLine(subj) {
						if h, ok := m.hook(subj); !ok || h != "L" {
							s += "(" + subj.Canon(m.hook) + ")"
						}
					}
					return s + "," + ia.Args[1].String(), true
				}
			}
		}
		return "", false
	}
	x := v
	switch {
	case x.Op == OpExtract && x.ID == 0 && x.Args[0].Op == OpCall && x.Args[0].Fn != nil:
		call := x.Args[0]
		switch shortFn(call.Fn) {
		case "atou":
			if g, ok := group(call.Args[1]); ok {
				return "atou(" + g + ")"
			}
		case "ParseUint":
			a := call.Args[1]
			if a.Op == OpCall && a.Fn != nil && shortFn(a.Fn) == "unsafeString" {
				a = a.Args[1]
			} else if a.Op == OpConvert {
				a = a.Args[0]
			}
			if g, ok := group(a); ok {
				return "uint(" + g + "," + call.Args[2].String() + "," + call.Args[3].String() + ")"
			}
		}
	case x.Op == OpConvert && x.Name == "convert":
		// string(items[0]) with items = Split(match[k], ", ")
		a := x.Args[0]
		if a.Op == OpInit || (a.Op == OpUn && a.Tok == token.MUL) {
			if ia := a.Args[0]; ia.Op == OpIndexAddr && ia.Args[0].calleeIs("bytes", "Split") {
				sp := ia.Args[0]
				if g, ok := group(sp.Args[1]); ok {
					sep := "?"
					if gl := sp.Args[2].globalLoaded(); gl != nil {
						sep = gl.Name()
					}
					return "item" + ia.Args[1].String() + "(" + g + "," + sep + ")"
				}
			}
		}
		if g, ok := group(a); ok {
			return "string(" + g + ")"
		}
	case x.Op == OpCall && x.calleeIs("bytes", "Equal"):
		if gl := x.Args[2].globalLoaded(); gl != nil {
			if g, ok := group(x.Args[1]); ok {
				return "eq:" + gl.Name() + "(" + g + ")"
			}
		}
	}
	return v.Canon(m.hook)
}

func (m *scanModel) goroutineStore(cfg smConfig, f *smConfig, p *Path, t *smTrans, ev Event, cl, path string, appended bool, eff map[string]bool, problem func(rule, key, msg string, pos token.Pos), isAppendTo func(v *Expr, prev string) (*Expr, bool)) {
	prev, _ := stripAddr(ev.Addr.String())
	who := cl
	if strings.HasPrefix(cl, "g[") {
		who = "matched"
		// must be the goroutine whose ID matched
		ok := false
		k := strings.TrimSuffix(strings.TrimPrefix(cl, "g["), "]")
		for _, l := range p.Lits {
			if kk, isM := m.idMatchAtom(l.Atom); isM && l.Pol && fmt.Sprint(kk) == k {
				ok = true
			}
		}
		if !ok {
			problem("SM-raceidx", "state:"+cfg.State+"/store-unmatched", "store into a goroutine selected by index "+k+" without a matching ID test", ev.Pos)
		}
	}
	switch path {
	case "Signature.Stack.Calls":
		switch {
		case func() bool { _, ok := isAppendTo(ev.Val, prev); return ok }():
			eff[who+".calls+="] = true
			if cl == "cur" && !appended {
				f.C = true
			}
		case ev.Val.Op == OpSlice && strings.HasPrefix(ev.Val.Args[0].String(), "&slicelit"):
			eff[who+".calls:=literal"] = true
			if cl == "cur" && !appended {
				f.C = true
			}
		case isEmptyPrealloc(ev.Val):
			// preallocation of an empty slice: only allowed when nil
			if v, ok := t.Lits["("+prev+" == nil)"]; !ok || !v {
				if v2, ok2 := p.lit("(" + prev + " == nil)"); !ok2 || !v2 {
					problem("SM-append", "state:"+cfg.State+"/calls-reset", "Stack.Calls replaced by an empty slice without a nil test", ev.Pos)
				}
			}
		default:
			eff[who+".calls:=other"] = true
			if cl == "cur" {
				f.C = false
			}
			problem("SM-append", "state:"+cfg.State+"/calls-other", "Stack.Calls written by something else than an append at the end: "+ev.Val.Canon(m.hook), ev.Pos)
		}
	case "Signature.CreatedBy.Calls":
		switch {
		case ev.Val.isNilConst():
			eff[who+".created:=nil"] = true
			if cl == "cur" && !appended {
				f.B = false
			}
			if cl == "idx" {
				f.R = false
			}
		case ev.Val.Op == OpMakeSlice || freshLen(ev.Val) >= 0:
			var n int64
			if ev.Val.Op == OpMakeSlice {
				n, _ = ev.Val.Args[0].intConst()
			} else {
				n = freshLen(ev.Val)
			}
			eff[fmt.Sprintf("%s.created:=make(%d)", who, n)] = true
			if cl == "cur" && !appended {
				f.B = n >= 1
			}
			if cl == "idx" {
				f.R = n >= 1
			}
		case func() bool { _, ok := isAppendTo(ev.Val, prev); return ok }():
			eff[who+".created+="] = true
			if cl == "idx" {
				f.R = true
			}
			if cl == "cur" && !appended {
				f.B = true
			}
		default:
			eff[who+".created:=other"] = true
			if cl == "cur" {
				f.B = false
			}
			if cl == "idx" {
				f.R = false
			}
			problem("SM-append", "state:"+cfg.State+"/created-other", "CreatedBy.Calls written unexpectedly: "+ev.Val.Canon(m.hook), ev.Pos)
		}
	default:
		eff[who+"."+strings.TrimPrefix(path, "Signature.")+":="+m.valueToken(ev.Val)] = true
	}
	// SM-cur-only: in goroutine-dump states all stores go through cur
	if !strings.HasPrefix(strings.ToLower(cfg.State), "gotrace") && !strings.HasPrefix(cfg.State, "betweenRace") && cl != "cur" {
		problem("SM-cur-only", "state:"+cfg.State+"/store-"+cl, "in a goroutine-dump state a store reaches a goroutine other than the current one", ev.Pos)
	}
}

// freshLen: length of a slice value that is a whole fresh array
// (make([]T, n) with constant n compiles to new [n]T followed by a slice).
func freshLen(v *Expr) int64 {
	if v.Op == OpSlice && v.Args[0].Op == OpAlloc && v.Args[1] == nil && v.Args[3] == nil {
		if pt, ok := v.Args[0].Type.Underlying().(*types.Pointer); ok {
			if at, ok := pt.Elem().Underlying().(*types.Array); ok {
				if v.Args[2] == nil {
					return at.Len()
				}
				if h, ok := v.Args[2].intConst(); ok && h <= at.Len() {
					return h
				}
			}
		}
	}
	return -1
}

func isEmptyPrealloc(v *Expr) bool {
	if v.Op == OpMakeSlice {
		n, ok := v.Args[0].intConst()
		return ok && n == 0
	}
	return freshLen(v) == 0
}

func groupIndex(v *Expr) string {
	out := "?"
	v.walk(func(x *Expr) bool {
		if x.Op == OpIndexAddr {
			if k, ok := x.Args[1].intConst(); ok {
				out = fmt.Sprint(k)
			}
		}
		return true
	})
	return out
}

// checkIndex decides one index operation.
func (m *scanModel) checkIndex(cfg smConfig, f *smConfig, p *Path, t *smTrans, ev Event, idxNow, gorNow string, problem func(rule, key, msg string, pos token.Pos)) {
	coll, ix := ev.Addr, ev.Val
	cs, is := coll.String(), ix.String()
	key := func(what string) string { return "state:" + cfg.State + "/" + what }
	// pointer to a local array (varargs, slicelit): constant index
	if coll.Op == OpAlloc {
		if k, ok := ix.intConst(); ok {
			if pt, ok := coll.Type.Underlying().(*types.Pointer); ok {
				if at, ok := pt.Elem().Underlying().(*types.Array); ok && k >= 0 && k < at.Len() {
					return
				}
			}
		}
		problem("SM-deref", key("index-local"), "index into a local array not provably in range: "+is, ev.Pos)
		return
	}
	switch {
	case cs == gorStr || cs == gorNow:
		switch {
		case is == "(len("+cs+") - 1)":
			if cs == gorStr && !cfg.Gne {
				problem("SM-deref", key("last-goroutine"), "last goroutine taken while s.Goroutines is empty", ev.Pos)
			}
		case is == idxNow || is == "s.goroutineIndex":
			if !f.I {
				problem("SM-deref", key("goroutine-index"), "s.Goroutines[s.goroutineIndex] while the index is not known to be valid in "+cfg.String(), ev.Pos)
			}
		default:
			if k, ok := ix.intConst(); ok {
				// range loop: guarded by k < len(...)
				if v, ok := p.lit(fmt.Sprintf("(%d < len(%s))", k, cs)); ok && v {
					return
				}
				if k == 0 && cfg.Gne && cs == gorStr {
					return
				}
			}
			problem("SM-deref", key("goroutines-index"), "index into s.Goroutines not provably in range: "+ix.Canon(m.hook), ev.Pos)
		}
	case strings.HasSuffix(cs, ".Signature.Stack.Calls") || strings.HasSuffix(cs, ".Signature.CreatedBy.Calls"):
		base, _, _ := accessPath(coll.Args[0])
		cl := m.ptrClass(base, idxNow, gorNow)
		stack := strings.HasSuffix(cs, ".Signature.Stack.Calls")
		var fact bool
		var name string
		switch {
		case cl == "cur" && stack:
			fact, name = f.C, "cur.Stack.Calls non-empty"
		case cl == "cur" && !stack:
			fact, name = f.B, "cur.CreatedBy.Calls non-empty"
		case cl == "idx" && !stack:
			fact, name = f.R, "indexed goroutine's CreatedBy.Calls non-empty"
		default:
			problem("SM-deref", key("calls-index"), "index into "+coll.Canon(m.hook)+" of an unclassified goroutine", ev.Pos)
			return
		}
		okShape := is == "(len("+cs+") - 1)" || is == "0"
		// a cell written earlier on this path (make(…,1)) renders differently
		if !okShape {
			problem("SM-deref", key("calls-index-shape"), "index "+ix.Canon(m.hook)+" into "+coll.Canon(m.hook), ev.Pos)
			return
		}
		if !fact {
			problem("SM-deref", key("calls["+map[bool]string{true: "last", false: "0"}[is != "0"]+"]:"+cl+map[bool]string{true: ".Stack", false: ".CreatedBy"}[stack]), "needs "+name+", not established in "+cfg.String(), ev.Pos)
		}
	case coll.Op == OpMakeSlice || freshLen(coll) >= 0:
		var n int64
		ok1 := true
		if coll.Op == OpMakeSlice {
			n, ok1 = coll.Args[0].intConst()
		} else {
			n = freshLen(coll)
		}
		k, ok2 := ix.intConst()
		if !(ok1 && ok2 && k >= 0 && k < n) {
			problem("SM-deref", key("index-make"), "index into a fresh slice out of range", ev.Pos)
		}
	default:
		// match[k] of a FindSubmatch result that was tested non-nil
		if g, _ := m.submatchOf(coll); g != "" {
			k, ok := ix.intConst()
			nonnil := false
			if v, ok := p.lit("(" + cs + " == nil)"); ok && !v {
				nonnil = true
			}
			ng := m.numGroups(g)
			if ok && nonnil && ng >= 0 && int(k) <= ng {
				return
			}
			problem("RX-groups", key("group:"+g+"["+is+"]"), fmt.Sprintf("submatch index %s of %s (groups=%d, nil-checked=%v)", is, g, ng, nonnil), ev.Pos)
			return
		}
		// items := bytes.Split(...): at least one element
		if coll.calleeIs("bytes", "Split") || coll.calleeIs("strings", "Split") {
			if k, ok := ix.intConst(); ok {
				if k == 0 {
					return
				}
				if v, ok := p.lit(fmt.Sprintf("(%d < len(%s))", k, cs)); ok && v {
					return
				}
			}
		}
		// any collection: a constant index below a length test made on this path
		if k, ok := ix.intConst(); ok && k >= 0 {
			if v, ok := p.lit(fmt.Sprintf("(%d < len(%s))", k, cs)); ok && v {
				return
			}
			if v, ok := p.lit("(len(" + cs + ") == 0)"); ok && !v && k == 0 {
				return
			}
		}
		problem("SM-deref", key("index:"+coll.Canon(m.hook)), "index not provably in range: "+coll.Canon(m.hook)+"["+ix.Canon(m.hook)+"]", ev.Pos)
	}
}

func (m *scanModel) numGroups(glob string) int {
	pat, ok := regexpPattern(m.c.L, "stack", glob)
	if !ok {
		return -1
	}
	re, err := syntax.Parse(pat, syntax.Perl)
	if err != nil {
		return -1
	}
	return re.MaxCap()
}

// callEffect handles calls that write through their pointer arguments.
func (m *scanModel) callEffect(cfg smConfig, f *smConfig, p *Path, t *smTrans, ev Event, idxNow, gorNow string, eff map[string]bool, problem func(rule, key, msg string, pos token.Pos)) {
	call := ev.Val
	if call.Op != OpCall || call.Fn == nil {
		return
	}
	name := shortFn(call.Fn)
	var toks []string
	writes := false
	for _, a := range call.Args[1:] {
		if a.Type == nil {
			continue
		}
		if _, ok := a.Type.Underlying().(*types.Pointer); !ok {
			if m.isLine(a) {
				toks = append(toks, "L")
			} else if h, ok := m.hook(a); ok {
				toks = append(toks, h)
			} else {
				toks = append(toks, m.valueToken(a))
			}
			continue
		}
		base, sel, idx := accessPath(a)
		cl := m.ptrClass(base, idxNow, gorNow)
		if strings.HasPrefix(cl, "local") {
			toks = append(toks, "local")
			continue
		}
		if strings.HasPrefix(cl, "global") {
			toks = append(toks, base.Name)
			continue
		}
		// element address inside a goroutine: callee may fill the element but
		// cannot change a slice length
		elem := false
		for _, s := range sel {
			if s == "[]" {
				elem = true
			}
		}
		which := "?"
		if len(idx) > 0 {
			is := idx[len(idx)-1].String()
			switch {
			case is == "0":
				which = "0"
			case strings.HasPrefix(is, "(len(") && strings.HasSuffix(is, ") - 1)"):
				which = "last"
			}
		}
		path := strings.Join(sel, ".")
		path = strings.ReplaceAll(path, "Signature.", "")
		if base != nil && (freshLen(base) >= 0 || base.Op == OpMakeSlice) {
			// element of a slice created on this path; which field it was stored to
			// is recorded by the store effect
			toks = append(toks, fmt.Sprintf("fresh.%s:%s", path, which))
			writes = true
			continue
		}
		if (cl == "cur" || cl == "idx") && elem {
			toks = append(toks, fmt.Sprintf("%s.%s:%s", cl, path, which))
			writes = true
			if !strings.HasPrefix(strings.ToLower(cfg.State), "gotrace") && !strings.HasPrefix(cfg.State, "betweenRace") && cl != "cur" {
				problem("SM-cur-only", "state:"+cfg.State+"/call-"+cl, "in a goroutine-dump state a callee writes into a goroutine other than the current one", ev.Pos)
			}
			continue
		}
		toks = append(toks, cl)
		if cl == "s" || cl == "snapshot" || cl == "cur" || cl == "idx" || strings.HasPrefix(cl, "g[") {
			problem("SM-ref", "state:"+cfg.State+"/escape:"+name, "scanner state escapes to "+name+" through "+a.Canon(m.hook), ev.Pos)
			f.C, f.B, f.I, f.R = false, false, false, false
		}
	}
	if writes {
		// the line argument last, whatever its position in the signature
		sort.SliceStable(toks, func(i, j int) bool { return toks[i] != "L" && toks[j] == "L" })
		eff[name+"("+strings.Join(toks, ",")+")"] = true
	}
}

// fixpoint computes the reachable configurations.
func (m *scanModel) fixpoint() {
	start := smConfig{State: "looking"}
	work := []smConfig{start}
	m.reach[start] = true
	for len(work) > 0 {
		cfg := work[0]
		work = work[1:]
		m.order = append(m.order, cfg)
		for _, t := range m.explore(cfg) {
			if m.ref != nil && !m.ref.feasible(t.Lits) {
				// the literals contradict a (separately verified) exclusion fact
				m.infeasible++
				continue
			}
			m.trans = append(m.trans, t)
			for _, n := range t.Next {
				if !m.reach[n] {
					m.reach[n] = true
					work = append(work, n)
				}
			}
		}
		if len(m.reach) > 5000 {
			break
		}
	}
}

// ---------------------------------------------------------------------------
// reference automaton

type refRule struct {
	When     []string `json:"when"`
	To       string   `json:"to"`
	Consumed string   `json:"consumed"`
	Err      string   `json:"err"`
	Effects  []string `json:"effects"`
	Note     string   `json:"note,omitempty"`
}

type refAutomaton struct {
	Comment  string               `json:"comment"`
	Prelude  []refRule            `json:"prelude"` // evaluated before the state's rules; To "" = fall through
	States   map[string][]refRule `json:"states"`
	Excludes [][]string           `json:"excludes"` // atoms that cannot hold together
	Ignore   []string             `json:"ignore_effects"`
	// Implies: atom -> atoms that must hold with it
	Implies map[string][]string `json:"implies"`
}

func loadRef(verif string) (*refAutomaton, error) {
	b, err := os.ReadFile(filepath.Join(verif, "refs", "scan_automaton.json"))
	if err != nil {
		return nil, err
	}
	r := &refAutomaton{}
	if err := json.Unmarshal(b, r); err != nil {
		return nil, err
	}
	return r, nil
}

var verifDir = "/verif"

func litHolds(asg map[string]bool, l string) (val, known bool) {
	neg := strings.HasPrefix(l, "!")
	if neg {
		l = l[1:]
	}
	v, ok := asg[l]
	if !ok {
		return false, false
	}
	return v != neg, true
}

// evalRef evaluates the reference decision list for a total-enough
// assignment; unknown atoms needed by the reference are returned in need.
func (r *refAutomaton) eval(state string, cfg smConfig, asg map[string]bool) (rule *refRule, need string) {
	asg2 := map[string]bool{}
	for k, v := range asg {
		asg2[k] = v
	}
	asg2["cfg:G"] = cfg.Gne
	asg2["cfg:P"] = cfg.Pne
	asg2["state:"+state] = true
	try := func(rules []refRule) (*refRule, string) {
		for i := range rules {
			ru := &rules[i]
			all := true
			for _, l := range ru.When {
				if strings.HasPrefix(strings.TrimPrefix(l, "!"), "state:") {
					neg := strings.HasPrefix(l, "!")
					has := asg2[strings.TrimPrefix(l, "!")]
					if has == neg {
						all = false
						break
					}
					continue
				}
				v, ok := litHolds(asg2, l)
				if !ok {
					return nil, strings.TrimPrefix(l, "!")
				}
				if !v {
					all = false
					break
				}
			}
			if all {
				return ru, ""
			}
		}
		return nil, ""
	}
	if ru, need := try(r.Prelude); ru != nil || need != "" {
		return ru, need
	}
	ru, need := try(r.States[state])
	return ru, need
}

func (r *refAutomaton) feasible(asg map[string]bool) bool {
	for _, ex := range r.Excludes {
		n := 0
		for _, a := range ex {
			if v, ok := litHolds(asg, a); ok && v {
				n++
			}
		}
		if n > 1 {
			return false
		}
	}
	for a, bs := range r.Implies {
		if v, ok := litHolds(asg, a); ok && v {
			for _, b := range bs {
				if v2, ok2 := litHolds(asg, b); ok2 && !v2 {
					return false
				}
			}
		}
	}
	return true
}

// compare checks one implementation path against the reference for every
// completion of its literals over the atoms the reference asks for.
func (m *scanModel) compare(r *refAutomaton, t *smTrans) (mismatch string, checked int) {
	asg := map[string]bool{}
	for k, v := range t.Lits {
		asg[k] = v
	}
	var rec func() string
	rec = func() string {
		if !r.feasible(asg) {
			return ""
		}
		ru, need := r.eval(t.From.State, t.From, asg)
		if need != "" {
			for _, v := range []bool{true, false} {
				asg[need] = v
				if s := rec(); s != "" {
					delete(asg, need)
					return s
				}
			}
			delete(asg, need)
			return ""
		}
		checked++
		if ru == nil {
			return "the reference automaton has no rule for this line kind"
		}
		to := ru.To
		if to == "same" {
			to = t.From.State
		}
		var diffs []string
		if to != t.To {
			diffs = append(diffs, fmt.Sprintf("next state %s, reference %s", t.To, to))
		}
		if ru.Consumed != t.Consumed {
			diffs = append(diffs, fmt.Sprintf("consumed=%s, reference %s", t.Consumed, ru.Consumed))
		}
		if ru.Err != t.Err {
			diffs = append(diffs, fmt.Sprintf("err=%s, reference %s", t.Err, ru.Err))
		}
		ign := map[string]bool{}
		for _, i := range r.Ignore {
			ign[i] = true
		}
		have := map[string]bool{}
		for _, e := range t.Effects {
			if !ign[e] {
				have[e] = true
			}
		}
		for _, e := range ru.Effects {
			if !have[e] {
				diffs = append(diffs, "missing effect "+e)
			}
			delete(have, e)
		}
		for _, e := range sortedKeysOf(have) {
			diffs = append(diffs, "extra effect "+e)
		}
		if len(diffs) > 0 {
			var as []string
			for _, k := range sortedKeysOf(asg) {
				if asg[k] {
					as = append(as, k)
				}
			}
			return strings.Join(diffs, "; ") + " [line kind: " + strings.Join(as, ",") + "]"
		}
		return ""
	}
	return rec(), checked
}

// ---------------------------------------------------------------------------

func runSM(c *Ctx) []Obl {
	var obls []Obl
	m := buildScanModel(c, &obls)
	if m == nil {
		return obls
	}
	ref, refErr := loadRef(verifDir)
	m.ref = ref
	m.fixpoint()
	L := c.L
	c.stat("SM", "reachable_configurations", len(m.reach))
	c.stat("SM", "paths", len(m.trans))
	c.stat("SM", "states", len(m.states))
	c.stat("SM", "truncated_paths", m.truncated)
	c.stat("SM", "infeasible_paths_skipped", m.infeasible)
	// distinct transitions
	distinct := map[string]bool{}
	for _, t := range m.trans {
		distinct[fmt.Sprintf("%s|%s|%s|%s|%s|%v", t.From.State, t.guard(), t.To, t.Consumed, t.Err, t.Effects)] = true
	}
	c.stat("SM", "distinct_transitions", len(distinct))
	if os.Getenv("PPCHECK_SM_DUMP") != "" {
		outc := map[string]string{}
		for _, t := range m.trans {
			k := fmt.Sprintf("%-26s -> %-26s c=%-16s e=%-14s %v", t.From.State, t.To, t.Consumed, t.Err, t.Effects)
			var g []string
			for _, a := range t.LitOrder {
				if t.Lits[a] && !strings.HasPrefix(a, "loop:") {
					g = append(g, a)
				}
			}
			gs := strings.Join(g, ",")
			if old, ok := outc[k]; !ok || len(gs) < len(old) {
				outc[k] = gs
			}
		}
		for _, k := range sortedKeysOf(outc) {
			fmt.Println("SM:", k, " WHEN", outc[k])
		}
		for _, cf := range m.order {
			fmt.Println("SM-config:", cf)
		}
	}
	if len(m.ambiguous) > 0 {
		obls = append(obls, Obl{Rule: "SM-ref", Key: "ambiguous-call", Status: Undecided, Msg: "two impure call sites render identically: " + m.ambiguous[0]})
	}
	if len(m.reach) > 5000 {
		obls = append(obls, Obl{Rule: "SM-ref", Key: "config-explosion", Status: Undecided, Msg: "more than 5000 configurations"})
	}
	pos := func(t *smTrans) string {
		if len(t.Path.Events) > 0 {
			// position of the last event
			for i := len(t.Path.Events) - 1; i >= 0; i-- {
				if t.Path.Events[i].Pos.IsValid() {
					return L.Pos(t.Path.Events[i].Pos)
				}
			}
		}
		return L.Pos(m.fn.Pos())
	}
	type agg struct {
		st  Status
		msg string
		pos string
		n   int
	}
	add := func(res map[string]*agg, key string, st Status, msg, pos string) {
		a := res[key]
		if a == nil {
			a = &agg{}
			res[key] = a
		}
		a.n++
		if st > a.st || a.msg == "" {
			if st >= a.st {
				a.st, a.msg, a.pos = st, msg, pos
			}
		}
	}
	emit := func(rule string, res map[string]*agg) {
		for _, k := range sortedKeysOf(res) {
			a := res[k]
			obls = append(obls, Obl{Rule: rule, Key: k, Pos: a.pos, Status: a.st, Msg: fmt.Sprintf("%s (%d paths)", a.msg, a.n)})
		}
	}
	// --- SM-panic
	{
		res := map[string]*agg{}
		for _, t := range m.trans {
			k := "state:" + t.From.State
			if t.Term == "panic" {
				add(res, k+"/panic", Violated, "explicit panic reachable in configuration "+t.From.String()+" on "+t.guard()+": "+t.Err, pos(t))
			} else {
				add(res, k, Discharged, "no path from this state ends in panic", pos(t))
			}
		}
		emit("SM-panic", res)
	}
	// --- typestate problems collected on paths
	{
		byRule := map[string]map[string]*agg{}
		for _, r := range []string{"SM-deref", "SM-append", "SM-cur-only", "SM-first", "SM-raceidx", "RX-groups", "SM-prefix"} {
			byRule[r] = map[string]*agg{}
		}
		for _, t := range m.trans {
			seen := map[string]bool{}
			for _, p := range t.Problems {
				if byRule[p.Rule] == nil {
					byRule[p.Rule] = map[string]*agg{}
				}
				add(byRule[p.Rule], p.Key, Violated, p.Msg+" [from "+t.From.String()+" on "+t.guard()+"]", L.Pos(p.Pos))
				seen[p.Rule] = true
			}
			for r := range byRule {
				if r == "SM-ref" {
					continue
				}
				if !seen[r] {
					add(byRule[r], "state:"+t.From.State, Discharged, ruleDoc[r], pos(t))
				}
			}
		}
		for _, r := range sortedKeysOf(byRule) {
			emit(r, byRule[r])
		}
	}
	// --- SM-progress / SM-looking-clean / SM-prefix (transition shape) / SM-cut-forward
	{
		prog := map[string]*agg{}
		clean := map[string]*agg{}
		pre := map[string]*agg{}
		cut := map[string]*agg{}
		for _, t := range m.trans {
			if t.Term != "return" {
				continue
			}
			if t.From.State == "looking" && t.To != "looking" {
				if t.Consumed == "T" {
					add(prog, "looking->"+t.To, Discharged, "leaving looking consumes the line", pos(t))
				} else {
					add(prog, "looking->"+t.To, Violated, "transition out of looking without consuming the line (consumed="+t.Consumed+"): the caller would loop or forward a dump line", pos(t))
				}
			}
			if t.To == "looking" {
				k := t.From.State + "->looking"
				switch {
				case t.Consumed != "F":
					add(clean, k, Violated, "a line is consumed while (or on the way to) looking: it is neither forwarded nor part of a dump (consumed="+t.Consumed+") on "+t.guard(), pos(t))
				case t.Err != "nil":
					add(clean, k, Violated, "an error is returned in state looking", pos(t))
				default:
					add(clean, k, Discharged, "lines seen in looking are left to the caller, without error", pos(t))
				}
			}
			for _, e := range t.Effects {
				if strings.HasPrefix(e, "prefix:=indent") {
					if t.From.State == "looking" {
						add(pre, "set:"+t.From.State, Discharged, "indentation captured on the first header only", pos(t))
					} else {
						add(pre, "set:"+t.From.State, Violated, "the indentation prefix is (re)set outside looking: later goroutines of an indented dump lose their indentation", pos(t))
					}
				}
				if e == "prefix:=nil" {
					if t.To == "looking" || t.To == "done" {
						add(pre, "reset:"+t.From.State+"->"+t.To, Discharged, "prefix reset only when the dump is left", pos(t))
					} else {
						add(pre, "reset:"+t.From.State+"->"+t.To, Violated, "prefix reset inside a dump", pos(t))
					}
				}
			}
			// unterminated last line
			if v1, ok1 := t.Lits["eol:crlf"]; ok1 && !v1 {
				if v2, ok2 := t.Lits["eol:lf"]; ok2 && !v2 {
					k := "state:" + t.From.State + "/eol:none"
					if t.From.State == "looking" && t.Consumed == "F" {
						add(cut, k, Violated, "an unterminated last line seen while looking is forwarded although it may be the head of a dump line (cut stream forwards bytes the uncut stream does not)", pos(t))
					} else if t.From.State == "looking" {
						add(cut, k, Discharged, "", pos(t))
					}
				}
			}
		}
		emit("SM-progress", prog)
		emit("SM-looking-clean", clean)
		emit("SM-prefix", pre)
		emit("SM-cut-forward", cut)
	}
	// --- SM-withhold
	{
		res := map[string]*agg{}
		for cf := range m.reach {
			if cf.State == "looking" || cf.State == "done" {
				continue
			}
			k := "state:" + cf.State
			if !cf.Gne {
				add(res, k, Violated, "lines have been consumed but no goroutine exists yet in "+cf.String()+": if the stream ends or the next line does not fit, these lines are withheld and no snapshot is returned for them", L.Pos(m.fn.Pos()))
			} else {
				add(res, k, Discharged, "a snapshot exists whenever lines are withheld", L.Pos(m.fn.Pos()))
			}
		}
		emit("SM-withhold", res)
	}
	// --- SM-blank
	{
		res := map[string]*agg{}
		blankTargets := map[string]bool{}
		for _, t := range m.trans {
			if v, ok := t.Lits["blank"]; ok && v && t.Consumed == "T" {
				blankTargets[t.To] = true
			}
		}
		for _, t := range m.trans {
			if !blankTargets[t.From.State] {
				continue
			}
			if v, ok := t.Lits["blank"]; ok && v {
				k := "state:" + t.From.State
				if t.Consumed != "F" {
					add(res, k, Violated, "a second blank line is consumed after the one that ended a goroutine", pos(t))
				} else {
					add(res, k, Discharged, "at most one blank separator is swallowed", pos(t))
				}
			}
		}
		emit("SM-blank", res)
	}
	// --- SM-done-remainder
	{
		need := false
		var where *smTrans
		for _, t := range m.trans {
			if t.To == "done" && t.Consumed != "F" && t.Term == "return" {
				need = true
				where = t
			}
		}
		if need {
			ok, why, p := postLoopCapture(c)
			st := Discharged
			if !ok {
				st = Violated
			}
			obls = append(obls, Obl{Rule: "SM-done-remainder", Key: "ScanSnapshot/post-loop-capture", Pos: p, Status: st, Msg: "a transition consumes the line that ends the dump (" + where.From.State + " on " + where.guard() + "), so the caller must return the read-ahead: " + why})
		} else {
			obls = append(obls, Obl{Rule: "SM-done-remainder", Key: "no-consuming-end", Status: Discharged, Msg: "no transition into done consumes its line"})
		}
	}
	// --- SM-ref
	{
		err := refErr
		if err != nil {
			obls = append(obls, Obl{Rule: "SM-ref", Key: "reference", Status: Undecided, Msg: err.Error()})
		} else {
			res := map[string]*agg{}
			total := 0
			for _, t := range m.trans {
				if t.Term == "panic" {
					continue // SM-panic
				}
				mm, n := m.compare(ref, t)
				total += n
				k := "state:" + t.From.State + "->" + t.To
				if mm != "" {
					// key by state and the decisive positive literals
					var g []string
					for _, a := range t.LitOrder {
						if t.Lits[a] && !strings.HasPrefix(a, "eol:") && !strings.HasPrefix(a, "(") {
							g = append(g, a)
						}
					}
					add(res, "state:"+t.From.State+"/"+strings.Join(g, ",")+"->"+t.To, Violated, mm+" on "+t.guard(), pos(t))
				} else {
					add(res, k, Discharged, "agrees with the reference automaton", pos(t))
				}
			}
			c.stat("SM", "reference_comparisons", total)
			// every reference state must exist and vice versa
			for s := range ref.States {
				if _, ok := m.stateVal[s]; !ok {
					add(res, "state:"+s+"/missing", Violated, "state of the reference automaton does not exist in the program", L.Pos(m.fn.Pos()))
				}
			}
			for _, s := range m.states {
				if _, ok := ref.States[s]; !ok {
					add(res, "state:"+s+"/unknown", Violated, "state is not part of the reference automaton", L.Pos(m.fn.Pos()))
				}
			}
			// the exclusion facts used by the comparison must be true of the patterns
			for _, o := range checkExclusions(c, ref) {
				obls = append(obls, o)
			}
			emit("SM-ref", res)
		}
	}
	// default obligations for rules that found nothing
	return obls
}

var ruleDoc = map[string]string{
	"SM-deref":    "every dereference/index in scan is covered by the facts of the configuration",
	"SM-append":   "goroutine and call lists only grow by append at the end",
	"SM-cur-only": "stores reach only the current goroutine",
	"SM-first":    "First is set exactly on the goroutine appended to an empty list",
	"SM-raceidx":  "goroutineIndex designates the last or the ID-matched goroutine",
	"RX-groups":   "submatch indices are within the pattern's groups and nil-checked",
	"SM-prefix":   "prefix is a fresh copy of the matched indentation",
}

// checkExclusions verifies the mutual-exclusion facts the reference relies on.
func checkExclusions(c *Ctx, ref *refAutomaton) []Obl {
	var obls []Obl
	// "blank" excludes X: pattern X does not match the empty string / constant X is non-empty
	for _, ex := range ref.Excludes {
		if len(ex) != 2 {
			obls = append(obls, Obl{Rule: "SM-ref", Key: "excl:" + strings.Join(ex, "|"), Status: Undecided, Msg: "only pairwise exclusions are supported"})
			continue
		}
		key := "excl:" + ex[0] + "|" + ex[1]
		ok, why := exclusionHolds(c, ex[0], ex[1])
		st := Discharged
		if !ok {
			st = Undecided
		}
		obls = append(obls, Obl{Rule: "SM-ref", Key: key, Status: st, Msg: why})
	}
	return obls
}

// isItemsTail: items[1:] - the header items behind the state.
func isItemsTail(x *Expr) bool {
	return x != nil && x.Op == OpSlice && len(x.Args) == 4 && x.Args[0].calleeIs("bytes", "Split") && x.Args[1] != nil && x.Args[2] == nil
}
