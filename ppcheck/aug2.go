package main

// AUG-typestr and AUG-load (C19).
//
// AUG-typestr: writer/reader agreement between fieldToType (which names the
// type of a parameter from its syntax) and augmentCall (which decides from
// that name how many words the parameter takes): per syntax kind the name
// fieldToType returns has the shape the dispatch table of AUG-words assumes.
//
// AUG-load: a parsed file is remembered only when reading and parsing it
// succeeded, so frames of an unreadable or unparsable file stay unaugmented.

import (
	"fmt"
	"go/constant"
	"go/token"
	"regexp"
	"strings"

	"golang.org/x/tools/go/ssa"
)

// leadConst: the constant text a string expression certainly starts with,
// and whether that is the whole value.
func leadConst(e *Expr) (string, bool) {
	if e == nil {
		return "", false
	}
	if e.Op == OpConst && e.Const != nil && e.Const.Kind() == constant.String {
		return constant.StringVal(e.Const), true
	}
	if e.Op == OpBin && e.Tok == token.ADD && len(e.Args) == 2 {
		l, exact := leadConst(e.Args[0])
		if !exact {
			return l, false
		}
		r, exact2 := leadConst(e.Args[1])
		return l + r, exact2
	}
	if e.calleeIs("fmt", "Sprintf") && len(e.Args) > 1 {
		if f, ok := leadConst(e.Args[1]); ok {
			if i := strings.IndexByte(f, '%'); i >= 0 {
				return f[:i], false
			}
			return f, true
		}
	}
	return "", false
}

// mapOrder: the text of a map type reads map[<key>]<value>: in the returned
// expression (a Sprintf over its operands, or a concatenation) the name of
// the key comes before the name of the value.
func mapOrder(p *Path, r *Expr) (ok, decided bool) {
	flat := r.String()
	if r.calleeIs("fmt", "Sprintf") && len(r.Args) == 3 && r.Args[2].Op == OpSlice {
		arr := r.Args[2].Args[0].String()
		flat = ""
		for i := 0; i < 4; i++ {
			if v := p.Cells[arr+fmt.Sprintf("[%d]", i)]; v != nil {
				flat += v.String() + " | "
			}
		}
	}
	k, v := strings.Index(flat, ".Key"), strings.Index(flat, ".Value")
	if k < 0 || v < 0 {
		return false, false
	}
	return k < v, true
}

var reAssertKind = regexp.MustCompile(`^\w+\.Type\.\(\*ast\.(\w+)\)#1$`)

func augTypeStr(c *Ctx, a *flAgg) {
	fn := c.MustFunc(a.obls, "AUG-typestr", "stack", "", "fieldToType")
	if fn == nil {
		return
	}
	exprHome = fn.Pkg.Pkg
	x := &SPE{Fn: fn, MaxVisits: 2}
	x.Explore()
	// fieldToType may delegate a kind to name(), which names AST nodes: what
	// name() returns per syntax kind of its own argument
	type shape struct {
		pre   string
		exact bool
		ok    bool
	}
	nameShape := map[string]shape{}
	if nf := c.L.Func("stack", "", "name"); nf != nil && len(nf.Params) == 1 {
		nx := &SPE{Fn: nf, MaxVisits: 2}
		nx.Explore()
		pn := nf.Params[0].Name()
		re := regexp.MustCompile(`^` + regexp.QuoteMeta(pn) + `\.\(\*ast\.(\w+)\)#1$`)
		for _, p := range nx.Paths {
			if p.Term != "return" || len(p.Results) != 1 {
				continue
			}
			kind := "default"
			for _, lt := range p.Lits {
				if m := re.FindStringSubmatch(lt.Atom.String()); m != nil && lt.Pol {
					kind = m[1]
				}
			}
			pre, exact := leadConst(p.Results[0])
			if kind == "MapType" {
				if ok, decided := mapOrder(p, p.Results[0]); decided && !ok {
					a.bad("AUG-typestr", "name/MapType-order", "a map type is written with the value type inside the brackets and the key type after them", pathPos(p, nf))
				} else if decided {
					a.ok("AUG-typestr", "name/MapType-order", "a map type reads map[key]value", pathPos(p, nf))
				}
			}
			if old, seen := nameShape[kind]; seen && (old.pre != pre || old.exact != exact) {
				nameShape[kind] = shape{}
			} else if !seen {
				nameShape[kind] = shape{pre, exact, true}
			}
		}
	}
	type want struct {
		prefix   string
		exact    bool
		variadic bool
	}
	ref := map[string]want{
		"ArrayType/array": {"[", false, false}, "ArrayType/slice": {"[]", false, false},
		"Ellipsis": {"", false, true}, "FuncType": {"func", true, false}, "Ident": {"", false, false},
		"InterfaceType": {"interface{}", true, false}, "SelectorExpr": {"", false, false},
		"StarExpr": {"*", false, false}, "MapType": {"map[", false, false}, "ChanType": {"chan ", false, false},
		"default": {"<unknown>", true, false},
	}
	seen := map[string]bool{}
	for _, p := range x.Paths {
		pos := pathPos(p, fn)
		if p.Term != "return" || len(p.Results) != 2 {
			a.und("AUG-typestr", "fieldToType/paths", "a path does not return (string, bool)", pos)
			continue
		}
		kind := "default"
		for _, lt := range p.Lits {
			if m := reAssertKind.FindStringSubmatch(lt.Atom.String()); m != nil && lt.Pol {
				kind = m[1]
			}
		}
		if kind == "ArrayType" {
			sub := ""
			for _, lt := range p.Lits {
				as := lt.Atom.String()
				if strings.HasSuffix(as, ".Len == nil)") {
					if lt.Pol {
						sub = "slice"
					} else {
						sub = "array"
					}
				}
			}
			kind += "/" + sub
		}
		w, known := ref[kind]
		if !known {
			a.und("AUG-typestr", "fieldToType/"+kind, "a syntax kind the reference table does not list: what augmentCall does with its name is not decided", pos)
			continue
		}
		seen[kind] = true
		if kind == "MapType" {
			if ok, decided := mapOrder(p, p.Results[0]); decided && !ok {
				a.bad("AUG-typestr", "fieldToType/MapType-order", "a map type is written with the value type inside the brackets and the key type after them: the rendered argument names a type the program does not have", pos)
			} else if decided {
				a.ok("AUG-typestr", "fieldToType/MapType-order", "a map type reads map[key]value", pos)
			}
		}
		pre, exact := leadConst(p.Results[0])
		// name(f.Type): the shape name() gives this kind
		if r := p.Results[0]; r.Op == OpCall && r.Fn != nil && r.Fn.Name() == "name" && len(r.Args) == 2 && strings.HasSuffix(r.Args[1].String(), ".Type") {
			k := strings.SplitN(kind, "/", 2)[0]
			if sh, ok := nameShape[k]; ok && sh.ok {
				pre, exact = sh.pre, sh.exact
			}
		}
		variadic, isC := p.Results[1].boolConst()
		ok := isC && variadic == w.variadic
		switch {
		case w.exact:
			ok = ok && exact && pre == w.prefix
		case w.prefix == "":
			ok = ok && pre == "" && !exact
		default:
			ok = ok && !exact && pre == w.prefix
		}
		if ok {
			a.ok("AUG-typestr", "fieldToType/"+kind, fmt.Sprintf("named %q%s, the shape augmentCall dispatches on", w.prefix, map[bool]string{true: "", false: "…"}[w.exact]), pos)
		} else {
			a.bad("AUG-typestr", "fieldToType/"+kind, fmt.Sprintf("a parameter of this syntax kind can be named %q%s (variadic=%v): augmentCall recognises the kind by the name %q%s, any other name is taken for a two-word interface or a named type and every following argument is read from the wrong words", pre, map[bool]string{true: "", false: "…"}[exact], p.Results[1], w.prefix, map[bool]string{true: "", false: "…"}[w.exact]), pos)
		}
	}
	for k := range ref {
		if !seen[k] {
			a.bad("AUG-typestr", "fieldToType/"+k, "this syntax kind is no longer named by fieldToType", fn.Pos())
		}
	}
}

func augLoad(c *Ctx, a *flAgg) {
	fn := c.MustFunc(a.obls, "AUG-load", "stack", "cacheAST", "loadFile")
	if fn == nil {
		return
	}
	exprHome = fn.Pkg.Pkg
	x := &SPE{Fn: fn, MaxVisits: 2}
	x.Explore()
	nStore := 0
	for _, p := range x.Paths {
		pos := pathPos(p, fn)
		for _, ev := range p.Events {
			if ev.Kind != EvMapUpd || !strings.HasSuffix(ev.Addr.String(), ".parsed") {
				continue
			}
			if ev.Val.isNilConst() {
				continue
			}
			nStore++
			pos = ev.Pos
			readOK, parseOK := false, false
			for _, lt := range p.Lits {
				as := lt.Atom.String()
				if strings.HasSuffix(as, "#1 == nil)") && lt.Pol {
					if strings.Contains(as, "ReadFile(") && !strings.Contains(as, "ParseFile(") {
						readOK = true
					}
					if strings.Contains(as, "parser.ParseFile(") {
						parseOK = true
					}
				}
			}
			// what is stored: the tree of that very parse
			tree := ""
			for _, e2 := range p.Events {
				if e2.Kind == EvStore && strings.HasSuffix(e2.Addr.String(), ".parsed") {
					tree = e2.Val.String()
				}
			}
			switch {
			case !parseOK || !readOK:
				a.bad("AUG-load", "loadFile/store", fmt.Sprintf("a parsed file is remembered on a path where reading or parsing may have failed (read ok tested: %v, parse ok tested: %v): frames of an unparsable file are then augmented from whatever declarations the parser recovered", readOK, parseOK), pos)
			case !strings.Contains(tree, "parser.ParseFile(") || !strings.HasSuffix(tree, "#0"):
				a.bad("AUG-load", "loadFile/store", "the remembered tree is not the result of this parse: "+tree, pos)
			default:
				a.ok("AUG-load", "loadFile/store", "a file is remembered only after it was read and parsed without error, with the tree of that parse", pos)
			}
		}
		// a failed parse is reported (the error is the last result)
		if p.Term == "return" && len(p.Results) >= 1 {
			for _, lt := range p.Lits {
				as := lt.Atom.String()
				if strings.HasSuffix(as, "#1 == nil)") && !lt.Pol && (strings.Contains(as, "ParseFile(") || strings.Contains(as, "ReadFile(")) {
					if p.Results[len(p.Results)-1].isNilConst() {
						a.bad("AUG-load", "loadFile/error", "a read or parse failure is not returned", pos)
					} else {
						a.ok("AUG-load", "loadFile/error", "read and parse failures are returned", pos)
					}
				}
			}
		}
	}
	if nStore == 0 {
		a.und("AUG-load", "loadFile/store", "no store of a parsed file found", fn.Pos())
	}
}

var _ = ssa.Instruction(nil)

// augParams (AUG-params): extractArgumentsType yields one type name per
// printed argument: the pointer receiver first (a value receiver is not
// printed and a declaration with zero or several receivers is no method),
// then for every parameter field its type once per declared name, once if
// the field is unnamed. Decided over all paths of the function (lists of up
// to two fields with up to two names each; longer ones repeat the same loop
// bodies).
func augParams(c *Ctx, a *flAgg) {
	const rule = "AUG-params"
	fn := c.MustFunc(a.obls, rule, "stack", "", "extractArgumentsType")
	if fn == nil {
		return
	}
	exprHome = fn.Pkg.Pkg
	x := &SPE{Fn: fn, MaxVisits: 3}
	x.Explore()
	if len(fn.Params) != 1 {
		a.und(rule, "extractArgumentsType/signature", "unexpected signature", fn.Pos())
		return
	}
	f := fn.Params[0].Name()
	params := f + ".Type.Params.List"
	recv0 := f + ".Recv.List[0]"
	nPaths, okRecv, okMult, okVal := 0, true, true, true
	whyRecv, whyMult := "", ""
	for _, p := range x.Paths {
		if p.Term != "return" {
			continue
		}
		// the list that is ranged over
		var L *Expr
		for _, ev := range p.Events {
			if ev.Kind == EvCall && ev.Val.Op == OpBuiltin && ev.Val.Name == "len" && len(ev.Val.Args) == 1 {
				if x := ev.Val.Args[0]; x.Op == OpBuiltin && x.Name == "append" && len(x.Args) == 2 && x.Args[1].String() == params {
					L = x
				}
			}
		}
		if L == nil {
			// the parameter list itself is ranged over (no receiver prepended on this path)
			for _, ev := range p.Events {
				if ev.Kind == EvCall && ev.Val.Op == OpBuiltin && ev.Val.Name == "len" && len(ev.Val.Args) == 1 && ev.Val.Args[0].String() == params {
					L = ev.Val.Args[0]
				}
			}
		}
		if L == nil {
			continue
		}
		nPaths++
		included := false
		if L.Op == OpBuiltin && L.Name == "append" {
			base := L.Args[0]
			// append(nil, xs...) is xs (slices.Concat / Clone spell it that way)
			for i := 0; i < 3; i++ {
				if base.Op == OpBuiltin && base.Name == "append" && len(base.Args) == 2 && (isFreshEmpty(base.Args[0]) || base.Args[0].isNilConst()) && base.Args[1].Op != OpSlice {
					base = base.Args[1]
					continue
				}
				break
			}
			if base.isNilConst() {
				base = &Expr{Op: OpConst, Type: base.Type}
			}
			if base.Op == OpBuiltin && base.Name == "append" && len(base.Args) == 2 && base.Args[1].Op == OpSlice && (isFreshEmpty(base.Args[0]) || base.Args[0].Op == OpConst) {
				if v := p.Cells[base.Args[1].Args[0].String()+"[0]"]; v != nil && v.String() == recv0 {
					included = true
				} else {
					okRecv, whyRecv = false, "something else than the receiver field is put in front of the parameters: "+base.String()
				}
			} else if !isFreshEmpty(base) && base.Op != OpConst {
				okRecv, whyRecv = false, "unexpected head of the argument list: "+base.String()
			}
		}
		recvNil, h1 := p.lit("(" + f + ".Recv == nil)")
		one, h2 := p.lit("(len(" + f + ".Recv.List) == 1)")
		star, h3 := false, false
		for _, lt := range p.Lits {
			if s := lt.Atom.String(); strings.HasPrefix(s, recv0+".Type.(") && strings.Contains(s, "StarExpr") {
				star, h3 = lt.Pol, true
			}
		}
		want := h1 && !recvNil && h2 && one && h3 && star
		// a helper may hand the receiver field back as a pointer that the caller
		// tests: go/parser never leaves a nil *ast.Field in a list
		if isNil, have := p.lit("(" + recv0 + " == nil)"); have && isNil {
			want = false
		}
		if included != want {
			okRecv = false
			whyRecv = fmt.Sprintf("the receiver is counted=%v on a path where 'exactly one receiver, of pointer type' is %v (%s)", included, want, litsString(p))
		}
		// left out only for one of the three reasons: no receiver list, not
		// exactly one receiver, not a pointer receiver (an unnamed pointer
		// receiver "func (*T) m()" is still printed as the first word)
		if !included {
			reason := (h1 && recvNil) || (h2 && !one) || (h3 && !star)
			if isNil, have := p.lit("(" + recv0 + " == nil)"); have && isNil {
				reason = true
			}
			if !reason {
				okRecv = false
				whyRecv = "the receiver is left out on a path where it is neither absent, nor one of several, nor a value receiver (" + litsString(p) + ")"
			}
		}
		// per element
		ls := L.String()
		for k := 0; k < 3; k++ {
			el := fmt.Sprintf("%s[%d]", ls, k)
			visited := false
			for _, ev := range p.Events {
				if ev.Kind == EvCall && ev.Val.calleeIs(stackPkg, "fieldToType") && len(ev.Val.Args) == 2 && ev.Val.Args[1].String() == el {
					visited = true
				}
			}
			if !visited {
				break
			}
			val := "fieldToType(" + el + ")#0"
			n := 0
			for _, ev := range p.Events {
				if ev.Kind == EvStore && strings.HasPrefix(ev.Addr.String(), "&varargs") && ev.Val.String() == val {
					n++
				}
			}
			unnamed, have := p.lit("(len(" + el + ".Names) == 0)")
			wantN := -1
			switch {
			case !have:
			case unnamed:
				wantN = 1
			default:
				wantN = 1
				for j := 1; j < 4; j++ {
					if v, ok := p.lit(fmt.Sprintf("(%d < len(%s.Names))", j, el)); ok && v {
						wantN++
					}
				}
			}
			if wantN < 0 {
				okMult, whyMult = false, "the number of names of a field is not looked at ("+litsString(p)+")"
			} else if n != wantN {
				okMult = false
				whyMult = fmt.Sprintf("a field with %s contributes %d type(s) instead of %d", map[bool]string{true: "no name", false: "names"}[unnamed], n, wantN)
			}
			if n == 0 {
				okVal = false
			}
		}
	}
	if nPaths == 0 {
		a.und(rule, "extractArgumentsType/list", "the list of fields ranged over was not recognised", fn.Pos())
		return
	}
	if okRecv {
		a.ok(rule, "extractArgumentsType/receiver", "the receiver comes first, and only when it is the single, pointer-typed receiver", fn.Pos())
	} else {
		a.bad(rule, "extractArgumentsType/receiver", whyRecv+": every argument of a method is decoded against the type of its neighbour", fn.Pos())
	}
	if okMult && okVal {
		a.ok(rule, "extractArgumentsType/multiplicity", fmt.Sprintf("each field contributes its type once per name, once when unnamed (%d paths)", nPaths), fn.Pos())
	} else {
		a.bad(rule, "extractArgumentsType/multiplicity", whyMult+": the arguments after it are decoded against the wrong types", fn.Pos())
	}
}

// augFuncASTOrder (AUG-name/getFuncAST-order): the declaration a frame's line
// lies in is the last FuncDecl that *starts before* the line: the walk
// remembers a declaration only on the path on which the node's position is
// below the line's offset. Remembering it before the position test makes a
// frame reported on the closing brace of a function (a deferred call
// panicking on return) take the *next* declaration.
func augFuncASTOrder(c *Ctx, a *flAgg) {
	fn := c.L.Func("stack", "parsedFile", "getFuncAST")
	if fn == nil {
		return
	}
	exprHome = fn.Pkg.Pkg
	n, bad := 0, ""
	anons := append([]*ssa.Function{}, fn.AnonFuncs...)
	for _, h := range blocksOwners(fn)[1:] {
		anons = append(anons, h.AnonFuncs...) // the walk moved into a helper
	}
	// ... or into an ast.Visitor: the Visit methods of the package outside the
	// pinned vocabulary
	for _, f := range c.L.SrcFuncs("stack") {
		if f.Name() == "Visit" && f.Signature.Recv() != nil && defaultInline(f) {
			anons = append(anons, f)
		}
	}
	for _, af := range anons {
		x := &SPE{Fn: af, MaxVisits: 2}
		x.Explore()
		for _, p := range x.Paths {
			stored := false
			for _, ev := range p.Events {
				if ev.Kind == EvStore && strings.Contains(ev.Addr.String(), "lastFunc") {
					stored = true
				}
			}
			if !stored {
				continue
			}
			n++
			// the position test must have been made, and failed, on this path
			before := false
			for _, lt := range p.Lits {
				at := lt.Atom
				if at.Op == OpBin && at.Tok == token.LSS && len(at.Args) == 2 && (strings.Contains(at.Args[0].String(), "Pos(") != strings.Contains(at.Args[1].String(), "Pos(")) {
					// (pos < offset) true, or (offset <= pos) ... normalised to LSS
					if strings.Contains(at.Args[0].String(), "Pos(") {
						before = lt.Pol
					} else {
						before = !lt.Pol
					}
				}
			}
			if !before {
				bad = litsString(p)
			}
		}
	}
	switch {
	case n == 0:
		a.und("AUG-name", "getFuncAST/order", "the walk never remembers a declaration", fn.Pos())
	case bad != "":
		a.bad("AUG-name", "getFuncAST/order", "a declaration is remembered on a path on which its position was not found to lie before the frame's line ("+bad+"): a frame on the closing brace of a function is decoded with the signature of the next declaration", fn.Pos())
	default:
		a.ok("AUG-name", "getFuncAST/order", "a declaration is remembered only when it starts before the frame's line", fn.Pos())
	}
}
