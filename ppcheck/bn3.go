package main

// BN-zero — constant indices. x[c] on a slice or string with a constant c
// needs len(x) > c on every path. The scanner's own sites are decided by
// SM-deref (typestate facts) and are skipped here. A lower bound of len(x)
// is derived from: dominating guards on len(x) (any len call on the same
// value), x != "", HasPrefix/HasSuffix with a constant, the producer of x
// (Split*: >= 1, constant-length literals and arrays, make with a constant,
// append with elements, string constants, slices with constant bounds, a
// nil-checked FindSubmatch of a pattern with enough groups), and phis (the
// minimum over the edges).

import (
	"fmt"
	"go/ast"
	"go/constant"
	"go/token"
	"go/types"
	"regexp/syntax"
	"strings"

	"golang.org/x/tools/go/ssa"
)

func bnZero(c *Ctx, a *flAgg) {
	total, proved := 0, 0
	for _, pn := range []string{"stack", "internal", "stack/webstack"} {
		for _, f := range c.L.SrcFuncs(pn) {
			if smCovers(f) {
				continue // SM-deref
			}
			an := &bnAn{c: c, fn: f}
			ord := map[string]int{}
			for _, b := range f.Blocks {
				for _, ins := range b.Instrs {
					var coll, idx ssa.Value
					switch in := ins.(type) {
					case *ssa.IndexAddr:
						coll, idx = in.X, in.Index
					case *ssa.Lookup:
						if _, isMap := in.X.Type().Underlying().(*types.Map); isMap {
							continue
						}
						coll, idx = in.X, in.Index
					case *ssa.Index:
						coll, idx = in.X, in.Index
					case *ssa.Slice:
						// constant slice bounds x[a:b]: len(x) >= max(a, b)
						if arrayLen(in.X) >= 0 {
							continue
						}
						if _, isPtr := in.X.Type().Underlying().(*types.Pointer); isPtr {
							continue
						}
						need := int64(0)
						for _, bd := range []ssa.Value{in.Low, in.High} {
							if bd != nil {
								if k, ok := bnConst(bd); ok && k > need {
									need = k
								}
							}
						}
						if need == 0 {
							continue
						}
						total++
						what := srcSliceExpr(c, in.Pos())
						ord[what]++
						key := bnDesc(f, in.X, "const-slice:"+what, ord[what])
						lb := an.lenLB(in.X, b, ins, 0)
						switch {
						case lb >= need:
							proved++
							a.ok("BN-zero", key, fmt.Sprintf("len >= %d at this point", lb), in.Pos())
						case bnCallee(an.producer(in.X)) == "runtime.Version" || bnCallee(in.X) == "runtime.Version" || an.fromRuntimeVersion(in.X):
							proved++
							a.ok("BN-zero", key, "contract: runtime.Version() of the running binary (configuration, not input)", in.Pos())
						default:
							a.bad("BN-zero", key, fmt.Sprintf("constant slice bound %d: nothing on the way guarantees that many elements (proven: %d)", need, lb), in.Pos())
						}
						continue
					default:
						continue
					}
					k, ok := bnConst(idx)
					if !ok {
						continue
					}
					if arrayLen(coll) >= 0 {
						continue // the compiler rejects a constant out-of-range array index
					}
					total++
					what := srcIndexExpr(c, ins.Pos())
					if what == "" {
						what = fmt.Sprintf("%s[%d]", shortVal(coll), k)
					}
					ord[what]++
					key := bnDesc(f, coll, "const-index:"+what, ord[what])
					lb := an.lenLB(coll, b, ins, 0)
					if lb > k {
						proved++
						a.ok("BN-zero", key, fmt.Sprintf("len >= %d at this point", lb), ins.Pos())
					} else if why := bnZeroContract(c, f, coll, k); why != "" {
						proved++
						a.ok("BN-zero", key, "contract: "+why, ins.Pos())
					} else {
						a.bad("BN-zero", key, fmt.Sprintf("constant index %d: nothing on the way guarantees more than %d element(s) (no dominating length test, non-empty test or producer with a known minimum length)", k, lb), ins.Pos())
					}
				}
			}
		}
	}
	c.stat("BN", "const_index_sites", total)
	c.stat("BN", "const_index_proved", proved)
}

// lenLB: a lower bound of len(x) valid at instruction `at` in block b.
func (a *bnAn) lenLB(x ssa.Value, b *ssa.BasicBlock, at ssa.Instruction, depth int) int64 {
	if depth > 6 {
		return 0
	}
	best := int64(0)
	up := func(v int64) {
		if v > best && v < bnTop/2 {
			best = v
		}
	}
	up(a.lenLo(x, b, nil))
	// any len(...) call on the same value, bounded by dominating guards
	for _, bb := range a.fn.Blocks {
		for _, in := range bb.Instrs {
			call, ok := in.(*ssa.Call)
			if !ok || bnCallee(call) != "builtin.len" || !a.sameVal(call.Call.Args[0], x) {
				continue
			}
			if !bb.Dominates(b) {
				continue
			}
			if v := a.lo(call, b, 0, map[ssa.Value]bool{}); v != bnUnk {
				up(v)
			}
		}
	}
	// HasPrefix/HasSuffix(x, const) dominating on the true edge
	guards(b, func(cond ssa.Value, truth bool, where *ssa.BasicBlock) {
		call, ok := cond.(*ssa.Call)
		if !ok || !truth {
			return
		}
		switch bnCallee(call) {
		case "strings.HasPrefix", "strings.HasSuffix", "bytes.HasPrefix", "bytes.HasSuffix":
			if a.sameVal(call.Call.Args[0], x) {
				if n, ok := ssaConstLen(call.Call.Args[1]); ok {
					up(n)
				}
			}
		}
	})
	switch v := x.(type) {
	case *ssa.Const:
		if v.Value != nil && v.Value.Kind() == constant.String {
			up(int64(len(constant.StringVal(v.Value))))
		}
	case *ssa.Slice:
		lo, hi := int64(0), int64(-1)
		if v.Low != nil {
			k, ok := bnConst(v.Low)
			if !ok {
				break
			}
			lo = k
		}
		if v.High != nil {
			if k, ok := bnConst(v.High); ok {
				hi = k
			}
		} else if n := arrayLen(v.X); n >= 0 {
			hi = n
		} else if v.Low != nil {
			// x[k:]: len(x) - k
			up(a.lenLB(v.X, b, at, depth+1) - lo)
		} else {
			up(a.lenLB(v.X, b, at, depth+1))
		}
		if hi >= 0 {
			up(hi - lo)
		}
	case *ssa.MakeSlice:
		if k, ok := bnConst(v.Len); ok {
			up(k)
		}
	case *ssa.Phi:
		m := int64(bnTop)
		for i, e := range v.Edges {
			if e == ssa.Value(v) {
				continue
			}
			eb := v.Block().Preds[i]
			l := a.lenLB(e, eb, nil, depth+1)
			if l < m {
				m = l
			}
		}
		if m < bnTop/2 {
			up(m)
		}
	case *ssa.Call:
		switch bnCallee(v) {
		case "builtin.append":
			if len(v.Call.Args) == 2 {
				n := a.lenLB(v.Call.Args[0], v.Block(), v, depth+1)
				if sl, ok := v.Call.Args[1].(*ssa.Slice); ok {
					if k := arrayLen(sl.X); k >= 0 && sl.Low == nil && sl.High == nil {
						n += k
					}
				}
				up(n)
			}
		case "strings.Fields", "bytes.Fields":
		}
		// a FindSubmatch family result that is known to be non-nil / non-empty
		if n, ok := a.submatchLen(v, b, best >= 1); ok {
			up(n)
		}
	case *ssa.Convert:
		// string <-> []byte keeps the length
		up(a.lenLB(v.X, b, at, depth+1))
	case *ssa.ChangeType:
		up(a.lenLB(v.X, b, at, depth+1))
	case *ssa.UnOp:
		// a load of a local that is stored once, in a dominating block
		if v.Op == token.MUL {
			if al, ok := v.X.(*ssa.Alloc); ok {
				var st *ssa.Store
				n := 0
				for _, u := range *al.Referrers() {
					if s, ok := u.(*ssa.Store); ok && s.Addr == ssa.Value(al) {
						st = s
						n++
					}
				}
				if n == 1 && st.Block().Dominates(b) {
					up(a.lenLB(st.Val, st.Block(), st, depth+1))
				}
			} else {
				// a load of a field: the value stored to the same address earlier
				// in the block, with no call and no store that may alias between
				blk := v.Block()
				at := -1
				for i, in := range blk.Instrs {
					if in == ssa.Instruction(v) {
						at = i
					}
				}
			back:
				for j := at - 1; j >= 0; j-- {
					switch in := blk.Instrs[j].(type) {
					case *ssa.Store:
						if a.sameAddr(in.Addr, v.X) {
							up(a.lenLB(in.Val, blk, in, depth+1))
							break back
						}
						pa, ok1 := in.Addr.Type().Underlying().(*types.Pointer)
						pb, ok2 := v.X.Type().Underlying().(*types.Pointer)
						if !ok1 || !ok2 || types.Identical(pa.Elem(), pb.Elem()) {
							break back
						}
					case *ssa.Call:
						if _, isB := in.Call.Value.(*ssa.Builtin); !isB {
							break back
						}
					case *ssa.Defer, *ssa.Go, *ssa.Send, *ssa.Select, *ssa.RunDefers:
						break back
					}
				}
			}
		}
	}
	return best
}

func ssaConstLen(v ssa.Value) (int64, bool) {
	switch v := v.(type) {
	case *ssa.Const:
		if v.Value != nil && v.Value.Kind() == constant.String {
			return int64(len(constant.StringVal(v.Value))), true
		}
	case *ssa.Convert:
		return ssaConstLen(v.X)
	}
	return 0, false
}

// submatchLen: v = re.FindSubmatch(...)/FindStringSubmatch(...) with re a
// package-level pattern compiled from a constant, and v != nil dominating b.
func (a *bnAn) submatchLen(v *ssa.Call, b *ssa.BasicBlock, nonEmpty bool) (int64, bool) {
	cal := v.Call.StaticCallee()
	if cal == nil || cal.Pkg == nil || cal.Pkg.Pkg.Path() != "regexp" || !strings.Contains(cal.Name(), "Submatch") || strings.Contains(cal.Name(), "All") || strings.Contains(cal.Name(), "Index") {
		return 0, false
	}
	ld, ok := v.Call.Args[0].(*ssa.UnOp)
	if !ok {
		return 0, false
	}
	g, ok := ld.X.(*ssa.Global)
	if !ok {
		return 0, false
	}
	pat, ok := globalPattern(a.c, g)
	if !ok {
		return 0, false
	}
	re, err := syntax.Parse(pat, syntax.Perl)
	if err != nil {
		return 0, false
	}
	nonNil := nonEmpty
	guards(b, func(cond ssa.Value, truth bool, where *ssa.BasicBlock) {
		bo, ok := cond.(*ssa.BinOp)
		if !ok {
			return
		}
		op := bo.Op
		if !truth {
			op = negOp(op)
		}
		if k, ok := bo.Y.(*ssa.Const); ok && k.Value == nil && bo.X == ssa.Value(v) && op == token.NEQ {
			nonNil = true
		}
	})
	if !nonNil {
		return 0, false
	}
	return int64(re.MaxCap()) + 1, true
}

func globalPattern(c *Ctx, g *ssa.Global) (string, bool) {
	if g.Pkg == nil {
		return "", false
	}
	short := strings.TrimPrefix(strings.TrimPrefix(g.Pkg.Pkg.Path(), modPath), "/")
	return regexpPattern(c.L, short, g.Name())
}


// srcIndexExpr renders the index expression whose '[' is at pos.
func srcIndexExpr(c *Ctx, pos token.Pos) string {
	_, file := c.L.FileOf(pos)
	if file == nil {
		return ""
	}
	out := ""
	ast.Inspect(file, func(n ast.Node) bool {
		if n == nil || out != "" || n.Pos() > pos || n.End() < pos {
			return false
		}
		if e, ok := n.(*ast.IndexExpr); ok && e.Lbrack == pos {
			out = types.ExprString(e)
		}
		return true
	})
	return out
}

func oblsDischarged(c *Ctx, engine string, rules ...string) bool {
	e := engines[engine]
	if e == nil {
		return false
	}
	seen := map[string]bool{}
	for _, o := range c.run(e) {
		for _, r := range rules {
			if o.Rule == r {
				if o.Status != Discharged {
					return false
				}
				seen[r] = true
			}
		}
	}
	for _, r := range rules {
		if !seen[r] {
			return false
		}
	}
	return true
}

// bnZeroContract: the contract table of BN-zero; an entry that rests on
// another rule holds only if that rule is discharged on this run.
func bnZeroContract(c *Ctx, f *ssa.Function, coll ssa.Value, k int64) string {
	if k != 0 {
		return ""
	}
	ld, ok := coll.(*ssa.UnOp)
	if !ok || ld.Op != token.MUL {
		return ""
	}
	if g, ok := ld.X.(*ssa.Global); ok && g.Pkg != nil && g.Pkg.Pkg.Path() == "os" && g.Name() == "Args" {
		return "os.Args[0] is the program name (configuration, not input)"
	}
	fa, ok := ld.X.(*ssa.FieldAddr)
	if !ok {
		return ""
	}
	pt, ok := fa.X.Type().Underlying().(*types.Pointer)
	if !ok {
		return ""
	}
	named, ok := pt.Elem().(*types.Named)
	if !ok || named.Obj().Pkg() == nil || named.Obj().Pkg().Path() != modPath+"/stack" {
		return ""
	}
	st, ok := named.Underlying().(*types.Struct)
	if !ok {
		return ""
	}
	field := named.Obj().Name() + "." + st.Field(fa.Field).Name()
	switch field {
	case "Snapshot.Goroutines":
		if withinOnly(c, f, "(*stack.Snapshot).IsRace", 0) && oblsDischarged(c, "FL", "FL-snapshot") {
			return "a Snapshot is handed out by ScanSnapshot only when s.Goroutines != nil, and the list only grows (FL-snapshot discharged on this run; SM-append); IsRace on a hand-made empty Snapshot is outside the property"
		}
	case "Bucket.IDs":
		if withinOnly(c, f, "(*stack.Snapshot).Aggregate", 0) && oblsDischarged(c, "AG", "AG-once", "AG-collect") {
			return "every bucket is created with one goroutine id and ids are only appended (AG-once, AG-collect discharged on this run)"
		}
	}
	return ""
}

// bnUpper — BN-upper: upper bounds of variable indices, for the two shapes
// whose safety is not visible at the site itself:
//   look-ahead   x[v+c], c >= 1 (other than the compiler's own lowering of a
//                range loop): needs a dominating v+c < len(x) (or equivalent);
//   parallel     x[i] where i is the index of a loop over ANOTHER value y:
//                needs len(x) == len(y) (dominating comparison of the two
//                lengths, or x made with len(y)), i < len(x) tested, or a
//                contract entry resting on a rule discharged on this run.
// An index that is the variable of a loop over the same value, len(x)-k, or a
// search result in x is safe by construction and only counted. The scanner
// and the reader are decided by SM-deref and RB.
func bnUpper(c *Ctx, a *flAgg) {
	total, own, inScope, proved := 0, 0, 0, 0
	for _, pn := range []string{"stack", "internal", "stack/webstack"} {
		for _, f := range c.L.SrcFuncs(pn) {
			if smCovers(f) {
				continue
			}
			an := &bnAn{c: c, fn: f}
			ord := map[string]int{}
			for _, b := range f.Blocks {
				for _, ins := range b.Instrs {
					var coll, idx ssa.Value
					switch in := ins.(type) {
					case *ssa.IndexAddr:
						coll, idx = in.X, in.Index
					case *ssa.Lookup:
						if _, isMap := in.X.Type().Underlying().(*types.Map); isMap {
							continue
						}
						coll, idx = in.X, in.Index
					case *ssa.Slice:
						// look-ahead slice bounds x[:v+c], x[v+c:]: v+c <= len(x)
						if arrayLen(in.X) >= 0 {
							continue
						}
						if _, isPtr := in.X.Type().Underlying().(*types.Pointer); isPtr {
							continue
						}
						if _, isConst := in.X.(*ssa.Const); isConst {
							continue // BN-const
						}
						for _, bd := range []ssa.Value{in.High, in.Low} {
							if bd == nil {
								continue
							}
							if _, ok := bnConst(bd); ok {
								continue
							}
							if P, _, ok := lenOfOtherPlus(bd); ok && !an.sameVal(P, in.X) {
								continue // BN-idiom: a bound built from the length of another value
							}
							total++
							if kind, _ := an.indexKind(bd, in.X, b); kind != "look-ahead" {
								own++
								continue
							}
							inScope++
							what := srcSliceExpr(c, in.Pos())
							if what == "" {
								what = shortVal(in.X) + "[" + shortVal(bd) + "]"
							}
							what += "/" + shortVal(bd)
							if i := strings.Index(what, "="); i >= 0 && strings.HasPrefix(shortVal(bd), "t") {
								what = what[:strings.LastIndex(what, "/")] + "/" + map[bool]string{true: "high", false: "low"}[bd == in.High]
							}
							ord[what]++
							key := bnDesc(f, in.X, "look-ahead-slice:"+what, ord[what])
							if an.leLen(bd, in.X, 0, b, map[ssa.Value]bool{}, 0) {
								proved++
								a.ok("BN-upper", key, "the shifted bound is at most the length (search result plus the needle's length, or a dominating comparison)", in.Pos())
							} else if funcKey(f) == "(*stack.Func).Init" && aggDischarged(a, "PARSE-funcinit") && strings.Contains(what, "Complete[") {
								proved++
								a.ok("BN-upper", key, "contract: Complete is the unescaped raw symbol and ImportPath the unescaped part before the separating dot (PARSE-funcinit discharged on this run), so Complete is longer than ImportPath by at least that dot", in.Pos())
							} else {
								a.bad("BN-upper", key, "look-ahead slice bound: nothing on the way guarantees that it is at most the length of the sliced value", in.Pos())
							}
						}
						continue
					default:
						continue
					}
					if _, ok := bnConst(idx); ok {
						continue
					}
					if n := arrayLen(coll); n >= 0 {
						continue // BN-array
					}
					total++
					kind, ranged := an.indexKind(idx, coll, b)
					if kind == "" {
						own++
						continue
					}
					inScope++
					what := srcIndexExpr(c, ins.Pos())
					if what == "" {
						what = shortVal(coll) + "[" + shortVal(idx) + "]"
					}
					ord[what]++
					key := bnDesc(f, coll, kind+":"+what, ord[what])
					why := ""
					switch kind {
					case "look-ahead":
						if an.leLen(idx, coll, -1, b, map[ssa.Value]bool{}, 0) {
							why = "a dominating comparison keeps the look-ahead index below the length"
						}
					case "parallel":
						switch {
						case an.leLen(idx, coll, -1, b, map[ssa.Value]bool{}, 0):
							why = "the index is tested against the length of the indexed value itself"
						case ranged != nil && an.sameLen(coll, ranged, b):
							why = "both values have the same length here (dominating comparison of the two lengths, or made with that length)"
						default:
							why = bnUpperContract(c, f, coll, ranged, an)
						}
					}
					if why != "" {
						proved++
						a.ok("BN-upper", key, why, ins.Pos())
					} else if kind == "beyond" {
						a.bad("BN-upper", key, "the index is the length of the indexed value (or more): out of range for every input", ins.Pos())
					} else if kind == "look-ahead" {
						a.bad("BN-upper", key, "look-ahead index: nothing on the way guarantees that it is below the length (the loop or guard only covers the un-shifted index)", ins.Pos())
					} else {
						a.bad("BN-upper", key, "the index runs over another value and nothing guarantees that this one is at least as long (no comparison of the two lengths, not made with that length, no contract)", ins.Pos())
					}
				}
			}
		}
	}
	c.stat("BN", "var_index_sites", total)
	c.stat("BN", "var_index_own_loop_or_derived", own)
	c.stat("BN", "var_index_in_scope", inScope)
	c.stat("BN", "var_index_proved", proved)
}

// loopIndexOf: when v is the index of a lowered range loop or of a counted
// loop (v, or its phi, is compared `< len(y)` in a loop header that dominates
// the use), returns y.
func (a *bnAn) loopIndexOf(v ssa.Value, b *ssa.BasicBlock) ssa.Value {
	var y ssa.Value
	guards(b, func(cond ssa.Value, truth bool, where *ssa.BasicBlock) {
		if y != nil {
			return
		}
		bo, ok := cond.(*ssa.BinOp)
		if !ok {
			return
		}
		op := bo.Op
		if !truth {
			op = negOp(op)
		}
		l, r := bo.X, bo.Y
		if op == token.GTR {
			l, r, op = r, l, token.LSS
		}
		if op != token.LSS || !(l == v || a.sameVal(l, v)) {
			return
		}
		// only loop headers
		isHeader := false
		for _, p := range where.Preds {
			if where.Dominates(p) {
				isHeader = true
			}
		}
		if !isHeader {
			return
		}
		if S := bnLenOf(r); S != nil {
			y = S
		}
	})
	return y
}

// indexKind classifies a variable index: "" (own loop / derived from the
// value's own length / search result), "look-ahead" or "parallel".
func (a *bnAn) indexKind(idx, coll ssa.Value, b *ssa.BasicBlock) (string, ssa.Value) {
	if y := a.loopIndexOf(idx, b); y != nil {
		if a.sameVal(y, coll) {
			return "", nil
		}
		return "parallel", y
	}
	// x[len(x)], x[len(x)+k], x[len(x)-0]: at or beyond the end whatever the length
	{
		v, off := idx, int64(0)
		for depth := 0; depth < 4; depth++ {
			bo, ok := v.(*ssa.BinOp)
			if !ok || (bo.Op != token.ADD && bo.Op != token.SUB) {
				break
			}
			k, isC := bnConst(bo.Y)
			if !isC {
				break
			}
			if bo.Op == token.SUB {
				k = -k
			}
			off += k
			v = bo.X
		}
		if S := bnLenOf(v); S != nil && a.sameVal(S, coll) && off >= 0 {
			return "beyond", nil
		}
	}
	if bo, ok := idx.(*ssa.BinOp); ok && (bo.Op == token.ADD || bo.Op == token.SUB) {
		if k, ok := bnConst(bo.Y); ok {
			if bo.Op == token.SUB {
				k = -k
			}
			if k >= 1 {
				return "look-ahead", nil
			}
			// x[len(x)-k], x[j-k]: lower bound is BN-neg's business
			return "", nil
		}
		if k, ok := bnConst(bo.X); ok && bo.Op == token.ADD && k >= 1 {
			return "look-ahead", nil
		}
	}
	return "", nil
}

// leLen: v <= len(coll) + k at block b.
func (a *bnAn) leLen(v, coll ssa.Value, k int64, b *ssa.BasicBlock, assume map[ssa.Value]bool, depth int) bool {
	if depth > 8 {
		return false
	}
	if S := bnLenOf(v); S != nil && a.sameVal(S, coll) && k >= 0 {
		return true
	}
	if a.guardLess(v, -k-1, coll, b) { // v + (-k-1) < len  <=>  v <= len + k
		return true
	}
	switch v := v.(type) {
	case *ssa.BinOp:
		if c, ok := bnConst(v.Y); ok {
			switch v.Op {
			case token.ADD:
				return a.leLen(v.X, coll, k-c, b, assume, depth+1)
			case token.SUB:
				return a.leLen(v.X, coll, k+c, b, assume, depth+1)
			}
		}
		if c, ok := bnConst(v.X); ok && v.Op == token.ADD {
			return a.leLen(v.Y, coll, k-c, b, assume, depth+1)
		}
	case *ssa.Phi:
		if assume[v] {
			return true
		}
		assume[v] = true
		defer delete(assume, v)
		for i, e := range v.Edges {
			if !a.leLen(e, coll, k, v.Block().Preds[i], assume, depth+1) {
				return false
			}
		}
		return len(v.Edges) > 0
	case *ssa.Call:
		// a successful search in the same value: r + len(needle) <= len
		n := int64(-1)
		switch bnCallee(v) {
		case "strings.IndexByte", "bytes.IndexByte", "strings.LastIndexByte", "bytes.LastIndexByte", "strings.IndexAny", "strings.IndexRune", "bytes.IndexAny", "bytes.IndexRune":
			n = 1
		case "strings.Index", "bytes.Index", "strings.LastIndex", "bytes.LastIndex":
			n = 0
			if l, ok := ssaConstLen(v.Call.Args[1]); ok {
				n = l
			}
		}
		hay := v.Call.Args[0]
		if sl, ok := hay.(*ssa.Slice); ok && sl.Low == nil {
			hay = sl.X // a search in a prefix of the value
		}
		if n >= 0 && (a.sameVal(v.Call.Args[0], coll) || a.sameVal(hay, coll)) && k >= -n {
			// a failed search gives -1, and -1 <= len + k as soon as k >= -1
			if k >= -1 {
				return true
			}
			// otherwise only when the search is known to have succeeded here
			if lo := a.lo(v, b, 0, map[ssa.Value]bool{}); lo != bnUnk && lo >= 0 {
				return true
			}
		}
	}
	return false
}

// sameLen: len(x) == len(y) at block b.
func (a *bnAn) sameLen(x, y ssa.Value, b *ssa.BasicBlock) bool {
	if a.sameVal(x, y) {
		return true
	}
	found := false
	guards(b, func(cond ssa.Value, truth bool, where *ssa.BasicBlock) {
		bo, ok := cond.(*ssa.BinOp)
		if !ok || found {
			return
		}
		op := bo.Op
		if !truth {
			op = negOp(op)
		}
		if op != token.EQL {
			return
		}
		l, r := bnLenOf(bo.X), bnLenOf(bo.Y)
		if l == nil || r == nil {
			return
		}
		if (a.sameVal(l, x) && a.sameVal(r, y)) || (a.sameVal(l, y) && a.sameVal(r, x)) {
			found = true
		}
	})
	if found {
		return true
	}
	// x is (a load of a field of a local that was stored) a make with len(y)
	mk := a.producer(x)
	if m, ok := mk.(*ssa.MakeSlice); ok {
		if S := bnLenOf(m.Len); S != nil && a.sameVal(S, y) {
			return true
		}
	}
	return false
}

// producer looks through a load of a local's field (or of a local) that is
// stored exactly once, and through a struct literal's field store.
func (a *bnAn) producer(x ssa.Value) ssa.Value {
	ld, ok := x.(*ssa.UnOp)
	if !ok || ld.Op != token.MUL {
		return x
	}
	var stores []*ssa.Store
	match := func(addr ssa.Value) bool {
		if addr == ld.X {
			return true
		}
		fa, ok1 := addr.(*ssa.FieldAddr)
		fb, ok2 := ld.X.(*ssa.FieldAddr)
		return ok1 && ok2 && fa.Field == fb.Field && fa.X == fb.X
	}
	root := ld.X
	if fa, ok := root.(*ssa.FieldAddr); ok {
		root = fa.X
	}
	if _, isAlloc := root.(*ssa.Alloc); !isAlloc {
		return x
	}
	for _, b := range a.fn.Blocks {
		for _, in := range b.Instrs {
			if st, ok := in.(*ssa.Store); ok && match(st.Addr) {
				stores = append(stores, st)
			}
		}
	}
	if len(stores) == 1 {
		return stores[0].Val
	}
	return x
}

// bnUpperContract: parallel indexing that rests on a precondition decided by
// another rule on this run.
func bnUpperContract(c *Ctx, f *ssa.Function, coll, ranged ssa.Value, an *bnAn) string {
	// the same field of the same object, loaded again inside the loop: safe
	// when nothing the loop calls can replace that field
	sameField := false
	if l1, ok := coll.(*ssa.UnOp); ok && ranged != nil {
		if l2, ok := ranged.(*ssa.UnOp); ok && l1.Op == token.MUL && l2.Op == token.MUL && an.sameAddr(l1.X, l2.X) {
			sameField = true
		}
	}
	switch funcKey(f) {
	case "(*stack.cacheAST).augmentGoroutine":
		if sameField && oblsDischarged(c, "EF", "EF-augment-only") {
			return "the loop ranges over this very field, and nothing reachable from augmentation writes a snapshot field other than Args.Processed (EF-augment-only discharged on this run), so its length is unchanged"
		}
	case "(*stack.Args).walk":
		if sameField && oblsDischarged(c, "EF", "EF-name-only") {
			return "the loop ranges over this very field, and the only visitor (nameArguments) writes nothing but Arg.Name (EF-name-only discharged on this run), so its length is unchanged"
		}
	}
	switch funcKey(f) {
	case "(*stack.Args).merge", "(*stack.Stack).merge":
		if oblsDischarged(c, "AG", "AG-merge") && oblsDischarged(c, "EQ", "EQ-lift", "EQ-key") {
			return "merge is only applied to a member similar to the key (AG-merge), and similarity implies equal lengths at every nesting level (EQ-lift, EQ-key): all discharged on this run"
		}
	case "(*stack.Stack).less":
		if oblsDischarged(c, "LX", "LX-len") {
			return "the other stack is indexed only after every location count compared equal, which implies equal lengths (LX-len discharged on this run)"
		}
	}
	return ""
}

// guardLess: a dominating guard proving  v + off < len(coll).
func (a *bnAn) guardLess(v ssa.Value, off int64, coll ssa.Value, b *ssa.BasicBlock) bool {
	found := false
	guards(b, func(cond ssa.Value, truth bool, where *ssa.BasicBlock) {
		bo, ok := cond.(*ssa.BinOp)
		if !ok || found {
			return
		}
		x, y, op := bo.X, bo.Y, bo.Op
		if !truth {
			op = negOp(op)
		}
		switch op {
		case token.GTR:
			x, y, op = y, x, token.LSS
		case token.GEQ:
			x, y, op = y, x, token.LEQ
		}
		if op != token.LSS && op != token.LEQ {
			return
		}
		lk := int64(0)
		lx := x
		if lb, ok := x.(*ssa.BinOp); ok && (lb.Op == token.ADD || lb.Op == token.SUB) {
			if k, ok := bnConst(lb.Y); ok {
				lx = lb.X
				lk = k
				if lb.Op == token.SUB {
					lk = -k
				}
			}
		}
		if !(lx == v || a.sameVal(lx, v)) {
			return
		}
		rk := int64(0)
		ry := y
		if rb, ok := y.(*ssa.BinOp); ok && (rb.Op == token.ADD || rb.Op == token.SUB) {
			if k, ok := bnConst(rb.Y); ok {
				ry = rb.X
				rk = k
				if rb.Op == token.SUB {
					rk = -k
				}
			}
		}
		S := bnLenOf(ry)
		if S == nil || !a.sameVal(S, coll) {
			return
		}
		// v + lk <(=) len + rk  =>  v + off < len  iff  off <= lk - rk (strict) / off < lk - rk (<=)
		if op == token.LSS && off <= lk-rk {
			found = true
		}
		if op == token.LEQ && off < lk-rk {
			found = true
		}
	})
	return found
}

// srcSliceExpr renders the slice expression whose '[' is at pos.
func srcSliceExpr(c *Ctx, pos token.Pos) string {
	_, file := c.L.FileOf(pos)
	if file == nil {
		return ""
	}
	out := ""
	ast.Inspect(file, func(n ast.Node) bool {
		if n == nil || out != "" || n.Pos() > pos || n.End() < pos {
			return false
		}
		if e, ok := n.(*ast.SliceExpr); ok && e.Lbrack == pos {
			out = types.ExprString(e)
		}
		return true
	})
	return out
}

// aggDischarged: a rule of the engine under construction is discharged.
func aggDischarged(a *flAgg, rule string) bool {
	m := a.res[rule]
	if len(m) == 0 {
		return false
	}
	for _, o := range m {
		if o.Status != Discharged {
			return false
		}
	}
	return true
}

// withinOnly: f is the named function (or one of its closures), or a helper
// outside the pinned vocabulary all of whose static callers are.
func withinOnly(c *Ctx, f *ssa.Function, prefix string, depth int) bool {
	if strings.HasPrefix(funcKey(f), prefix) {
		return true
	}
	if depth > 3 || !defaultInline(f) {
		return false
	}
	n := 0
	for _, pn := range []string{"stack", "internal", "stack/webstack"} {
		for _, g := range c.L.SrcFuncs(pn) {
			for _, b := range g.Blocks {
				for _, in := range b.Instrs {
					if ci, ok := in.(ssa.CallInstruction); ok && ci.Common().StaticCallee() == f {
						n++
						if !withinOnly(c, g, prefix, depth+1) {
							return false
						}
					}
				}
			}
		}
	}
	return n > 0
}

// fromRuntimeVersion: the value is runtime.Version() (possibly through a phi
// or a local).
func (a *bnAn) fromRuntimeVersion(v ssa.Value) bool {
	seen := map[ssa.Value]bool{}
	var rec func(v ssa.Value) bool
	rec = func(v ssa.Value) bool {
		if seen[v] {
			return true
		}
		seen[v] = true
		switch v := v.(type) {
		case *ssa.Call:
			return bnCallee(v) == "runtime.Version"
		case *ssa.Phi:
			for _, e := range v.Edges {
				if !rec(e) {
					return false
				}
			}
			return len(v.Edges) > 0
		case *ssa.Slice:
			return rec(v.X)
		}
		return false
	}
	return rec(v)
}
