// ppcheck: static checker for the 20 panicparse properties (see ../DESIGN.md).
//
// Everything is decided from the type-checked source of the repository
// (go/packages, go/types, go/ssa). No code of the repository is executed.
package main

import (
	"encoding/json"
	"flag"
	"fmt"
	"os"
	"path/filepath"
	"sort"
	"strings"
	"time"
)

// Status of an obligation.
type Status int

const (
	Discharged Status = iota
	Violated
	Undecided
)

func (s Status) String() string {
	switch s {
	case Discharged:
		return "discharged"
	case Violated:
		return "VIOLATED"
	default:
		return "UNDECIDED"
	}
}

// Obl is one proof obligation produced by a rule.
type Obl struct {
	Rule   string `json:"rule"`
	Key    string `json:"key"` // construct key: never contains a line number
	Pos    string `json:"pos"` // file:line, informational
	Status Status `json:"-"`
	St     string `json:"status"`
	Msg    string `json:"msg,omitempty"`
}

// Engine is a group of rules computed together.
type Engine struct {
	Name string
	Doc  string
	Run  func(c *Ctx) []Obl
}

// Ctx carries the loaded program and memoised engine results.
type Ctx struct {
	Repo    string
	Tier    string
	Cfg     string // "linux/amd64", ...
	L       *Loaded
	results map[string][]Obl
	stats   map[string]map[string]interface{}
	notes   []string
}

func (c *Ctx) stat(engine, key string, v interface{}) {
	if c.stats == nil {
		c.stats = map[string]map[string]interface{}{}
	}
	if c.stats[engine] == nil {
		c.stats[engine] = map[string]interface{}{}
	}
	c.stats[engine][key] = v
}

func (c *Ctx) run(e *Engine) (out []Obl) {
	if r, ok := c.results[e.Name]; ok {
		return r
	}
	defer func() {
		if r := recover(); r != nil {
			// An analyser panic is never a pass.
			out = append(out, Obl{Rule: e.Name + "-internal", Key: "analyser-panic", Status: Undecided, Msg: fmt.Sprint(r) + "\n" + shortStack()})
			c.results[e.Name] = out
		}
	}()
	out = e.Run(c)
	c.results[e.Name] = out
	return out
}

var engines = map[string]*Engine{}

// engines referenced by a property but not built (development only; the
// selfcheck mode fails on them).
var missingEngines = map[string]bool{}

func register(e *Engine) { engines[e.Name] = e }

// RuleSel selects obligations of an engine for a property: all obligations
// whose rule id is listed.
type RuleSel struct {
	Engine string
	Rules  []string
}

// Property describes how one property is decided.
type Property struct {
	ID          string
	Sel         []RuleSel
	Explanation string
	Assumptions []string
	// MinRules: rule id -> minimal number of obligations that must exist
	// (vacuity guard: anchors that must resolve).
	MinRules map[string]int
}

var properties = map[string]*Property{}

type knownFinding struct {
	Property, Rule, Key, Text string
}

func loadKnown(path string) ([]knownFinding, error) {
	b, err := os.ReadFile(path)
	if err != nil {
		if os.IsNotExist(err) {
			return nil, nil
		}
		return nil, err
	}
	var out []knownFinding
	for _, line := range strings.Split(string(b), "\n") {
		line = strings.TrimSpace(line)
		if !strings.HasPrefix(line, "finding:") {
			continue // "fixed:" entries and comments suppress nothing
		}
		k := knownFinding{}
		rest := strings.TrimSpace(strings.TrimPrefix(line, "finding:"))
		if i := strings.Index(rest, " -- "); i >= 0 {
			k.Text = rest[i+4:]
			rest = rest[:i]
		}
		for _, f := range strings.Fields(rest) {
			switch {
			case strings.HasPrefix(f, "property="):
				k.Property = f[len("property="):]
			case strings.HasPrefix(f, "rule="):
				k.Rule = f[len("rule="):]
			case strings.HasPrefix(f, "key="):
				k.Key = f[len("key="):]
			}
		}
		if k.Property == "" || k.Rule == "" || k.Key == "" {
			return nil, fmt.Errorf("malformed known finding: %q", line)
		}
		out = append(out, k)
	}
	return out, nil
}

type evidence struct {
	PropertyID  string                 `json:"property_id"`
	Tier        string                 `json:"tier"`
	Seed        int                    `json:"seed"`
	Level       string                 `json:"level"`
	Coverage    map[string]interface{} `json:"coverage"`
	Assumptions []string               `json:"assumptions"`
	WallS       float64                `json:"wall_s"`
	Violations  int                    `json:"violations"`
}

func main() {
	var (
		prop     = flag.String("p", "", "property id (C01..C20) or 'all'")
		tier     = flag.String("tier", "quick", "quick|thorough")
		repo     = flag.String("repo", "/repo", "repository working tree to analyse")
		verif    = flag.String("verif", "/verif", "verif directory (known_findings.txt, evidence/, refs)")
		evOut    = flag.String("evidence", "", "evidence file (default <verif>/evidence/<id>.json)")
		noEv     = flag.Bool("no-evidence", false, "do not write evidence")
		dump     = flag.String("dump", "", "debug: dump paths of function (pkgsuffix.Recv.Name)")
		dumpInit = flag.String("dump-init", "", "debug: cell=value initialisations for -dump")
		verbose  = flag.Bool("v", false, "print every obligation")
		goos     = flag.String("goos", "", "override GOOS")
		goarch   = flag.String("goarch", "", "override GOARCH")
		expect   = flag.String("expect", "", "self-test: comma list of rule[:keysubstr] that must be violated; exit 0 iff all are")
		listFn   = flag.Bool("list-funcs", false, "print the function vocabulary of the tree (for refs/known_funcs.txt)")
		listVoc  = flag.Bool("list-vocab", false, "print the identifier vocabulary of the tree (for refs/vocabulary.txt)")
	)
	flag.Parse()
	start := time.Now()
	verifDir = *verif
	if *listVoc {
		noRenameNormalisation = true
		L, err := Load(*repo, *goos, *goarch)
		if err != nil {
			fmt.Fprintln(os.Stderr, "load:", err)
			os.Exit(2)
		}
		vs, _ := vocabOf(L.Pkgs)
		var flat []string
		for _, v := range vs {
			fmt.Println(v.line())
			if v.Flat != "" {
				flat = append(flat, v.line()+"\t"+v.Flat)
			}
		}
		os.WriteFile(filepath.Join(*verif, "refs", "vocab_flat.txt"), []byte(strings.Join(flat, "\n")+"\n"), 0o644)
		vi := varInits(L.Pkgs)
		var keys []string
		for k := range vi {
			keys = append(keys, k)
		}
		sort.Strings(keys)
		var lines []string
		for _, k := range keys {
			lines = append(lines, k+"\t"+vi[k])
		}
		os.WriteFile(filepath.Join(*verif, "refs", "var_inits.txt"), []byte(strings.Join(lines, "\n")+"\n"), 0o644)
		return
	}
	if *listFn {
		L, err := Load(*repo, *goos, *goarch)
		if err != nil {
			fmt.Fprintln(os.Stderr, "load:", err)
			os.Exit(2)
		}
		var out []string
		for _, pn := range []string{"stack", "stack/webstack", "internal", ""} {
			for _, f := range L.SrcFuncs(pn) {
				if f.Parent() == nil {
					out = append(out, funcKey(f))
				}
			}
		}
		sort.Strings(out)
		for _, s := range out {
			fmt.Println(s)
		}
		return
	}
	if b, err := os.ReadFile(filepath.Join(*verif, "refs", "known_funcs.txt")); err == nil {
		knownFuncs = map[string]bool{}
		for _, l := range strings.Split(string(b), "\n") {
			if l = strings.TrimSpace(l); l != "" && !strings.HasPrefix(l, "#") {
				knownFuncs[normRecv(l)] = true
			}
		}
	}
	if *dump != "" {
		L, err := Load(*repo, *goos, *goarch)
		if err != nil {
			fmt.Fprintln(os.Stderr, "load:", err)
			os.Exit(2)
		}
		debugDump(L, *dump, *dumpInit)
		return
	}
	ids := []string{*prop}
	if *prop == "all" {
		ids = nil
		for id := range properties {
			ids = append(ids, id)
		}
		sort.Strings(ids)
	}
	for _, id := range ids {
		if properties[id] == nil {
			fmt.Fprintf(os.Stderr, "unknown or unclaimed property %q\n", id)
			os.Exit(2)
		}
	}
	known, err := loadKnown(filepath.Join(*verif, "known_findings.txt"))
	if err != nil {
		fmt.Fprintln(os.Stderr, err)
		os.Exit(2)
	}
	cfgs := [][2]string{{*goos, *goarch}}
	if *tier == "thorough" && *goos == "" && *goarch == "" {
		cfgs = [][2]string{{"", ""}, {"linux", "386"}, {"windows", "amd64"}}
	}
	exit := 0
	type propRes struct {
		obls  []Obl
		stats map[string]map[string]interface{}
		cfgs  []string
	}
	res := map[string]*propRes{}
	for _, id := range ids {
		res[id] = &propRes{stats: map[string]map[string]interface{}{}}
	}
	for _, cf := range cfgs {
		L, err := Load(*repo, cf[0], cf[1])
		if err != nil {
			fmt.Fprintln(os.Stderr, "load:", err)
			for _, id := range ids {
				fmt.Printf("VIOLATION property=%s replay=%s\n", id, "load-failure")
			}
			os.Exit(2)
		}
		curLoaded = L
		c := &Ctx{Repo: *repo, Tier: *tier, Cfg: L.Cfg, L: L, results: map[string][]Obl{}}
		if len(L.Renames) > 0 {
			allRenames = L.Renames
			fmt.Printf("NOTE renamed identifiers analysed under their vocabulary names: %s\n", strings.Join(L.Renames, "; "))
		}
		for _, id := range ids {
			p := properties[id]
			pr := res[id]
			pr.cfgs = append(pr.cfgs, L.Cfg)
			for _, sel := range p.Sel {
				e := engines[sel.Engine]
				if e == nil {
					missingEngines[sel.Engine] = true
					continue
				}
				for _, o := range c.run(e) {
					if !selected(o.Rule, sel.Rules) {
						continue
					}
					if len(cfgs) > 1 {
						o.Key = o.Key + "@" + L.Cfg
					}
					pr.obls = append(pr.obls, o)
				}
				if st := c.stats[sel.Engine]; st != nil {
					if pr.stats[sel.Engine] == nil {
						pr.stats[sel.Engine] = st
					}
				}
			}
		}
		L = nil
	}
	for _, id := range ids {
		p := properties[id]
		pr := res[id]
		obls := pr.obls
		// vacuity guard
		counts := map[string]int{}
		for _, o := range obls {
			counts[o.Rule]++
		}
		for r, n := range p.MinRules {
			if ruleEngineMissing(p, r) {
				continue
			}
			if counts[r] < n*len(pr.cfgs) {
				obls = append(obls, Obl{Rule: r, Key: "vacuity", Status: Undecided, Msg: fmt.Sprintf("rule matched %d instances, at least %d expected (anchor not resolved?)", counts[r], n*len(pr.cfgs))})
				counts[r]++
			}
		}
		sort.SliceStable(obls, func(i, j int) bool {
			if obls[i].Rule != obls[j].Rule {
				return obls[i].Rule < obls[j].Rule
			}
			return obls[i].Key < obls[j].Key
		})
		nViol, nDis, nKnown := 0, 0, 0
		var samples []interface{}
		var bad []Obl
		perRule := map[string]int{}
		for i := range obls {
			o := &obls[i]
			o.St = o.Status.String()
			if *verbose {
				fmt.Printf("  [%s] %s %s %s %s\n", o.St, o.Rule, o.Key, o.Pos, o.Msg)
			}
			if o.Status == Discharged {
				nDis++
				if perRule[o.Rule] < 2 && len(samples) < 14 {
					samples = append(samples, map[string]string{"rule": o.Rule, "key": o.Key, "pos": o.Pos, "status": o.St, "why": o.Msg})
				}
				perRule[o.Rule]++
				continue
			}
			perRule[o.Rule]++
			if o.Status == Violated {
				if kf := matchKnown(known, id, o); kf != nil {
					nKnown++
					o.St = "known-finding"
					fmt.Printf("KNOWN-FINDING: property=%s rule=%s key=%s %s (%s)\n", id, o.Rule, o.Key, kf.Text, o.Pos)
					continue
				}
			}
			nViol++
			bad = append(bad, *o)
		}
		evPath := *evOut
		if evPath == "" {
			evPath = filepath.Join(*verif, "evidence", id+".json")
		}
		for _, o := range bad {
			fmt.Printf("%s property=%s rule=%s key=%s at %s: %s\n", o.St, id, o.Rule, o.Key, o.Pos, o.Msg)
		}
		if nViol > 0 {
			fmt.Printf("VIOLATION property=%s replay=%s\n", id, evPath)
			exit = 1
		} else {
			fmt.Printf("OK property=%s tier=%s obligations=%d discharged=%d known=%d configs=%v\n", id, *tier, len(obls), nDis, nKnown, pr.cfgs)
		}
		if *expect != "" {
			exit = checkExpect(*expect, obls)
		}
		if !*noEv {
			rules := map[string]int{}
			for _, o := range obls {
				rules[o.Rule]++
			}
			badS := []interface{}{}
			for _, o := range obls {
				if o.Status != Discharged {
					badS = append(badS, o)
				}
			}
			seed := 0
			fmt.Sscan(os.Getenv("VERIF_SEED"), &seed)
			ev := evidence{
				PropertyID: id, Tier: *tier, Seed: seed, Level: "other",
				Coverage: map[string]interface{}{
					"explanation":         p.Explanation,
					"obligations":         len(obls),
					"discharged":          nDis,
					"known_findings":      nKnown,
					"rules":               rules,
					"analysed":            pr.stats,
					"configurations":      pr.cfgs,
					"samples":             samples,
					"not_discharged":      badS,
					"evaluations":         len(obls),
					"distinct_nontrivial": len(obls),
					"rule":                "one obligation per (rule, construct) found in the type-checked program; all are distinct by key",
					"checker_cmd":         strings.Join(os.Args, " "),
					"exhaustive":          true,
					"normalised_renames":  allRenames,
				},
				Assumptions: p.Assumptions,
				WallS:       time.Since(start).Seconds(),
				Violations:  nViol,
			}
			if err := os.MkdirAll(filepath.Dir(evPath), 0o755); err == nil {
				b, _ := json.MarshalIndent(ev, "", " ")
				if err := os.WriteFile(evPath, append(b, '\n'), 0o644); err != nil {
					fmt.Fprintln(os.Stderr, "evidence:", err)
					exit = 2
				}
			}
		}
	}
	os.Exit(exit)
}

// allRenames: identifiers that differ from the pinned vocabulary only by
// name and were analysed under the vocabulary name (vocab.go).
var allRenames = []string{}

func ruleEngineMissing(p *Property, rule string) bool {
	for _, sel := range p.Sel {
		if selected(rule, sel.Rules) && engines[sel.Engine] == nil {
			return true
		}
	}
	return false
}

func selected(rule string, rules []string) bool {
	for _, r := range rules {
		if r == rule || r == "*" {
			return true
		}
		if strings.HasSuffix(r, "*") && strings.HasPrefix(rule, r[:len(r)-1]) {
			return true
		}
	}
	return false
}

func matchKnown(known []knownFinding, id string, o *Obl) *knownFinding {
	key := o.Key
	if i := strings.LastIndex(key, "@"); i >= 0 && strings.Contains(key[i:], "/") {
		key = key[:i] // configuration suffix
	}
	for i := range known {
		k := &known[i]
		if k.Property == id && k.Rule == o.Rule && k.Key == key {
			return k
		}
	}
	return nil
}

// checkExpect implements the self-test mode used by the mutant harness.
func checkExpect(expect string, obls []Obl) int {
	ok := true
	for _, e := range strings.Split(expect, ",") {
		e = strings.TrimSpace(e)
		if e == "" {
			continue
		}
		rule, sub := e, ""
		if i := strings.Index(e, ":"); i >= 0 {
			rule, sub = e[:i], e[i+1:]
		}
		found := false
		for _, o := range obls {
			if o.Status != Discharged && selected(o.Rule, []string{rule}) && strings.Contains(o.Key, sub) {
				found = true
			}
		}
		if !found {
			fmt.Printf("EXPECT-MISSING %s\n", e)
			ok = false
		}
	}
	if ok {
		fmt.Println("EXPECT-OK")
		return 0
	}
	return 1
}
