package main

import (
	"fmt"
	"go/ast"
	"go/token"
	"go/types"
	"os"
	"path/filepath"
	"runtime/debug"
	"sort"
	"strings"

	"golang.org/x/tools/go/packages"
	"golang.org/x/tools/go/ssa"
	"golang.org/x/tools/go/ssa/ssautil"
)

const modPath = "github.com/maruel/panicparse/v2"

// noRenameNormalisation: set when the vocabulary itself is being listed.
var noRenameNormalisation bool

// Loaded is the type-checked and SSA-built program.
type Loaded struct {
	Repo  string
	Cfg   string
	Fset  *token.FileSet
	Pkgs  map[string]*packages.Package // by import path
	Prog  *ssa.Program
	SSA   map[string]*ssa.Package
	Scope []string // import paths of the packages in scope
	// Renames normalised away before analysis (current name -> vocabulary name).
	Renames []string
}

func shortStack() string {
	s := string(debug.Stack())
	lines := strings.Split(s, "\n")
	if len(lines) > 30 {
		lines = lines[:30]
	}
	return strings.Join(lines, "\n")
}

// Load type-checks the module at repo and builds SSA for it.
func Load(repo, goos, goarch string) (*Loaded, error) {
	env := []string{}
	for _, e := range os.Environ() {
		if strings.HasPrefix(e, "GOWORK=") || strings.HasPrefix(e, "GOFLAGS=") || strings.HasPrefix(e, "GOOS=") || strings.HasPrefix(e, "GOARCH=") {
			continue
		}
		env = append(env, e)
	}
	env = append(env, "GOWORK=off", "GOFLAGS=-mod=mod", "GOPROXY=off", "GOSUMDB=off", "GOTOOLCHAIN=local", "CGO_ENABLED=0")
	cfgName := "default"
	if goos != "" {
		env = append(env, "GOOS="+goos)
	}
	if goarch != "" {
		env = append(env, "GOARCH="+goarch)
	}
	if goos != "" || goarch != "" {
		cfgName = goos + "/" + goarch
	} else {
		cfgName = "linux/amd64"
	}
	cfg := &packages.Config{
		Mode:  packages.LoadAllSyntax,
		Dir:   repo,
		Env:   env,
		Tests: false,
	}
	var pkgs []*packages.Package
	var L *Loaded
	var renamed []string
	reshaped, reshapeFailed := false, false
	var prevOverlay map[string][]byte
	ref := readVocab(verifDir)
	// up to three loads: as found; with renamed types spelled as in the
	// vocabulary; with renamed functions, fields, variables and constants too
	for round := 0; round < 4; round++ {
		var err error
		pkgs, err = packages.Load(cfg, "./...")
		if err != nil {
			return nil, err
		}
		if len(pkgs) == 0 {
			return nil, fmt.Errorf("no packages loaded from %s", repo)
		}
		L = &Loaded{Repo: repo, Cfg: cfgName, Pkgs: map[string]*packages.Package{}, SSA: map[string]*ssa.Package{}}
		var errs []string
		packages.Visit(pkgs, nil, func(p *packages.Package) {
			if strings.HasPrefix(p.PkgPath, modPath) {
				for _, e := range p.Errors {
					errs = append(errs, e.Error())
				}
			}
			L.Pkgs[p.PkgPath] = p
		})
		if len(errs) != 0 {
			if reshaped && !reshapeFailed {
				// the rewritten program does not type-check: analyse the tree as found
				reshapeFailed = true
				cfg.Overlay = prevOverlay
				renamed = append(renamed, "reshape abandoned (rewritten program does not type-check)")
				continue
			}
			return nil, fmt.Errorf("type-check errors: %s", strings.Join(errs, "; "))
		}
		if noRenameNormalisation {
			break
		}
		rs := detectRenames(ref, L.Pkgs, round == 0)
		if len(rs) == 0 && round == 0 {
			rs = detectRenames(ref, L.Pkgs, false)
			round = 1
		}
		if len(rs) == 0 && !reshaped {
			// a function turned into a method or the reverse
			if sh := detectReshapes(ref, readVocabFlat(verifDir), L.Pkgs); len(sh) > 0 {
				if ov, ok := reshapeOverlay(L.Pkgs, sh, cfg.Overlay); ok {
					reshaped = true
					prevOverlay = cfg.Overlay
					cfg.Overlay = ov
					for _, r := range sh {
						renamed = append(renamed, "reshaped "+r.obj.FullName()+" -> "+r.toKind+" "+r.toName)
					}
					round = 0 // one more load, then the ordinary rounds
					continue
				}
			}
		}
		if len(rs) == 0 {
			break
		}
		for _, r := range rs {
			renamed = append(renamed, r.kind+" "+r.from+" -> "+r.to)
		}
		cfg.Overlay = overlayFor(L.Pkgs, rs, cfg.Overlay)
	}
	L.Renames = renamed
	L.Fset = pkgs[0].Fset
	prog, _ := ssautil.AllPackages(pkgs, ssa.InstantiateGenerics)
	prog.Build()
	L.Prog = prog
	for path, p := range L.Pkgs {
		if p.Types != nil {
			if sp := prog.Package(p.Types); sp != nil {
				L.SSA[path] = sp
			}
		}
	}
	for _, s := range []string{"", "/stack", "/stack/webstack", "/internal", "/cmd/pp"} {
		if L.Pkgs[modPath+s] == nil {
			return nil, fmt.Errorf("package %s not found", modPath+s)
		}
		L.Scope = append(L.Scope, modPath+s)
	}
	sort.Strings(L.Scope)
	return L, nil
}

// Pos renders a position relative to the repository.
func (L *Loaded) Pos(p token.Pos) string {
	if !p.IsValid() {
		return "-"
	}
	pp := L.Fset.Position(p)
	f := pp.Filename
	if r, err := filepath.Rel(L.Repo, f); err == nil && !strings.HasPrefix(r, "..") {
		f = r
	}
	return fmt.Sprintf("%s:%d", f, pp.Line)
}

func (L *Loaded) pkg(short string) *ssa.Package {
	p := modPath
	if short != "" && short != "." {
		p += "/" + short
	}
	return L.SSA[p]
}

func (L *Loaded) tpkg(short string) *packages.Package {
	p := modPath
	if short != "" && short != "." {
		p += "/" + short
	}
	return L.Pkgs[p]
}

// Func finds a function or method: Func("stack", "", "parseFunc"),
// Func("stack", "scanningState", "scan"). Returns nil if absent.
func (L *Loaded) Func(pkg, recv, name string) *ssa.Function {
	sp := L.pkg(pkg)
	if sp == nil {
		return nil
	}
	if recv == "" {
		return sp.Func(name)
	}
	t := sp.Type(recv)
	if t == nil {
		return nil
	}
	nt := t.Type()
	for _, typ := range []types.Type{nt, types.NewPointer(nt)} {
		ms := L.Prog.MethodSets.MethodSet(typ)
		for i := 0; i < ms.Len(); i++ {
			sel := ms.At(i)
			if sel.Obj().Name() == name && len(sel.Index()) == 1 {
				return L.Prog.MethodValue(sel)
			}
		}
	}
	return nil
}

// MustFunc is Func but records an unresolved anchor.
func (c *Ctx) MustFunc(obls *[]Obl, rule, pkg, recv, name string) *ssa.Function {
	f := c.L.Func(pkg, recv, name)
	if f == nil || f.Blocks == nil {
		*obls = append(*obls, Obl{Rule: rule, Key: "anchor:" + pkg + "." + recv + "." + name, Status: Undecided, Msg: "anchor function not found"})
		return nil
	}
	return f
}

// Global finds a package-level variable.
func (L *Loaded) Global(pkg, name string) *ssa.Global {
	sp := L.pkg(pkg)
	if sp == nil {
		return nil
	}
	g, _ := sp.Members[name].(*ssa.Global)
	return g
}

// SrcFuncs returns all source functions (incl. anonymous) of a package in
// deterministic order.
func (L *Loaded) SrcFuncs(pkg string) []*ssa.Function {
	sp := L.pkg(pkg)
	if sp == nil {
		return nil
	}
	var out []*ssa.Function
	seen := map[*ssa.Function]bool{}
	var add func(f *ssa.Function)
	add = func(f *ssa.Function) {
		if f == nil || seen[f] || f.Blocks == nil {
			return
		}
		seen[f] = true
		out = append(out, f)
		for _, a := range f.AnonFuncs {
			add(a)
		}
	}
	var names []string
	for n := range sp.Members {
		names = append(names, n)
	}
	sort.Strings(names)
	for _, n := range names {
		switch m := sp.Members[n].(type) {
		case *ssa.Function:
			if m.Synthetic == "" || m.Name() == "init" {
				add(m)
			}
		case *ssa.Type:
			nt := m.Type()
			for _, typ := range []types.Type{nt, types.NewPointer(nt)} {
				ms := L.Prog.MethodSets.MethodSet(typ)
				for i := 0; i < ms.Len(); i++ {
					sel := ms.At(i)
					if len(sel.Index()) != 1 {
						continue
					}
					f := L.Prog.MethodValue(sel)
					if f != nil && f.Synthetic == "" && f.Pkg == sp {
						add(f)
					}
				}
			}
		}
	}
	sort.SliceStable(out, func(i, j int) bool { return out[i].Pos() < out[j].Pos() })
	return out
}

// funcKey gives a stable human name for a function: "stack.(*scanningState).scan".
func funcKey(f *ssa.Function) string {
	if f == nil {
		return "<nil>"
	}
	s := f.RelString(nil)
	s = strings.ReplaceAll(s, modPath+"/", "")
	s = strings.ReplaceAll(s, modPath, "panicparse")
	return s
}

// FuncDecl returns the AST declaration of a source function.
func (L *Loaded) FuncDecl(f *ssa.Function) *ast.FuncDecl {
	if f == nil {
		return nil
	}
	d, _ := f.Syntax().(*ast.FuncDecl)
	return d
}

// FileOf returns the package and AST file containing pos.
func (L *Loaded) FileOf(pos token.Pos) (*packages.Package, *ast.File) {
	for _, path := range L.Scope {
		p := L.Pkgs[path]
		for _, f := range p.Syntax {
			if f.Pos() <= pos && pos <= f.End() {
				return p, f
			}
		}
	}
	return nil, nil
}
