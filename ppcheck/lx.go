package main

// LX — lexicographic-chain recogniser for comparators (DESIGN.md §3.7).
//
// A comparator is accepted as a strict weak order when its body is a list of
// statements that are pairwise mirror images under one consistent bijective
// renaming that swaps the two operands, ending in "return false" or in a
// strict comparison of a key. A lexicographic product of strict weak orders
// is a strict weak order.

import (
	"bytes"
	"fmt"
	"go/ast"
	"go/constant"
	"go/printer"
	"go/token"
	"go/types"
	"strings"

	"golang.org/x/tools/go/ssa"
)

func init() {
	register(&Engine{Name: "LX", Doc: "comparator chains", Run: runLX})
}

type lxKey struct {
	Expr    string // key expression on the left operand (normalised)
	MoreIsLess bool // true: larger key sorts first
	Kind    string // "order", "bool", "sub:<name>", "first"
	Loop    string
}

type lxResult struct {
	ok     bool
	why    string
	keys   []lxKey
	total  bool   // ends in a comparison of a key (not "return false")
	last   string // last key expression
	needsAtMostOne string // precondition (First idiom)
	rangeOver []string
	preambleLen int
}

type lxEnv struct {
	info  *types.Info
	fset  *token.FileSet
	pair  map[string]string // bijective renaming (both directions)
	acc   map[string]bool   // accepted sub-comparators by "Type.method"
	l, r  string
	leftLocals map[string]bool
	// tail analyses the comparator method a chain ends in (return l.m(r))
	tail  func(call *ast.CallExpr, e *lxEnv) *lxResult
	depth int
}

func (e *lxEnv) src(n ast.Node) string {
	var b bytes.Buffer
	printer.Fprint(&b, e.fset, n)
	return b.String()
}

// mirror reports whether y is x under the renaming, extending the renaming
// with new local pairs when allowed.
func (e *lxEnv) mirror(x, y ast.Node, extend bool) bool {
	return e.mirrorRec(x, y, extend)
}

func (e *lxEnv) bind(a, b string, extend bool) bool {
	if v, ok := e.pair[a]; ok {
		return v == b
	}
	if v, ok := e.pair[b]; ok {
		return v == a
	}
	if a == b {
		return true
	}
	if !extend {
		return false
	}
	e.pair[a] = b
	e.pair[b] = a
	if e.leftLocals != nil {
		e.leftLocals[a] = true
	}
	return true
}

func (e *lxEnv) mirrorRec(x, y ast.Node, extend bool) bool {
	if x == nil || y == nil {
		return x == nil && y == nil
	}
	switch a := x.(type) {
	case *ast.Ident:
		b, ok := y.(*ast.Ident)
		if !ok {
			return false
		}
		if v, ok := e.pair[a.Name]; ok {
			return v == b.Name
		}
		if a.Name == b.Name {
			// a name mapped to itself must not be one of the paired names
			_, p := e.pair[b.Name]
			return !p
		}
		// objects: only local variables may be paired
		if obj, ok := e.info.ObjectOf(a).(*types.Var); ok && !obj.IsField() {
			if obj2, ok := e.info.ObjectOf(b).(*types.Var); ok && !obj2.IsField() && types.Identical(obj.Type(), obj2.Type()) {
				return e.bind(a.Name, b.Name, extend)
			}
		}
		return false
	case *ast.BasicLit:
		b, ok := y.(*ast.BasicLit)
		return ok && a.Kind == b.Kind && a.Value == b.Value
	case *ast.SelectorExpr:
		b, ok := y.(*ast.SelectorExpr)
		return ok && a.Sel.Name == b.Sel.Name && e.mirrorRec(a.X, b.X, extend)
	case *ast.IndexExpr:
		b, ok := y.(*ast.IndexExpr)
		return ok && e.mirrorRec(a.X, b.X, extend) && e.mirrorRec(a.Index, b.Index, extend)
	case *ast.CallExpr:
		b, ok := y.(*ast.CallExpr)
		if !ok || len(a.Args) != len(b.Args) || !e.mirrorRec(a.Fun, b.Fun, extend) {
			return false
		}
		for i := range a.Args {
			if !e.mirrorRec(a.Args[i], b.Args[i], extend) {
				return false
			}
		}
		return true
	case *ast.UnaryExpr:
		b, ok := y.(*ast.UnaryExpr)
		return ok && a.Op == b.Op && e.mirrorRec(a.X, b.X, extend)
	case *ast.BinaryExpr:
		b, ok := y.(*ast.BinaryExpr)
		return ok && a.Op == b.Op && e.mirrorRec(a.X, b.X, extend) && e.mirrorRec(a.Y, b.Y, extend)
	case *ast.ParenExpr:
		b, ok := y.(*ast.ParenExpr)
		if ok {
			return e.mirrorRec(a.X, b.X, extend)
		}
		return e.mirrorRec(a.X, y, extend)
	case *ast.StarExpr:
		b, ok := y.(*ast.StarExpr)
		return ok && e.mirrorRec(a.X, b.X, extend)
	case *ast.CompositeLit:
		b, ok := y.(*ast.CompositeLit)
		return ok && e.src(a) == e.src(b)
	case *ast.ArrayType:
		return e.src(x) == e.src(y)
	case *ast.ExprStmt:
		b, ok := y.(*ast.ExprStmt)
		return ok && e.mirrorRec(a.X, b.X, extend)
	case *ast.IncDecStmt:
		b, ok := y.(*ast.IncDecStmt)
		return ok && a.Tok == b.Tok && e.mirrorRec(a.X, b.X, extend)
	case *ast.AssignStmt:
		b, ok := y.(*ast.AssignStmt)
		if !ok || a.Tok != b.Tok || len(a.Lhs) != len(b.Lhs) || len(a.Rhs) != len(b.Rhs) {
			return false
		}
		for i := range a.Rhs {
			if !e.mirrorRec(a.Rhs[i], b.Rhs[i], extend) {
				return false
			}
		}
		for i := range a.Lhs {
			if !e.mirrorRec(a.Lhs[i], b.Lhs[i], true) {
				return false
			}
		}
		return true
	case *ast.BlockStmt:
		b, ok := y.(*ast.BlockStmt)
		if !ok || len(a.List) != len(b.List) {
			return false
		}
		for i := range a.List {
			if !e.mirrorRec(a.List[i], b.List[i], extend) {
				return false
			}
		}
		return true
	case *ast.IfStmt:
		b, ok := y.(*ast.IfStmt)
		return ok && a.Init == nil && b.Init == nil && e.mirrorRec(a.Cond, b.Cond, extend) && e.mirrorRec(a.Body, b.Body, extend) && e.mirrorRec(nodeOrNil(a.Else), nodeOrNil(b.Else), extend)
	case *ast.RangeStmt:
		b, ok := y.(*ast.RangeStmt)
		if !ok || a.Tok != b.Tok {
			return false
		}
		// loop variables are bound to each other, locally
		saved := map[string]string{}
		for k, v := range e.pair {
			saved[k] = v
		}
		okk := e.mirrorRec(a.X, b.X, extend)
		bindVar := func(p, q ast.Expr) bool {
			if p == nil || q == nil {
				return p == nil && q == nil
			}
			pi, ok1 := p.(*ast.Ident)
			qi, ok2 := q.(*ast.Ident)
			if !ok1 || !ok2 {
				return false
			}
			if pi.Name == "_" || qi.Name == "_" {
				return pi.Name == qi.Name
			}
			// shadowing: a loop variable may reuse an operand name (for _, s := range r.Calls)
			delete(e.pair, pi.Name)
			delete(e.pair, qi.Name)
			for k, v := range e.pair {
				if v == pi.Name || v == qi.Name {
					delete(e.pair, k)
				}
			}
			e.pair[pi.Name] = qi.Name
			if pi.Name != qi.Name {
				e.pair[qi.Name] = pi.Name
			}
			return true
		}
		okk = okk && bindVar(a.Key, b.Key) && bindVar(a.Value, b.Value) && e.mirrorRec(a.Body, b.Body, true)
		// restore operand pairing, keep newly paired outer locals
		for k, v := range saved {
			e.pair[k] = v
		}
		for _, v := range []ast.Expr{a.Key, a.Value, b.Key, b.Value} {
			if id, ok := v.(*ast.Ident); ok && id != nil {
				if _, was := saved[id.Name]; !was {
					delete(e.pair, id.Name)
				}
			}
		}
		return okk
	case *ast.DeclStmt:
		return e.src(x) == e.src(y)
	case *ast.ReturnStmt:
		b, ok := y.(*ast.ReturnStmt)
		if !ok || len(a.Results) != len(b.Results) {
			return false
		}
		for i := range a.Results {
			if !e.mirrorRec(a.Results[i], b.Results[i], extend) {
				return false
			}
		}
		return true
	}
	return false
}

func nodeOrNil(s ast.Stmt) ast.Node {
	if s == nil {
		return nil
	}
	return s
}

func isReturnBool(s ast.Stmt, want bool) bool {
	b, ok := s.(*ast.BlockStmt)
	if ok {
		if len(b.List) != 1 {
			return false
		}
		s = b.List[0]
	}
	r, ok := s.(*ast.ReturnStmt)
	if !ok || len(r.Results) != 1 {
		return false
	}
	id, ok := r.Results[0].(*ast.Ident)
	return ok && id.Name == fmt.Sprint(want)
}

// strictCompare recognises "A op B" with B the mirror of A; returns the key
// text and whether a larger key makes the condition true.
func (e *lxEnv) strictCompare(c ast.Expr) (key string, greater bool, ok bool) {
	for {
		p, isP := c.(*ast.ParenExpr)
		if !isP {
			break
		}
		c = p.X
	}
	b, isB := c.(*ast.BinaryExpr)
	if !isB || (b.Op != token.LSS && b.Op != token.GTR) {
		return "", false, false
	}
	if !e.mirror(b.X, b.Y, false) || e.src(b.X) == e.src(b.Y) {
		return "", false, false
	}
	// the key must be an ordered basic type
	if tv, okT := e.info.Types[b.X]; okT {
		if bt, okB := tv.Type.Underlying().(*types.Basic); !okB || bt.Info()&(types.IsOrdered) == 0 || bt.Info()&types.IsFloat != 0 {
			return "", false, false
		}
	}
	// which side is the left operand?
	leftFirst := e.mentions(b.X, e.l) || e.mentionsPairedLeft(b.X)
	k := e.src(b.X)
	g := b.Op == token.GTR
	if !leftFirst {
		k = e.src(b.Y)
		g = !g
	}
	return k, g, true
}

func (e *lxEnv) mentions(n ast.Node, name string) bool {
	found := false
	ast.Inspect(n, func(x ast.Node) bool {
		if id, ok := x.(*ast.Ident); ok && id.Name == name {
			found = true
		}
		return !found
	})
	return found
}

// locals paired with a right-hand local are "left" when they were bound first
func (e *lxEnv) mentionsPairedLeft(n ast.Node) bool {
	found := false
	ast.Inspect(n, func(x ast.Node) bool {
		if id, ok := x.(*ast.Ident); ok {
			if e.leftLocals[id.Name] {
				found = true
			}
		}
		return !found
	})
	return found
}

var _ = constant.MakeBool

// steps parses a statement list into comparison steps.
// lxDesugar rewrites a tagless switch whose every case ends in a return into
// the equivalent chain of ifs (the default clause becomes the tail).
// lxThreeWayIf rewrites
//	if c := cmp.Compare(X, Y); c != 0 { return c < 0 }
// (also strings.Compare / bytes.Compare, and c > 0 for "more first") as the
// pair of strict comparisons it abbreviates.
func lxThreeWayIf(st *ast.IfStmt) []ast.Stmt {
	if st.Init == nil || st.Else != nil || len(st.Body.List) != 1 {
		return nil
	}
	as, ok := st.Init.(*ast.AssignStmt)
	if !ok || as.Tok != token.DEFINE || len(as.Lhs) != 1 || len(as.Rhs) != 1 {
		return nil
	}
	cv, ok := as.Lhs[0].(*ast.Ident)
	if !ok {
		return nil
	}
	call, ok := as.Rhs[0].(*ast.CallExpr)
	if !ok || len(call.Args) != 2 {
		return nil
	}
	sel, ok := call.Fun.(*ast.SelectorExpr)
	if !ok || sel.Sel.Name != "Compare" {
		return nil
	}
	if id, ok := sel.X.(*ast.Ident); !ok || (id.Name != "cmp" && id.Name != "strings" && id.Name != "bytes") {
		return nil
	}
	isC := func(e ast.Expr) bool { id, ok := e.(*ast.Ident); return ok && id.Name == cv.Name }
	isZero := func(e ast.Expr) bool { l, ok := e.(*ast.BasicLit); return ok && l.Value == "0" }
	ne, ok := st.Cond.(*ast.BinaryExpr)
	if !ok || ne.Op != token.NEQ || !((isC(ne.X) && isZero(ne.Y)) || (isZero(ne.X) && isC(ne.Y))) {
		return nil
	}
	ret, ok := st.Body.List[0].(*ast.ReturnStmt)
	if !ok || len(ret.Results) != 1 {
		return nil
	}
	rb, ok := ret.Results[0].(*ast.BinaryExpr)
	if !ok {
		return nil
	}
	var less bool // true: X < Y gives true
	switch {
	case rb.Op == token.LSS && isC(rb.X) && isZero(rb.Y), rb.Op == token.GTR && isZero(rb.X) && isC(rb.Y):
		less = true
	case rb.Op == token.GTR && isC(rb.X) && isZero(rb.Y), rb.Op == token.LSS && isZero(rb.X) && isC(rb.Y):
		less = false
	default:
		return nil
	}
	x, y := call.Args[0], call.Args[1]
	first, second := token.LSS, token.GTR
	if !less {
		first, second = token.GTR, token.LSS
	}
	mk := func(op token.Token, v string) ast.Stmt {
		return &ast.IfStmt{If: st.If, Cond: &ast.BinaryExpr{X: x, Op: op, Y: y, OpPos: call.Pos()},
			Body: &ast.BlockStmt{Lbrace: st.Body.Lbrace, List: []ast.Stmt{&ast.ReturnStmt{Return: ret.Return, Results: []ast.Expr{&ast.Ident{Name: v, NamePos: ret.Return}}}}, Rbrace: st.Body.Rbrace}}
	}
	return []ast.Stmt{mk(first, "true"), mk(second, "false")}
}

func lxDesugar(list []ast.Stmt) []ast.Stmt {
	var out []ast.Stmt
	for idx, s := range list {
		if ifs, ok := s.(*ast.IfStmt); ok {
			if two := lxThreeWayIf(ifs); two != nil {
				out = append(out, two...)
				continue
			}
		}
		sw, ok := s.(*ast.SwitchStmt)
		if !ok || sw.Tag != nil || sw.Init != nil {
			out = append(out, s)
			continue
		}
		var ifs []ast.Stmt
		var def []ast.Stmt
		good := true
		for _, cc := range sw.Body.List {
			cl := cc.(*ast.CaseClause)
			if len(cl.Body) == 0 {
				good = false
				break
			}
			if _, isRet := cl.Body[len(cl.Body)-1].(*ast.ReturnStmt); !isRet {
				good = false
				break
			}
			if cl.List == nil {
				def = cl.Body
				continue
			}
			var cond ast.Expr
			for _, c := range cl.List {
				if cond == nil {
					cond = c
				} else {
					cond = &ast.BinaryExpr{X: cond, Op: token.LOR, Y: c, OpPos: c.Pos()}
				}
			}
			ifs = append(ifs, &ast.IfStmt{If: cl.Pos(), Cond: cond, Body: &ast.BlockStmt{Lbrace: cl.Colon, List: cl.Body, Rbrace: cl.End()}})
		}
		// a default in the middle keeps its position only if it is last in evaluation order: Go evaluates cases top to bottom and default last, so moving it to the tail is exact
		if !good {
			out = append(out, s)
			continue
		}
		out = append(out, ifs...)
		if def != nil {
			// what follows a switch with a returning default is unreachable
			out = append(out, def...)
			_ = idx
			return out
		}
	}
	return out
}

func (e *lxEnv) steps(list []ast.Stmt, loop string, res *lxResult) bool {
	list = lxDesugar(list)
	i := 0
	for i < len(list) {
		s := list[i]
		switch st := s.(type) {
		case *ast.IfStmt:
			if st.Init != nil || st.Else != nil {
				res.why = "if with init/else at " + e.pos(st)
				return false
			}
			// First idiom: if l.F || r.F { return l.F }
			if or, ok := st.Cond.(*ast.BinaryExpr); ok && or.Op == token.LOR && e.mirror(or.X, or.Y, false) {
				if len(st.Body.List) == 1 {
					if ret, ok := st.Body.List[0].(*ast.ReturnStmt); ok && len(ret.Results) == 1 && e.src(ret.Results[0]) == e.src(or.X) {
						sel, isSel := or.X.(*ast.SelectorExpr)
						if isSel && sel.Sel.Name == "First" {
							res.keys = append(res.keys, lxKey{Expr: e.src(or.X), Kind: "first", MoreIsLess: true, Loop: loop})
							res.needsAtMostOne = e.src(or.X)
							i++
							continue
						}
						res.why = "the idiom 'if l.X || r.X { return l.X }' is only a strict order when at most one element has X; that is established for Bucket.First only, not for " + e.src(or.X) + " at " + e.pos(st)
						return false
					}
				}
			}
			// guarded return: if A != B { return B > A }
			if ne, ok := st.Cond.(*ast.BinaryExpr); ok && ne.Op == token.NEQ && e.mirror(ne.X, ne.Y, false) && len(st.Body.List) == 1 {
				if ret, ok := st.Body.List[0].(*ast.ReturnStmt); ok && len(ret.Results) == 1 {
					if k, g, ok := e.strictCompare(ret.Results[0]); ok && (k == e.src(ne.X) || k == e.src(ne.Y)) {
						res.keys = append(res.keys, lxKey{Expr: k, Kind: "order", MoreIsLess: g, Loop: loop})
						i++
						continue
					}
					// booleans: if A != B { return A }  (the true one first: A && !B)
					if tv, ok := e.info.Types[ne.X]; ok && tv.Type != nil {
						if bt, isB := tv.Type.Underlying().(*types.Basic); isB && bt.Info()&types.IsBoolean != 0 && e.src(ret.Results[0]) == e.src(ne.X) && e.src(ne.X) != e.src(ne.Y) {
							res.keys = append(res.keys, lxKey{Expr: e.src(ne.X), Kind: "bool", MoreIsLess: true, Loop: loop})
							i++
							continue
						}
					}
				}
			}
			// pair
			if i+1 >= len(list) {
				res.why = "unpaired condition at " + e.pos(st)
				return false
			}
			nx, ok := list[i+1].(*ast.IfStmt)
			if !ok || nx.Init != nil || nx.Else != nil {
				res.why = "a step must be followed by its mirror image at " + e.pos(st)
				return false
			}
			if !isReturnBool(st.Body, true) || !isReturnBool(nx.Body, false) {
				res.why = "a step must be 'if c {return true}; if mirror(c) {return false}' at " + e.pos(st)
				return false
			}
			sameOpposite := false
			if b1, ok := st.Cond.(*ast.BinaryExpr); ok {
				if b2, ok := nx.Cond.(*ast.BinaryExpr); ok && e.src(b1.X) == e.src(b2.X) && e.src(b1.Y) == e.src(b2.Y) &&
					((b1.Op == token.LSS && b2.Op == token.GTR) || (b1.Op == token.GTR && b2.Op == token.LSS)) {
					sameOpposite = true // A > B / A < B: the second is the mirror image written with the other operator
				}
			}
			if !sameOpposite && !e.mirror(st.Cond, nx.Cond, false) {
				res.why = "the second condition is not the mirror image of the first at " + e.pos(st) + ": " + e.src(st.Cond) + " / " + e.src(nx.Cond)
				return false
			}
			if k, g, ok := e.strictCompare(st.Cond); ok {
				res.keys = append(res.keys, lxKey{Expr: k, Kind: "order", MoreIsLess: g, Loop: loop})
				i += 2
				continue
			}
			// the First idiom written as two guards: if l.First {return true}; if r.First {return false}
			if sel, ok := st.Cond.(*ast.SelectorExpr); ok && sel.Sel.Name == "First" {
				res.keys = append(res.keys, lxKey{Expr: e.src(st.Cond), Kind: "first", MoreIsLess: true, Loop: loop})
				res.needsAtMostOne = e.src(st.Cond)
				i += 2
				continue
			}
			// boolean pair: A && !B with B mirror of A
			if and, ok := st.Cond.(*ast.BinaryExpr); ok && and.Op == token.LAND {
				if not, ok := and.Y.(*ast.UnaryExpr); ok && not.Op == token.NOT && e.mirror(and.X, not.X, false) && e.src(and.X) != e.src(not.X) {
					res.keys = append(res.keys, lxKey{Expr: e.src(and.X), Kind: "bool", MoreIsLess: true, Loop: loop})
					i += 2
					continue
				}
			}
			// sub-comparator pair: f(l, r) / f(r, l)
			if call, ok := st.Cond.(*ast.CallExpr); ok {
				if name, ok := e.subComparator(call); ok {
					res.keys = append(res.keys, lxKey{Expr: name, Kind: "sub:" + name, Loop: loop})
					i += 2
					continue
				}
			}
			res.why = "condition is not a strict comparison of a key with its mirror image at " + e.pos(st) + ": " + e.src(st.Cond)
			return false
		case *ast.ForStmt:
			// counted loop with constant bounds
			lo, hi, v, ok := e.countedLoop(st)
			if !ok {
				res.why = "loop is not a constant-bound counted loop at " + e.pos(st)
				return false
			}
			if !e.steps(st.Body.List, fmt.Sprintf("for %s=%s..%s", v, lo, hi), res) {
				return false
			}
			i++
		case *ast.RangeStmt:
			// element-wise comparison over the left operand's list
			if st.Value != nil || st.Key == nil {
				res.why = "range with value variable at " + e.pos(st)
				return false
			}
			if !e.steps(st.Body.List, "range "+e.src(st.X), res) {
				return false
			}
			res.rangeOver = append(res.rangeOver, e.src(st.X))
			i++
		case *ast.ReturnStmt:
			if i != len(list)-1 {
				res.why = "return in the middle at " + e.pos(st)
				return false
			}
			if len(st.Results) == 1 {
				if id, ok := st.Results[0].(*ast.Ident); ok && id.Name == "false" {
					i++
					continue
				}
				if k, g, ok := e.strictCompare(st.Results[0]); ok {
					res.keys = append(res.keys, lxKey{Expr: k, Kind: "order", MoreIsLess: g, Loop: loop})
					res.total = true
					res.last = k
					i++
					continue
				}
				// the chain continues in another comparator of the same operands:
				// return l.m(r) - a lexicographic product again if m is a chain
				if call, ok := st.Results[0].(*ast.CallExpr); ok && e.tail != nil && e.depth < 3 && loop == "" {
					if sub := e.tail(call, e); sub != nil && sub.ok && sub.needsAtMostOne == "" {
						res.keys = append(res.keys, sub.keys...)
						res.total, res.last = sub.total, sub.last
						i++
						continue
					}
				}
			}
			res.why = "final return is neither false nor a strict comparison of a key at " + e.pos(st)
			return false
		case *ast.AssignStmt:
			// a mirrored pair of local definitions (lc := &l.X[i]; rc := &r.X[i])
			if st.Tok == token.DEFINE && i+1 < len(list) {
				if nx, ok := list[i+1].(*ast.AssignStmt); ok && nx.Tok == token.DEFINE && e.mirror(st, nx, true) {
					i += 2
					continue
				}
			}
			res.why = fmt.Sprintf("a local definition without its mirror image at %s", e.pos(s))
			return false
		default:
			res.why = fmt.Sprintf("unexpected statement %T at %s", s, e.pos(s))
			return false
		}
	}
	return true
}

// lxCmpToLess rewrites the body of a three-way comparator (negative: first
// operand first) into the body of the strict "less" it induces:
//   return -1 -> return true;  return 1, return 0 -> return false
//   return cmp.Compare(a, b) -> return a < b
//   if c { return -1 }; return 1   (as a block) -> return c
// Anything else is left alone and is then not recognised as a chain.
func lxCmpToLess(body *ast.BlockStmt) *ast.BlockStmt {
	isInt := func(e ast.Expr, v string) bool {
		if u, ok := e.(*ast.UnaryExpr); ok && u.Op == token.SUB {
			if l, ok := u.X.(*ast.BasicLit); ok {
				return "-"+l.Value == v
			}
		}
		l, ok := e.(*ast.BasicLit)
		return ok && l.Value == v
	}
	ident := func(n string) *ast.Ident { return &ast.Ident{Name: n} }
	var conv func(list []ast.Stmt) []ast.Stmt
	retConv := func(r *ast.ReturnStmt) ast.Stmt {
		if len(r.Results) != 1 {
			return r
		}
		e := r.Results[0]
		switch {
		case isInt(e, "-1"):
			return &ast.ReturnStmt{Return: r.Return, Results: []ast.Expr{ident("true")}}
		case isInt(e, "1"), isInt(e, "0"):
			return &ast.ReturnStmt{Return: r.Return, Results: []ast.Expr{ident("false")}}
		}
		if call, ok := e.(*ast.CallExpr); ok && len(call.Args) == 2 {
			if sel, ok := call.Fun.(*ast.SelectorExpr); ok && sel.Sel.Name == "Compare" {
				if id, ok := sel.X.(*ast.Ident); ok && id.Name == "cmp" {
					return &ast.ReturnStmt{Return: r.Return, Results: []ast.Expr{&ast.BinaryExpr{X: call.Args[0], Op: token.LSS, Y: call.Args[1], OpPos: call.Pos()}}}
				}
			}
		}
		return r
	}
	conv = func(list []ast.Stmt) []ast.Stmt {
		var out []ast.Stmt
		for i := 0; i < len(list); i++ {
			switch st := list[i].(type) {
			case *ast.ReturnStmt:
				out = append(out, retConv(st))
			case *ast.IfStmt:
				// if c { return -1 }; return 1  ->  return c
				if i+1 < len(list) && st.Else == nil && st.Init == nil && len(st.Body.List) == 1 {
					r1, ok1 := st.Body.List[0].(*ast.ReturnStmt)
					r2, ok2 := list[i+1].(*ast.ReturnStmt)
					if ok1 && ok2 && len(r1.Results) == 1 && len(r2.Results) == 1 && isInt(r1.Results[0], "-1") && isInt(r2.Results[0], "1") && i+2 == len(list) {
						if _, isCall := st.Cond.(*ast.CallExpr); !isCall {
							out = append(out, &ast.ReturnStmt{Return: st.If, Results: []ast.Expr{st.Cond}})
							i++
							continue
						}
					}
				}
				n := *st
				n.Body = &ast.BlockStmt{Lbrace: st.Body.Lbrace, List: conv(st.Body.List), Rbrace: st.Body.Rbrace}
				out = append(out, &n)
			case *ast.ForStmt:
				n := *st
				n.Body = &ast.BlockStmt{Lbrace: st.Body.Lbrace, List: conv(st.Body.List), Rbrace: st.Body.Rbrace}
				out = append(out, &n)
			case *ast.RangeStmt:
				n := *st
				n.Body = &ast.BlockStmt{Lbrace: st.Body.Lbrace, List: conv(st.Body.List), Rbrace: st.Body.Rbrace}
				out = append(out, &n)
			default:
				out = append(out, st)
			}
		}
		return out
	}
	return &ast.BlockStmt{Lbrace: body.Lbrace, List: conv(body.List), Rbrace: body.Rbrace}
}

// lxDelegate looks through a comparator whose whole body is
// `return f(A, B)` with A and B mirror images and f a package-level function
// of two parameters: the chain to analyse is f's body.
func lxDelegate(files []*ast.File, info *types.Info, fset *token.FileSet, body *ast.BlockStmt, l, r string) (*ast.BlockStmt, string, string) {
	if body == nil || len(body.List) != 1 {
		return body, l, r
	}
	ret, ok := body.List[0].(*ast.ReturnStmt)
	if !ok || len(ret.Results) != 1 {
		return body, l, r
	}
	call, ok := ret.Results[0].(*ast.CallExpr)
	if !ok || len(call.Args) != 2 {
		return body, l, r
	}
	id, ok := call.Fun.(*ast.Ident)
	if !ok {
		return body, l, r
	}
	fn, ok := info.Uses[id].(*types.Func)
	if !ok {
		return body, l, r
	}
	e := &lxEnv{info: info, fset: fset, pair: map[string]string{l: r, r: l}, acc: map[string]bool{}, l: l, r: r, leftLocals: map[string]bool{}}
	if !e.mirror(call.Args[0], call.Args[1], false) || e.src(call.Args[0]) == e.src(call.Args[1]) {
		return body, l, r
	}
	for _, f := range files {
		for _, d := range f.Decls {
			fd, ok := d.(*ast.FuncDecl)
			if !ok || fd.Body == nil || fd.Recv != nil || info.Defs[fd.Name] != types.Object(fn) {
				continue
			}
			var ps []string
			for _, fl := range fd.Type.Params.List {
				for _, n := range fl.Names {
					ps = append(ps, n.Name)
				}
			}
			if len(ps) == 2 {
				return fd.Body, ps[0], ps[1]
			}
		}
	}
	return body, l, r
}

func (e *lxEnv) pos(n ast.Node) string {
	p := e.fset.Position(n.Pos())
	return fmt.Sprintf("line %d", p.Line)
}

func (e *lxEnv) subComparator(call *ast.CallExpr) (string, bool) {
	sel, ok := call.Fun.(*ast.SelectorExpr)
	if !ok || len(call.Args) != 1 {
		return "", false
	}
	fnObj, _ := e.info.ObjectOf(sel.Sel).(*types.Func)
	if fnObj == nil {
		return "", false
	}
	sig := fnObj.Type().(*types.Signature)
	if sig.Recv() == nil {
		return "", false
	}
	t := sig.Recv().Type()
	if p, ok := t.(*types.Pointer); ok {
		t = p.Elem()
	}
	nt, ok := t.(*types.Named)
	if !ok {
		return "", false
	}
	name := nt.Obj().Name() + "." + fnObj.Name()
	if !e.acc[name] {
		return "", false
	}
	// receiver and argument must be mirror images: x.F.less(&y.F)
	arg := call.Args[0]
	if u, ok := arg.(*ast.UnaryExpr); ok && u.Op == token.AND {
		arg = u.X
	}
	recv := sel.X
	if !e.mirror(recv, arg, false) || e.src(recv) == e.src(arg) {
		return "", false
	}
	return name, true
}

func (e *lxEnv) countedLoop(st *ast.ForStmt) (lo, hi, v string, ok bool) {
	as, ok1 := st.Init.(*ast.AssignStmt)
	if !ok1 || as.Tok != token.DEFINE || len(as.Lhs) != 1 || len(as.Rhs) != 1 {
		return
	}
	id, ok2 := as.Lhs[0].(*ast.Ident)
	if !ok2 {
		return
	}
	tv, okc := e.info.Types[as.Rhs[0]]
	if !okc || tv.Value == nil {
		return
	}
	cond, ok3 := st.Cond.(*ast.BinaryExpr)
	if !ok3 || cond.Op != token.LSS || e.src(cond.X) != id.Name {
		return
	}
	tv2, okc2 := e.info.Types[cond.Y]
	if !okc2 || tv2.Value == nil {
		return
	}
	inc, ok4 := st.Post.(*ast.IncDecStmt)
	if !ok4 || inc.Tok != token.INC || e.src(inc.X) != id.Name {
		return
	}
	// the variable is not assigned in the body
	assigned := false
	ast.Inspect(st.Body, func(n ast.Node) bool {
		switch s := n.(type) {
		case *ast.AssignStmt:
			for _, l := range s.Lhs {
				if e.src(l) == id.Name {
					assigned = true
				}
			}
		case *ast.IncDecStmt:
			if e.src(s.X) == id.Name {
				assigned = true
			}
		}
		return true
	})
	if assigned {
		return
	}
	return tv.Value.ExactString(), tv2.Value.ExactString(), id.Name, true
}

// analyse a comparator body.
func (e *lxEnv) analyse(body *ast.BlockStmt) *lxResult {
	res := &lxResult{}
	list := body.List
	// preamble: mirrored pairs of declarations / counting loops
	i := 0
	for i+1 < len(list) {
		s := list[i]
		isPre := false
		switch st := s.(type) {
		case *ast.AssignStmt:
			isPre = st.Tok == token.DEFINE
		case *ast.DeclStmt:
			isPre = true
		case *ast.RangeStmt:
			hasRet := false
			ast.Inspect(st, func(n ast.Node) bool {
				if _, ok := n.(*ast.ReturnStmt); ok {
					hasRet = true
				}
				return !hasRet
			})
			isPre = !hasRet
		}
		if !isPre {
			break
		}
		// a local type declaration stands alone; "var l, r T" declares a
		// mirrored pair in one statement
		if ds, ok := s.(*ast.DeclStmt); ok {
			if gd, ok := ds.Decl.(*ast.GenDecl); ok {
				if gd.Tok == token.TYPE {
					i++
					continue
				}
				if gd.Tok == token.VAR && len(gd.Specs) == 1 {
					if vs, ok := gd.Specs[0].(*ast.ValueSpec); ok && len(vs.Names) == 2 && len(vs.Values) == 0 {
						if e.bind(vs.Names[0].Name, vs.Names[1].Name, true) {
							i++
							continue
						}
					}
				}
			}
		}
		if i+1 >= len(list) {
			break
		}
		if !e.mirror(list[i], list[i+1], true) {
			res.why = "the key computations for the two operands are not mirror images at " + e.pos(s) + ": " + e.src(list[i]) + " / " + e.src(list[i+1])
			return res
		}
		i += 2
	}
	res.preambleLen = i
	if !e.steps(list[i:], "", res) {
		// "if C { return true }; return false" at the very end is "return C"
		// (the mirror image of the last step, which would return false as
		// well, left out as redundant)
		tail := lxDesugar(list[i:])
		retry := false
		if n := len(tail); n >= 2 {
			ifs, ok1 := tail[n-2].(*ast.IfStmt)
			ret, ok2 := tail[n-1].(*ast.ReturnStmt)
			if ok1 && ok2 && ifs.Init == nil && ifs.Else == nil && len(ifs.Body.List) == 1 && len(ret.Results) == 1 {
				if r1, ok := ifs.Body.List[0].(*ast.ReturnStmt); ok && len(r1.Results) == 1 {
					t, okT := r1.Results[0].(*ast.Ident)
					f, okF := ret.Results[0].(*ast.Ident)
					if okT && okF && t.Name == "true" && f.Name == "false" {
						tail = append(append([]ast.Stmt{}, tail[:n-2]...), &ast.ReturnStmt{Return: ret.Return, Results: []ast.Expr{ifs.Cond}})
						retry = true
					}
				}
			}
		}
		if !retry {
			return res
		}
		res2 := &lxResult{preambleLen: i}
		if !e.steps(tail, "", res2) {
			return res // the first diagnosis stands
		}
		*res = *res2
	}
	if len(res.keys) == 0 {
		res.why = "no comparison step"
		return res
	}
	res.ok = true
	return res
}

func runLX(c *Ctx) (obls []Obl) {
	a := newAgg(c, &obls)
	defer a.flush()
	pkg := c.L.tpkg("stack")
	if pkg == nil {
		return
	}
	find := func(recv, name string) *ast.FuncDecl {
		for _, f := range pkg.Syntax {
			for _, d := range f.Decls {
				fd, ok := d.(*ast.FuncDecl)
				if !ok || fd.Name.Name != name || fd.Body == nil {
					continue
				}
				r := ""
				if fd.Recv != nil && len(fd.Recv.List) == 1 {
					t := fd.Recv.List[0].Type
					if st, ok := t.(*ast.StarExpr); ok {
						t = st.X
					}
					if id, ok := t.(*ast.Ident); ok {
						r = id.Name
					}
				}
				if r == recv {
					return fd
				}
			}
		}
		return nil
	}
	acc := map[string]bool{}
	var newEnv func(l, r string) *lxEnv
	tail := func(call *ast.CallExpr, from *lxEnv) *lxResult {
		sel, ok := call.Fun.(*ast.SelectorExpr)
		if !ok || len(call.Args) != 1 {
			return nil
		}
		// receiver and argument are the two operands
		ri, ok1 := sel.X.(*ast.Ident)
		ai, ok2 := call.Args[0].(*ast.Ident)
		if !ok1 || !ok2 || ri.Name != from.l || ai.Name != from.r {
			return nil
		}
		fnObj, _ := pkg.TypesInfo.ObjectOf(sel.Sel).(*types.Func)
		if fnObj == nil || fnObj.Pkg() != pkg.Types {
			return nil
		}
		for _, f := range pkg.Syntax {
			for _, d := range f.Decls {
				fd, ok := d.(*ast.FuncDecl)
				if !ok || fd.Body == nil || pkg.TypesInfo.Defs[fd.Name] != types.Object(fnObj) {
					continue
				}
				if fd.Recv == nil || len(fd.Recv.List) != 1 || len(fd.Recv.List[0].Names) != 1 || len(fd.Type.Params.List) != 1 || len(fd.Type.Params.List[0].Names) != 1 {
					return nil
				}
				e2 := newEnv(fd.Recv.List[0].Names[0].Name, fd.Type.Params.List[0].Names[0].Name)
				e2.depth = from.depth + 1
				return e2.analyse(fd.Body)
			}
		}
		return nil
	}
	newEnv = func(l, r string) *lxEnv {
		return &lxEnv{info: pkg.TypesInfo, fset: c.L.Fset, pair: map[string]string{l: r, r: l}, acc: acc, l: l, r: r, leftLocals: map[string]bool{}, tail: tail}
	}
	results := map[string]*lxResult{}
	for _, m := range []struct{ recv, name string }{{"Stack", "less"}, {"Signature", "less"}} {
		fd := find(m.recv, m.name)
		key := m.recv + "." + m.name
		if fd == nil || len(fd.Recv.List[0].Names) != 1 || len(fd.Type.Params.List) != 1 || len(fd.Type.Params.List[0].Names) != 1 {
			a.und("LX-swo", key, "comparator not found", token.NoPos)
			continue
		}
		e := newEnv(fd.Recv.List[0].Names[0].Name, fd.Type.Params.List[0].Names[0].Name)
		res := e.analyse(fd.Body)
		results[key] = res
		if res.ok && res.needsAtMostOne == "" {
			acc[key] = true
			var ks []string
			for _, k := range res.keys {
				ks = append(ks, k.Expr)
			}
			a.ok("LX-swo", key, fmt.Sprintf("lexicographic chain of %d strict comparisons, each the mirror image of its partner: %s", len(res.keys), strings.Join(ks, " ; ")), fd.Pos())
		} else {
			a.bad("LX-swo", key, "the comparator is not a chain of mirrored strict comparisons, so it need not be a strict weak order: "+res.why, fd.Pos())
		}
		// equal-length precondition of element-wise loops: a count comparison on the same list precedes
		for _, ro := range res.rangeOver {
			_ = ro
		}
	}
	// uint64Slice.Less
	if fd := find("uint64Slice", "Less"); fd != nil {
		ok := false
		if len(fd.Body.List) == 1 {
			if ret, isR := fd.Body.List[0].(*ast.ReturnStmt); isR && len(ret.Results) == 1 {
				if b, isB := ret.Results[0].(*ast.BinaryExpr); isB && b.Op == token.LSS {
					x, okx := b.X.(*ast.IndexExpr)
					y, oky := b.Y.(*ast.IndexExpr)
					if okx && oky && len(fd.Type.Params.List) >= 1 {
						var ps []string
						for _, f := range fd.Type.Params.List {
							for _, n := range f.Names {
								ps = append(ps, n.Name)
							}
						}
						src := func(n ast.Node) string { var bb bytes.Buffer; printer.Fprint(&bb, c.L.Fset, n); return bb.String() }
						if len(ps) == 2 && src(x.X) == src(y.X) && src(x.Index) == ps[0] && src(y.Index) == ps[1] {
							ok = true
						}
					}
				}
			}
		}
		if ok {
			a.ok("LX-swo", "uint64Slice.Less", "a[i] < a[j] on integers: strict total order", fd.Pos())
		} else {
			a.bad("LX-swo", "uint64Slice.Less", "not the plain a[i] < a[j]", fd.Pos())
		}
		// sort.Sort orders by Less only if Len is the length and Swap exchanges
		// the two elements (decided on the SSA form of the two methods)
		okLen, okSwap := false, false
		if lf := c.L.Func("stack", "uint64Slice", "Len"); lf != nil && len(lf.Blocks) == 1 {
			for _, in := range lf.Blocks[0].Instrs {
				if ret, isR := in.(*ssa.Return); isR && len(ret.Results) == 1 {
					if call, isC := ret.Results[0].(*ssa.Call); isC && bnCallee(call) == "builtin.len" && call.Call.Args[0] == ssa.Value(lf.Params[0]) {
						okLen = true
					}
				}
			}
		}
		if sf := c.L.Func("stack", "uint64Slice", "Swap"); sf != nil && len(sf.Blocks) == 1 && len(sf.Params) == 3 {
			// loads of a[i], a[j] then stores a[i] = old a[j], a[j] = old a[i]
			idxOf := func(v ssa.Value) ssa.Value {
				if ia, ok := v.(*ssa.IndexAddr); ok && ia.X == ssa.Value(sf.Params[0]) {
					return ia.Index
				}
				return nil
			}
			var stores [][2]ssa.Value // (index stored to, index loaded from)
			seenStore := false
			lateLoad := false
			for _, in := range sf.Blocks[0].Instrs {
				switch in := in.(type) {
				case *ssa.Store:
					seenStore = true
					if ld, ok := in.Val.(*ssa.UnOp); ok && ld.Op == token.MUL {
						stores = append(stores, [2]ssa.Value{idxOf(in.Addr), idxOf(ld.X)})
					} else {
						stores = append(stores, [2]ssa.Value{nil, nil})
					}
				case *ssa.UnOp:
					if in.Op == token.MUL && seenStore {
						lateLoad = true // an element read after the first write: not an exchange
					}
				}
			}
			i, j := ssa.Value(sf.Params[1]), ssa.Value(sf.Params[2])
			if len(stores) == 2 && !lateLoad {
				a0, a1 := stores[0], stores[1]
				if (a0 == [2]ssa.Value{i, j} && a1 == [2]ssa.Value{j, i}) || (a0 == [2]ssa.Value{j, i} && a1 == [2]ssa.Value{i, j}) {
					okSwap = true
				}
			}
		}
		if okLen && okSwap {
			a.ok("LX-swo", "uint64Slice.Len+Swap", "Len is the length and Swap exchanges the two elements: sort.Sort yields the order Less defines", fd.Pos())
		} else {
			a.bad("LX-swo", "uint64Slice.Len+Swap", fmt.Sprintf("the sort.Interface of the pointer values is not the canonical one (Len ok=%v, Swap ok=%v): sort.Sort does not produce the order of Less, and the pseudo-names follow whatever order results", okLen, okSwap), fd.Pos())
		}
	} else {
		// the helper type is gone: whoever sorts pointer values now is MO-range's business (slices.Sort is total)
		a.ok("LX-swo", "uint64Slice.Less", "no uint64Slice sort helper in this tree (the sort of the pointer values is classified by MO-range)", token.NoPos)
	}
	// the Aggregate comparator
	if fd := find("Snapshot", "Aggregate"); fd != nil {
		var lit *ast.FuncLit
		var sortCall *ast.CallExpr
		ast.Inspect(fd.Body, func(n ast.Node) bool {
			if call, ok := n.(*ast.CallExpr); ok {
				if sel, ok := call.Fun.(*ast.SelectorExpr); ok {
					if id, ok := sel.X.(*ast.Ident); ok && id.Name == "sort" && (sel.Sel.Name == "SliceStable" || sel.Sel.Name == "Slice") && len(call.Args) == 2 {
						if fl, ok := call.Args[1].(*ast.FuncLit); ok {
							lit, sortCall = fl, call
						}
					}
					if id, ok := sel.X.(*ast.Ident); ok && id.Name == "slices" && (sel.Sel.Name == "SortStableFunc" || sel.Sel.Name == "SortFunc") && len(call.Args) == 2 {
						if fl, ok := call.Args[1].(*ast.FuncLit); ok {
							// a three-way comparator: analysed as the "less" it induces
							lit, sortCall = &ast.FuncLit{Type: fl.Type, Body: lxCmpToLess(fl.Body)}, call
						}
					}
				}
			}
			return true
		})
		if lit == nil || len(lit.Type.Params.List) == 0 {
			a.und("LX-swo", "Aggregate.comparator", "the sort of the buckets with a comparator literal was not found", fd.Pos())
		} else {
			var ps []string
			for _, f := range lit.Type.Params.List {
				for _, n := range f.Names {
					ps = append(ps, n.Name)
				}
			}
			if len(ps) != 2 {
				a.und("LX-swo", "Aggregate.comparator", "unexpected comparator signature", lit.Pos())
			} else {
				cbody, cl, cr := lxDelegate(pkg.Syntax, pkg.TypesInfo, c.L.Fset, lit.Body, ps[0], ps[1])
				e := newEnv(cl, cr)
				res := e.analyse(cbody)
				results["Aggregate.comparator"] = res
				if res.ok {
					var ks []string
					for _, k := range res.keys {
						ks = append(ks, k.Expr)
					}
					a.ok("LX-swo", "Aggregate.comparator", "lexicographic chain: "+strings.Join(ks, " ; ")+"; the First step is a strict order because exactly one bucket holds the first goroutine (AG-first, SM-first)", lit.Pos())
					if len(res.keys) > 0 && res.keys[0].Kind == "first" {
						a.ok("LX-order", "Aggregate.comparator/first-key", "the bucket containing the crashing goroutine sorts first", lit.Pos())
					} else {
						a.bad("LX-order", "Aggregate.comparator/first-key", "the first key of the bucket order is not 'contains the first goroutine'", lit.Pos())
					}
					// totality
					uniq := false
					if res.total {
						// unique key: element 0 of the sorted, pairwise disjoint, non-empty id lists
						last := strings.ReplaceAll(res.last, " ", "")
						if strings.HasSuffix(last, ".IDs[0]") {
							uniq = true
						}
					}
					if uniq {
						a.ok("LX-total", "Aggregate.comparator/last-key", "the chain ends in IDs[0], which differs between any two buckets (id lists are non-empty, sorted and disjoint: AG-once, AG-sorted): the order is total, so the result does not depend on the map iteration order", lit.Pos())
					} else {
						a.bad("LX-total", "Aggregate.comparator/last-key", "the comparator leaves ties (it does not end in a key that is unique per bucket): buckets that tie keep the random order in which they were collected from the map", lit.Pos())
					}
					// sorted slice is the collected one
					_ = sortCall
				} else {
					a.bad("LX-swo", "Aggregate.comparator", "the bucket comparator is not a chain of mirrored strict comparisons: "+res.why, lit.Pos())
					a.bad("LX-total", "Aggregate.comparator/last-key", "totality cannot be established for a comparator that is not a recognised chain", lit.Pos())
				}
			}
		}
	}
	// LX-order on Stack.less
	lxOrder(c, a, find("Stack", "less"), results["Stack.less"])
	// ... and on Signature.less: what the frames say comes before the flags
	// (a thread-locked bucket of standard-library frames does not outrank a
	// bucket with package-main or module frames)
	if res := results["Signature.less"]; res != nil && res.ok && len(res.keys) > 0 {
		k0 := res.keys[0]
		pos := token.NoPos
		if fd := find("Signature", "less"); fd != nil {
			pos = fd.Pos()
		}
		if strings.HasPrefix(k0.Kind, "sub:") && strings.Contains(k0.Expr+k0.Kind, "Stack") {
			a.ok("LX-order", "Signature.less/stack-first", "signatures are ordered by their stacks first, by lock flag and state only between equal stack ranks", pos)
		} else {
			a.bad("LX-order", "Signature.less/stack-first", fmt.Sprintf("the first key of Signature.less is %s (%s), not the comparison of the stacks: a flag outranks what the frames say, so a bucket of standard-library frames can come before buckets with package-main or module frames", k0.Expr, k0.Kind), pos)
		}
	}
	lxEnum(c, a)
	return
}


// lxCounterKey: a counter is a local or a field of a local (left.loc).
func lxCounterKey(e ast.Expr) string {
	switch x := e.(type) {
	case *ast.Ident:
		return x.Name
	case *ast.SelectorExpr:
		if id, ok := x.X.(*ast.Ident); ok {
			return id.Name + "." + x.Sel.Name
		}
	}
	return ""
}

// lxClassifyCounts: which locals of a body count frames per Location
// ("loc": x[elem.Location]++ in a range loop) or frames of package main
// ("main": if elem.Func.IsPkgMain { x++ }).
func lxClassifyCounts(body *ast.BlockStmt) map[string]string {
	counts := map[string]string{} // local -> "main" | "loc"
	ast.Inspect(body, func(n ast.Node) bool {
		rs, ok := n.(*ast.RangeStmt)
		if !ok {
			return true
		}
		v, _ := rs.Value.(*ast.Ident)
		if v == nil {
			// for i := range xs { c := &xs[i] ... }: the element under a local name
			key, _ := rs.Key.(*ast.Ident)
			if key == nil || len(rs.Body.List) == 0 {
				return true
			}
			if as, ok := rs.Body.List[0].(*ast.AssignStmt); ok && as.Tok == token.DEFINE && len(as.Lhs) == 1 && len(as.Rhs) == 1 {
				rhs := as.Rhs[0]
				if u, ok := rhs.(*ast.UnaryExpr); ok && u.Op == token.AND {
					rhs = u.X
				}
				if ix, ok := rhs.(*ast.IndexExpr); ok {
					if id, ok := ix.Index.(*ast.Ident); ok && id.Name == key.Name && types.ExprString(ix.X) == types.ExprString(rs.X) {
						v, _ = as.Lhs[0].(*ast.Ident)
					}
				}
			}
			if v == nil {
				return true
			}
		}
		for _, s := range rs.Body.List {
			switch st := s.(type) {
			case *ast.IncDecStmt:
				if ix, ok := st.X.(*ast.IndexExpr); ok && st.Tok == token.INC {
					if sel, ok := ix.Index.(*ast.SelectorExpr); ok && sel.Sel.Name == "Location" {
						if id, ok := sel.X.(*ast.Ident); ok && id.Name == v.Name {
							if k := lxCounterKey(ix.X); k != "" {
								counts[k] = "loc"
							}
						}
					}
				}
			case *ast.IfStmt:
				if sel, ok := st.Cond.(*ast.SelectorExpr); ok && sel.Sel.Name == "IsPkgMain" && len(st.Body.List) == 1 {
					if inc, ok := st.Body.List[0].(*ast.IncDecStmt); ok && inc.Tok == token.INC {
						if k := lxCounterKey(inc.X); k != "" {
							counts[k] = "main"
						}
					}
				}
			}
		}
		return true
	})
	return counts
}

// lxOrder: package-main count first, then the per-location counts in
// ascending constant order with all of GoMod, GOPATH, GoPkg before Stdlib,
// each "more sorts first"; unknown last.
func lxOrder(c *Ctx, a *flAgg, fd *ast.FuncDecl, res *lxResult) {
	if fd == nil || res == nil || !res.ok {
		a.und("LX-order", "Stack.less/keys", "Stack.less was not recognised as a chain", token.NoPos)
		return
	}
	pkg := c.L.tpkg("stack")
	cv := func(name string) int64 {
		if k, ok := pkg.Types.Scope().Lookup(name).(*types.Const); ok {
			v, _ := constant.Int64Val(k.Val())
			return v
		}
		return -1
	}
	// what do the counters count? from the preamble loops, or from the helper
	// the loops were extracted to (lLoc, lMain := countLocations(s.Calls))
	counts := lxClassifyCounts(fd.Body) // local -> "main" | "loc"
	for _, st := range fd.Body.List {
		as, ok := st.(*ast.AssignStmt)
		if !ok || as.Tok != token.DEFINE || len(as.Rhs) != 1 {
			continue
		}
		call, ok := as.Rhs[0].(*ast.CallExpr)
		if !ok {
			continue
		}
		id, ok := call.Fun.(*ast.Ident)
		if !ok {
			continue
		}
		fobj, ok := pkg.TypesInfo.Uses[id].(*types.Func)
		if !ok {
			continue
		}
		for _, f := range pkg.Syntax {
			for _, d := range f.Decls {
				hd, ok := d.(*ast.FuncDecl)
				if !ok || hd.Body == nil || pkg.TypesInfo.Defs[hd.Name] != types.Object(fobj) {
					continue
				}
				sub := lxClassifyCounts(hd.Body)
				var names []string
				if hd.Type.Results != nil {
					for _, fl := range hd.Type.Results.List {
						for _, n := range fl.Names {
							names = append(names, n.Name)
						}
					}
				}
				if len(names) == 0 {
					ast.Inspect(hd.Body, func(n ast.Node) bool {
						if ret, ok := n.(*ast.ReturnStmt); ok {
							names = nil
							for _, r := range ret.Results {
								if rid, ok := r.(*ast.Ident); ok {
									names = append(names, rid.Name)
								} else {
									names = append(names, "")
								}
							}
						}
						return true
					})
				}
				for i, l := range as.Lhs {
					if lid, ok := l.(*ast.Ident); ok && i < len(names) && sub[names[i]] != "" {
						counts[lid.Name] = sub[names[i]]
					}
				}
			}
		}
	}
	keys := res.keys
	pos := fd.Pos()
	if len(keys) < 3 {
		a.bad("LX-order", "Stack.less/keys", "too few keys", pos)
		return
	}
	if counts[keys[0].Expr] == "main" && keys[0].MoreIsLess && keys[0].Loop == "" {
		a.ok("LX-order", "Stack.less/main-first", "stacks with more frames in package main sort first", pos)
	} else {
		a.bad("LX-order", "Stack.less/main-first", "the first key of Stack.less is not 'more package-main frames first' ("+keys[0].Expr+")", pos)
	}
	// the location loop
	k1 := keys[1]
	okLoop := false
	if strings.HasPrefix(k1.Loop, "for ") && k1.MoreIsLess {
		// "for i=1..5"
		var v, lo, hi string
		parts := strings.SplitN(strings.TrimPrefix(k1.Loop, "for "), "=", 2)
		if len(parts) == 2 {
			v = parts[0]
			lh := strings.SplitN(parts[1], "..", 2)
			if len(lh) == 2 {
				lo, hi = lh[0], lh[1]
			}
		}
		arr := strings.TrimSuffix(k1.Expr, "["+v+"]")
		if counts[arr] == "loc" && lo == "1" && hi == fmt.Sprint(cv("lastLocation")) {
			okLoop = true
		}
	}
	std := cv("Stdlib")
	okConst := cv("LocationUnknown") == 0 && cv("GoMod") >= 1 && cv("GOPATH") >= 1 && cv("GoPkg") >= 1 && cv("GoMod") < std && cv("GOPATH") < std && cv("GoPkg") < std && std < cv("lastLocation")
	if okLoop && okConst {
		a.ok("LX-order", "Stack.less/locations", "per-location frame counts are compared in ascending constant order from 1 to lastLocation, more first; GoMod, GOPATH and GoPkg precede Stdlib and unknown is compared after the loop: an all-stdlib stack sorts after every stack with main, module, GOPATH or module-cache frames", pos)
	} else {
		a.bad("LX-order", "Stack.less/locations", fmt.Sprintf("the location keys are not 'for i := 1; i < lastLocation; i++: more frames of location i first' with GoMod, GOPATH, GoPkg < Stdlib (loop ok=%v, constants ok=%v, key=%s in %s)", okLoop, okConst, k1.Expr, k1.Loop), pos)
	}
	// equal-length precondition of the frame-by-frame loop: every slot of the
	// count arrays was compared equal before, and every frame is counted in
	// exactly one slot (LX-enum), so both stacks have the same number of frames
	arr := ""
	if i := strings.Index(k1.Expr, "["); i > 0 {
		arr = k1.Expr[:i]
	}
	haveUnknown, frameLoop := false, false
	for _, k := range keys[2:] {
		if strings.HasPrefix(k.Loop, "range ") {
			frameLoop = true
			break
		}
		if k.Expr == arr+"[LocationUnknown]" && k.Loop == "" {
			haveUnknown = true
		}
	}
	switch {
	case !frameLoop:
		a.ok("LX-len", "Stack.less/frames", "no frame-by-frame loop", pos)
	case okLoop && haveUnknown && okConst:
		a.ok("LX-len", "Stack.less/frames", "the frame-by-frame loop indexes the other stack only after the counts of every location slot (1..lastLocation-1 and 0) were found equal, so both stacks have the same length", pos)
	default:
		a.bad("LX-len", "Stack.less/frames", "the frame-by-frame comparison indexes the right stack with the left stack's index although not every location count was compared equal before: index out of range for stacks of different length", pos)
	}
}

// lxEnum: every store to Call.Location is one of the named constants below
// lastLocation (index safety of the count arrays).
func lxEnum(c *Ctx, a *flAgg) {
	pkg := c.L.tpkg("stack")
	last := int64(-1)
	if k, ok := pkg.Types.Scope().Lookup("lastLocation").(*types.Const); ok {
		last, _ = constant.Int64Val(k.Val())
	}
	isLoc := func(t types.Type) bool {
		n, ok := t.(*types.Named)
		return ok && n.Obj().Name() == "Location" && n.Obj().Pkg() != nil && n.Obj().Pkg().Path() == modPath+"/stack"
	}
	// call sites by callee
	var all []*ssa.Function
	for _, pn := range []string{"stack", "internal", "stack/webstack"} {
		all = append(all, c.L.SrcFuncs(pn)...)
	}
	callers := map[*ssa.Function][]*ssa.CallCommon{}
	for _, f := range all {
		for _, b := range f.Blocks {
			for _, in := range b.Instrs {
				if ci, ok := in.(ssa.CallInstruction); ok {
					if cal := ci.Common().StaticCallee(); cal != nil {
						callers[cal] = append(callers[cal], ci.Common())
					}
				}
			}
		}
	}
	// okVal: the value is a constant below lastLocation, a copy of another
	// Location field, or a parameter every call site binds to such a value.
	var okVal func(v ssa.Value, depth int, seen map[ssa.Value]bool) (string, bool)
	okVal = func(v ssa.Value, depth int, seen map[ssa.Value]bool) (string, bool) {
		if depth > 5 || seen[v] {
			return "cycle", depth <= 5
		}
		seen[v] = true
		switch v := v.(type) {
		case *ssa.Const:
			if v.Value != nil {
				if k, ok := constant.Int64Val(v.Value); ok && k >= 0 && k < last {
					return v.Value.ExactString(), true
				}
			}
			return "const", false
		case *ssa.UnOp:
			if fa, ok := v.X.(*ssa.FieldAddr); ok && v.Op == token.MUL && isLoc(v.Type()) && addrLast(fa) == "Location" {
				return "copy", true
			}
			// a field of a local copy of a table element: d := table[i]; d.f
			if fa, ok := v.X.(*ssa.FieldAddr); ok && v.Op == token.MUL {
				if al, ok := fa.X.(*ssa.Alloc); ok {
					var src ssa.Value
					whole := 0
					for _, r := range *al.Referrers() {
						switch r := r.(type) {
						case *ssa.Store:
							if r.Addr == ssa.Value(al) {
								whole++
								src = r.Val
							}
						case *ssa.FieldAddr:
							for _, r2 := range *r.Referrers() {
								if st, isSt := r2.(*ssa.Store); isSt && st.Addr == ssa.Value(r) {
									whole = 99 // a field is overwritten: not followed
								}
							}
						case *ssa.DebugRef:
						default:
							whole = 99
						}
					}
					if whole == 1 {
						var table ssa.Value
						switch e := src.(type) {
						case *ssa.Index: // element of an array value loaded as a whole
							if ld, ok := e.X.(*ssa.UnOp); ok && ld.Op == token.MUL {
								table = ld.X
							}
						case *ssa.UnOp: // *(&table[i])
							if ia, ok := e.X.(*ssa.IndexAddr); ok && e.Op == token.MUL {
								table = ia.X
							}
						}
						if table != nil {
							if what, ok := tableField(table, fa.Field, func(x ssa.Value) bool { _, ok := okVal(x, depth+1, seen); return ok }); ok {
								return what, true
							}
						}
					}
				}
			}
		case *ssa.Field:
			// a field of an element of a local table (array/slice literal) all of
			// whose entries hold accepted values
			if ld, ok := v.X.(*ssa.UnOp); ok && ld.Op == token.MUL {
				if ia, ok := ld.X.(*ssa.IndexAddr); ok {
					if what, ok := tableField(ia.X, v.Field, func(x ssa.Value) bool { _, ok := okVal(x, depth+1, seen); return ok }); ok {
						return what, true
					}
				}
			}
			if isLoc(v.Type()) {
				return "copy", true
			}
		case *ssa.Phi:
			for _, e := range v.Edges {
				if _, ok := okVal(e, depth+1, seen); !ok {
					return "phi", false
				}
			}
			return "phi", true
		case *ssa.Parameter:
			fn := v.Parent()
			idx := -1
			for i, p := range fn.Params {
				if p == v {
					idx = i
				}
			}
			cs := callers[fn]
			if idx < 0 || len(cs) == 0 || fn.Object() == nil || fn.Object().Exported() {
				return "param", false
			}
			for _, cc := range cs {
				if idx >= len(cc.Args) {
					return "param", false
				}
				if _, ok := okVal(cc.Args[idx], depth+1, seen); !ok {
					return "param", false
				}
			}
			return fmt.Sprintf("param(%d call sites)", len(cs)), true
		}
		return "?", false
	}
	n := 0
	for _, f := range all {
		for _, b := range f.Blocks {
			for _, in := range b.Instrs {
				st, ok := in.(*ssa.Store)
				if !ok {
					continue
				}
				fa, ok := st.Addr.(*ssa.FieldAddr)
				if !ok || addrLast(fa) != "Location" || !isLoc(st.Val.Type()) {
					continue
				}
				n++
				fn := shortFn(f)
				what, ok := okVal(st.Val, 0, map[ssa.Value]bool{})
				switch {
				case ok && what == "copy":
					a.ok("LX-enum", fn+"/Location=copy", "Location copied from another call", st.Pos())
				case ok && strings.HasPrefix(what, "param"):
					// one instance per call site so that extracting the assignments into a helper keeps the count
					for i := range callers[f] {
						a.ok("LX-enum", fmt.Sprintf("%s/Location=param#%d", fn, i), "Location comes from a parameter that every call site binds to a named constant below lastLocation", st.Pos())
					}
				case ok:
					a.ok("LX-enum", fn+"/Location="+what, "Location is assigned a named constant below lastLocation", st.Pos())
				default:
					a.bad("LX-enum", fn+"/Location=?", "Location is assigned a value that is not a known constant below lastLocation: the count arrays of Stack.less would be indexed out of range", st.Pos())
				}
			}
		}
	}
	c.stat("LX", "location_stores", n)
}

// tableField: base is a local array (or a slice of one) filled only by the
// stores of a composite literal; every value stored into the given field of
// its elements satisfies ok.
func tableField(base ssa.Value, field int, ok func(ssa.Value) bool) (string, bool) {
	if sl, isS := base.(*ssa.Slice); isS {
		base = sl.X
	}
	al, isA := base.(*ssa.Alloc)
	if !isA {
		return "", false
	}
	n := 0
	for _, r := range *al.Referrers() {
		switch r := r.(type) {
		case *ssa.IndexAddr:
			for _, r2 := range *r.Referrers() {
				switch r2 := r2.(type) {
				case *ssa.FieldAddr:
					for _, r3 := range *r2.Referrers() {
						if st, isSt := r3.(*ssa.Store); isSt && st.Addr == ssa.Value(r2) && r2.Field == field {
							if !ok(st.Val) {
								return "", false
							}
							n++
						}
					}
				case *ssa.Store:
					if r2.Addr == ssa.Value(r) {
						return "", false // whole-element store: not followed
					}
				}
			}
		case *ssa.Slice, *ssa.DebugRef:
		default:
			if _, isLoad := r.(*ssa.UnOp); !isLoad {
				return "", false
			}
		}
	}
	if n == 0 {
		return "", false
	}
	return fmt.Sprintf("table(%d entries)", n), true
}

func enclosingFuncName(f *ast.File, pos token.Pos) string {
	for _, d := range f.Decls {
		if fd, ok := d.(*ast.FuncDecl); ok && fd.Pos() <= pos && pos <= fd.End() {
			r := ""
			if fd.Recv != nil && len(fd.Recv.List) == 1 {
				t := fd.Recv.List[0].Type
				if st, ok := t.(*ast.StarExpr); ok {
					t = st.X
				}
				if id, ok := t.(*ast.Ident); ok {
					r = id.Name + "."
				}
			}
			return r + fd.Name.Name
		}
	}
	return "?"
}
