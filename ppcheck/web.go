package main

// WEB — rules on webstack.SnapshotHandler and webstack.snapshot (C20).

import (
	"fmt"
	"go/token"
	"go/types"
	"regexp"
	"strconv"
	"strings"

	"golang.org/x/tools/go/ssa"
)

func init() {
	register(&Engine{Name: "WEB", Doc: "HTTP handler rules", Run: runWEB})
}

const webPkg = modPath + "/stack/webstack"

func runWEB(c *Ctx) (obls []Obl) {
	a := newAgg(c, &obls)
	defer a.flush()
	fn := c.MustFunc(&obls, "WEB-status", "stack/webstack", "", "SnapshotHandler")
	if fn != nil {
		webHandler(c, a, fn)
	}
	sn := c.MustFunc(&obls, "WEB-grow", "stack/webstack", "", "snapshot")
	if sn != nil {
		webSnapshot(c, a, sn)
	}
	webLocks(c, a)
	if fn != nil {
		webDoc(c, a, fn, sn)
	}
	return
}

func webHandler(c *Ctx, a *flAgg, fn *ssa.Function) {
	exprHome = fn.Pkg.Pkg
	x := &SPE{Fn: fn, MaxVisits: 2}
	x.Explore()
	c.stat("WEB", "handler_paths", len(x.Paths))
	if len(fn.Params) != 2 {
		a.und("WEB-status", "SnapshotHandler/signature", "unexpected signature", fn.Pos())
		return
	}
	w, req := fn.Params[0].Name(), fn.Params[1].Name()
	isErr := isCallTo("net/http", "Error")
	for _, p := range x.Paths {
		pos := pathPos(p, fn)
		if p.Term != "return" {
			a.bad("WEB-status", "SnapshotHandler/terminates", "a path of the handler does not return normally ("+p.Term+")", pos)
			continue
		}
		errs := callEvents(p, isErr)
		// order of events
		var kinds []string
		for _, ev := range p.Events {
			if ev.Kind != EvCall {
				continue
			}
			v := ev.Val
			name := ""
			if v.Op == OpCall && v.Fn != nil {
				name = v.Fn.Name()
			} else if v.Op == OpInvoke {
				name = v.Name
			}
			switch {
			case isErr(v):
				kinds = append(kinds, "error")
			case name == "FormValue":
				kinds = append(kinds, "form")
			case name == "snapshot":
				kinds = append(kinds, "snapshot")
			case name == "ToHTML":
				kinds = append(kinds, "page")
			case name == "Header" || name == "Set":
				kinds = append(kinds, "header")
			case name == "DefaultOpts":
				kinds = append(kinds, "opts")
			}
		}
		seq := strings.Join(kinds, ",")
		// method test first
		get, haveM := false, false
		for _, lt := range p.Lits {
			s := lt.Atom.String()
			if strings.HasPrefix(s, "("+req+".Method == ") {
				get, haveM = lt.Pol && strings.Contains(s, `"GET"`), true
			}
		}
		if !haveM {
			a.bad("WEB-method", "SnapshotHandler/method", "the request method is not tested on this path", pos)
			continue
		}
		if !get {
			if len(errs) == 1 && statusOf(errs[0].Val) == 405 && seq == "error" {
				a.ok("WEB-method", "SnapshotHandler/method", "a non-GET request gets 405 and nothing else happens", pos)
			} else {
				a.bad("WEB-method", "SnapshotHandler/method", "a non-GET request is not answered by exactly one 405 error before anything else ("+seq+")", pos)
			}
			continue
		}
		switch len(errs) {
		case 0:
			// success path: header, then the page, after a successful snapshot; nothing after an error
			if strings.HasSuffix(seq, "page") && strings.Contains(seq, "snapshot") && !strings.Contains(seq, "error") {
				a.ok("WEB-status", "SnapshotHandler/success", "the page is written only on the path without any error reply", pos)
				// ... and declared as HTML before the first byte is written
				ctype := false
				for _, ev := range p.Events {
					if ev.Kind == EvCall && strings.Contains(ev.Val.String(), `"Content-Type"`) && strings.Contains(ev.Val.String(), "text/html") {
						ctype = true
					}
					if ev.Kind == EvCall && ev.Val.Op == OpCall && ev.Val.Fn != nil && ev.Val.Fn.Name() == "ToHTML" && !ctype {
						a.bad("WEB-status", "SnapshotHandler/content-type", "the page is written without the Content-Type text/html having been set: the client is left to sniff what it received", ev.Pos)
					} else if ev.Kind == EvCall && ev.Val.Op == OpCall && ev.Val.Fn != nil && ev.Val.Fn.Name() == "ToHTML" {
						a.ok("WEB-status", "SnapshotHandler/content-type", "the page is declared text/html before it is written", ev.Pos)
					}
				}
			} else {
				a.bad("WEB-status", "SnapshotHandler/success", "a GET path without error reply does not end by writing the page ("+seq+")", pos)
			}
			// page = c.Aggregate(level).ToHTML(w, "")
			for _, ev := range p.Events {
				if ev.Kind == EvCall && ev.Val.Op == OpCall && ev.Val.Fn != nil && ev.Val.Fn.Name() == "ToHTML" {
					if !strings.Contains(ev.Val.String(), ".Aggregate(") || ev.Val.Args[len(ev.Val.Args)-2].String() != w {
						a.bad("WEB-status", "SnapshotHandler/page", "the page is not the aggregated snapshot written to the response: "+ev.Val.String(), ev.Pos)
					}
				}
			}
		case 1:
			st := statusOf(errs[0].Val)
			last := kinds[len(kinds)-1]
			after := seq[strings.LastIndex(seq, "error"):]
			switch {
			case last != "error" || after != "error":
				a.bad("WEB-status", "SnapshotHandler/error-then-return", "something follows an error reply on the same path ("+seq+")", pos)
			case strings.Contains(seq, "snapshot,error") && strings.HasSuffix(seq, "snapshot,error") && errIsSnapshot(p):
				if st == 500 {
					a.ok("WEB-status", "SnapshotHandler/snapshot-failure", "a failed snapshot is answered with 500", pos)
				} else {
					a.bad("WEB-status", "SnapshotHandler/snapshot-failure", fmt.Sprintf("a failed snapshot is answered with %d", st), pos)
				}
			case st >= 400 && st < 500:
				a.ok("WEB-status", "SnapshotHandler/bad-parameter", "an invalid parameter is answered with a 4xx status and nothing else", pos)
			default:
				a.bad("WEB-status", "SnapshotHandler/bad-parameter", fmt.Sprintf("an invalid parameter is answered with status %d (not 4xx)", st), pos)
			}
		default:
			a.bad("WEB-status", "SnapshotHandler/one-error", fmt.Sprintf("%d error replies on one path", len(errs)), pos)
		}
	}
	// parameter validation: each FormValue result is validated before use
	webValidation(c, a, fn, x)
	// options are per request
	okOpts := false
	for _, b := range fn.Blocks {
		for _, in := range b.Instrs {
			if call, ok := in.(*ssa.Call); ok {
				if cal := call.Call.StaticCallee(); cal != nil && cal.Name() == "snapshot" && len(call.Call.Args) == 2 {
					if oc, ok := call.Call.Args[1].(*ssa.Call); ok {
						if oc2 := oc.Call.StaticCallee(); oc2 != nil && oc2.Name() == "DefaultOpts" && oc.Parent() == fn {
							okOpts = true
						}
					}
				}
			}
		}
	}
	if okOpts {
		a.ok("WEB-opts", "SnapshotHandler/opts-per-request", "the options are created by DefaultOpts() in each request, so changing them for one request cannot affect another", fn.Pos())
	} else {
		a.bad("WEB-opts", "SnapshotHandler/opts-per-request", "the options passed to snapshot are not a value created by DefaultOpts() within the request: a request's augment=0 could leak into other requests and concurrent requests would race", fn.Pos())
	}
}

func errIsSnapshot(p *Path) bool {
	for _, lt := range p.Lits {
		s := lt.Atom.String()
		if strings.Contains(s, "snapshot(") && strings.HasSuffix(s, "#1 == nil)") && !lt.Pol {
			return true
		}
	}
	return false
}

func statusOf(call *Expr) int64 {
	if len(call.Args) == 4 {
		if v, ok := call.Args[3].intConst(); ok {
			return v
		}
	}
	return -1
}

// webValidation: maxmem must parse; augment must parse and be 0 or 1;
// similarity must be one of the four names or empty.
func webValidation(c *Ctx, a *flAgg, fn *ssa.Function, x *SPE) {
	isPage := func(e *Expr) bool { return e.Op == OpCall && e.Fn != nil && e.Fn.Name() == "ToHTML" }
	type res struct{ seen, bad bool }
	r := map[string]*res{"maxmem": {}, "augment": {}, "similarity": {}}
	levelBad, levelSeen := "", 0
	for _, p := range x.Paths {
		if len(callEvents(p, isPage)) == 0 {
			continue
		}
		// a page is produced: every provided parameter must have been validated on this path
		for _, name := range []string{"maxmem", "augment"} {
			provided := false
			parsed := false
			nonNeg, atMostOne := false, false
			// the literals are matched on their structure: the subject must be the
			// form value itself, or a component of strconv.Atoi applied to it
			isForm := func(e *Expr) bool {
				if e == nil || !(e.Op == OpCall || e.Op == OpInvoke) || !strings.HasSuffix(e.String(), `"`+name+`")`) {
					return false
				}
				return strings.Contains(e.String(), "FormValue(")
			}
			atoiPart := func(e *Expr, id int) bool {
				return e != nil && e.Op == OpExtract && e.ID == id && len(e.Args) == 1 && e.Args[0].calleeIs("strconv", "Atoi") && len(e.Args[0].Args) == 2 && isForm(e.Args[0].Args[1])
			}
			for _, lt := range p.Lits {
				at := lt.Atom
				if at.Op != OpBin || len(at.Args) != 2 {
					continue
				}
				l, r := at.Args[0], at.Args[1]
				switch {
				case at.Tok == token.EQL && isForm(l):
					if sv, ok := constStr(r); ok && sv == "" {
						provided = !lt.Pol
					}
				case at.Tok == token.EQL && atoiPart(l, 1) && r.isNilConst():
					parsed = lt.Pol
				case at.Tok == token.LSS && atoiPart(l, 0):
					if z, ok := r.intConst(); ok && z == 0 {
						nonNeg = !lt.Pol
					}
				case at.Tok == token.LSS && atoiPart(r, 0):
					if z, ok := l.intConst(); ok && z == 1 {
						atMostOne = !lt.Pol
					}
				}
			}
			if !provided {
				continue
			}
			r[name].seen = true
			if !parsed || (name == "augment" && !(nonNeg && atMostOne)) {
				r[name].bad = true
			}
		}
		pos := false
		for _, lt := range p.Lits {
			s := lt.Atom.String()
			if strings.Contains(s, `"similarity"`) {
				r["similarity"].seen = true
				if lt.Pol && lt.Atom.Op == OpBin && lt.Atom.Tok == token.EQL {
					pos = true
				}
			}
		}
		if !pos {
			r["similarity"].bad = true
		}
		// the name selects the level of that name (the documented default is anypointer)
		want := map[string]string{"exactflags": "ExactFlags", "exactlines": "ExactLines", "anypointer": "AnyPointer", "": "AnyPointer", "anyvalue": "AnyValue"}
		chosen := ""
		haveChosen := false
		for _, lt := range p.Lits {
			at := lt.Atom
			if lt.Pol && at.Op == OpBin && at.Tok == token.EQL && strings.Contains(at.Args[0].String(), `"similarity"`) {
				if sv, ok := constStr(at.Args[1]); ok {
					chosen, haveChosen = sv, true
				}
			}
		}
		if haveChosen {
			sp := c.L.pkg("stack")
			for _, ev := range p.Events {
				if ev.Kind == EvCall && ev.Val.Op == OpCall && ev.Val.Fn != nil && ev.Val.Fn.Name() == "Aggregate" && len(ev.Val.Args) == 3 {
					lv, isC := ev.Val.Args[2].intConst()
					k, _ := sp.Members[want[chosen]].(*ssa.NamedConst)
					if k == nil {
						levelBad = "unknown similarity name " + chosen
						continue
					}
					kv, _ := (&Expr{Op: OpConst, Const: k.Value.Value}).intConst()
					if !isC || lv != kv {
						levelBad = fmt.Sprintf("similarity=%q aggregates at %s instead of stack.%s", chosen, ev.Val.Args[2].String(), want[chosen])
					} else {
						levelSeen++
					}
				}
			}
		}
	}
	// augment=0 switches source analysis off for this request, augment=1 leaves it on
	augBad, augSeen := "", 0
	for _, p := range x.Paths {
		if len(callEvents(p, isPage)) == 0 {
			continue
		}
		provided, zero, haveZero := false, false, false
		for _, lt := range p.Lits {
			at := lt.Atom
			if at.Op != OpBin || len(at.Args) != 2 {
				continue
			}
			if at.Tok == token.EQL && strings.Contains(at.Args[0].String(), "FormValue(") && strings.HasSuffix(at.Args[0].String(), `"augment")`) {
				if sv, ok := constStr(at.Args[1]); ok && sv == "" {
					provided = !lt.Pol
				}
			}
			if at.Tok == token.EQL && strings.Contains(at.Args[0].String(), "strconv.Atoi(") && strings.Contains(at.Args[0].String(), `"augment"`) && strings.HasSuffix(at.Args[0].String(), "#0") {
				if z, ok := at.Args[1].intConst(); ok && z == 0 {
					zero, haveZero = lt.Pol, true
				}
			}
		}
		off := false
		for _, ev := range p.Events {
			if ev.Kind == EvStore && strings.HasSuffix(ev.Addr.String(), ".AnalyzeSources") {
				if v, isC := ev.Val.boolConst(); isC && !v {
					off = true
				} else if !isC {
					// computed value (e.g. augment == 1): accepted when it is the comparison itself
					off = zero
				}
			}
		}
		switch {
		case !provided:
			if off {
				augBad = "source analysis is switched off although no augment parameter was given"
			}
		case !haveZero:
			// the value is only range-checked on this path: nothing to compare with
		case zero != off:
			augBad = fmt.Sprintf("augment==0 is %v on a path where source analysis is switched off=%v", zero, off)
		default:
			augSeen++
		}
	}
	switch {
	case augBad != "":
		a.bad("WEB-validate", "SnapshotHandler/augment-meaning", augBad+": the parameter does not select what the documentation says", fn.Pos())
	case augSeen > 0:
		a.ok("WEB-validate", "SnapshotHandler/augment-meaning", "augment=0 switches source analysis off for the request, augment=1 leaves the default", fn.Pos())
	default:
		a.und("WEB-validate", "SnapshotHandler/augment-meaning", "no page-producing path distinguishes augment=0", fn.Pos())
	}
	switch {
	case levelBad != "":
		a.bad("WEB-validate", "SnapshotHandler/similarity-level", levelBad+": the page groups goroutines at another level than the request asked for", fn.Pos())
	case levelSeen > 0:
		a.ok("WEB-validate", "SnapshotHandler/similarity-level", "each similarity name (and the default) aggregates at the level of that name", fn.Pos())
	default:
		a.und("WEB-validate", "SnapshotHandler/similarity-level", "no page-producing path with a recognised similarity value", fn.Pos())
	}
	msg := map[string]string{
		"maxmem":     "a page is produced for a provided maxmem only if it parses as an integer",
		"augment":    "a page is produced for a provided augment only if it parses and is 0 or 1",
		"similarity": "a page is produced only for one of the listed similarity names (or the default)",
	}
	for _, name := range []string{"maxmem", "augment", "similarity"} {
		switch {
		case !r[name].seen:
			a.bad("WEB-validate", "SnapshotHandler/"+name, "the parameter "+name+" is not examined on the page-producing paths", fn.Pos())
		case r[name].bad:
			a.bad("WEB-validate", "SnapshotHandler/"+name, "an invalid value of "+name+" can reach the page-producing path instead of a 4xx reply", fn.Pos())
		default:
			a.ok("WEB-validate", "SnapshotHandler/"+name, msg[name], fn.Pos())
		}
	}
}

// webSnapshot: the capture buffer grows until the dump fits or maxmem is
// reached, never stopping below maxmem while the dump does not fit.
func webSnapshot(c *Ctx, a *flAgg, fn *ssa.Function) {
	exprHome = fn.Pkg.Pkg
	// The capture protocol is decided capture by capture, whatever the loop
	// looks like: from every call of runtime.Stack the paths are followed up
	// to the next such call or to the point where the buffer is handed to the
	// parser (bytes.NewReader / ScanSnapshot).
	isStack := func(in ssa.Instruction) bool {
		call, ok := in.(*ssa.Call)
		if !ok {
			return false
		}
		cal := call.Call.StaticCallee()
		return cal != nil && calleePkg(cal) == "runtime" && cal.Name() == "Stack"
	}
	isUse := func(in ssa.Instruction) bool {
		call, ok := in.(*ssa.Call)
		if !ok {
			return false
		}
		cal := call.Call.StaticCallee()
		if cal == nil {
			return false
		}
		return (calleePkg(cal) == "bytes" && cal.Name() == "NewReader") || (calleePkg(cal) == stackPkg && cal.Name() == "ScanSnapshot")
	}
	var captures []*ssa.Call
	for _, b := range fn.Blocks {
		for _, in := range b.Instrs {
			if isStack(in) {
				captures = append(captures, in.(*ssa.Call))
			}
		}
	}
	if len(captures) == 0 {
		a.und("WEB-grow", "snapshot/capture", "no call of runtime.Stack found", fn.Pos())
		return
	}
	intT := types.Typ[types.Int]
	lenOf := func(e *Expr) *Expr {
		if e.Op == OpMakeSlice {
			return e.Args[0]
		}
		return &Expr{Op: OpBuiltin, Name: "len", Args: []*Expr{e}, Type: intT}
	}
	// lookup of a comparison l < r among the literals of the path
	lss := func(p *Path, l, r *Expr) (val, known bool) {
		cond := foldBin(token.LSS, l, r, types.Typ[types.Bool], token.NoPos)
		if v, ok := cond.boolConst(); ok {
			return v, true
		}
		at, pol := normAtom(cond)
		if v, ok := p.lit(at.String()); ok {
			return v == pol, true
		}
		return false, false
	}
	nPaths := 0
	for _, cap := range captures {
		seg := &SPE{Fn: fn, StartAt: cap, MaxVisits: 2}
		seg.StopAt = func(in ssa.Instruction) bool { return isStack(in) || isUse(in) }
		seg.Explore()
		for _, p := range seg.Paths {
			pos := pathPos(p, fn)
			if p.Term != "stopat" {
				a.bad("WEB-grow", "snapshot/use", "after a capture the function can end ("+p.Term+") without handing the dump to the parser", pos)
				continue
			}
			nPaths++
			stacks := callEvents(p, isCallTo("runtime", "Stack"))
			if len(stacks) != 1 || len(stacks[0].Val.Args) < 2 {
				a.bad("WEB-grow", "snapshot/one-capture", fmt.Sprintf("%d captures in one round", len(stacks)), pos)
				continue
			}
			n := stacks[0].Val
			buf := n.Args[1]
			if len(n.Args) >= 3 {
				if all, isC := n.Args[2].boolConst(); isC && all {
					a.ok("WEB-grow", "snapshot/all-goroutines", "the capture asks the runtime for the stacks of all goroutines", pos)
				} else {
					a.bad("WEB-grow", "snapshot/all-goroutines", "runtime.Stack is not called with all=true: the page shows the handler's own goroutine only", pos)
				}
			}
			fits, haveFits := lss(p, n, lenOf(buf))
			// the limit: the right-hand side of a comparison len(buf) < M on this path
			var maxmem *Expr
			atMax, haveMax := false, false
			lb := lenOf(buf).String()
			for _, lt := range p.Lits {
				at := lt.Atom
				if at.Op == OpBin && at.Tok == token.LSS && at.Args[0].String() == lb && at.Args[1].String() != n.String() {
					maxmem = at.Args[1]
					atMax, haveMax = !lt.Pol, true
				}
			}
			var next *Expr // the buffer of the next capture / handed to the parser
			if call, ok := p.StopInstr.(*ssa.Call); ok {
				// Results: operands of the call in order (callee value first for a static call)
				nOps := len(p.Results)
				nArgs := len(call.Call.Args)
				if nOps >= nArgs && nArgs > 0 {
					next = p.Results[nOps-nArgs]
				}
			}
			again := isStack(p.StopInstr)
			switch {
			case !haveFits:
				a.bad("WEB-grow", "snapshot/fit-test", "the result of runtime.Stack is not compared with the buffer size before the buffer is used or replaced", pos)
			case fits:
				if again {
					a.bad("WEB-grow", "snapshot/stop-when-fits", "another capture is made although the dump fitted", pos)
				} else if next != nil && next.Op == OpSlice && next.Args[0].String() == buf.String() && next.Args[1] == nil && next.Args[2] != nil && next.Args[2].String() == n.String() {
					a.ok("WEB-grow", "snapshot/stop-when-fits", "when the dump fits, exactly the bytes written are handed to the parser", pos)
				} else {
					ns := "?"
					if next != nil {
						ns = next.String()
					}
					a.bad("WEB-grow", "snapshot/stop-when-fits", "when the dump fits the parser must be given buf[:n]; it is given "+ns, pos)
				}
			case haveMax && atMax:
				if again {
					a.bad("WEB-grow", "snapshot/stop-at-maxmem", "another capture is made beyond maxmem", pos)
				} else if next != nil && next.String() == buf.String() {
					a.ok("WEB-grow", "snapshot/stop-at-maxmem", "a truncated dump is used only when the buffer has reached maxmem", pos)
				} else {
					a.bad("WEB-grow", "snapshot/stop-at-maxmem", "at maxmem the whole (truncated) buffer must be handed to the parser", pos)
				}
			default:
				// the dump does not fit and the buffer is below maxmem (or maxmem was not looked at)
				if !again || next == nil {
					a.bad("WEB-grow", "snapshot/grow", "the capture gives up although the dump does not fit and the buffer is still smaller than maxmem ("+litsString(p)+"): goroutines are missing from the page (or the parse fails) for valid maxmem values", pos)
					continue
				}
				if !haveMax {
					a.bad("WEB-grow", "snapshot/grow", "the buffer is grown without comparing its size with maxmem", pos)
					continue
				}
				size := ""
				if next.Op == OpMakeSlice {
					size = next.Args[0].String()
				}
				dbl := foldBin(token.MUL, lenOf(buf), mkConstInt(2, intT), intT, token.NoPos)
				over, haveOver := lss(p, maxmem, dbl)
				okSize := false
				switch {
				case haveOver && over && size == maxmem.String():
					okSize = true
				case haveOver && !over && size == dbl.String():
					okSize = true
				}
				if okSize {
					a.ok("WEB-grow", "snapshot/grow", "the buffer is doubled, clamped to maxmem: it strictly grows until maxmem is reached", pos)
				} else {
					a.bad("WEB-grow", "snapshot/grow", "the next buffer size is "+size+", expected min(2*len(buf), maxmem)", pos)
				}
			}
		}
	}
	c.stat("WEB", "capture_sites", len(captures))
	c.stat("WEB", "capture_round_paths", nPaths)
}

// ---------------------------------------------------------------------------
// WEB-lock: lock pairing in the library and the handler.
//
// The pinned tree takes no lock anywhere in stack, stack/webstack and
// internal: a request never waits for another one. If a lock is introduced,
// every acquisition must be released on every path to an exit of the
// function (directly or by a deferred call registered on every such path),
// and two locks must not be taken in opposite orders; a request that returns
// with the lock held blocks every later request for ever. Decided by a
// forward may-held / must-deferred dataflow over the SSA blocks of every
// function of those packages. cmd/panicweb's throttling handler, the one
// place of the repository that does take a mutex, is analysed as a control
// (recorded in the statistics).

type lkState struct {
	held     map[string]token.Pos // may be held
	deferred map[string]bool      // must be released by a registered defer
}

func (s *lkState) clone() *lkState {
	n := &lkState{held: map[string]token.Pos{}, deferred: map[string]bool{}}
	for k, v := range s.held {
		n.held[k] = v
	}
	for k := range s.deferred {
		n.deferred[k] = true
	}
	return n
}

// join: union of held, intersection of deferred; reports change.
func (s *lkState) join(o *lkState) bool {
	ch := false
	for k, v := range o.held {
		if _, ok := s.held[k]; !ok {
			s.held[k] = v
			ch = true
		}
	}
	for k := range s.deferred {
		if !o.deferred[k] {
			delete(s.deferred, k)
			ch = true
		}
	}
	return ch
}

func lkKey(v ssa.Value) string {
	switch v := v.(type) {
	case *ssa.Global:
		return v.Pkg.Pkg.Name() + "." + v.Name()
	case *ssa.Alloc:
		if v.Comment != "" {
			return v.Comment
		}
		return v.Name()
	case *ssa.FreeVar:
		return v.Name()
	case *ssa.Parameter:
		return v.Name()
	case *ssa.FieldAddr:
		st := v.X.Type().Underlying().(*types.Pointer).Elem().Underlying().(*types.Struct)
		return lkKey(v.X) + "." + st.Field(v.Field).Name()
	case *ssa.UnOp:
		if v.Op == token.MUL {
			return lkKey(v.X)
		}
	case *ssa.MakeInterface:
		return lkKey(v.X)
	}
	return v.Name()
}

// lkOp classifies a call as acquire (+1) / release (-1) of a sync lock.
func lkOp(cc *ssa.CallCommon) (key string, op int) {
	cal := cc.StaticCallee()
	if cal == nil || calleePkg(cal) != "sync" || len(cc.Args) == 0 {
		return "", 0
	}
	recv := ""
	if r := cal.Signature.Recv(); r != nil {
		recv = r.Type().String()
	}
	if !strings.HasSuffix(recv, "sync.Mutex") && !strings.HasSuffix(recv, "sync.RWMutex") {
		return "", 0
	}
	k := lkKey(cc.Args[0])
	switch cal.Name() {
	case "Lock":
		return k, 1
	case "Unlock":
		return k, -1
	case "RLock":
		return k + "/r", 1
	case "RUnlock":
		return k + "/r", -1
	}
	return "", 0
}

type lkReport struct {
	sites   int
	leaks   []string
	leakPos []token.Pos
	orders  map[[2]string]token.Pos
}

func lkAnalyse(f *ssa.Function, rep *lkReport) {
	if len(f.Blocks) == 0 {
		return
	}
	has := false
	for _, b := range f.Blocks {
		for _, in := range b.Instrs {
			if ci, ok := in.(ssa.CallInstruction); ok {
				if _, op := lkOp(ci.Common()); op > 0 {
					if _, isDefer := in.(*ssa.Defer); !isDefer {
						has = true
						rep.sites++
					}
				}
			}
		}
	}
	if !has {
		return
	}
	in := map[*ssa.BasicBlock]*lkState{f.Blocks[0]: {held: map[string]token.Pos{}, deferred: map[string]bool{}}}
	work := []*ssa.BasicBlock{f.Blocks[0]}
	seenLeak := map[string]bool{}
	for len(work) > 0 {
		b := work[0]
		work = work[1:]
		st := in[b].clone()
		for _, ins := range b.Instrs {
			switch ins := ins.(type) {
			case *ssa.Defer:
				if k, op := lkOp(&ins.Call); op < 0 {
					st.deferred[k] = true
				}
			case *ssa.Call:
				k, op := lkOp(&ins.Call)
				switch {
				case op > 0:
					for h := range st.held {
						if h != k {
							if rep.orders == nil {
								rep.orders = map[[2]string]token.Pos{}
							}
							rep.orders[[2]string{h, k}] = ins.Pos()
						}
					}
					st.held[k] = ins.Pos()
				case op < 0:
					delete(st.held, k)
				}
			case *ssa.Return, *ssa.Panic:
				for k, p := range st.held {
					if st.deferred[k] {
						continue
					}
					key := fmt.Sprintf("%s@%d", k, ins.Pos())
					if !seenLeak[key] {
						seenLeak[key] = true
						rep.leaks = append(rep.leaks, k)
						rep.leakPos = append(rep.leakPos, p)
						_ = ins
					}
				}
			}
		}
		for _, s := range b.Succs {
			if old, ok := in[s]; !ok {
				in[s] = st.clone()
				work = append(work, s)
			} else if old.join(st) {
				work = append(work, s)
			}
		}
	}
}

func webLocks(c *Ctx, a *flAgg) {
	const rule = "WEB-lock"
	rep := &lkReport{}
	nf := 0
	for _, pn := range []string{"stack", "stack/webstack", "internal"} {
		for _, f := range c.L.SrcFuncs(pn) {
			nf++
			before := len(rep.leaks)
			lkAnalyse(f, rep)
			for i := before; i < len(rep.leaks); i++ {
				a.bad(rule, funcKey(f)+"/"+rep.leaks[i], "the lock "+rep.leaks[i]+" taken here is still held on a path that leaves the function (no Unlock on that path, no deferred Unlock registered on it): the next request that needs it waits for ever", rep.leakPos[i])
			}
			if before == len(rep.leaks) && rep.sites > 0 {
				// sites of this function were all paired: recorded below in bulk
				_ = f
			}
		}
	}
	for pr, pos := range rep.orders {
		if _, rev := rep.orders[[2]string{pr[1], pr[0]}]; rev && pr[0] < pr[1] {
			a.bad(rule, "order/"+pr[0]+"+"+pr[1], "the two locks are taken in both orders: two requests can wait for each other", pos)
		}
	}
	// control: the one mutex of the repository (cmd/panicweb)
	ctl := &lkReport{}
	for _, f := range c.L.SrcFuncs("cmd/panicweb") {
		lkAnalyse(f, ctl)
	}
	c.stat("WEB", "lock_functions_analysed", nf)
	c.stat("WEB", "lock_sites", rep.sites)
	c.stat("WEB", "control_lock_sites_cmd_panicweb", ctl.sites)
	c.stat("WEB", "control_lock_leaks_cmd_panicweb", len(ctl.leaks))
	if len(rep.leaks) == 0 {
		if rep.sites == 0 {
			a.ok(rule, "library+cli", fmt.Sprintf("no lock is taken in stack, stack/webstack and internal (%d functions): a request never waits for another one", nf), token.NoPos)
		} else {
			a.ok(rule, "library+cli", fmt.Sprintf("each of the %d lock acquisitions is released on every path to an exit of its function", rep.sites), token.NoPos)
		}
	}
}

// webDoc (WEB-doc): the numbers the handler's documentation promises are the
// ones the code uses — the default of maxmem (the value snapshot() receives
// when the parameter is absent) and its documented minimum (the size of the
// first capture buffer, to which a smaller maxmem is raised). A request with
// a small but valid maxmem relies on that floor: with a smaller first buffer
// the dump of a mid-sized process is truncated and the reply is a 500 or an
// incomplete page.
func webDoc(c *Ctx, a *flAgg, handler, snap *ssa.Function) {
	const rule = "WEB-doc"
	fd := c.L.FuncDecl(handler)
	if fd == nil || fd.Doc == nil {
		a.ok(rule, "SnapshotHandler/doc", "the handler has no documentation comment to agree with", handler.Pos())
		return
	}
	doc := fd.Doc.Text()
	num := func(re string) (int64, bool) {
		m := regexp.MustCompile(re).FindStringSubmatch(doc)
		if m == nil {
			return 0, false
		}
		v, err := strconv.ParseInt(m[1], 10, 64)
		return v, err == nil
	}
	docDef, haveDef := num(`maxmem:\s*\(default:\s*(\d+)\)`)
	docMin, haveMin := num(`(?i)minimum is\s+(\d+)`)
	exprHome = handler.Pkg.Pkg
	if haveDef {
		x := &SPE{Fn: handler, MaxVisits: 2}
		x.Explore()
		ok, seen := true, false
		got := ""
		for _, p := range x.Paths {
			absent := false
			for _, lt := range p.Lits {
				at := lt.Atom
				if lt.Pol && at.Op == OpBin && at.Tok == token.EQL && strings.Contains(at.Args[0].String(), "FormValue(") && strings.HasSuffix(at.Args[0].String(), `"maxmem")`) {
					if sv, isC := constStr(at.Args[1]); isC && sv == "" {
						absent = true
					}
				}
			}
			if !absent {
				continue
			}
			for _, ev := range p.Events {
				if ev.Kind == EvCall && ev.Val.Op == OpCall && ev.Val.Fn == snap && len(ev.Val.Args) >= 2 {
					seen = true
					if v, isC := ev.Val.Args[1].intConst(); !isC || v != docDef {
						ok = false
						got = ev.Val.Args[1].String()
					}
				}
			}
		}
		switch {
		case !seen:
			a.und(rule, "SnapshotHandler/default-maxmem", "no path without a maxmem parameter reaches snapshot()", handler.Pos())
		case ok:
			a.ok(rule, "SnapshotHandler/default-maxmem", fmt.Sprintf("without the parameter snapshot() is given the documented default %d", docDef), handler.Pos())
		default:
			a.bad(rule, "SnapshotHandler/default-maxmem", fmt.Sprintf("the documentation promises a default maxmem of %d, the code uses %s", docDef, got), handler.Pos())
		}
	}
	if haveMin && snap != nil {
		exprHome = snap.Pkg.Pkg
		// the limit in effect: what the buffer size is compared with inside the loop
		var limits []ssa.Value
		for _, l := range naturalLoops(snap) {
			for b := range l.Body {
				for _, in := range b.Instrs {
					bo, ok := in.(*ssa.BinOp)
					if !ok {
						continue
					}
					switch bo.Op {
					case token.LSS, token.LEQ, token.GTR, token.GEQ:
					default:
						continue
					}
					for _, pr := range [][2]ssa.Value{{bo.X, bo.Y}, {bo.Y, bo.X}} {
						if lc, ok := pr[0].(*ssa.Call); ok && bnCallee(lc) == "builtin.len" {
							if oc, ok := pr[1].(*ssa.Call); ok && bnCallee(oc) == "runtime.Stack" {
								continue
							}
							if _, isC := pr[1].(*ssa.Const); !isC {
								limits = append(limits, pr[1])
							}
						}
					}
				}
			}
		}
		x := &SPE{Fn: snap, MaxVisits: 1, Watch: limits}
		x.StopAt = func(in ssa.Instruction) bool {
			call, ok := in.(*ssa.Call)
			if !ok {
				return false
			}
			cal := call.Call.StaticCallee()
			return cal != nil && calleePkg(cal) == "runtime" && cal.Name() == "Stack"
		}
		x.Explore()
		first, clamp := int64(-1), false
		kept, wrong := false, false
		for _, p := range x.Paths {
			if p.Term != "stopat" || len(p.Results) < 2 {
				continue
			}
			buf := p.Results[len(p.Results)-2]
			if buf.Op == OpMakeSlice {
				if k, isC := buf.Args[0].intConst(); isC {
					first = k
				}
			}
			// make([]byte, K) with a constant K is an array allocation sliced to K
			if buf.Op == OpSlice && len(buf.Args) == 4 && buf.Args[1] == nil && buf.Args[2] != nil && isArrayPtr(buf.Args[0]) {
				if k, isC := buf.Args[2].intConst(); isC {
					first = k
				}
			}
			for _, lt := range p.Lits {
				at := lt.Atom
				if at.Op == OpBin && at.Tok == token.LSS && at.Args[0].Op == OpParam {
					if k, isC := at.Args[1].intConst(); isC && k == first {
						// below the floor: raised to it; otherwise: left alone
						var cur *Expr
						for _, wv := range limits {
							if e := p.Watched[wv]; e != nil {
								cur = e
							}
						}
						if cur == nil {
							cur = p.StopPhis[at.Args[0].Name]
						}
						if cur == nil {
							continue
						}
						cv, curConst := cur.intConst()
						if lt.Pol && curConst && cv == first {
							clamp = true
						} else if !lt.Pol && cur.Op == OpParam && cur.Name == at.Args[0].Name {
							kept = true
						} else {
							wrong = true
						}
					}
				}
			}
		}
		switch {
		case first < 0:
			a.und(rule, "snapshot/minimum-maxmem", "the size of the first capture buffer is not a constant", snap.Pos())
		case first == docMin && clamp && kept && !wrong:
			a.ok(rule, "snapshot/minimum-maxmem", fmt.Sprintf("a maxmem below the documented minimum %d is raised to it (the size of the first capture buffer)", docMin), snap.Pos())
		default:
			a.bad(rule, "snapshot/minimum-maxmem", fmt.Sprintf("the documentation promises a minimum maxmem of %d; the first capture buffer is %d bytes (raised to it: %v): a small valid maxmem gives a truncated dump of any process whose dump exceeds that", docMin, first, clamp), snap.Pos())
		}
	}
	if !haveDef && !haveMin {
		a.ok(rule, "SnapshotHandler/doc", "the documentation states no default or minimum for maxmem", handler.Pos())
	}
}
