package main

// WEB — rules on webstack.SnapshotHandler and webstack.snapshot (C20).

import (
	"fmt"
	"go/token"
	"strings"

	"golang.org/x/tools/go/ssa"
)

func init() {
	register(&Engine{Name: "WEB", Doc: "HTTP handler rules", Run: runWEB})
}

const webPkg = modPath + "/stack/webstack"

func runWEB(c *Ctx) (obls []Obl) {
	a := newAgg(c, &obls)
	defer a.flush()
	fn := c.MustFunc(&obls, "WEB-status", "stack/webstack", "", "SnapshotHandler")
	if fn != nil {
		webHandler(c, a, fn)
	}
	sn := c.MustFunc(&obls, "WEB-grow", "stack/webstack", "", "snapshot")
	if sn != nil {
		webSnapshot(c, a, sn)
	}
	return
}

func webHandler(c *Ctx, a *flAgg, fn *ssa.Function) {
	exprHome = fn.Pkg.Pkg
	x := &SPE{Fn: fn, MaxVisits: 2}
	x.Explore()
	c.stat("WEB", "handler_paths", len(x.Paths))
	if len(fn.Params) != 2 {
		a.und("WEB-status", "SnapshotHandler/signature", "unexpected signature", fn.Pos())
		return
	}
	w, req := fn.Params[0].Name(), fn.Params[1].Name()
	isErr := isCallTo("net/http", "Error")
	for _, p := range x.Paths {
		pos := pathPos(p, fn)
		if p.Term != "return" {
			a.bad("WEB-status", "SnapshotHandler/terminates", "a path of the handler does not return normally ("+p.Term+")", pos)
			continue
		}
		errs := callEvents(p, isErr)
		// order of events
		var kinds []string
		for _, ev := range p.Events {
			if ev.Kind != EvCall {
				continue
			}
			v := ev.Val
			name := ""
			if v.Op == OpCall && v.Fn != nil {
				name = v.Fn.Name()
			} else if v.Op == OpInvoke {
				name = v.Name
			}
			switch {
			case isErr(v):
				kinds = append(kinds, "error")
			case name == "FormValue":
				kinds = append(kinds, "form")
			case name == "snapshot":
				kinds = append(kinds, "snapshot")
			case name == "ToHTML":
				kinds = append(kinds, "page")
			case name == "Header" || name == "Set":
				kinds = append(kinds, "header")
			case name == "DefaultOpts":
				kinds = append(kinds, "opts")
			}
		}
		seq := strings.Join(kinds, ",")
		// method test first
		get, haveM := false, false
		for _, lt := range p.Lits {
			s := lt.Atom.String()
			if strings.HasPrefix(s, "("+req+".Method == ") {
				get, haveM = lt.Pol && strings.Contains(s, `"GET"`), true
			}
		}
		if !haveM {
			a.bad("WEB-method", "SnapshotHandler/method", "the request method is not tested on this path", pos)
			continue
		}
		if !get {
			if len(errs) == 1 && statusOf(errs[0].Val) == 405 && seq == "error" {
				a.ok("WEB-method", "SnapshotHandler/method", "a non-GET request gets 405 and nothing else happens", pos)
			} else {
				a.bad("WEB-method", "SnapshotHandler/method", "a non-GET request is not answered by exactly one 405 error before anything else ("+seq+")", pos)
			}
			continue
		}
		switch len(errs) {
		case 0:
			// success path: header, then the page, after a successful snapshot; nothing after an error
			if strings.HasSuffix(seq, "page") && strings.Contains(seq, "snapshot") && !strings.Contains(seq, "error") {
				a.ok("WEB-status", "SnapshotHandler/success", "the page is written only on the path without any error reply", pos)
			} else {
				a.bad("WEB-status", "SnapshotHandler/success", "a GET path without error reply does not end by writing the page ("+seq+")", pos)
			}
			// page = c.Aggregate(level).ToHTML(w, "")
			for _, ev := range p.Events {
				if ev.Kind == EvCall && ev.Val.Op == OpCall && ev.Val.Fn != nil && ev.Val.Fn.Name() == "ToHTML" {
					if !strings.Contains(ev.Val.String(), ".Aggregate(") || ev.Val.Args[len(ev.Val.Args)-2].String() != w {
						a.bad("WEB-status", "SnapshotHandler/page", "the page is not the aggregated snapshot written to the response: "+ev.Val.String(), ev.Pos)
					}
				}
			}
		case 1:
			st := statusOf(errs[0].Val)
			last := kinds[len(kinds)-1]
			after := seq[strings.LastIndex(seq, "error"):]
			switch {
			case last != "error" || after != "error":
				a.bad("WEB-status", "SnapshotHandler/error-then-return", "something follows an error reply on the same path ("+seq+")", pos)
			case strings.Contains(seq, "snapshot,error") && strings.HasSuffix(seq, "snapshot,error") && errIsSnapshot(p):
				if st == 500 {
					a.ok("WEB-status", "SnapshotHandler/snapshot-failure", "a failed snapshot is answered with 500", pos)
				} else {
					a.bad("WEB-status", "SnapshotHandler/snapshot-failure", fmt.Sprintf("a failed snapshot is answered with %d", st), pos)
				}
			case st >= 400 && st < 500:
				a.ok("WEB-status", "SnapshotHandler/bad-parameter", "an invalid parameter is answered with a 4xx status and nothing else", pos)
			default:
				a.bad("WEB-status", "SnapshotHandler/bad-parameter", fmt.Sprintf("an invalid parameter is answered with status %d (not 4xx)", st), pos)
			}
		default:
			a.bad("WEB-status", "SnapshotHandler/one-error", fmt.Sprintf("%d error replies on one path", len(errs)), pos)
		}
	}
	// parameter validation: each FormValue result is validated before use
	webValidation(c, a, fn, x)
	// options are per request
	okOpts := false
	for _, b := range fn.Blocks {
		for _, in := range b.Instrs {
			if call, ok := in.(*ssa.Call); ok {
				if cal := call.Call.StaticCallee(); cal != nil && cal.Name() == "snapshot" && len(call.Call.Args) == 2 {
					if oc, ok := call.Call.Args[1].(*ssa.Call); ok {
						if oc2 := oc.Call.StaticCallee(); oc2 != nil && oc2.Name() == "DefaultOpts" && oc.Parent() == fn {
							okOpts = true
						}
					}
				}
			}
		}
	}
	if okOpts {
		a.ok("WEB-opts", "SnapshotHandler/opts-per-request", "the options are created by DefaultOpts() in each request, so changing them for one request cannot affect another", fn.Pos())
	} else {
		a.bad("WEB-opts", "SnapshotHandler/opts-per-request", "the options passed to snapshot are not a value created by DefaultOpts() within the request: a request's augment=0 could leak into other requests and concurrent requests would race", fn.Pos())
	}
}

func errIsSnapshot(p *Path) bool {
	for _, lt := range p.Lits {
		s := lt.Atom.String()
		if strings.Contains(s, "snapshot(") && strings.HasSuffix(s, "#1 == nil)") && !lt.Pol {
			return true
		}
	}
	return false
}

func statusOf(call *Expr) int64 {
	if len(call.Args) == 4 {
		if v, ok := call.Args[3].intConst(); ok {
			return v
		}
	}
	return -1
}

// webValidation: maxmem must parse; augment must parse and be 0 or 1;
// similarity must be one of the four names or empty.
func webValidation(c *Ctx, a *flAgg, fn *ssa.Function, x *SPE) {
	isPage := func(e *Expr) bool { return e.Op == OpCall && e.Fn != nil && e.Fn.Name() == "ToHTML" }
	type res struct{ seen, bad bool }
	r := map[string]*res{"maxmem": {}, "augment": {}, "similarity": {}}
	for _, p := range x.Paths {
		if len(callEvents(p, isPage)) == 0 {
			continue
		}
		// a page is produced: every provided parameter must have been validated on this path
		for _, name := range []string{"maxmem", "augment"} {
			provided := false
			parsed := false
			nonNeg, atMostOne := false, false
			for _, lt := range p.Lits {
				s := lt.Atom.String()
				if !strings.Contains(s, `"`+name+`"`) {
					continue
				}
				switch {
				case strings.HasSuffix(s, `") == "")`) && !strings.Contains(s, "Atoi"):
					provided = !lt.Pol
				case strings.Contains(s, "strconv.Atoi(") && strings.HasSuffix(s, "#1 == nil)"):
					parsed = lt.Pol
				case strings.Contains(s, "strconv.Atoi(") && strings.HasSuffix(s, "#0 < 0)"):
					nonNeg = !lt.Pol
				case strings.Contains(s, "strconv.Atoi(") && strings.HasPrefix(s, "(1 < "):
					atMostOne = !lt.Pol
				}
			}
			if !provided {
				continue
			}
			r[name].seen = true
			if !parsed || (name == "augment" && !(nonNeg && atMostOne)) {
				r[name].bad = true
			}
		}
		pos := false
		for _, lt := range p.Lits {
			s := lt.Atom.String()
			if strings.Contains(s, `"similarity"`) {
				r["similarity"].seen = true
				if lt.Pol && lt.Atom.Op == OpBin && lt.Atom.Tok == token.EQL {
					pos = true
				}
			}
		}
		if !pos {
			r["similarity"].bad = true
		}
	}
	msg := map[string]string{
		"maxmem":     "a page is produced for a provided maxmem only if it parses as an integer",
		"augment":    "a page is produced for a provided augment only if it parses and is 0 or 1",
		"similarity": "a page is produced only for one of the listed similarity names (or the default)",
	}
	for _, name := range []string{"maxmem", "augment", "similarity"} {
		switch {
		case !r[name].seen:
			a.bad("WEB-validate", "SnapshotHandler/"+name, "the parameter "+name+" is not examined on the page-producing paths", fn.Pos())
		case r[name].bad:
			a.bad("WEB-validate", "SnapshotHandler/"+name, "an invalid value of "+name+" can reach the page-producing path instead of a 4xx reply", fn.Pos())
		default:
			a.ok("WEB-validate", "SnapshotHandler/"+name, msg[name], fn.Pos())
		}
	}
}

// webSnapshot: the capture buffer grows until the dump fits or maxmem is
// reached, never stopping below maxmem while the dump does not fit.
func webSnapshot(c *Ctx, a *flAgg, fn *ssa.Function) {
	exprHome = fn.Pkg.Pkg
	loops := outermostLoops(naturalLoops(fn))
	if len(loops) != 1 {
		a.und("WEB-grow", "snapshot/loop", fmt.Sprintf("expected one capture loop, found %d", len(loops)), fn.Pos())
		return
	}
	l := loops[0]
	seg := &SPE{Fn: fn, Start: l.Header, MaxVisits: 2}
	seg.Stop = func(from, to *ssa.BasicBlock) bool { return (to == l.Header && l.Body[from]) || (l.Body[from] && !l.Body[to]) }
	seg.Explore()
	maxmem := "?phi:maxmem"
	if len(fn.Params) > 0 {
		_ = fn.Params[0]
	}
	for _, p := range seg.Paths {
		pos := pathPos(p, fn)
		stacks := callEvents(p, isCallTo("runtime", "Stack"))
		if len(stacks) != 1 {
			a.bad("WEB-grow", "snapshot/one-capture", fmt.Sprintf("%d captures in one iteration", len(stacks)), pos)
			continue
		}
		n := stacks[0].Val.String()
		fits, haveFits := false, false
		atMax, haveMax := false, false
		over, haveOver := false, false
		for _, lt := range p.Lits {
			s := lt.Atom.String()
			at := lt.Atom
			switch {
			case strings.HasPrefix(s, "("+n+" < len("):
				fits, haveFits = lt.Pol, true
			case at.Op == OpBin && at.Tok == token.LSS && at.Args[0].String() == "len(?phi:buf)":
				// len(buf) < maxmem: false => the buffer has reached maxmem
				atMax, haveMax = !lt.Pol, true
				maxmem = at.Args[1].String()
			case at.Op == OpBin && at.Tok == token.LSS && at.Args[1].String() == "(len(?phi:buf) * 2)":
				// maxmem < 2*len(buf)
				over, haveOver = lt.Pol, true
			}
		}
		continues := p.Term == "stop" && p.End == l.Header
		switch {
		case !haveFits:
			a.bad("WEB-grow", "snapshot/fit-test", "the result of runtime.Stack is not compared with the buffer size", pos)
		case fits:
			if continues {
				a.bad("WEB-grow", "snapshot/stop-when-fits", "the loop continues although the dump fitted", pos)
			} else {
				a.ok("WEB-grow", "snapshot/stop-when-fits", "the loop ends when the dump fits", pos)
			}
		case haveMax && atMax:
			if continues {
				a.bad("WEB-grow", "snapshot/stop-at-maxmem", "the loop continues beyond maxmem", pos)
			} else {
				a.ok("WEB-grow", "snapshot/stop-at-maxmem", "the loop ends with a truncated dump only when the buffer has reached maxmem", pos)
			}
		default:
			// dump does not fit and buffer below maxmem: must continue with a strictly larger buffer, at most maxmem
			nb := p.StopPhis["buf"]
			if !continues || nb == nil {
				a.bad("WEB-grow", "snapshot/grow", "the capture gives up although the dump does not fit and the buffer is still smaller than maxmem ("+litsString(p)+"): goroutines are missing from the page (or the parse fails) for valid maxmem values", pos)
				continue
			}
			size := ""
			if nb.Op == OpMakeSlice {
				size = nb.Args[0].String()
			}
			want := "(len(?phi:buf) * 2)"
			okSize := false
			switch {
			case haveOver && over && size == maxmem:
				okSize = true
			case haveOver && !over && size == want:
				okSize = true
			}
			if okSize {
				a.ok("WEB-grow", "snapshot/grow", "the buffer is doubled, clamped to maxmem: it strictly grows until maxmem is reached", pos)
			} else {
				a.bad("WEB-grow", "snapshot/grow", "the next buffer size is "+size+", expected min(2*len(buf), maxmem)", pos)
			}
		}
	}
}
