package main

// HT-escape (C17): every piece of dump-derived text that becomes part of a
// trusted URL has passed through a URL escaper. A may-analysis over
// package stack: a string value is "raw" when it may contain unescaped dump
// characters (field loads, parameters, elements of string slices, results of
// external calls fed with raw text); net/url's escapers, strconv and
// constants produce clean text; concatenation, Sprintf, substrings,
// conversions and phis propagate. Sink: the operand of a conversion to
// template.URL.

import (
	"go/token"
	"go/types"
	"strings"

	"golang.org/x/tools/go/ssa"
)

type escAn struct {
	busy    map[ssa.Value]bool
	raw     map[ssa.Value]bool
	rets    map[*ssa.Function][]bool
	changed bool
}

func (e *escAn) isRaw(v ssa.Value) bool {
	switch v := v.(type) {
	case *ssa.Const:
		return false
	case *ssa.Parameter:
		if !(isStringish(v.Type()) || isStringSlice(v.Type())) {
			return false
		}
		// a closed helper's parameter is as raw as what its callers pass
		if args, _, ok := paramArgs(v); ok && !e.busy[v] {
			if e.busy == nil {
				e.busy = map[ssa.Value]bool{}
			}
			e.busy[v] = true
			defer delete(e.busy, v)
			for _, a := range args {
				if e.isRaw(a) {
					return true
				}
			}
			return false
		}
		return true
	case *ssa.FreeVar:
		return true
	}
	return e.raw[v]
}

func isStringSlice(t types.Type) bool {
	s, ok := t.Underlying().(*types.Slice)
	return ok && isStringish(s.Elem())
}

func (e *escAn) mark(v ssa.Value) {
	if !e.raw[v] {
		e.raw[v] = true
		e.changed = true
	}
}

var escCleaners = map[string]bool{
	"net/url.QueryEscape": true, "net/url.PathEscape": true, "net/url.EscapedPath": true, "net/url.EscapedFragment": true,
	"net/url.String": true, "net/url.Encode": true,
}

func (e *escAn) step(f *ssa.Function) {
	for _, b := range f.Blocks {
		for _, in := range b.Instrs {
			switch in := in.(type) {
			case *ssa.Phi:
				for _, x := range in.Edges {
					if e.isRaw(x) {
						e.mark(in)
					}
				}
			case *ssa.ChangeType:
				if e.isRaw(in.X) {
					e.mark(in)
				}
			case *ssa.Convert:
				if isStringish(in.X.Type()) || isByteSlice(in.X.Type()) {
					if e.isRaw(in.X) {
						e.mark(in)
					}
				}
			case *ssa.MakeInterface:
				if e.isRaw(in.X) {
					e.mark(in)
				}
			case *ssa.BinOp:
				if in.Op == token.ADD && isStringish(in.Type()) && (e.isRaw(in.X) || e.isRaw(in.Y)) {
					e.mark(in)
				}
			case *ssa.Slice:
				if e.isRaw(in.X) {
					e.mark(in)
				}
			case *ssa.UnOp:
				if in.Op == token.MUL && (isStringish(in.Type()) || isStringSlice(in.Type()) || isByteSlice(in.Type())) {
					// a load: dump content, unless it is a local that only ever received clean values
					if al, ok := in.X.(*ssa.Alloc); ok {
						clean := true
						for _, r := range *al.Referrers() {
							if st, ok := r.(*ssa.Store); ok && st.Addr == ssa.Value(al) {
								if e.isRaw(st.Val) {
									clean = false
								}
							} else if _, isLoad := r.(*ssa.UnOp); !isLoad {
								if _, dbg := r.(*ssa.DebugRef); !dbg {
									clean = false
								}
							}
						}
						if clean {
							continue
						}
					}
					e.mark(in)
				}
			case *ssa.Field:
				if isStringish(in.Type()) {
					e.mark(in)
				}
			case *ssa.Index:
				if isStringish(in.Type()) && e.isRaw(in.X) {
					e.mark(in)
				}
			case *ssa.Lookup:
				if isStringish(in.Type()) {
					e.mark(in)
				}
			case *ssa.IndexAddr:
				if e.isRaw(in.X) {
					e.mark(in)
				}
			case *ssa.Extract:
				if call, ok := in.Tuple.(*ssa.Call); ok {
					if cal := call.Call.StaticCallee(); cal != nil && strings.HasPrefix(calleePkg(cal), modPath) {
						if rs := e.rets[cal]; in.Index < len(rs) && rs[in.Index] {
							e.mark(in)
						}
						continue
					}
				}
				if isStringish(in.Type()) || isStringSlice(in.Type()) {
					if e.isRaw(in.Tuple) {
						e.mark(in)
					}
				}
			case *ssa.Call:
				e.call(in)
			case *ssa.Return:
				rs := e.rets[f]
				for len(rs) < len(in.Results) {
					rs = append(rs, false)
				}
				for i, r := range in.Results {
					if e.isRaw(r) && !rs[i] {
						rs[i] = true
						e.changed = true
					}
				}
				e.rets[f] = rs
			}
		}
	}
}

func isByteSlice(t types.Type) bool {
	s, ok := t.Underlying().(*types.Slice)
	if !ok {
		return false
	}
	b, ok := s.Elem().Underlying().(*types.Basic)
	return ok && b.Kind() == types.Byte
}

func (e *escAn) call(in *ssa.Call) {
	cal := in.Call.StaticCallee()
	anyRaw := false
	for _, a := range in.Call.Args {
		if e.isRaw(a) {
			anyRaw = true
		}
	}
	if cal == nil {
		if anyRaw || in.Call.IsInvoke() {
			e.mark(in)
		}
		return
	}
	pkg, name := calleePkg(cal), cal.Name()
	if strings.HasPrefix(pkg, modPath) {
		if rs := e.rets[cal]; len(rs) == 1 && rs[0] {
			e.mark(in)
		}
		return
	}
	if escCleaners[pkg+"."+name] || pkg == "strconv" {
		return
	}
	if pkg == "fmt" && name == "Sprintf" {
		// operands in the variadic slice
		if len(in.Call.Args) > 1 {
			if sl, ok := in.Call.Args[1].(*ssa.Slice); ok {
				if al, ok := sl.X.(*ssa.Alloc); ok {
					for _, r := range *al.Referrers() {
						if ia, ok := r.(*ssa.IndexAddr); ok {
							for _, rr := range *ia.Referrers() {
								if st, ok := rr.(*ssa.Store); ok && e.isRaw(st.Val) {
									e.mark(in)
								}
							}
						}
					}
					if e.isRaw(in.Call.Args[0]) {
						e.mark(in)
					}
					return
				}
			}
		}
	}
	// url.URL method on a struct built from raw text is covered by the
	// cleaners; any other external function keeps what it was given
	if anyRaw {
		e.mark(in)
	}
}

func htEscape(c *Ctx, a *flAgg, fns []*ssa.Function, funcMap map[string]*ssa.Function) {
	e := &escAn{raw: map[ssa.Value]bool{}, rets: map[*ssa.Function][]bool{}}
	for iter := 0; iter < 60; iter++ {
		e.changed = false
		for _, f := range fns {
			e.step(f)
		}
		if !e.changed {
			break
		}
	}
	// raw conversions to template.URL per function (for the witness)
	rawConv := map[*ssa.Function][]ssa.Instruction{}
	nConv := 0
	for _, f := range fns {
		for _, b := range f.Blocks {
			for _, in := range b.Instrs {
				var x ssa.Value
				switch cv := in.(type) {
				case *ssa.ChangeType:
					x = cv.X
				case *ssa.Convert:
					x = cv.X
				default:
					continue
				}
				if !namedIs(in.(ssa.Value).Type(), "html/template", "URL") {
					continue
				}
				nConv++
				if e.isRaw(x) {
					rawConv[f] = append(rawConv[f], in)
				}
			}
		}
	}
	n := 0
	for _, name := range sortedKeysOf(funcMap) {
		f := funcMap[name]
		res := f.Signature.Results()
		for i := 0; i < res.Len(); i++ {
			if !namedIs(res.At(i).Type(), "html/template", "URL") {
				continue
			}
			n++
			key := "funcmap:" + name
			rs := e.rets[f]
			if i >= len(rs) || !rs[i] {
				a.ok("HT-escape", key, "every non-constant part of the URL this template function returns is the result of a net/url escaper or a number", f.Pos())
				continue
			}
			// witness: the first raw conversion in a function reachable from f
			pos, where := f.Pos(), ""
			seen := map[*ssa.Function]bool{}
			var visit func(g *ssa.Function)
			visit = func(g *ssa.Function) {
				if g == nil || seen[g] || g.Blocks == nil {
					return
				}
				seen[g] = true
				if where == "" && len(rawConv[g]) > 0 {
					pos, where = rawConv[g][0].Pos(), funcKey(g)
				}
				for _, b := range g.Blocks {
					for _, in := range b.Instrs {
						if ci, ok := in.(ssa.CallInstruction); ok {
							if cal := ci.Common().StaticCallee(); cal != nil && strings.HasPrefix(calleePkg(cal), modPath) {
								visit(cal)
							}
						}
					}
				}
			}
			visit(f)
			a.bad("HT-escape", key, "text that may come straight from the dump becomes part of the URL returned by "+name+" without passing through a URL escaper (first such conversion in "+where+"): characters such as '?', '#' or a space change what the link points to", pos)
		}
	}
	c.stat("HT", "escape_sinks", n)
	c.stat("HT", "escape_conversions", nConv)
}

func itoa(i int) string { return strings.TrimSpace(strings.Replace(" "+string(rune('0'+i%10)), " ", itoaHi(i/10), 1)) }

func itoaHi(i int) string {
	if i == 0 {
		return ""
	}
	return itoa(i)
}
