package main

import (
	"fmt"
	"go/constant"
	"go/token"
	"go/types"
	"sort"
	"strings"

	"golang.org/x/tools/go/ssa"
)

// Symbolic path explorer over go/ssa: enumerates the paths of one function
// (each block visited at most MaxVisits times per path), folding constants,
// keeping a path-local memory for addressed cells, and recording the branch
// conditions that could not be folded (literals) and the observable events
// (calls, stores, index operations, dereferences). This is a static
// enumeration of the control-flow paths; nothing of the analysed program is
// executed.

// Lit is one branch decision on a path.
type Lit struct {
	Atom *Expr
	Pol  bool
	Pos  token.Pos
}

func (l Lit) String() string {
	if l.Pol {
		return l.Atom.String()
	}
	return "!" + l.Atom.String()
}

// Event kinds.
const (
	EvCall   = "call"
	EvStore  = "store"
	EvIndex  = "index" // slice/array/string index: Addr=collection value (or pointer to array), Val=index
	EvDeref  = "deref" // field access or load through a pointer value: Addr=pointer
	EvSlice  = "slice" // Addr=base, Val=the slice expr
	EvMapUpd = "mapupdate"
	EvDefer  = "defer"
	EvGo     = "go"
	EvSend   = "send"
	EvLits   = "lit" // marker: a literal was decided here (Val = atom), keeps order between events and branches
)

// Event is an observable step on a path.
type Event struct {
	Kind  string
	Addr  *Expr
	Val   *Expr
	Key   *Expr // mapupdate key
	Pos   token.Pos
	Instr ssa.Instruction
	Pol   bool
}

func (e Event) String() string {
	switch e.Kind {
	case EvCall, EvDefer, EvGo:
		return e.Kind + " " + e.Val.String()
	case EvStore:
		a, _ := stripAddr(e.Addr.String())
		return "store " + a + " = " + e.Val.String()
	case EvIndex:
		return "index " + e.Addr.String() + "[" + e.Val.String() + "]"
	case EvDeref:
		return "deref " + e.Addr.String()
	case EvSlice:
		return "slice " + e.Val.String()
	case EvMapUpd:
		return "mapupdate " + e.Addr.String() + "[" + e.Key.String() + "] = " + e.Val.String()
	case EvLits:
		if e.Pol {
			return "branch " + e.Val.String()
		}
		return "branch !" + e.Val.String()
	}
	return e.Kind
}

// Path is one explored path.
type Path struct {
	Lits      []Lit
	Events    []Event
	Term      string // "return", "panic", "stop"
	Results   []*Expr
	End       *ssa.BasicBlock
	Cells     map[string]*Expr // final content by address string
	Allocs    map[string]bool  // addresses allocated on the path
	Ambiguous string           // non-empty if two impure call sites rendered identically
	Blocks    []int
	StopPhis  map[string]*Expr // for Term "stop": values flowing into the phis of the target block, by phi comment
	StopFrom  *ssa.BasicBlock
	StopInstr ssa.Instruction // for Term "stopat": the instruction not executed; Results hold its operands' values
	Watched   map[ssa.Value]*Expr
}

func (p *Path) lit(atom string) (pol, ok bool) {
	for _, l := range p.Lits {
		if l.Atom.String() == atom {
			return l.Pol, true
		}
	}
	return false, false
}

func (p *Path) String() string {
	var ls []string
	for _, l := range p.Lits {
		ls = append(ls, l.String())
	}
	var rs []string
	for _, r := range p.Results {
		rs = append(rs, r.String())
	}
	return fmt.Sprintf("[%s] -> %s(%s)", strings.Join(ls, " && "), p.Term, strings.Join(rs, ", "))
}

// SPE configuration.
type SPE struct {
	Fn        *ssa.Function
	Start     *ssa.BasicBlock
	Stop      func(from, to *ssa.BasicBlock) bool // edge from->to ends the path with Term "stop"
	// StartAt: begin at this instruction (in the middle of its block) instead
	// of at Start; StopAt: end the path with Term "stopat" just before an
	// instruction (never the StartAt instruction at the very beginning)
	StartAt   ssa.Instruction
	StopAt    func(in ssa.Instruction) bool
	Watch     []ssa.Value // values reported in Path.Watched at a StopAt
	MaxVisits int
	InitCell  func(addr *Expr) *Expr
	Decide    func(atom *Expr, p *pathState) (val, known bool)
	ParamVal  func(p *ssa.Parameter) *Expr
	FreeVal   func(v *ssa.FreeVar) *Expr
	// Inline: pure module functions whose paths are spliced into the caller's
	// (robustness against helper-function refactorings)
	Inline      func(f *ssa.Function) bool
	inlineDepth int
	MaxPaths  int
	// Env seeds values (e.g. when starting in the middle of a function).
	SeedEnv map[ssa.Value]*Expr

	captureEnv map[ssa.Value]*Expr // filled with the environment at the first "stop"

	Paths     []*Path
	Truncated int // paths cut by MaxVisits
	Overflow  bool
	allocOrd  map[*ssa.Alloc]string
	pure      *purity
}

type pathState struct {
	env     map[ssa.Value]*Expr
	cells   map[string]*Expr
	visits  map[*ssa.BasicBlock]int
	lits    []Lit
	litIdx  map[string]bool
	events  []Event
	execs   map[ssa.Instruction]int
	impure  map[string]ssa.Instruction
	ambig   string
	allocs  map[string]bool // alloc address strings created on this path
	blocks  []int
	begun   bool // the first instruction of the exploration was passed (StopAt)
	epochs  map[string]int
	nRange  int
	frames  []speFrame // call sites of helpers being executed in place
}

// speFrame: where to continue in the caller when an in-place executed helper returns.
type speFrame struct {
	call *ssa.Call
	b    *ssa.BasicBlock
	idx  int
}

func (s *pathState) clone() *pathState {
	n := &pathState{
		env:    make(map[ssa.Value]*Expr, len(s.env)+8),
		cells:  make(map[string]*Expr, len(s.cells)+4),
		visits: make(map[*ssa.BasicBlock]int, len(s.visits)+2),
		litIdx: make(map[string]bool, len(s.litIdx)+2),
		execs:  make(map[ssa.Instruction]int, len(s.execs)),
		impure: make(map[string]ssa.Instruction, len(s.impure)),
		allocs: make(map[string]bool, len(s.allocs)),
		ambig:  s.ambig,
		nRange: s.nRange,
		begun:  s.begun,
		frames: append([]speFrame(nil), s.frames...),
	}
	for k, v := range s.env {
		n.env[k] = v
	}
	for k, v := range s.cells {
		n.cells[k] = v
	}
	for k, v := range s.visits {
		n.visits[k] = v
	}
	for k, v := range s.litIdx {
		n.litIdx[k] = v
	}
	for k, v := range s.execs {
		n.execs[k] = v
	}
	for k, v := range s.impure {
		n.impure[k] = v
	}
	for k, v := range s.allocs {
		n.allocs[k] = v
	}
	if s.epochs != nil {
		n.epochs = make(map[string]int, len(s.epochs))
		for k, v := range s.epochs {
			n.epochs[k] = v
		}
	}
	n.lits = append([]Lit(nil), s.lits...)
	n.events = append([]Event(nil), s.events...)
	n.blocks = append([]int(nil), s.blocks...)
	return n
}

// Explore enumerates the paths.
func (x *SPE) Explore() {
	if x.MaxVisits == 0 {
		x.MaxVisits = 2
	}
	if x.MaxPaths == 0 {
		x.MaxPaths = 200000
	}
	if x.pure == nil {
		x.pure = globalPurity
	}
	x.allocOrd = map[*ssa.Alloc]string{}
	cnt := map[string]int{}
	for _, b := range x.Fn.Blocks {
		for _, in := range b.Instrs {
			if a, ok := in.(*ssa.Alloc); ok {
				n := a.Comment
				if n == "" {
					n = "tmp"
				}
				cnt[n]++
				if cnt[n] > 1 {
					n = fmt.Sprintf("%s#%d", n, cnt[n])
				}
				x.allocOrd[a] = n
			}
		}
	}
	st := &pathState{
		env: map[ssa.Value]*Expr{}, cells: map[string]*Expr{}, visits: map[*ssa.BasicBlock]int{},
		litIdx: map[string]bool{}, execs: map[ssa.Instruction]int{}, impure: map[string]ssa.Instruction{}, allocs: map[string]bool{},
	}
	for k, v := range x.SeedEnv {
		st.env[k] = v
	}
	start := x.Start
	if start == nil {
		start = x.Fn.Blocks[0]
	}
	if x.StartAt != nil {
		b := x.StartAt.Block()
		for i, in := range b.Instrs {
			if in == x.StartAt {
				st.visits[b]++
				st.blocks = append(st.blocks, b.Index)
				x.instrsFrom(st, b, i)
				return
			}
		}
	}
	x.block(st, start, nil)
}

func (x *SPE) finish(st *pathState, term string, res []*Expr, b *ssa.BasicBlock) {
	if len(x.Paths) >= x.MaxPaths {
		x.Overflow = true
		return
	}
	p := &Path{Lits: st.lits, Events: st.events, Term: term, Results: res, End: b, Cells: st.cells, Ambiguous: st.ambig, Blocks: st.blocks, Allocs: st.allocs}
	x.Paths = append(x.Paths, p)
}

func (x *SPE) block(st *pathState, b, pred *ssa.BasicBlock) {
	if x.Overflow {
		return
	}
	if pred != nil && x.Stop != nil && x.Stop(pred, b) {
		phis := map[string]*Expr{}
		pi := -1
		for i, p := range b.Preds {
			if p == pred {
				pi = i
			}
		}
		for _, in := range b.Instrs {
			phi, ok := in.(*ssa.Phi)
			if !ok {
				break
			}
			if pi >= 0 {
				n := phi.Comment
				if n == "" {
					n = phi.Name()
				}
				phis[n] = x.val(st, phi.Edges[pi])
			}
		}
		if x.captureEnv != nil && len(x.captureEnv) == 0 {
			for k, v := range st.env {
				x.captureEnv[k] = v
			}
		}
		x.finish(st, "stop", nil, b)
		if len(x.Paths) > 0 {
			x.Paths[len(x.Paths)-1].StopPhis = phis
			x.Paths[len(x.Paths)-1].StopFrom = pred
		}
		return
	}
	st.visits[b]++
	if st.visits[b] > x.MaxVisits {
		x.Truncated++
		return
	}
	st.blocks = append(st.blocks, b.Index)
	predIdx := -1
	if pred != nil {
		for i, p := range b.Preds {
			if p == pred {
				predIdx = i
				break
			}
		}
	}
	// Phis are evaluated simultaneously.
	var phiVals []*Expr
	var phis []*ssa.Phi
	for _, in := range b.Instrs {
		phi, ok := in.(*ssa.Phi)
		if !ok {
			break
		}
		phis = append(phis, phi)
		if predIdx < 0 {
			n := phi.Comment
			if n == "" {
				n = phi.Name()
			}
			phiVals = append(phiVals, &Expr{Op: OpFresh, Name: "phi:" + n, Type: phi.Type()})
		} else {
			phiVals = append(phiVals, x.val(st, phi.Edges[predIdx]))
		}
	}
	for i, phi := range phis {
		st.env[phi] = phiVals[i]
	}
	x.instrsFrom(st, b, len(phis))
}

// instrsFrom executes the instructions of b starting at index from.
func (x *SPE) instrsFrom(st *pathState, b *ssa.BasicBlock, from int) {
	for idx := from; idx < len(b.Instrs); idx++ {
		in := b.Instrs[idx]
		if lk, ok := in.(*ssa.Lookup); ok && lk.CommaOk {
			// v, ok := table[key] on a local table with constant keys: one
			// outcome per entry (key == k_i) and the miss
			if m := x.val(st, lk.X); m.Op == OpMakeMap {
				mk := "map:" + m.String()
				if nE := st.cells[mk+"#n"]; nE != nil && st.cells[mk+"#open"] == nil {
					n, _ := nE.intConst()
					if n > 0 && n <= 12 {
						key := x.val(st, lk.Index)
						cur := st
						done := false
						for i := int64(0); i < n && !done; i++ {
							kc := cur.cells[fmt.Sprintf("%s#key%d", mk, i)]
							val := cur.cells[mk+"["+kc.Const.ExactString()+"]"]
							cond := foldBin(token.EQL, key, kc, types.Typ[types.Bool], lk.Pos())
							if v, isC := cond.boolConst(); isC {
								if v {
									cur.env[lk] = &Expr{Op: "tuple", Args: []*Expr{val, mkConstBool(true)}, Type: lk.Type()}
									x.instrsFrom(cur, b, idx+1)
									done = true
								}
								continue
							}
							a, pol := normAtom(cond)
							if v, known := cur.known(a); known {
								if v == pol {
									cur.env[lk] = &Expr{Op: "tuple", Args: []*Expr{val, mkConstBool(true)}, Type: lk.Type()}
									x.instrsFrom(cur, b, idx+1)
									done = true
								}
								continue
							}
							hit := cur.clone()
							hit.addLit(a, pol, lk.Pos(), lk)
							hit.env[lk] = &Expr{Op: "tuple", Args: []*Expr{val, mkConstBool(true)}, Type: lk.Type()}
							x.instrsFrom(hit, b, idx+1)
							cur.addLit(a, !pol, lk.Pos(), lk)
						}
						if !done {
							var zero *Expr
							if t, ok := lk.Type().(*types.Tuple); ok {
								zero = zeroOf(t.At(0).Type())
							}
							if zero == nil {
								zero = &Expr{Op: OpFresh, Name: "zero", Type: lk.Type()}
							}
							cur.env[lk] = &Expr{Op: "tuple", Args: []*Expr{zero, mkConstBool(false)}, Type: lk.Type()}
							x.instrsFrom(cur, b, idx+1)
						}
						return
					}
				}
			}
		}
		if x.StopAt != nil && len(st.frames) == 0 {
			if !(in == x.StartAt && !st.begun) && x.StopAt(in) {
				var res []*Expr
				var ops []*ssa.Value
				for _, op := range in.Operands(ops) {
					if *op != nil {
						res = append(res, x.val(st, *op))
					}
				}
				x.finish(st, "stopat", res, b)
				if len(x.Paths) > 0 {
					lp := x.Paths[len(x.Paths)-1]
					lp.StopInstr = in
					// the watched values, where already computed on this path
					for _, wv := range x.Watch {
						if e, ok := st.env[wv]; ok {
							if lp.Watched == nil {
								lp.Watched = map[ssa.Value]*Expr{}
							}
							lp.Watched[wv] = e
						}
					}
					// the values of the named variables (phis) at this point
					lp.StopPhis = map[string]*Expr{}
					for v, e := range st.env {
						if phi, ok := v.(*ssa.Phi); ok && phi.Comment != "" {
							lp.StopPhis[phi.Comment] = e
						}
					}
				}
				return
			}
			st.begun = true
		}
		if call, ok := in.(*ssa.Call); ok {
			if cal := call.Call.StaticCallee(); cal != nil && cal.Blocks != nil && x.inlineDepth < 2 && ((x.Inline != nil && x.Inline(cal)) || defaultInline(cal)) {
				if x.inlineCall(st, b, idx, call, cal) {
					return
				}
				if defaultInline(cal) && x.deepInline(st, b, idx, call, cal) {
					return
				}
			}
			if call.Call.StaticCallee() == nil && !call.Call.IsInvoke() && x.inlineDepth < 2 {
				// a function value known on this path (a closure handed to a
				// helper that is executed in place): call what it is
				if _, isB := call.Call.Value.(*ssa.Builtin); !isB {
					if fv := x.val(st, call.Call.Value); (fv.Op == OpClosure || fv.Op == OpFunc) && fv.Fn != nil && fv.Fn.Blocks != nil {
						if x.inlineCallBound(st, b, idx, call, fv.Fn, fv.Args) {
							return
						}
					}
				}
			}
			if bi, ok := call.Call.Value.(*ssa.Builtin); ok && (bi.Name() == "min" || bi.Name() == "max") && len(call.Call.Args) == 2 {
				// min(a, b) = if b < a { b } else { a };  max(a, b) = if a < b { b } else { a }:
				// the literal a hand-written clamp tests
				av, bv := x.val(st, call.Call.Args[0]), x.val(st, call.Call.Args[1])
				var cond *Expr
				if bi.Name() == "min" {
					cond = foldBin(token.LSS, bv, av, types.Typ[types.Bool], call.Pos())
				} else {
					cond = foldBin(token.LSS, av, bv, types.Typ[types.Bool], call.Pos())
				}
				if v, isC := cond.boolConst(); isC {
					if v {
						st.env[call] = bv
					} else {
						st.env[call] = av
					}
					continue
				}
				a, pol := normAtom(cond)
				if v, ok := st.known(a); ok {
					if v == pol {
						st.env[call] = bv
					} else {
						st.env[call] = av
					}
					continue
				}
				t := st.clone()
				t.addLit(a, pol, call.Pos(), call)
				t.env[call] = bv
				x.instrsFrom(t, b, idx+1)
				st.addLit(a, !pol, call.Pos(), call)
				st.env[call] = av
				x.instrsFrom(st, b, idx+1)
				return
			}
			if cal := call.Call.StaticCallee(); cal != nil && cal.Blocks == nil || cal != nil && !strings.HasPrefix(calleePkg(cal), modPath) {
				if x.modelStdlib(st, b, idx, call, cal) {
					return
				}
			}
		}
		switch in := in.(type) {
		case *ssa.If:
			cond := x.val(st, in.Cond)
			if v, ok := cond.boolConst(); ok {
				if v {
					x.block(st, b.Succs[0], b)
				} else {
					x.block(st, b.Succs[1], b)
				}
				return
			}
			atom, pol := normAtom(cond)
			if v, ok := st.known(atom); ok {
				// pol: cond == atom (true) or cond == !atom
				take := v == pol
				if take {
					x.block(st, b.Succs[0], b)
				} else {
					x.block(st, b.Succs[1], b)
				}
				return
			}
			if x.Decide != nil {
				if v, ok := x.Decide(atom, st); ok {
					take := v == pol
					if take {
						x.block(st, b.Succs[0], b)
					} else {
						x.block(st, b.Succs[1], b)
					}
					return
				}
			}
			// fork
			t := st.clone()
			t.addLit(atom, pol, in.Pos(), in)
			x.block(t, b.Succs[0], b)
			st.addLit(atom, !pol, in.Pos(), in)
			x.block(st, b.Succs[1], b)
			return
		case *ssa.Jump:
			x.block(st, b.Succs[0], b)
			return
		case *ssa.Return:
			var res []*Expr
			for _, r := range in.Results {
				res = append(res, x.val(st, r))
			}
			if n := len(st.frames); n > 0 {
				// a helper executed in place returns into its caller
				f := st.frames[n-1]
				st.frames = st.frames[:n-1]
				switch len(res) {
				case 0:
				case 1:
					st.env[f.call] = res[0]
				default:
					st.env[f.call] = &Expr{Op: "tuple", Args: res, Type: f.call.Type()}
				}
				x.instrsFrom(st, f.b, f.idx+1)
				return
			}
			x.finish(st, "return", res, b)
			return
		case *ssa.Panic:
			x.finish(st, "panic", []*Expr{x.val(st, in.X)}, b)
			return
		default:
			x.instr(st, in)
		}
	}
	// block without terminator (should not happen)
	x.finish(st, "fallout", nil, b)
}

// deepInline executes a helper outside the pinned vocabulary in place: its
// blocks run on the caller's path state (parameters bound to the argument
// values, loops bounded like the caller's, impure calls inside it treated as
// anywhere else) and its return continues after the call. Extracting lines
// into a helper - also lines with loops or impure calls - is then no change
// to what a path rule sees.
func (x *SPE) deepInline(st *pathState, b *ssa.BasicBlock, idx int, call *ssa.Call, cal *ssa.Function) bool {
	if len(st.frames) >= 3 || len(cal.Blocks) > 60 || len(cal.FreeVars) > 0 || len(call.Call.Args) != len(cal.Params) {
		return false
	}
	for _, f := range st.frames {
		if f.call.Call.StaticCallee() == cal {
			return false
		}
	}
	for _, cb := range cal.Blocks {
		for _, in := range cb.Instrs {
			switch in.(type) {
			case *ssa.Defer, *ssa.Go, *ssa.RunDefers, *ssa.Select:
				return false
			}
		}
	}
	for i, p := range cal.Params {
		st.env[p] = x.val(st, call.Call.Args[i])
	}
	for _, cb := range cal.Blocks {
		delete(st.visits, cb)
	}
	st.frames = append(st.frames, speFrame{call: call, b: b, idx: idx})
	x.block(st, cal.Blocks[0], nil)
	return true
}

// stdFunc finds a standard-library function of the program by package path and name.
func stdFunc(pkg, name string) *ssa.Function {
	if curLoaded == nil {
		return nil
	}
	for _, p := range curLoaded.Prog.AllPackages() {
		if p.Pkg.Path() == pkg {
			return p.Func(name)
		}
	}
	return nil
}

// modelStdlib gives the newer string helpers the meaning of the idiom they
// abbreviate, so that either spelling is the same to every rule:
//   CutPrefix(s, p)  = if HasPrefix(s, p) { s[len(p):], true } else { s, false }
//   CutSuffix(s, p)  = if HasSuffix(s, p) { s[:len(s)-len(p)], true } else { s, false }
//   TrimPrefix/TrimSuffix: the first component of the above
//   Clone(x)         = append(nil, x...)
// The path forks on the same HasPrefix/HasSuffix literal the long form tests.
func (x *SPE) modelStdlib(st *pathState, b *ssa.BasicBlock, idx int, call *ssa.Call, cal *ssa.Function) bool {
	pkg := calleePkg(cal)
	if pkg != "bytes" && pkg != "strings" && pkg != "slices" {
		return false
	}
	name := cal.Name()
	if i := strings.IndexByte(name, '['); i >= 0 {
		name = name[:i]
	}
	args := call.Call.Args
	// strings.Builder: the text written so far is kept in a cell of the
	// builder; WriteString appends, String gives it back, so that building a
	// string piece by piece reads like the concatenation it is
	if pkg == "strings" && cal.Signature.Recv() != nil && strings.HasSuffix(cal.Signature.Recv().Type().String(), "strings.Builder") && len(args) >= 1 {
		bAddr := x.val(st, args[0])
		key := bAddr.String() + "#text"
		strT := types.Typ[types.String]
		cur := st.cells[key]
		if cur == nil {
			cur = &Expr{Op: OpConst, Const: constant.MakeString(""), Type: strT}
		}
		switch name {
		case "WriteString":
			if len(args) != 2 {
				return false
			}
			st.cells[key] = foldBin(token.ADD, cur, x.val(st, args[1]), strT, call.Pos())
			st.env[call] = &Expr{Op: "tuple", Args: []*Expr{{Op: OpFresh, Name: "n", Type: types.Typ[types.Int]}, {Op: OpConst, Type: types.Universe.Lookup("error").Type()}}, Type: call.Type()}
			x.instrsFrom(st, b, idx+1)
			return true
		case "String":
			st.env[call] = cur
			x.instrsFrom(st, b, idx+1)
			return true
		}
		return false
	}
	switch name {
	case "Clone":
		if len(args) != 1 || pkg == "strings" {
			return false
		}
		v := x.val(st, args[0])
		st.env[call] = &Expr{Op: OpBuiltin, Name: "append", Args: []*Expr{{Op: OpConst, Type: call.Type()}, v}, Type: call.Type(), Pos: call.Pos()}
		x.instrsFrom(st, b, idx+1)
		return true
	case "Concat":
		// slices.Concat(a, b, ...) = append(append([]T(nil), a...), b...): a fresh
		// slice holding the elements in order
		if pkg != "slices" || len(args) != 1 {
			return false
		}
		va := x.val(st, args[0])
		if va.Op != OpSlice || va.Args[1] != nil || va.Args[2] != nil || !isArrayPtr(va.Args[0]) {
			return false
		}
		arr := va.Args[0].Type.Underlying().(*types.Pointer).Elem().Underlying().(*types.Array)
		if arr.Len() > 8 {
			return false
		}
		e := &Expr{Op: OpConst, Type: call.Type()}
		for i := int64(0); i < arr.Len(); i++ {
			addr := &Expr{Op: OpIndexAddr, Args: []*Expr{va.Args[0], mkConstInt(i, types.Typ[types.Int])}, Type: types.NewPointer(arr.Elem()), Pos: call.Pos()}
			el := x.load(st, addr, arr.Elem(), call.Pos())
			e = &Expr{Op: OpBuiltin, Name: "append", Args: []*Expr{e, el}, Type: call.Type(), Pos: call.Pos()}
		}
		st.env[call] = e
		x.instrsFrom(st, b, idx+1)
		return true
	case "IndexFunc", "ContainsFunc":
		if len(args) != 2 || pkg != "slices" {
			return false
		}
		return x.modelSearch(st, b, idx, call, name == "ContainsFunc")
	case "CutPrefix", "CutSuffix", "TrimPrefix", "TrimSuffix":
		if len(args) != 2 || pkg == "slices" {
			return false
		}
		has := "HasPrefix"
		if strings.HasSuffix(name, "Suffix") {
			has = "HasSuffix"
		}
		hf := stdFunc(pkg, has)
		if hf == nil {
			return false
		}
		s, p := x.val(st, args[0]), x.val(st, args[1])
		boolT := types.Typ[types.Bool]
		atom := &Expr{Op: OpCall, Fn: hf, Args: []*Expr{{Op: OpFunc, Fn: hf}, s, p}, Type: boolT, Pos: call.Pos()}
		intT := types.Typ[types.Int]
		lenOf := func(e *Expr) *Expr {
			if l := constLen(e); l >= 0 {
				return mkConstInt(l, intT)
			}
			return &Expr{Op: OpBuiltin, Name: "len", Args: []*Expr{e}, Type: intT, Pos: call.Pos()}
		}
		var cut *Expr
		if has == "HasPrefix" {
			cut = &Expr{Op: OpSlice, Args: []*Expr{s, lenOf(p), nil, nil}, Type: args[0].Type(), Pos: call.Pos()}
		} else {
			cut = &Expr{Op: OpSlice, Args: []*Expr{s, nil, foldBin(token.SUB, lenOf(s), lenOf(p), intT, call.Pos()), nil}, Type: args[0].Type(), Pos: call.Pos()}
		}
		sliceEv := Event{Kind: EvSlice, Addr: s, Val: cut, Pos: call.Pos(), Instr: call}
		result := func(found bool) *Expr {
			v := s
			if found {
				v = cut
			}
			if strings.HasPrefix(name, "Trim") {
				return v
			}
			return &Expr{Op: "tuple", Args: []*Expr{v, mkConstBool(found)}, Type: call.Type()}
		}
		a, pol := normAtom(atom)
		if v, ok := st.known(a); ok {
			if v == pol {
				st.events = append(st.events, sliceEv)
			}
			st.env[call] = result(v == pol)
			x.instrsFrom(st, b, idx+1)
			return true
		}
		if x.Decide != nil {
			if v, ok := x.Decide(a, st); ok {
				if v == pol {
					st.events = append(st.events, sliceEv)
				}
				st.env[call] = result(v == pol)
				x.instrsFrom(st, b, idx+1)
				return true
			}
		}
		st.events = append(st.events, Event{Kind: EvCall, Val: atom, Pos: call.Pos(), Instr: call})
		t := st.clone()
		t.addLit(a, pol, call.Pos(), call)
		t.events = append(t.events, sliceEv) // the cut is a slice of the subject, as in the long form
		t.env[call] = result(true)
		x.instrsFrom(t, b, idx+1)
		st.addLit(a, !pol, call.Pos(), call)
		st.env[call] = result(false)
		x.instrsFrom(st, b, idx+1)
		return true
	}
	return false
}

// modelSearch executes slices.IndexFunc / ContainsFunc with a pure, loop-free
// predicate as the linear search it is: for k = 0, 1, ... the path forks on
// k < len(xs) and on the predicate applied to xs[k], exactly the literals
// and index events a hand-written range loop with a found flag produces; the
// result is the constant k (or -1 / false when the elements are exhausted).
func (x *SPE) modelSearch(st *pathState, b *ssa.BasicBlock, idx int, call *ssa.Call, contains bool) bool {
	xs := x.val(st, call.Call.Args[0])
	pv := x.val(st, call.Call.Args[1])
	if (pv.Op != OpClosure && pv.Op != OpFunc) || pv.Fn == nil || len(pv.Fn.Params) != 1 || len(pv.Fn.Blocks) == 0 {
		return false
	}
	pred := pv.Fn
	if len(naturalLoops(pred)) > 0 || !x.pure.isPure(pred) || len(pv.Args) != len(pred.FreeVars) {
		return false
	}
	sl, ok := call.Call.Args[0].Type().Underlying().(*types.Slice)
	if !ok {
		return false
	}
	elemT := sl.Elem()
	intT := types.Typ[types.Int]
	max := x.MaxVisits
	if max < 1 {
		max = 1
	}
	result := func(t *pathState, k int64, found bool) {
		if contains {
			t.env[call] = mkConstBool(found)
		} else {
			t.env[call] = mkConstInt(k, intT)
		}
		x.instrsFrom(t, b, idx+1)
	}
	// fork runs yes/no on the two outcomes of a condition, honouring what the
	// path already knows
	fork := func(t *pathState, cond *Expr, yes, no func(*pathState)) {
		if v, ok := cond.boolConst(); ok {
			if v {
				yes(t)
			} else {
				no(t)
			}
			return
		}
		a, pol := normAtom(cond)
		if v, ok := t.known(a); ok {
			if v == pol {
				yes(t)
			} else {
				no(t)
			}
			return
		}
		if x.Decide != nil {
			if v, ok := x.Decide(a, t); ok {
				if v == pol {
					yes(t)
				} else {
					no(t)
				}
				return
			}
		}
		u := t.clone()
		u.addLit(a, pol, call.Pos(), call)
		yes(u)
		t.addLit(a, !pol, call.Pos(), call)
		no(t)
	}
	okAll := true
	var step func(t *pathState, k int64)
	step = func(t *pathState, k int64) {
		if x.Overflow || !okAll {
			return
		}
		if int(k) >= max {
			x.Truncated++
			return
		}
		inRange := &Expr{Op: OpBin, Tok: token.LSS, Args: []*Expr{mkConstInt(k, intT), {Op: OpBuiltin, Name: "len", Args: []*Expr{xs}, Type: intT, Pos: call.Pos()}}, Type: types.Typ[types.Bool], Pos: call.Pos()}
		fork(t, inRange, func(t *pathState) {
			ki := mkConstInt(k, intT)
			t.events = append(t.events, Event{Kind: EvIndex, Addr: xs, Val: ki, Pos: call.Pos(), Instr: call})
			addr := &Expr{Op: OpIndexAddr, Args: []*Expr{xs, ki}, Type: types.NewPointer(elemT), Pos: call.Pos()}
			elem := x.load(t, addr, elemT, call.Pos())
			sub := &SPE{Fn: pred, MaxVisits: 1, Inline: x.Inline, inlineDepth: x.inlineDepth + 1, pure: x.pure, Decide: x.Decide}
			sub.ParamVal = func(p *ssa.Parameter) *Expr { return elem }
			sub.FreeVal = func(v *ssa.FreeVar) *Expr {
				for i, fv := range pred.FreeVars {
					if fv == v {
						return pv.Args[i]
					}
				}
				return nil
			}
			sub.InitCell = func(a *Expr) *Expr {
				if v, ok := t.cells[a.String()]; ok {
					return v
				}
				if x.InitCell != nil {
					return x.InitCell(a)
				}
				return nil
			}
			sub.Explore()
			if sub.Truncated > 0 || sub.Overflow || len(sub.Paths) == 0 || len(sub.Paths) > 16 {
				okAll = false
				return
			}
			for i, p := range sub.Paths {
				if p.Term != "return" || len(p.Results) != 1 {
					okAll = false
					return
				}
				u := t
				if i < len(sub.Paths)-1 {
					u = t.clone()
				}
				feasible := true
				for _, l := range p.Lits {
					if v, ok := u.known(l.Atom); ok && v != l.Pol {
						feasible = false
					}
				}
				if !feasible {
					continue
				}
				for _, ev := range p.Events {
					if ev.Kind == EvLits {
						if _, ok := u.litIdx[ev.Val.String()]; ok {
							continue
						}
						u.lits = append(u.lits, Lit{Atom: ev.Val, Pol: ev.Pol, Pos: ev.Pos})
						u.litIdx[ev.Val.String()] = ev.Pol
					}
					u.events = append(u.events, ev)
				}
				fork(u, p.Results[0], func(t *pathState) { result(t, k, true) }, func(t *pathState) { step(t, k+1) })
			}
		}, func(t *pathState) { result(t, -1, false) })
	}
	// the model must be all-or-nothing: try it on a scratch clone first is not
	// possible (continuations run inside), so preconditions were checked above
	step(st, 0)
	if !okAll {
		x.Truncated++
	}
	return true
}

// inlineCall splices the paths of a pure callee into the current path.
// Returns false if the call could not be inlined (executed normally then).
func (x *SPE) inlineCall(st *pathState, b *ssa.BasicBlock, idx int, call *ssa.Call, cal *ssa.Function) bool {
	return x.inlineCallBound(st, b, idx, call, cal, nil)
}

// inlineCallBound is inlineCall for a function value known on this path: a
// closure (bind holds the values of its free variables) or a plain function
// passed as an argument to a helper that was executed in place.
func (x *SPE) inlineCallBound(st *pathState, b *ssa.BasicBlock, idx int, call *ssa.Call, cal *ssa.Function, bind []*Expr) bool {
	if len(naturalLoops(cal)) > 0 || len(cal.Blocks) > 40 || len(bind) != len(cal.FreeVars) || len(call.Call.Args) != len(cal.Params) {
		return false
	}
	effects := false
	if !x.pure.isPure(cal) {
		// a helper whose only effects are its own stores (every call in it is
		// pure) is executed on the caller's memory
		if !x.pure.storesOnly(cal) {
			return false
		}
		effects = true
	}
	args := make([]*Expr, len(call.Call.Args))
	for i, a := range call.Call.Args {
		args[i] = x.val(st, a)
	}
	sub := &SPE{Fn: cal, MaxVisits: 1, Inline: x.Inline, inlineDepth: x.inlineDepth + 1, pure: x.pure, Decide: x.Decide}
	sub.ParamVal = func(p *ssa.Parameter) *Expr {
		for i, q := range cal.Params {
			if q == p && i < len(args) {
				return args[i]
			}
		}
		return nil
	}
	if len(bind) > 0 {
		sub.FreeVal = func(v *ssa.FreeVar) *Expr {
			for i, fv := range cal.FreeVars {
				if fv == v {
					return bind[i]
				}
			}
			return nil
		}
	}
	// what the callee reads is what memory holds at the call: cells stored on
	// the caller's path, and fresh names for cells invalidated by an earlier
	// impure call (never the initial value of a cell the caller has changed)
	sub.InitCell = func(addr *Expr) *Expr {
		if v, ok := st.cells[addr.String()]; ok {
			return v
		}
		if st.epochOf(addr.String()) > 0 {
			var t types.Type
			if addr.Type != nil {
				if p, ok := addr.Type.Underlying().(*types.Pointer); ok {
					t = p.Elem()
				}
			}
			return x.load(st, addr, t, addr.Pos)
		}
		if x.InitCell != nil {
			return x.InitCell(addr)
		}
		return nil
	}
	sub.Explore()
	if sub.Truncated > 0 || sub.Overflow || len(sub.Paths) == 0 || len(sub.Paths) > 64 {
		return false
	}
	for _, p := range sub.Paths {
		if p.Term != "return" {
			return false
		}
	}
	for i, p := range sub.Paths {
		t := st
		if i < len(sub.Paths)-1 {
			t = st.clone()
		}
		// contradictions with what is already known on the caller's path
		feasible := true
		for _, l := range p.Lits {
			if v, ok := t.known(l.Atom); ok && v != l.Pol {
				feasible = false
			}
		}
		if !feasible {
			continue
		}
		for _, ev := range p.Events {
			if ev.Kind == EvLits {
				if _, ok := t.litIdx[ev.Val.String()]; ok {
					continue
				}
				t.lits = append(t.lits, Lit{Atom: ev.Val, Pol: ev.Pol, Pos: ev.Pos})
				t.litIdx[ev.Val.String()] = ev.Pol
			}
			t.events = append(t.events, ev)
		}
		if effects {
			for k, v := range p.Cells {
				local := false
				for al := range p.Allocs {
					if k == al || strings.HasPrefix(k, al+".") || strings.HasPrefix(k, al+"[") {
						local = true
					}
				}
				if !local {
					t.cells[k] = v
				}
			}
		}
		switch len(p.Results) {
		case 0:
		case 1:
			t.env[call] = p.Results[0]
		default:
			t.env[call] = &Expr{Op: "tuple", Args: p.Results, Type: call.Type()}
		}
		x.instrsFrom(t, b, idx+1)
	}
	return true
}

func (st *pathState) addLit(atom *Expr, pol bool, pos token.Pos, in ssa.Instruction) {
	st.lits = append(st.lits, Lit{Atom: atom, Pol: pol, Pos: pos})
	st.litIdx[atom.String()] = pol
	st.events = append(st.events, Event{Kind: EvLits, Val: atom, Pol: pol, Pos: pos, Instr: in})
}

// known answers an atom from the literals already on the path, with a tiny
// theory of len/nil.
func (st *pathState) known(atom *Expr) (bool, bool) {
	if v, ok := st.litIdx[atom.String()]; ok {
		return v, true
	}
	// atom: X == nil ; known: len(X) == 0 false  => X == nil false
	if atom.Op == OpBin && atom.Tok == token.EQL {
		l, r := atom.Args[0], atom.Args[1]
		if r.isNilConst() {
			k := "(len(" + l.String() + ") == 0)"
			if v, ok := st.litIdx[k]; ok && !v {
				return false, true
			}
		}
		// atom: len(X) == 0 ; known: X == nil true => true
		if z, ok := r.intConst(); ok && z == 0 && l.Op == OpBuiltin && l.Name == "len" {
			k := "(" + l.Args[0].String() + " == nil)"
			if v, ok := st.litIdx[k]; ok && v {
				return true, true
			}
		}
	}
	return false, false
}

// normAtom normalises a boolean condition to (atom, polarity) with
// cond == atom iff polarity.
func normAtom(c *Expr) (*Expr, bool) {
	pol := true
	for {
		if c.Op == OpUn && c.Tok == token.NOT {
			c = c.Args[0]
			pol = !pol
			continue
		}
		if c.Op == OpBin {
			l, r := c.Args[0], c.Args[1]
			switch c.Tok {
			case token.NEQ:
				c = &Expr{Op: OpBin, Tok: token.EQL, Args: []*Expr{l, r}, Type: c.Type, Pos: c.Pos}
				pol = !pol
				continue
			case token.GTR: // l > r  ==  r < l
				c = &Expr{Op: OpBin, Tok: token.LSS, Args: []*Expr{r, l}, Type: c.Type, Pos: c.Pos}
				continue
			case token.GEQ: // l >= r == !(l < r)
				c = &Expr{Op: OpBin, Tok: token.LSS, Args: []*Expr{l, r}, Type: c.Type, Pos: c.Pos}
				pol = !pol
				continue
			case token.LEQ: // l <= r == !(r < l)
				c = &Expr{Op: OpBin, Tok: token.LSS, Args: []*Expr{r, l}, Type: c.Type, Pos: c.Pos}
				pol = !pol
				continue
			case token.EQL:
				// constant to the right, otherwise ordered by text
				if l.isConst() && !r.isConst() || (!l.isConst() && !r.isConst() && l.String() > r.String()) {
					c = &Expr{Op: OpBin, Tok: token.EQL, Args: []*Expr{r, l}, Type: c.Type, Pos: c.Pos}
				}
				// bool == true / false
				if v, ok := c.Args[1].boolConst(); ok {
					if !v {
						pol = !pol
					}
					c = c.Args[0]
					continue
				}
			case token.LSS:
				// k < len(x) - c  ==  k + c < len(x)
				if r.Op == OpBin && r.Tok == token.SUB && len(r.Args) == 2 {
					if _, isC := r.Args[1].intConst(); isC && r.Args[0].Op == OpBuiltin && r.Args[0].Name == "len" {
						c = &Expr{Op: OpBin, Tok: token.LSS, Args: []*Expr{foldBin(token.ADD, l, r.Args[1], l.Type, c.Pos), r.Args[0]}, Type: c.Type, Pos: c.Pos}
						continue
					}
				}
				// 0 < len(x)  ==  !(len(x) == 0)
				if z, ok := l.intConst(); ok && z == 0 && r.Op == OpBuiltin && (r.Name == "len" || r.Name == "cap") {
					c = &Expr{Op: OpBin, Tok: token.EQL, Args: []*Expr{r, l}, Type: c.Type, Pos: c.Pos}
					pol = !pol
					continue
				}
				// len(x) < 1  ==  len(x) == 0
				if z, ok := r.intConst(); ok && z == 1 && l.Op == OpBuiltin && (l.Name == "len" || l.Name == "cap") {
					c = &Expr{Op: OpBin, Tok: token.EQL, Args: []*Expr{l, mkConstInt(0, r.Type)}, Type: c.Type, Pos: c.Pos}
					continue
				}
			}
		}
		return c, pol
	}
}

// unslice rewrites x[c:][i] as x[i+c] (c constant, no upper bound): an
// element of a tail is the element of the whole at the shifted position.
func unslice(a, i *Expr) (*Expr, *Expr) {
	// array[:][i] = array[i]
	if a != nil && a.Op == OpSlice && len(a.Args) == 4 && a.Args[1] == nil && a.Args[2] == nil && a.Args[3] == nil && isArrayPtr(a.Args[0]) {
		return a.Args[0], i
	}
	if a != nil && a.Op == OpSlice && len(a.Args) == 4 && a.Args[1] != nil && a.Args[2] == nil && a.Args[3] == nil {
		if _, isC := a.Args[1].intConst(); isC {
			return a.Args[0], foldBin(token.ADD, i, a.Args[1], i.Type, i.Pos)
		}
		// x[e:][0] = x[e]
		if z, isC := i.intConst(); isC && z == 0 {
			return a.Args[0], a.Args[1]
		}
	}
	return a, i
}

func (x *SPE) val(st *pathState, v ssa.Value) *Expr {
	if e, ok := st.env[v]; ok {
		return e
	}
	switch v := v.(type) {
	case *ssa.Const:
		return &Expr{Op: OpConst, Const: v.Value, Type: v.Type()}
	case *ssa.Parameter:
		if x.ParamVal != nil {
			if e := x.ParamVal(v); e != nil {
				st.env[v] = e
				return e
			}
		}
		if k, ok := constParam(v); ok {
			// every caller passes this constant
			e := &Expr{Op: OpConst, Const: k.Value, Type: v.Type()}
			st.env[v] = e
			return e
		}
		e := &Expr{Op: OpParam, Name: v.Name(), Type: v.Type(), Pos: v.Pos()}
		st.env[v] = e
		return e
	case *ssa.FreeVar:
		if x.FreeVal != nil {
			if e := x.FreeVal(v); e != nil {
				st.env[v] = e
				return e
			}
		}
		e := &Expr{Op: OpFreeVar, Name: v.Name(), Type: v.Type()}
		st.env[v] = e
		return e
	case *ssa.Global:
		return &Expr{Op: OpGlobal, Name: v.Name(), Glob: v, Type: v.Type()}
	case *ssa.Function:
		return &Expr{Op: OpFunc, Fn: v, Type: v.Type()}
	case *ssa.Builtin:
		return &Expr{Op: OpFunc, Name: v.Name(), Type: v.Type()}
	}
	if a, ok := v.(*ssa.Alloc); ok {
		e := &Expr{Op: OpAlloc, Name: x.allocOrd[a], Type: a.Type(), Pos: a.Pos()}
		st.env[v] = e
		return e
	}
	// value defined outside the explored region (e.g. Start in the middle)
	name := v.Name()
	if in, ok := v.(ssa.Instruction); ok {
		_ = in
	}
	e := &Expr{Op: OpFresh, Name: name, Type: v.Type()}
	st.env[v] = e
	return e
}

func (x *SPE) load(st *pathState, addr *Expr, t types.Type, pos token.Pos) *Expr {
	k := addr.String()
	if v, ok := st.cells[k]; ok {
		// a whole value whose parts were overwritten since: the stale whole must
		// not be returned; clients inspect the parts through the address
		for c := range st.cells {
			if strings.HasPrefix(c, k+".") {
				return st.withParts(&Expr{Op: OpInit, Args: []*Expr{addr}, Type: t, Pos: pos}, k)
			}
		}
		return v
	}
	// a field of a cell that was stored as a whole
	if addr.Op == OpFieldAddr {
		if pv, ok := st.cells[addr.Args[0].String()]; ok && pv != nil {
			if v := pv.Parts[addr.Name]; v != nil {
				return v
			}
			return &Expr{Op: OpField, Args: []*Expr{pv}, Name: addr.Name, Type: t, Pos: pos}
		}
		if addr.Args[0].Op == OpFieldAddr {
			if _, ok := st.cells[addr.Args[0].Args[0].String()]; ok {
				parent := x.load(st, addr.Args[0], nil, pos)
				if parent.Op == OpField {
					return &Expr{Op: OpField, Args: []*Expr{parent}, Name: addr.Name, Type: t, Pos: pos}
				}
			}
		}
	}
	if ep := st.epochOf(k); ep > 0 {
		name, _ := stripAddr(k)
		v := &Expr{Op: OpFresh, Name: name, ID: ep, Type: t, Pos: pos}
		st.cells[k] = v
		return v
	}
	// zero value of a local allocated on this path
	if base := addrBase(addr); base != nil && base.Op == OpAlloc && st.allocs[base.String()] {
		if z := zeroOf(t); z != nil {
			return z
		}
	}
	if x.InitCell != nil {
		if v := x.InitCell(addr); v != nil {
			st.cells[k] = v
			return v
		}
	}
	return st.withParts(&Expr{Op: OpInit, Args: []*Expr{addr}, Type: t, Pos: pos}, k)
}

// withParts records, on a struct value loaded as a whole, the fields that
// were stored individually into its cell before the load.
func (st *pathState) withParts(e *Expr, k string) *Expr {
	if e.Type == nil {
		return e
	}
	if at, ok := e.Type.Underlying().(*types.Array); ok && at.Len() <= 16 {
		for i := int64(0); i < at.Len(); i++ {
			n := fmt.Sprintf("[%d]", i)
			v, ok := st.cells[k+n]
			if !ok || v == nil {
				// an element whose fields were stored one by one
				ea := &Expr{Op: OpIndexAddr, Args: []*Expr{e.Args[0], mkConstInt(i, types.Typ[types.Int])}, Type: types.NewPointer(at.Elem()), Pos: e.Pos}
				v = st.withParts(&Expr{Op: OpInit, Args: []*Expr{ea}, Type: at.Elem(), Pos: e.Pos}, k+n)
				if v.Parts == nil {
					continue
				}
			}
			if e.Parts == nil {
				e.Parts = map[string]*Expr{}
			}
			e.Parts[n] = v
		}
		return e
	}
	stt, ok := e.Type.Underlying().(*types.Struct)
	if !ok {
		return e
	}
	for i := 0; i < stt.NumFields(); i++ {
		n := stt.Field(i).Name()
		if v, ok := st.cells[k+"."+n]; ok && v != nil {
			if e.Parts == nil {
				e.Parts = map[string]*Expr{}
			}
			e.Parts[n] = v
		}
	}
	return e
}

func zeroOf(t types.Type) *Expr {
	switch u := t.Underlying().(type) {
	case *types.Basic:
		switch {
		case u.Info()&types.IsBoolean != 0:
			return &Expr{Op: OpConst, Const: constant.MakeBool(false), Type: t}
		case u.Info()&types.IsInteger != 0:
			return &Expr{Op: OpConst, Const: constant.MakeInt64(0), Type: t}
		case u.Info()&types.IsString != 0:
			return &Expr{Op: OpConst, Const: constant.MakeString(""), Type: t}
		}
	case *types.Pointer, *types.Slice, *types.Map, *types.Chan, *types.Interface, *types.Signature:
		return &Expr{Op: OpConst, Const: nil, Type: t}
	}
	return nil
}

// addrBase strips fieldaddr/indexaddr to the base address expression.
func addrBase(a *Expr) *Expr {
	for a != nil {
		switch a.Op {
		case OpFieldAddr, OpIndexAddr:
			a = a.Args[0]
		default:
			return a
		}
	}
	return nil
}

func isPointerDeref(e *Expr) bool {
	// An address computed from a pointer *value* (not from &local/&global).
	switch e.Op {
	case OpAlloc, OpGlobal, OpFieldAddr, OpIndexAddr:
		return false
	}
	return true
}

func (x *SPE) instr(st *pathState, in ssa.Instruction) {
	switch in := in.(type) {
	case *ssa.Alloc:
		e := &Expr{Op: OpAlloc, Name: x.allocOrd[in], Type: in.Type(), Pos: in.Pos()}
		st.env[in] = e
		st.allocs[e.String()] = true
		// a re-executed alloc is a new cell: forget old contents
		pre := e.String()
		for k := range st.cells {
			if k == pre || strings.HasPrefix(k, pre+".") || strings.HasPrefix(k, pre+"[") {
				delete(st.cells, k)
			}
		}
	case *ssa.BinOp:
		e := foldBin(in.Op, x.val(st, in.X), x.val(st, in.Y), in.Type(), in.Pos())
		if e.Op == OpBin && x.Decide != nil {
			switch in.Op {
			case token.EQL, token.NEQ, token.LSS, token.LEQ, token.GTR, token.GEQ:
				atom, pol := normAtom(e)
				if v, ok := st.known(atom); ok {
					e = mkConstBool(v == pol)
				} else if v, ok := x.Decide(atom, st); ok {
					e = mkConstBool(v == pol)
				}
			}
		}
		st.env[in] = e
	case *ssa.UnOp:
		a := x.val(st, in.X)
		switch in.Op {
		case token.MUL:
			if isPointerDeref(a) {
				st.events = append(st.events, Event{Kind: EvDeref, Addr: a, Pos: in.Pos(), Instr: in})
			}
			st.env[in] = x.load(st, a, in.Type(), in.Pos())
		case token.ARROW:
			n := st.execs[in]
			st.execs[in]++
			e := &Expr{Op: OpBuiltin, Name: "recv", Args: []*Expr{a}, Type: in.Type(), ID: n}
			if n > 0 {
				e.Name = "recv" + strings.Repeat("'", n)
			}
			st.env[in] = e
			st.events = append(st.events, Event{Kind: EvCall, Val: e, Pos: in.Pos(), Instr: in})
		case token.NOT:
			if v, ok := a.boolConst(); ok {
				st.env[in] = mkConstBool(!v)
			} else {
				st.env[in] = &Expr{Op: OpUn, Tok: in.Op, Args: []*Expr{a}, Type: in.Type()}
			}
		case token.SUB:
			if v, ok := a.intConst(); ok {
				st.env[in] = mkConstInt(-v, in.Type())
			} else {
				st.env[in] = &Expr{Op: OpUn, Tok: in.Op, Args: []*Expr{a}, Type: in.Type()}
			}
		default:
			st.env[in] = &Expr{Op: OpUn, Tok: in.Op, Args: []*Expr{a}, Type: in.Type()}
		}
	case *ssa.Call:
		st.env[in] = x.call(st, in, &in.Call, EvCall)
	case *ssa.Defer:
		x.call(st, in, &in.Call, EvDefer)
	case *ssa.Go:
		x.call(st, in, &in.Call, EvGo)
	case *ssa.ChangeType:
		st.env[in] = &Expr{Op: OpConvert, Name: "changetype", Args: []*Expr{x.val(st, in.X)}, Type: in.Type()}
	case *ssa.ChangeInterface:
		st.env[in] = &Expr{Op: OpConvert, Name: "iface", Args: []*Expr{x.val(st, in.X)}, Type: in.Type()}
	case *ssa.MakeInterface:
		st.env[in] = &Expr{Op: OpConvert, Name: "iface", Args: []*Expr{x.val(st, in.X)}, Type: in.Type()}
	case *ssa.Convert:
		a := x.val(st, in.X)
		if a.isConst() && a.Const != nil && (a.Const.Kind() == constant.Int || a.Const.Kind() == constant.Bool) {
			if b, ok := in.Type().Underlying().(*types.Basic); ok && b.Info()&(types.IsInteger|types.IsBoolean) != 0 {
				st.env[in] = &Expr{Op: OpConst, Const: a.Const, Type: in.Type()}
				break
			}
		}
		st.env[in] = &Expr{Op: OpConvert, Name: "convert", Args: []*Expr{a}, Type: in.Type(), Pos: in.Pos()}
	case *ssa.SliceToArrayPointer:
		st.env[in] = &Expr{Op: OpConvert, Name: "convert", Args: []*Expr{x.val(st, in.X)}, Type: in.Type()}
	case *ssa.Extract:
		t := x.val(st, in.Tuple)
		if t.Op == "tuple" && in.Index < len(t.Args) {
			st.env[in] = t.Args[in.Index]
			break
		}
		st.env[in] = &Expr{Op: OpExtract, Args: []*Expr{t}, ID: in.Index, Type: in.Type()}
	case *ssa.Field:
		a := x.val(st, in.X)
		fld := in.X.Type().Underlying().(*types.Struct).Field(in.Field)
		if v := a.Parts[fld.Name()]; v != nil {
			st.env[in] = v
			break
		}
		st.env[in] = &Expr{Op: OpField, Args: []*Expr{a}, Name: fld.Name(), Type: in.Type()}
	case *ssa.FieldAddr:
		a := x.val(st, in.X)
		fld := in.X.Type().Underlying().(*types.Pointer).Elem().Underlying().(*types.Struct).Field(in.Field)
		if isPointerDeref(a) {
			st.events = append(st.events, Event{Kind: EvDeref, Addr: a, Pos: in.Pos(), Instr: in})
		}
		st.env[in] = &Expr{Op: OpFieldAddr, Args: []*Expr{a}, Name: fld.Name(), Type: in.Type(), Pos: in.Pos()}
	case *ssa.Index:
		a, i := x.val(st, in.X), x.val(st, in.Index)
		a, i = unslice(a, i)
		st.events = append(st.events, Event{Kind: EvIndex, Addr: a, Val: i, Pos: in.Pos(), Instr: in})
		if k, ok := i.intConst(); ok {
			if v := a.Parts[fmt.Sprintf("[%d]", k)]; v != nil {
				st.env[in] = v
				break
			}
		}
		st.env[in] = &Expr{Op: OpIndex, Args: []*Expr{a, i}, Type: in.Type()}
	case *ssa.IndexAddr:
		a, i := x.val(st, in.X), x.val(st, in.Index)
		a, i = unslice(a, i)
		st.events = append(st.events, Event{Kind: EvIndex, Addr: a, Val: i, Pos: in.Pos(), Instr: in})
		st.env[in] = &Expr{Op: OpIndexAddr, Args: []*Expr{a, i}, Type: in.Type(), Pos: in.Pos()}
	case *ssa.Lookup:
		mv, kv := x.val(st, in.X), x.val(st, in.Index)
		// m[k] with k the key a range over m delivered on this path, and m not
		// written since: the value that iteration delivered
		if !in.CommaOk && kv.Op == OpExtract && kv.ID == 1 && kv.Args[0].Op == OpNext && len(kv.Args[0].Args) > 0 && kv.Args[0].Args[0].Op == OpRange && len(kv.Args[0].Args[0].Args) > 0 && kv.Args[0].Args[0].Args[0].String() == mv.String() {
			written := false
			for _, ev := range st.events {
				if ev.Kind == EvMapUpd && ev.Addr != nil && ev.Addr.String() == mv.String() {
					written = true
				}
				if ev.Kind == EvCall && ev.Val != nil && ev.Val.Op == OpBuiltin && ev.Val.Name == "delete" && len(ev.Val.Args) > 0 && ev.Val.Args[0].String() == mv.String() {
					written = true
				}
			}
			if !written {
				st.env[in] = &Expr{Op: OpExtract, Args: []*Expr{kv.Args[0]}, ID: 2, Type: in.Type()}
				break
			}
		}
		st.env[in] = &Expr{Op: OpLookup, Args: []*Expr{mv, kv}, Type: in.Type()}
	case *ssa.Slice:
		o := func(v ssa.Value) *Expr {
			if v == nil {
				return nil
			}
			return x.val(st, v)
		}
		e := &Expr{Op: OpSlice, Args: []*Expr{x.val(st, in.X), o(in.Low), o(in.High), o(in.Max)}, Type: in.Type(), Pos: in.Pos()}
		// a slice of a slice of an array is a slice of the array:
		// arr[a:b][c:d] = arr[a+c : a+d], arr[a:b][c:] = arr[a+c : b]
		if base := e.Args[0]; base.Op == OpSlice && len(base.Args) == 4 && base.Args[3] == nil && e.Args[3] == nil && isArrayPtr(base.Args[0]) && base.Args[2] != nil {
			intT := types.Typ[types.Int]
			a := base.Args[1]
			if a == nil {
				a = mkConstInt(0, intT)
			}
			lo, hi := a, base.Args[2]
			if e.Args[1] != nil {
				lo = foldBin(token.ADD, a, e.Args[1], intT, in.Pos())
			}
			if e.Args[2] != nil {
				hi = foldBin(token.ADD, a, e.Args[2], intT, in.Pos())
			}
			e = &Expr{Op: OpSlice, Args: []*Expr{base.Args[0], lo, hi, nil}, Type: in.Type(), Pos: in.Pos()}
		}
		st.events = append(st.events, Event{Kind: EvSlice, Addr: e.Args[0], Val: e, Pos: in.Pos(), Instr: in})
		st.env[in] = e
	case *ssa.MakeSlice:
		st.env[in] = &Expr{Op: OpMakeSlice, Args: []*Expr{x.val(st, in.Len), x.val(st, in.Cap)}, Type: in.Type(), Pos: in.Pos()}
	case *ssa.MakeMap:
		st.env[in] = &Expr{Op: OpMakeMap, Type: in.Type(), Pos: in.Pos(), ID: st.execs[in]}
		st.execs[in]++
	case *ssa.MakeChan:
		st.env[in] = &Expr{Op: OpMakeChan, Type: in.Type(), Pos: in.Pos()}
	case *ssa.MakeClosure:
		e := &Expr{Op: OpClosure, Fn: in.Fn.(*ssa.Function), Type: in.Type(), Pos: in.Pos()}
		for _, b := range in.Bindings {
			e.Args = append(e.Args, x.val(st, b))
		}
		st.env[in] = e
	case *ssa.MapUpdate:
		st.events = append(st.events, Event{Kind: EvMapUpd, Addr: x.val(st, in.Map), Key: x.val(st, in.Key), Val: x.val(st, in.Value), Pos: in.Pos(), Instr: in})
		// a map made on this path and filled with constant keys is a table:
		// its entries are remembered (see the Lookup fork in instrsFrom)
		if m := x.val(st, in.Map); m.Op == OpMakeMap {
			k := x.val(st, in.Key)
			mk := "map:" + m.String()
			if k.isConst() && k.Const != nil && st.cells[mk+"#open"] == nil {
				st.cells[mk+"["+k.Const.ExactString()+"]"] = x.val(st, in.Value)
				n := int64(0)
				if c := st.cells[mk+"#n"]; c != nil {
					n, _ = c.intConst()
				}
				st.cells[fmt.Sprintf("%s#key%d", mk, n)] = k
				st.cells[mk+"#n"] = mkConstInt(n+1, types.Typ[types.Int])
			} else {
				st.cells[mk+"#open"] = mkConstBool(true) // a computed key: no longer a table
			}
		}
	case *ssa.Store:
		a, v := x.val(st, in.Addr), x.val(st, in.Val)
		if isPointerDeref(a) {
			st.events = append(st.events, Event{Kind: EvDeref, Addr: a, Pos: in.Pos(), Instr: in})
		}
		st.events = append(st.events, Event{Kind: EvStore, Addr: a, Val: v, Pos: in.Pos(), Instr: in})
		k := a.String()
		// a store to a whole cell invalidates its parts
		for c := range st.cells {
			if strings.HasPrefix(c, k+".") || strings.HasPrefix(c, k+"[") {
				delete(st.cells, c)
			}
		}
		st.cells[k] = v
	case *ssa.Range:
		st.nRange++
		st.env[in] = &Expr{Op: OpRange, Args: []*Expr{x.val(st, in.X)}, Type: in.Type(), Pos: in.Pos(), ID: st.nRange}
	case *ssa.Next:
		n := st.execs[in]
		st.execs[in]++
		st.env[in] = &Expr{Op: OpNext, Args: []*Expr{x.val(st, in.Iter)}, ID: n, Type: in.Type()}
	case *ssa.TypeAssert:
		st.env[in] = &Expr{Op: OpTypeAssert, Args: []*Expr{x.val(st, in.X)}, Type: in.AssertedType, ID: b2i(in.CommaOk)}
	case *ssa.Select:
		n := st.execs[in]
		st.execs[in]++
		st.env[in] = &Expr{Op: OpSel, Type: in.Type(), ID: n}
		st.events = append(st.events, Event{Kind: EvCall, Val: st.env[in], Pos: in.Pos(), Instr: in})
	case *ssa.Send:
		st.events = append(st.events, Event{Kind: EvSend, Addr: x.val(st, in.Chan), Val: x.val(st, in.X), Pos: in.Pos(), Instr: in})
	case *ssa.RunDefers, *ssa.DebugRef:
	default:
		if v, ok := in.(ssa.Value); ok {
			st.env[v] = &Expr{Op: OpFresh, Name: v.Name(), Type: v.Type()}
		}
	}
}

func b2i(b bool) int {
	if b {
		return 1
	}
	return 0
}

func (x *SPE) call(st *pathState, in ssa.Instruction, c *ssa.CallCommon, kind string) *Expr {
	var e *Expr
	var t types.Type
	if v, ok := in.(ssa.Value); ok {
		t = v.Type()
	}
	n := st.execs[in]
	st.execs[in]++
	var args []*Expr
	for _, a := range c.Args {
		args = append(args, x.val(st, a))
	}
	pure := false
	switch {
	case c.IsInvoke():
		recv := x.val(st, c.Value)
		e = &Expr{Op: OpInvoke, Name: c.Method.Name(), Method: c.Method, Args: append([]*Expr{recv}, args...), Type: t, Pos: in.Pos()}
	default:
		switch f := c.Value.(type) {
		case *ssa.Builtin:
			e = &Expr{Op: OpBuiltin, Name: f.Name(), Args: args, Type: t, Pos: in.Pos()}
			switch f.Name() {
			case "len", "cap", "min", "max", "real", "imag", "complex":
				pure = true
				if f.Name() == "len" && len(args) == 1 {
					if l := constLen(args[0]); l >= 0 {
						e = mkConstInt(l, t)
					} else if sl := args[0]; sl.Op == OpSlice && len(sl.Args) == 4 && sl.Args[2] != nil && sl.Args[3] == nil && isArrayPtr(sl.Args[0]) {
						// len(array[a:b]) = b - a
						if sl.Args[1] == nil {
							e = sl.Args[2]
						} else {
							e = foldBin(token.SUB, sl.Args[2], sl.Args[1], t, in.Pos())
						}
					} else if sl := args[0]; sl.Op == OpSlice && len(sl.Args) == 4 && sl.Args[1] == nil && sl.Args[2] == nil && sl.Args[3] == nil && isArrayPtr(sl.Args[0]) {
						// len(array[:]) = the array's length
						if at, ok := sl.Args[0].Type.Underlying().(*types.Pointer).Elem().Underlying().(*types.Array); ok {
							e = mkConstInt(at.Len(), t)
						}
					} else if sl := args[0]; sl.Op == OpSlice && len(sl.Args) == 4 && sl.Args[1] != nil && sl.Args[2] == nil && sl.Args[3] == nil {
						// len(x[c:]) = len(x) - c
						if _, isC := sl.Args[1].intConst(); isC {
							inner := &Expr{Op: OpBuiltin, Name: "len", Args: []*Expr{sl.Args[0]}, Type: t, Pos: in.Pos()}
							e = foldBin(token.SUB, inner, sl.Args[1], t, in.Pos())
						}
					}
				}
			case "append":
				pure = true // value semantics for our purposes; the store of the result is the event
				if len(args) == 2 && args[1].isNilConst() {
					e = args[0]
				}
			}
		case *ssa.Function:
			e = &Expr{Op: OpCall, Fn: f, Args: append([]*Expr{{Op: OpFunc, Fn: f}}, args...), Type: t, Pos: in.Pos()}
			pure = x.pure.isPure(f)
		default:
			callee := x.val(st, c.Value)
			e = &Expr{Op: OpCall, Args: append([]*Expr{callee}, args...), Type: t, Pos: in.Pos()}
			if callee.Op == OpClosure {
				e.Fn = nil
			}
		}
	}
	if e.Op != OpConst && n > 0 && !pure {
		e.ID = n
		e.str = e.render(nil) + strings.Repeat("'", n)
	}
	if !pure && e.Op != OpConst {
		x.havoc(st, e)
		s := e.String()
		if prev, ok := st.impure[s]; ok && prev != in {
			st.ambig = s
		}
		st.impure[s] = in
	}
	if e.Op != OpConst {
		st.events = append(st.events, Event{Kind: kind, Val: e, Pos: in.Pos(), Instr: in})
	}
	return e
}

// havoc forgets the cells reachable through the pointer arguments of an
// impure call: later loads yield fresh, versioned values.
func (x *SPE) havoc(st *pathState, call *Expr) {
	var bases []string
	args := call.Args
	if call.Op == OpCall && len(args) > 0 {
		if args[0].Op == OpClosure {
			args = append(append([]*Expr{}, args[1:]...), args[0].Args...)
		} else {
			args = args[1:]
		}
	}
	for _, a := range args {
		if a == nil || a.Type == nil {
			continue
		}
		switch a.Type.Underlying().(type) {
		case *types.Pointer, *types.Interface, *types.Signature:
		default:
			continue
		}
		b := a
		for b.Op == OpConvert {
			b = b.Args[0]
		}
		if b.Op == OpClosure {
			for _, fv := range b.Args {
				if k := addrBase(fv); k != nil && (k.Op == OpAlloc || k.Op == OpParam) {
					bases = append(bases, k.String())
				}
			}
			continue
		}
		base := addrBase(b)
		if base == nil {
			continue
		}
		switch base.Op {
		case OpAlloc, OpParam, OpFreeVar:
			bases = append(bases, b.String())
		}
	}
	if len(bases) == 0 {
		return
	}
	if st.epochs == nil {
		st.epochs = map[string]int{}
	}
	for _, b := range bases {
		key, _ := stripAddr(b)
		st.epochs[key]++
		for c := range st.cells {
			ck, _ := stripAddr(c)
			if ck == key || strings.HasPrefix(ck, key+".") || strings.HasPrefix(ck, key+"[") {
				delete(st.cells, c)
			}
		}
	}
}

// epochOf returns the havoc count applying to the cell at addr.
func (st *pathState) epochOf(addr string) int {
	k, _ := stripAddr(addr)
	n := 0
	for b, e := range st.epochs {
		if k == b || strings.HasPrefix(k, b+".") || strings.HasPrefix(k, b+"[") {
			n += e
		}
	}
	return n
}

// constLen returns the statically known length of e, or -1.
func constLen(e *Expr) int64 {
	switch e.Op {
	case OpConst:
		if e.Const != nil && e.Const.Kind() == constant.String {
			return int64(len(constant.StringVal(e.Const)))
		}
	case OpMakeSlice:
		if v, ok := e.Args[0].intConst(); ok {
			return v
		}
	}
	return -1
}

func foldBin(op token.Token, l, r *Expr, t types.Type, pos token.Pos) *Expr {
	if l.isConst() && r.isConst() {
		if l.Const != nil && r.Const != nil {
			switch op {
			case token.EQL, token.NEQ, token.LSS, token.LEQ, token.GTR, token.GEQ:
				if l.Const.Kind() == r.Const.Kind() {
					return mkConstBool(constant.Compare(l.Const, op, r.Const))
				}
			case token.ADD, token.SUB, token.MUL, token.AND, token.OR, token.XOR, token.LAND, token.LOR:
				if l.Const.Kind() == r.Const.Kind() && (l.Const.Kind() == constant.Int || l.Const.Kind() == constant.String && op == token.ADD) {
					return &Expr{Op: OpConst, Const: constant.BinaryOp(l.Const, op, r.Const), Type: t}
				}
			}
		} else if op == token.EQL || op == token.NEQ {
			// nil comparisons
			same := l.Const == nil && r.Const == nil
			return mkConstBool(same == (op == token.EQL))
		}
	}
	// (x + "a") + "b" is x + "ab": string concatenation is associative
	if op == token.ADD && r.Op == OpConst && r.Const != nil && r.Const.Kind() == constant.String &&
		l.Op == OpBin && l.Tok == token.ADD && len(l.Args) == 2 {
		if lr := l.Args[1]; lr.Op == OpConst && lr.Const != nil && lr.Const.Kind() == constant.String {
			return &Expr{Op: OpBin, Tok: token.ADD, Args: []*Expr{l.Args[0], {Op: OpConst, Const: constant.BinaryOp(lr.Const, token.ADD, r.Const), Type: r.Type}}, Type: t, Pos: pos}
		}
	}
	// string(a) == string(b) on byte slices is bytes.Equal(a, b) (that is how
	// bytes.Equal is defined); a string constant compared with string(a) is
	// bytes.Equal(a, []byte(const))
	if op == token.EQL || op == token.NEQ {
		byteSrc := func(e *Expr) *Expr {
			if e.Op == OpConvert && e.Name == "convert" && len(e.Args) == 1 && e.Args[0].Type != nil && isStringT(e.Type) {
				if sl, ok := e.Args[0].Type.Underlying().(*types.Slice); ok {
					if bt, ok := sl.Elem().Underlying().(*types.Basic); ok && bt.Kind() == types.Byte {
						return e.Args[0]
					}
				}
			}
			return nil
		}
		asBytes := func(e *Expr) *Expr {
			if b := byteSrc(e); b != nil {
				return b
			}
			if e.Op == OpConst && e.Const != nil && e.Const.Kind() == constant.String {
				return &Expr{Op: OpConvert, Name: "convert", Args: []*Expr{e}, Type: types.NewSlice(types.Typ[types.Byte])}
			}
			return nil
		}
		if (byteSrc(l) != nil) != (byteSrc(r) != nil) {
			// one side a byte slice, the other a string constant
			l2, r2 := asBytes(l), asBytes(r)
			if l2 != nil && r2 != nil {
				if byteSrc(l) == nil {
					l2, r2 = r2, l2
				}
				if f := stdFunc("bytes", "Equal"); f != nil {
					call := &Expr{Op: OpCall, Fn: f, Args: []*Expr{{Op: OpFunc, Fn: f}, l2, r2}, Type: t, Pos: pos}
					if op == token.EQL {
						return call
					}
					return &Expr{Op: OpUn, Tok: token.NOT, Args: []*Expr{call}, Type: t}
				}
			}
		}
		if a, bb := byteSrc(l), byteSrc(r); a != nil && bb != nil {
			if f := stdFunc("bytes", "Equal"); f != nil {
				call := &Expr{Op: OpCall, Fn: f, Args: []*Expr{{Op: OpFunc, Fn: f}, a, bb}, Type: t, Pos: pos}
				if op == token.EQL {
					return call
				}
				return &Expr{Op: OpUn, Tok: token.NOT, Args: []*Expr{call}, Type: t}
			}
		}
	}
	// x+0, 0+x, x-0
	if op == token.ADD || op == token.SUB {
		if z, ok := r.intConst(); ok && z == 0 && !l.isConst() {
			return l
		}
		if z, ok := l.intConst(); ok && z == 0 && op == token.ADD && !r.isConst() {
			return r
		}
	}
	// pointer-ish values known to be non-nil compared with nil
	if op == token.EQL || op == token.NEQ {
		var o *Expr
		if l.isNilConst() {
			o = r
		} else if r.isNilConst() {
			o = l
		}
		if o != nil && nonNil(o) {
			return mkConstBool(op == token.NEQ)
		}
		if l.String() == r.String() && !isFloatType(l.Type) {
			return mkConstBool(op == token.EQL)
		}
	}
	return &Expr{Op: OpBin, Tok: op, Args: []*Expr{l, r}, Type: t, Pos: pos}
}

func isStringT(t types.Type) bool {
	if t == nil {
		return false
	}
	b, ok := t.Underlying().(*types.Basic)
	return ok && b.Info()&types.IsString != 0
}

func isFloatType(t types.Type) bool {
	if t == nil {
		return false
	}
	b, ok := t.Underlying().(*types.Basic)
	return ok && b.Info()&(types.IsFloat|types.IsComplex) != 0
}

func nonNil(e *Expr) bool {
	switch e.Op {
	case OpAlloc, OpGlobal, OpFieldAddr, OpIndexAddr, OpMakeSlice, OpMakeMap, OpMakeChan, OpClosure, OpFunc:
		return true
	case OpBuiltin:
		// append(x, elems...) with at least one element is non-nil
		return e.Name == "append" && len(e.Args) == 2 && !e.Args[1].isNilConst()
	case OpConvert:
		if e.Name == "iface" {
			// an interface holding a typed value is non-nil
			return true
		}
	case OpCall:
		// constructors of errors never return nil
		return e.calleeIs("fmt", "Errorf") || e.calleeIs("errors", "New")
	}
	return false
}

// ---------------------------------------------------------------------------
// purity of module-local and library functions (for call identity only)

type purity struct {
	memo map[*ssa.Function]int // 0 unknown, 1 pure, 2 impure, 3 in progress
}

var globalPurity = &purity{memo: map[*ssa.Function]int{}}

var purePkgs = map[string]bool{
	"bytes": true, "strings": true, "strconv": true, "unicode": true, "unicode/utf8": true,
	"path": true, "math": true, "errors": true, "net/url": true, "html": true,
}

func (p *purity) isPure(f *ssa.Function) bool {
	switch p.memo[f] {
	case 1:
		return true
	case 2:
		return false
	case 3:
		return true // optimistic on recursion
	}
	p.memo[f] = 3
	r := p.compute(f)
	if r {
		p.memo[f] = 1
	} else {
		p.memo[f] = 2
	}
	return r
}

// storesOnly: module function without loops of its own concern here, whose
// effects are limited to its own Store/MapUpdate instructions: every call it
// makes is pure.
func (p *purity) storesOnly(f *ssa.Function) bool {
	if f.Blocks == nil || f.Pkg == nil || !strings.HasPrefix(f.Pkg.Pkg.Path(), modPath) {
		return false
	}
	for _, b := range f.Blocks {
		for _, in := range b.Instrs {
			switch in := in.(type) {
			case *ssa.Send, *ssa.Go, *ssa.Select, *ssa.Defer:
				return false
			case *ssa.UnOp:
				if in.Op == token.ARROW {
					return false
				}
			case *ssa.Call:
				if in.Call.IsInvoke() {
					return false
				}
				switch c := in.Call.Value.(type) {
				case *ssa.Builtin:
					switch c.Name() {
					case "len", "cap", "append", "min", "max", "string":
					default:
						return false
					}
				case *ssa.Function:
					if !p.isPure(c) {
						return false
					}
				default:
					return false
				}
			}
		}
	}
	return true
}

// knownFuncs: the functions of the pinned tree (refs/known_funcs.txt). The
// rules name functions of this vocabulary; a module function outside it is a
// helper introduced later and is looked through (inlined) by the path
// explorer, so that extracting lines into a helper is not a change.
var knownFuncs map[string]bool

// isArrayPtr: e is the address of an array (the operand of arr[a:b]).
func isArrayPtr(e *Expr) bool {
	if e == nil || e.Type == nil {
		return false
	}
	p, ok := e.Type.Underlying().(*types.Pointer)
	if !ok {
		return false
	}
	_, isArr := p.Elem().Underlying().(*types.Array)
	return isArr
}

// isAccessor: a single-block function that only reads (field addresses,
// loads, slices, arithmetic) and returns: it has no behaviour of its own, and
// an analysis of its caller may look through it.
func isAccessor(f *ssa.Function) bool {
	if f == nil || len(f.Blocks) != 1 || f.Pkg == nil || !strings.HasPrefix(f.Pkg.Pkg.Path(), modPath) {
		return false
	}
	for _, in := range f.Blocks[0].Instrs {
		switch in := in.(type) {
		case *ssa.FieldAddr, *ssa.IndexAddr, *ssa.Slice, *ssa.BinOp, *ssa.Return, *ssa.DebugRef, *ssa.Field, *ssa.Convert, *ssa.ChangeType:
		case *ssa.UnOp:
			if in.Op == token.ARROW {
				return false
			}
		case *ssa.Call:
			b, ok := in.Call.Value.(*ssa.Builtin)
			if !ok || (b.Name() != "len" && b.Name() != "cap") {
				return false
			}
		default:
			return false
		}
	}
	return true
}

func defaultInline(f *ssa.Function) bool {
	if knownFuncs == nil || f.Pkg == nil || f.Parent() != nil || !strings.HasPrefix(f.Pkg.Pkg.Path(), modPath) {
		return false
	}
	return !knownFuncs[normRecv(funcKey(f))]
}

// normRecv: a method is the same vocabulary entry whether its receiver is a
// pointer or a value.
func normRecv(k string) string { return strings.Replace(k, "(*", "(", 1) }

func (p *purity) compute(f *ssa.Function) bool {
	pkg := ""
	if f.Pkg != nil {
		pkg = f.Pkg.Pkg.Path()
	} else if o := f.Object(); o != nil && o.Pkg() != nil {
		pkg = o.Pkg().Path()
	}
	if !strings.HasPrefix(pkg, modPath) {
		if purePkgs[pkg] {
			return true
		}
		if pkg == "regexp" {
			return true // matching methods; Compile* allocate but are deterministic
		}
		if pkg == "fmt" {
			n := f.Name()
			return n == "Sprintf" || n == "Errorf" || n == "Sprint" || n == "Sprintln"
		}
		return false
	}
	if f.Blocks == nil {
		return false
	}
	local := map[ssa.Value]bool{}
	var isLocal func(v ssa.Value) bool
	isLocal = func(v ssa.Value) bool {
		switch v := v.(type) {
		case *ssa.Alloc:
			return true
		case *ssa.FieldAddr:
			return isLocal(v.X)
		case *ssa.IndexAddr:
			return isLocal(v.X)
		case *ssa.MakeSlice, *ssa.MakeMap:
			return true
		}
		return local[v]
	}
	for _, b := range f.Blocks {
		for _, in := range b.Instrs {
			switch in := in.(type) {
			case *ssa.Store:
				if !isLocal(in.Addr) {
					return false
				}
			case *ssa.MapUpdate:
				if !isLocal(in.Map) {
					return false
				}
			case *ssa.Send, *ssa.Go, *ssa.Select:
				return false
			case *ssa.UnOp:
				if in.Op == token.ARROW {
					return false
				}
			case *ssa.Call:
				if in.Call.IsInvoke() {
					return false
				}
				switch c := in.Call.Value.(type) {
				case *ssa.Builtin:
					switch c.Name() {
					case "len", "cap", "append", "min", "max", "copy", "string":
						if c.Name() == "copy" && !isLocal(in.Call.Args[0]) {
							return false
						}
					default:
						return false
					}
				case *ssa.Function:
					if !p.isPure(c) {
						return false
					}
				default:
					return false
				}
			case *ssa.Defer:
				return false
			}
		}
	}
	return true
}

// ---------------------------------------------------------------------------
// helpers shared by the engines

// sortedKeys returns the sorted keys of a string-keyed map.
func sortedKeysOf[V any](m map[string]V) []string {
	var ks []string
	for k := range m {
		ks = append(ks, k)
	}
	sort.Strings(ks)
	return ks
}

// debugDump prints the paths of a function (developer aid).
func debugDump(L *Loaded, spec, initSpec string) {
	parts := strings.Split(spec, ".")
	var fn *ssa.Function
	switch len(parts) {
	case 2:
		fn = L.Func(parts[0], "", parts[1])
	case 3:
		fn = L.Func(parts[0], parts[1], parts[2])
	}
	if fn == nil {
		// anonymous functions: pkg.Outer$1
		for _, p := range []string{"stack", "internal", "stack/webstack"} {
			for _, f := range L.SrcFuncs(p) {
				if strings.HasSuffix(funcKey(f), spec) {
					fn = f
				}
			}
		}
	}
	if fn == nil {
		fmt.Println("function not found:", spec)
		return
	}
	exprHome = fn.Pkg.Pkg
	inits := map[string]string{}
	for _, kv := range strings.Split(initSpec, ",") {
		if i := strings.Index(kv, "="); i > 0 {
			inits[kv[:i]] = kv[i+1:]
		}
	}
	x := &SPE{Fn: fn}
	x.InitCell = func(addr *Expr) *Expr {
		s, _ := stripAddr(addr.String())
		if v, ok := inits[s]; ok {
			var n int64
			fmt.Sscan(v, &n)
			t := addr.Type
			if p, ok := t.(*types.Pointer); ok {
				t = p.Elem()
			}
			return mkConstInt(n, t)
		}
		return nil
	}
	x.Explore()
	fmt.Printf("%s: %d paths, %d truncated\n", funcKey(fn), len(x.Paths), x.Truncated)
	for i, p := range x.Paths {
		fmt.Printf("--- path %d blocks=%v\n", i, p.Blocks)
		for _, e := range p.Events {
			fmt.Printf("    %s   (%s)\n", e.String(), L.Pos(e.Pos))
		}
		fmt.Printf("  => %s\n", p.String())
		if p.Ambiguous != "" {
			fmt.Printf("  AMBIGUOUS: %s\n", p.Ambiguous)
		}
	}
}
