#!/bin/bash
# usage: run.sh <property-id> [quick|thorough]
# Decides one property from the source of /repo's current working tree.
# thorough: three build configurations, deeper loop bounds, and the checker's
# own positive examples (every stored variant that breaks this property must
# be reported on a scratch copy; /repo itself is never modified).
cd "$(dirname "$0")" || exit 2
export GOFLAGS=-mod=mod GOPROXY=off GOSUMDB=off GOTOOLCHAIN=local GOCACHE=${GOCACHE:-/root/.cache/go-build}
unset GOWORK
if [ ! -x bin/ppcheck ] || [ -n "$(find ppcheck -name '*.go' -newer bin/ppcheck 2>/dev/null | head -1)" ]; then
  (cd ppcheck && go build -o ../bin/ppcheck .) || { echo "build of ppcheck failed"; exit 2; }
fi
P="$1"; TIER="${2:-${VERIF_TIER:-quick}}"; REPO="${PPCHECK_REPO:-/repo}"
bin/ppcheck -p "$P" -tier "$TIER" -verif "$(pwd)" -repo "$REPO"
rc=$?
if [ "$TIER" != thorough ] || [ $rc -ne 0 ]; then exit $rc; fi
# --- positive examples (vacuity guard): only meaningful on the unmodified tree
if ! git -C "$REPO" diff --quiet HEAD -- . 2>/dev/null; then
  echo "SELFTEST skipped: $REPO has local modifications (variants are diffs against HEAD)"; exit 0
fi
n=0; fired=0; missed=""
for d in mutants/* seeded/* benign/*; do
  [ -f "$d/meta.json" ] || continue
  props=$(python3 -c "import json,sys;m=json.load(open('$d/meta.json'));print(m.get('prop') or m.get('breaks_property') or '')")
  kind=$(python3 -c "import json,sys;m=json.load(open('$d/meta.json'));print(m.get('kind','break'))")
  echo " $props " | grep -q " $P " || continue
  S=$(mktemp -d /dev/shm/ppself.XXXXXX)
  git -C "$REPO" archive --format=tar HEAD | tar -x -C "$S"
  if ! (cd "$S" && git init -q . && git apply --whitespace=nowarn "$OLDPWD/$d/patch.diff" 2>/dev/null); then rm -rf "$S"; continue; fi
  out=$(bin/ppcheck -repo "$S" -verif "$(pwd)" -p "$P" -no-evidence 2>&1)
  rm -rf "$S"
  n=$((n+1))
  if [ "$kind" = break ]; then
    if echo "$out" | grep -q "^VIOLATION property=$P"; then fired=$((fired+1)); else missed="$missed $(basename $d)"; fi
  else
    if echo "$out" | grep -q "^VIOLATION property=$P"; then missed="$missed $(basename $d)(false-alarm)"; else fired=$((fired+1)); fi
  fi
done
python3 - "$P" "$n" "$fired" "$missed" <<'PY'
import json,sys
p,n,f,missed=sys.argv[1],int(sys.argv[2]),int(sys.argv[3]),sys.argv[4].split()
path='evidence/%s.json'%p
e=json.load(open(path))
e['coverage']['selftest']={'variants_of_this_property':n,'behaved_as_expected':f,'unexpected':missed,'what':'stored variants (mutants/, seeded/, benign/) applied to a scratch copy: breaking ones must be reported, behaviour-preserving ones must stay silent'}
json.dump(e,open(path,'w'),indent=1)
PY
echo "SELFTEST property=$P variants=$n as-expected=$fired unexpected:$missed"
[ -z "$missed" ] || { echo "SELFTEST-FAILED: the checker did not behave as expected on its own positive examples"; exit 2; }
exit 0
