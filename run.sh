#!/bin/bash
# usage: run.sh <property-id> [quick|thorough]
# Decides one property from the source of /repo's current working tree.
cd "$(dirname "$0")" || exit 2
export GOFLAGS=-mod=mod GOPROXY=off GOSUMDB=off GOTOOLCHAIN=local GOCACHE=${GOCACHE:-/root/.cache/go-build}
unset GOWORK
if [ ! -x bin/ppcheck ] || [ -n "$(find ppcheck -name '*.go' -newer bin/ppcheck 2>/dev/null | head -1)" ]; then
  (cd ppcheck && go build -o ../bin/ppcheck .) || { echo "build of ppcheck failed"; exit 2; }
fi
exec bin/ppcheck -p "$1" -tier "${2:-${VERIF_TIER:-quick}}" -verif "$(pwd)" -repo "${PPCHECK_REPO:-/repo}"
