// mutgen3: third wave of single-edit mutants for the mutation sweep, typed
// (go/types with the source importer, offline). Operators:
//   var      a use of a local variable or parameter replaced by another local
//            variable or parameter of the same function with the identical type
//   stmtswap two adjacent simple statements (assignment, inc/dec, expression) swapped
//   brkcont  break <-> continue (unlabelled)
//   retdrop  a return statement inside an if-body removed
// usage: mutgen3 <package dir> <file.go> <outdir>  (prints id, line, operator, description)
package main

import (
	"bytes"
	"fmt"
	"go/ast"
	"go/importer"
	"go/parser"
	"go/printer"
	"go/token"
	"go/types"
	"os"
	"path/filepath"
	"sort"
	"strings"
)

type mut struct {
	apply func() func()
	line  int
	op    string
	desc  string
}

func main() {
	dir, src, out := os.Args[1], os.Args[2], os.Args[3]
	fset := token.NewFileSet()
	pkgs, err := parser.ParseDir(fset, dir, func(fi os.FileInfo) bool { return !strings.HasSuffix(fi.Name(), "_test.go") }, parser.ParseComments)
	if err != nil {
		panic(err)
	}
	var files []*ast.File
	var target *ast.File
	for _, p := range pkgs {
		if strings.HasSuffix(p.Name, "_test") {
			continue
		}
		var names []string
		for n := range p.Files {
			names = append(names, n)
		}
		sort.Strings(names)
		for _, n := range names {
			files = append(files, p.Files[n])
			if filepath.Base(n) == filepath.Base(src) {
				target = p.Files[n]
			}
		}
	}
	if target == nil {
		panic("file not in package")
	}
	info := &types.Info{Defs: map[*ast.Ident]types.Object{}, Uses: map[*ast.Ident]types.Object{}}
	conf := types.Config{Importer: importer.ForCompiler(fset, "source", nil), Error: func(error) {}}
	conf.Check(dir, fset, files, info)
	var muts []mut
	add := func(pos token.Pos, op, desc string, apply func() func()) {
		muts = append(muts, mut{apply, fset.Position(pos).Line, op, desc})
	}
	for _, d := range target.Decls {
		fd, ok := d.(*ast.FuncDecl)
		if !ok || fd.Body == nil {
			continue
		}
		// local variables and parameters of this function (incl. closures), by declaration position
		var locals []*types.Var
		ast.Inspect(fd, func(n ast.Node) bool {
			if id, ok := n.(*ast.Ident); ok {
				if v, ok := info.Defs[id].(*types.Var); ok && !v.IsField() && id.Name != "_" {
					locals = append(locals, v)
				}
			}
			return true
		})
		// identifiers that are assigned to / defined (left-hand sides) are not replaced
		lhs := map[*ast.Ident]bool{}
		ast.Inspect(fd, func(n ast.Node) bool {
			switch s := n.(type) {
			case *ast.AssignStmt:
				for _, l := range s.Lhs {
					if id, ok := l.(*ast.Ident); ok {
						lhs[id] = true
					}
				}
			case *ast.IncDecStmt:
				if id, ok := s.X.(*ast.Ident); ok {
					lhs[id] = true
				}
			case *ast.RangeStmt:
				if id, ok := s.Key.(*ast.Ident); ok {
					lhs[id] = true
				}
				if id, ok := s.Value.(*ast.Ident); ok {
					lhs[id] = true
				}
			}
			return true
		})
		ast.Inspect(fd.Body, func(n ast.Node) bool {
			switch x := n.(type) {
			case *ast.Ident:
				v, ok := info.Uses[x].(*types.Var)
				if !ok || v.IsField() || lhs[x] || v.Pkg() == nil || v.Parent() == v.Pkg().Scope() {
					return true
				}
				cnt := 0
				for _, alt := range locals {
					if alt == v || alt.Name() == v.Name() || !types.Identical(alt.Type(), v.Type()) || alt.Pos() >= x.Pos() {
						continue
					}
					// the alternative must be in scope at the use
					if sc := alt.Parent(); sc == nil || !sc.Contains(x.Pos()) {
						continue
					}
					alt := alt
					add(x.Pos(), "var", x.Name+" -> "+alt.Name(), func() func() {
						old := x.Name
						x.Name = alt.Name()
						return func() { x.Name = old }
					})
					cnt++
					if cnt >= 1 {
						break
					}
				}
			case *ast.BranchStmt:
				if x.Label == nil && (x.Tok == token.BREAK || x.Tok == token.CONTINUE) {
					alt := token.CONTINUE
					if x.Tok == token.CONTINUE {
						alt = token.BREAK
					}
					add(x.Pos(), "brkcont", x.Tok.String()+" -> "+alt.String(), func() func() {
						old := x.Tok
						x.Tok = alt
						return func() { x.Tok = old }
					})
				}
			case *ast.IfStmt:
				for i, st := range x.Body.List {
					if _, ok := st.(*ast.ReturnStmt); ok {
						i := i
						add(st.Pos(), "retdrop", "return removed from an if-body", func() func() {
							old := x.Body.List[i]
							x.Body.List[i] = &ast.EmptyStmt{Semicolon: old.Pos(), Implicit: true}
							return func() { x.Body.List[i] = old }
						})
					}
				}
			case *ast.BlockStmt:
				simple := func(s ast.Stmt) bool {
					switch t := s.(type) {
					case *ast.AssignStmt:
						return t.Tok != token.DEFINE
					case *ast.IncDecStmt, *ast.ExprStmt:
						return true
					}
					return false
				}
				for i := 0; i+1 < len(x.List); i++ {
					if simple(x.List[i]) && simple(x.List[i+1]) {
						i := i
						add(x.List[i].Pos(), "stmtswap", "two adjacent statements swapped", func() func() {
							x.List[i], x.List[i+1] = x.List[i+1], x.List[i]
							return func() { x.List[i], x.List[i+1] = x.List[i+1], x.List[i] }
						})
					}
				}
			}
			return true
		})
	}
	base := filepath.Base(src)
	for k, m := range muts {
		undo := m.apply()
		var buf bytes.Buffer
		err := (&printer.Config{Mode: printer.UseSpaces | printer.TabIndent, Tabwidth: 8}).Fprint(&buf, fset, target)
		undo()
		if err != nil {
			continue
		}
		id := fmt.Sprintf("%s.%04d", base, k)
		if err := os.WriteFile(filepath.Join(out, id), buf.Bytes(), 0o644); err != nil {
			panic(err)
		}
		fmt.Printf("%s\t%d\t%s\t%s\n", id, m.line, m.op, m.desc)
	}
}
