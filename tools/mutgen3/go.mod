module mutgen3

go 1.23
