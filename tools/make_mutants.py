#!/usr/bin/env python3
"""Generates /verif/mutants/<name>/{patch.diff,meta.json}: single-edit variants of
the pinned tree used to test the checker both ways (must fire / must stay silent).
Each edit is applied to a scratch copy of /repo HEAD (never to /repo), built, and
stored as a diff."""
import json, os, shutil, subprocess, sys, tempfile
env = dict(os.environ, GOFLAGS='-mod=mod', GOPROXY='off', GOSUMDB='off', GOTOOLCHAIN='local')
M = []
def m(name, file, old, new, prop, rule, kind='break', note=''):
    M.append(dict(name=name, file=file, old=old, new=new, prop=prop, rule=rule, kind=kind, note=note))

# --- must fire
m('ag-no-break', 'stack/bucket.go', "\t\t\t\t\tdelete(b, key)\n\t\t\t\t}\n\t\t\t\tbreak\n", "\t\t\t\t\tdelete(b, key)\n\t\t\t\t}\n", 'C04', 'AG-once', note='lookup continues after a match')
m('ag-no-sort', 'stack/bucket.go', "\t\tsort.Ints(c.ids)\n", "", 'C04', 'AG-sorted')
m('ag-no-delete', 'stack/bucket.go', "\t\t\t\t\tdelete(b, key)\n", "", 'C04', 'AG-rekey')
m('ag-first-overwrite', 'stack/bucket.go', "c.first = c.first || routine.First", "c.first = routine.First", 'C04', 'AG-first')
m('eq-locked-dropped', 'stack/stack.go', "\tif similar == ExactFlags && s.Locked != r.Locked {\n\t\treturn false\n\t}\n", "", 'C05', 'EQ-sig-scalars')
m('eq-anypointer-value', 'stack/stack.go', "return a.IsPtr || a.Value == r.Value", "return a.Value == r.Value", 'C05', 'EQ-key')
m('eq-call-line-dropped', 'stack/stack.go', "func (c *Call) similar(r *Call, similar Similarity) bool {\n\treturn c.Line == r.Line && ", "func (c *Call) similar(r *Call, similar Similarity) bool {\n\treturn ", 'C05', 'EQ-lift')
m('eq-merge-right-value', 'stack/stack.go', "out.Values[i].Value = l.Value", "out.Values[i].Value = rv.Value", 'C05', 'EQ-merge-class')
m('eq-merge-nostar', 'stack/stack.go', 'out.Values[i].Name = "*"', 'out.Values[i].Name = l.Name', 'C12', 'EQ-merge-show')
m('eq-sleepmax-min', 'stack/stack.go', "\tif r.SleepMax > max {\n", "\tif r.SleepMax < max {\n", 'C12', 'EQ-sig-scalars')
m('fl-err-unguarded', 'stack/context.go', "\t\t\tif err1 != nil && (err == nil || err == io.EOF) {\n\t\t\t\terr = err1\n", "\t\t\tif err1 != nil {\n\t\t\t\terr = err1\n", 'C10', 'FL-err-prec')
m('fl-fill-until-full', 'stack/reader.go', "\t\tif n > 0 {\n\t\t\treturn\n\t\t}\n", "\t\tif r.w == len(r.buf) {\n\t\t\treturn\n\t\t}\n", 'C11', 'FL-fill-once')
m('fl-write-skipped', 'stack/context.go', "\t\t\t\tif s.state != looking {\n\t\t\t\t\tsuffix = append([]byte{}, d...)", "\t\t\t\tif s.state != looking && len(d) > 1 {\n\t\t\t\t\tsuffix = append([]byte{}, d...)", 'C02', 'FL-*')
m('fl-multireader-order', 'internal/main.go', "io.MultiReader(bytes.NewReader(suffix), in)", "io.MultiReader(in, bytes.NewReader(suffix))", 'C07', 'FL-suffix-once')
m('sm-blank-ends-dump', 'stack/context.go', "\t\tif len(trimmed) == 0 {\n\t\t\ts.state = betweenRoutine\n\t\t\treturn true, nil\n\t\t}\n\t\ts.state = done\n\t\treturn false, nil\n\n\tcase gotFileCreated:", "\t\tif len(trimmed) == 0 {\n\t\t\ts.state = done\n\t\t\treturn true, nil\n\t\t}\n\t\ts.state = done\n\t\treturn false, nil\n\n\tcase gotFileCreated:", 'C07', 'SM-ref')
m('sm-race-from-between', 'stack/context.go', "if s.state == looking && bytes.Equal(trimmed, raceHeaderFooter) {", "if bytes.Equal(trimmed, raceHeaderFooter) {", 'C03', 'SM-panic', note='reintroduces D2')
m('sm-prefix-every-header', 'stack/context.go', "\t\t\t\tif s.state == looking {\n\t\t\t\t\t// The indentation is the one of the first goroutine header. On\n\t\t\t\t\t// following headers it was already trimmed.\n\t\t\t\t\ts.prefix = append([]byte{}, match[1]...)\n\t\t\t\t}\n", "\t\t\t\ts.prefix = append([]byte{}, match[1]...)\n", 'C01', 'SM-prefix', note='reintroduces D3')
m('sm-no-post-capture', 'stack/context.go', "\tif s.state == done && suffix == nil {\n", "\tif false && s.state == done && suffix == nil {\n", 'C02', 'SM-done-remainder', note='reintroduces D4')
m('sm-wrong-group', 'stack/context.go', "if id, ok := atou(match[2]); ok {\n\t\t\t\t// See runtime/traceback.go.", "if id, ok := atou(match[1]); ok {\n\t\t\t\t// See runtime/traceback.go.", 'C01', 'SM-ref')
m('sm-race-first-all', 'stack/context.go', "s.Goroutines = append(s.Goroutines, &Goroutine{ID: id, RaceWrite: w, RaceAddr: addr})", "s.Goroutines = append(s.Goroutines, &Goroutine{ID: id, First: true, RaceWrite: w, RaceAddr: addr})", 'C08', 'SM-first')
m('sm-race-noerr-unknown-id', 'stack/context.go', "\t\t\tif !found {\n\t\t\t\treturn false, fmt.Errorf(\"unexpected goroutine ID on line: %q\", bytes.TrimSpace(trimmed))\n\t\t\t}\n", "\t\t\t_ = found\n", 'C08', 'SM-*')
m('mo-tiebreak-dropped', 'stack/bucket.go', "\t\treturn l.IDs[0] < r.IDs[0]\n", "\t\treturn false\n", 'C06', 'LX-total', note='reintroduces D6')
m('mo-range-gopaths', 'stack/stack.go', "\tfor _, prefix := range sortedKeys(gopaths) {\n\t\tdest := gopaths[prefix]\n", "\tfor prefix, dest := range gopaths {\n", 'C06', 'MO-range', note='reintroduces D7')
m('lx-state-oneway', 'stack/stack.go', "\tif s.State > r.State {\n\t\treturn false\n\t}\n\treturn false\n}", "\tif s.State != r.State {\n\t\treturn true\n\t}\n\treturn false\n}", 'C13', 'LX-swo')
m('lx-stdlib-before-gomod', 'stack/stack.go', "\tfor i := 1; i < int(lastLocation); i++ {\n\t\tif lLoc[i] > rLoc[i] {\n\t\t\treturn true\n\t\t}\n\t\tif lLoc[i] < rLoc[i] {\n\t\t\treturn false\n\t\t}\n\t}", "\tfor i := 1; i < int(lastLocation); i++ {\n\t\tif lLoc[i] < rLoc[i] {\n\t\t\treturn true\n\t\t}\n\t\tif lLoc[i] > rLoc[i] {\n\t\t\treturn false\n\t\t}\n\t}", 'C13', 'LX-order')
m('ef-args-string-append', 'stack/stack.go', "\t\t// Do not append to v, it may be a.Processed.\n\t\tif len(v) == 0 {\n\t\t\treturn \"...\"\n\t\t}\n\t\treturn strings.Join(v, \", \") + \", ...\"\n", "\t\tv = append(v, \"...\")\n", 'C14', 'EF-immut', note='reintroduces D13')
m('ef-aggregate-sorts-goroutines', 'stack/bucket.go', "\tb := map[*Signature]*count{}\n", "\tb := map[*Signature]*count{}\n\tsort.Slice(s.Goroutines, func(i, j int) bool { return s.Goroutines[i].ID < s.Goroutines[j].ID })\n", 'C14', 'EF-immut')
m('nm-no-ptr-test', 'stack/stack.go', "\t\tif arg.IsPtr {\n\t\t\tobjects[arg.Value] = object{", "\t\tif arg.Value != 0 {\n\t\t\tobjects[arg.Value] = object{", 'C15', 'NM-visit')
m('nm-nextid-per-arg', 'stack/stack.go', "\t\tfor _, arg := range objects[k].args {\n\t\t\targ.Name = fmt.Sprintf(\"#%d\", nextID)\n\t\t}\n\t\tnextID++\n\t}\n\n\t// Now do the rest.", "\t\tfor _, arg := range objects[k].args {\n\t\t\targ.Name = fmt.Sprintf(\"#%d\", nextID)\n\t\t\tnextID++\n\t\t}\n\t}\n\n\t// Now do the rest.", 'C15', 'NM-number')
m('ni-palette-compared', 'internal/ui.go', "\tif g.RaceAddr != 0 {\n", "\tif g.RaceAddr != 0 && p.Race != \"\" {\n", 'C16', 'NI-flow')
m('ni-len-coloured', 'internal/ui.go', "\t\t\tif l := len(e.Signature.Stack.Calls[i].Func.DirName); l > pkgLen {\n\t\t\t\tpkgLen = l\n\t\t\t}\n\t\t}\n\t}\n\treturn srcLen, pkgLen\n}\n\n// calcGoroutinesLengths", "\t\t\tif l := len(e.Signature.Stack.Calls[i].Func.Name); l > pkgLen {\n\t\t\t\tpkgLen = l\n\t\t\t}\n\t\t}\n\t}\n\treturn srcLen, pkgLen\n}\n\n// calcGoroutinesLengths", 'C16', 'NI-width')
m('ht-file-prefix-dropped', 'stack/html.go', "\t\treturn template.URL(\"file:///\" + escape(c.RemoteSrcPath)), template.URL(tag)", "\t\treturn escape(c.RemoteSrcPath), template.URL(tag)", 'C17', 'HT-url')
m('ht-funcclass-unescaped', 'stack/html.go', "template.HTML(template.HTMLEscapeString(s))", "template.HTML(s)", 'C17', 'HT-html')
m('loc-src-separator', 'stack/context.go', "if lp > l+len(src) && p[:l] == prefix && p[l:l+len(src)] == src {", "if lp > l+len(src) && p[:l] == prefix {", 'C18', 'LOC-sep')
m('loc-location-overwrite', 'stack/stack.go', "\t\t\tif c.Location == LocationUnknown {\n\t\t\t\tc.Location = GOPATH\n\t\t\t}\n", "\t\t\tc.Location = GOPATH\n", 'C18', 'LOC-branch')
m('aug-int16-as-int32', 'stack/source.go', "return strconv.FormatInt(int64(int16(v)), 10)", "return strconv.FormatInt(int64(int32(v)), 10)", 'C19', 'AUG-decode')
m('aug-map-two-words', 'stack/source.go', 'if strings.HasPrefix(t, "*") || strings.HasPrefix(t, "map[") || strings.HasPrefix(t, "chan ") || t == "func" {', 'if strings.HasPrefix(t, "*") {', 'C19', 'AUG-words', note='reintroduces D8')
m('aug-no-name-guard', 'stack/source.go', "if f != nil && declMatches(call.Func.Name, f.Name.Name) {", "if f != nil {", 'C19', 'AUG-name', note='reintroduces D15')
m('web-no-return', 'stack/webstack/webstack.go', "\t\t\thttp.Error(w, \"invalid maxmem value\", http.StatusBadRequest)\n\t\t\treturn\n", "\t\t\thttp.Error(w, \"invalid maxmem value\", http.StatusBadRequest)\n", 'C20', 'WEB-status')
m('web-augment-2', 'stack/webstack/webstack.go', "if err != nil || v < 0 || v > 1 {", "if err != nil || v < 0 {", 'C20', 'WEB-validate')
m('bn-funcinit-d1', 'stack/stack.go', "\tif endPkg != -1 {\n\t\t// Only the path part is escaped; unescape it on its own so the index of\n\t\t// its end stays valid in the unescaped string.\n\t\tif f.ImportPath, err = url.QueryUnescape(raw[:endPkg]); err != nil {\n\t\t\treturn fmt.Errorf(\"bad function reference: %w\", err)\n\t\t}\n\t\tendPkg = len(f.ImportPath)\n\t}\n", "\tendPkg += len(f.Complete) - len(raw)\n\tif endPkg != -1 {\n\t\tf.ImportPath = f.Complete[:endPkg]\n\t}\n", 'C03', 'BN-neg', note='reintroduces D1')
m('bn-findroots-d12', 'stack/context.go', "if r := isRootedIn(s.LocalGOROOT+src, parts); strings.HasSuffix(r, src) {", "if r := isRootedIn(s.LocalGOROOT+src, parts); r != \"\" {", 'C03', 'BN-neg', note='reintroduces D12')
m('pn-receiver-panic', 'stack/source.go', "\tif f.Recv != nil && len(f.Recv.List) == 1 {\n", "\tif f.Recv != nil && len(f.Recv.List) != 1 {\n\t\tpanic(\"Expect only one receiver; please fix panicparse's code\")\n\t}\n\tif f.Recv != nil {\n", 'C03', 'PN-panic', note='reintroduces D9')
m('al-unsafe-state', 'stack/context.go', "\t\t\t\t\tg.State = string(match[2])\n", "\t\t\t\t\tg.State = unsafeString(match[2])\n", 'C09', 'AL-buffer')
m('rx-header-no-mp', 'stack/context.go', "(?: gp=[^ ]+ m=[^ ]+(?: mp=[^ ]+)?)?", "(?: gp=[^ ]+ m=[^ ]+)?", 'C01', 'RX-model')
m('rx-file-tab-only', 'stack/context.go', 'reFile = regexp.MustCompile("^(?:\\t| +)(', 'reFile = regexp.MustCompile("^(?:\\t)(', 'C01', 'RX-model')
m('rx-header-short-id', 'stack/context.go', '[ \\t]*)goroutine (\\\\d+)(?:', '[ \\t]*)goroutine (\\\\d{1,6})(?:', 'C20', 'RX-model')
m('rx-race-prev-capital', 'stack/context.go', "`^Previous (read|write) at", "`^Previous (Read|Write) at", 'C08', 'RX-race')
# --- must stay silent (behaviour-preserving refactorings)
m('benign-skip-helper', 'internal/main.go', None, None, 'C16', '', kind='benign', note='correct helper predicate shared by both console writers')
m('benign-rename-locals', 'stack/bucket.go', "\t\tl := bs[i]\n\t\tr := bs[j]\n\t\tif l.First || r.First {\n\t\t\treturn l.First\n\t\t}\n\t\tif l.Signature.less(&r.Signature) {\n\t\t\treturn true\n\t\t}\n\t\tif r.Signature.less(&l.Signature) {\n\t\t\treturn false\n\t\t}\n\t\tif len(l.IDs) != len(r.IDs) {\n\t\t\treturn len(r.IDs) > len(l.IDs)\n\t\t}\n\t\t// Buckets are collected from a map; break ties on the smallest goroutine\n\t\t// ID (IDs are sorted and never shared between buckets) so the order is\n\t\t// deterministic.\n\t\treturn l.IDs[0] < r.IDs[0]", "\t\tleft := bs[i]\n\t\tright := bs[j]\n\t\tif left.First || right.First {\n\t\t\treturn left.First\n\t\t}\n\t\tif left.Signature.less(&right.Signature) {\n\t\t\treturn true\n\t\t}\n\t\tif right.Signature.less(&left.Signature) {\n\t\t\treturn false\n\t\t}\n\t\tif len(left.IDs) != len(right.IDs) {\n\t\t\treturn len(right.IDs) > len(left.IDs)\n\t\t}\n\t\treturn left.IDs[0] < right.IDs[0]", 'C13 C06 C04', '', kind='benign')
m('benign-scan-blank-first', 'stack/context.go', "\tcase gotFileCreated:\n\t\tif len(trimmed) == 0 {\n\t\t\ts.state = betweenRoutine\n\t\t\treturn true, nil\n\t\t}\n\t\ts.state = done\n\t\treturn false, nil\n", "\tcase gotFileCreated:\n\t\tif len(trimmed) != 0 {\n\t\t\ts.state = done\n\t\t\treturn false, nil\n\t\t}\n\t\ts.state = betweenRoutine\n\t\treturn true, nil\n", 'C07 C02 C03', '', kind='benign', note='same decision written the other way round')
m('benign-similar-switch-order', 'stack/stack.go', "\t\tif a.IsOffsetTooLarge != r.IsOffsetTooLarge {\n\t\t\treturn false\n\t\t}\n\t\tif a.IsPtr != r.IsPtr {\n\t\t\treturn false\n\t\t}\n\t\treturn a.IsPtr || a.Value == r.Value", "\t\tif a.IsPtr != r.IsPtr {\n\t\t\treturn false\n\t\t}\n\t\tif a.IsOffsetTooLarge != r.IsOffsetTooLarge {\n\t\t\treturn false\n\t\t}\n\t\treturn r.IsPtr || r.Value == a.Value", 'C05 C06', '', kind='benign', note='tests reordered and operands swapped')
m('benign-readslice-var', 'stack/reader.go', "\t\t\tline := r.buf[r.r : r.r+i+1]\n\t\t\tr.r += i + 1\n\t\t\treturn line, nil", "\t\t\tend := r.r + i + 1\n\t\t\tline := r.buf[r.r:end]\n\t\t\tr.r = end\n\t\t\treturn line, nil", 'C09 C02', '', kind='benign', note='same cursor arithmetic through a local')

m('ht-repo-unescaped-d16', 'stack/html.go', 'escape(parts[0]), escape(p), srcTag, escape(parts[2]), c.Line)', 'escape(parts[0]), p, srcTag, escape(parts[2]), c.Line)', 'C17', 'HT-escape', note='reintroduces D16')

# --- RB (relational bounds of the reader)
m('rb-advance-plus2', 'stack/reader.go', "\t\t\tr.r += i + 1\n", "\t\t\tr.r += i + 2\n", 'C09', 'RB-slice', note='read cursor can pass the write cursor')
m('rb-s-is-w', 'stack/reader.go', "\t\ts = r.w - r.r\n", "\t\ts = r.w\n", 'C09', 'RB-slice', note='search offset not relative to the read cursor: r+s can pass w after a slide')
m('rb-w-assign', 'stack/reader.go', "\t\tr.w += n\n", "\t\tr.w = n\n", 'C09', 'RB-*')
m('rb-slide-no-w', 'stack/reader.go', "\t\tr.w -= r.r\n", "", 'C03', 'RB-*', note='write cursor not moved back with the data')
m('benign-fill-noguard', 'stack/reader.go', "\tif r.r > 0 {\n\t\tcopy(r.buf[:], r.buf[r.r:r.w])\n\t\tr.w -= r.r\n\t\tr.r = 0\n\t}\n", "\tcopy(r.buf[:], r.buf[r.r:r.w])\n\tr.w -= r.r\n\tr.r = 0\n", 'C09 C03 C11', '', kind='benign', note='unconditional slide: a no-op when r is 0')
m('benign-bufferfull-ge', 'stack/reader.go', "\t\tif r.w-r.r == len(r.buf) {\n", "\t\tif r.w-r.r >= len(r.buf) {\n", 'C09 C03', '', kind='benign', note='same test, the difference cannot exceed the buffer')

# --- round 5 additions
m('loc-wiring-swap-goroot', 'stack/context.go', 'r.updateLocations(s.RemoteGOROOT, s.LocalGOROOT, s.LocalGomods, s.RemoteGOPATHs)', 'r.updateLocations(s.LocalGOROOT, s.RemoteGOROOT, s.LocalGomods, s.RemoteGOPATHs)', 'C18', 'LOC-wiring', note='remote and local GOROOT swapped on the way to the frames: the pinned suite passes (remote == local there)')
m('loc-wiring-swap-maps', 'stack/stack.go', 'r = s.Calls[i].updateLocations(goroot, localgoroot, localgomods, gopaths) && r', 'r = s.Calls[i].updateLocations(goroot, localgoroot, gopaths, localgomods) && r', 'C18', 'LOC-wiring', note='module and GOPATH maps swapped one level down')

out = '/verif/mutants'
only = sys.argv[1:]
for mm in M:
    if only and mm['name'] not in only: continue
    d = tempfile.mkdtemp(prefix='mut.', dir='/dev/shm')
    try:
        subprocess.check_call(f'git -C /repo archive --format=tar HEAD | tar -x -C {d} && cd {d} && git init -q . && git add -A . && git -c user.email=a@b -c user.name=x commit -qm base', shell=True)
        if mm['name'] == 'benign-skip-helper':
            subprocess.check_call(f'cd {d} && git apply /verif/seeded/C16-B/patch.diff', shell=True)
            p = os.path.join(d, 'internal/main.go'); s = open(p).read()
            assert 'filter.MatchString(line)' in s
            s = s.replace('\t// Ignore the EOL so an expression anchored with $ can match.\n\tline := strings.TrimSuffix(header, "\\n")\n', '').replace('filter.MatchString(line)', 'filter.MatchString(header)').replace('\t"strings"\n', '')
            open(p, 'w').write(s)
        else:
            p = os.path.join(d, mm['file']); s = open(p).read()
            assert s.count(mm['old']) == 1, (mm['name'], s.count(mm['old']))
            open(p, 'w').write(s.replace(mm['old'], mm['new']))
        r = subprocess.run('go build ./... 2>&1', shell=True, cwd=d, env=env, stdout=subprocess.PIPE, text=True)
        if r.returncode != 0:
            print('BUILD FAILS', mm['name'], r.stdout[-400:]); continue
        diff = subprocess.run('git diff', shell=True, cwd=d, stdout=subprocess.PIPE, text=True).stdout
        od = os.path.join(out, mm['name']); os.makedirs(od, exist_ok=True)
        open(os.path.join(od, 'patch.diff'), 'w').write(diff)
        json.dump({k: mm[k] for k in ('name', 'prop', 'rule', 'kind', 'note')}, open(os.path.join(od, 'meta.json'), 'w'), indent=1)
        print('ok', mm['name'])
    finally:
        shutil.rmtree(d, ignore_errors=True)
