#!/usr/bin/env python3
"""Generates /verif/MANIFEST.json from the table below (kept in one place so
that the claimed/not-applicable split stays consistent)."""
import json, os
V = os.path.dirname(os.path.dirname(os.path.abspath(__file__)))

CLAIMED = {
 # id: (technique, design_ref, level text, level note)
 "C01": ("scanner transition relation extracted from SSA vs reference automaton (field provenance per capture group); typestate rules",
         "DESIGN.md §3.2, §4 C01",
         "Structural clauses of parse fidelity decided for every line sequence: which captured group of which pattern feeds which goroutine field, one goroutine appended per header in printed order, First only on the first, one indentation prefix per dump copied out of the read buffer. A custom static analyser with a reference table; sound for the named clauses, not a proof of value-level equality.",
         "Not decided: exact strings/numbers parsed (Func.Init demangling, parseArgs tree shape). Trusted: go/ssa faithfully represents the program; the reference automaton is the documented grammar."),
 "C02": ("all-paths flow rules (SSA path enumeration) on ScanSnapshot/process/reader + scanner automaton rules",
         "DESIGN.md §3.2, §3.3, §4 C02",
         "Every line read is consumed, forwarded or returned exactly once and in order on every SSA path of the scan loop, the code after it, the reader functions and the CLI loop; consumed lines belong to a dump for which a snapshot exists, plus at most one blank. Decides the conservation argument structurally for all inputs at the granularity of lines and chunks.",
         "Not decided: byte-level cursor arithmetic across refills (relational). Known finding D5 (lone race separator swallowed) is reported as KNOWN-FINDING."),
 "C03": ("typestate over the extracted scanner automaton (panic reachability, index/deref facts), path rules for progress",
         "DESIGN.md §3.2, §3.10, §4 C03",
         "No reachable explicit panic and no unguarded index/dereference in scan for any sequence of line kinds and any abstract scanner configuration (complete fixpoint); capture-group indices within the pattern's groups and nil-checked; scan and CLI loops make progress.",
         "Not decided: reader cursor upper bounds, general upper bounds, linear time. Stdlib callees are trusted not to panic."),
 "C07": ("scanner transition relation extracted from SSA, compared with a reference automaton over all line-kind assignments; resume-protocol path rules",
         "DESIGN.md §3.2 SM-ref, appendix A, §4 C07",
         "Which line kinds start, continue, end or invalidate a dump is decided by comparing the complete extracted transition relation with the reference automaton for every assignment of the line predicates (exclusion facts verified on the regexp syntax trees); the terminating line and the read-ahead are returned unconsumed, nothing is read after the end, the CLI re-feeds the remainder first.",
         "Not decided: value-level equality of snapshots of the same text. The reference automaton is the oracle."),
 "C08": ("race sub-automaton vs reference; goroutine-index typestate",
         "DESIGN.md §3.2 SM-ref/SM-raceidx, §4 C08",
         "One goroutine per operation header with id/address/kind from the right capture groups, creation frames attached to the goroutine whose id matched (unknown id is an error path), footer ends the report — decided over the complete extracted automaton.",
         "Not decided: numeric value of addresses; IsRace for an address of 0."),
 "C09": ("all-paths flow rules on fill/readSlice/readLine; buffer-alias rule for the scanner prefix",
         "DESIGN.md §3.3, §4 C09",
         "Structural necessary conditions of delivery independence: every Read count is accounted for even with an error, the error is reported after buffered data, slide and line shapes are the expected cursor expressions, long lines are the in-order concatenation of buffer-full chunks, the reader is a fresh local per call and the kept indentation does not alias the buffer.",
         "Not decided: the relational invariant 0<=r<=w<=16384 across arbitrary refills (no relational numeric domain)."),
 "C10": ("error-precedence and snapshot-return path rules; cur-only/append-only typestate; cut-forward rule",
         "DESIGN.md §3.2, §3.3, §4 C10",
         "Reader failure is returned as that error unless nil/EOF; snapshot returned iff a header was seen; data arriving with the error is kept; goroutines before the cut are never written again; no crash in any configuration at end of stream.",
         "Known finding D14 (cut inside the first header forwards the fragment) is reported as KNOWN-FINDING. Not decided: value-level equality with the uncut parse."),
 "C11": ("must-not-pass-through path rules on fill/readSlice/ScanSnapshot/process; writer-origin rule",
         "DESIGN.md §3.3, §4 C11",
         "fill returns after the first Read delivering data, is reached only without a buffered complete line, each pass-through line is written by the iteration that read it, no read after the terminating line, CLI output is unbuffered and the remainder is re-fed without reading ahead.",
         "Not decided: OS pipe scheduling."),
}
NA = {
 "C04": "engine AG not built yet in this commit (planned: DESIGN.md §3.11)",
 "C05": "engine EQ not built yet in this commit (planned: DESIGN.md §3.6)",
 "C06": "engines MO/LX not built yet in this commit (planned: DESIGN.md §3.5, §3.7)",
 "C12": "engine EQ not built yet in this commit",
 "C13": "engine LX not built yet in this commit",
 "C14": "engine EF not built yet in this commit",
 "C15": "engine NM not built yet in this commit",
}

CLAIMED.update({
 "C04": ("all-paths conservation rules on Aggregate (SSA path enumeration per loop iteration)",
         "DESIGN.md §3.11 AG, §4 C04",
         "Each clause of the partition statement is decided on every SSA path of one iteration of the find-or-create loop (lookup loop unrolled), of the collect loop and of the code after it: exactly one insertion of each goroutine id, re-keying on merge with a fresh merged key, ids sorted after the last append, First OR-accumulated and published unchanged, one Bucket per map entry, back reference to the receiver. Disjointness/exhaustiveness follow by induction over the goroutines.",
         "Assumes that similar is an equivalence relation at the chosen level (decided by C05's EQ rules). Trusted: Go map semantics."),
 "C05": ("decision trees of similar/equal/merge extracted from SSA and compared with the per-level reference key for every truth assignment of the compared fields",
         "DESIGN.md §3.6 EQ, §4 C05",
         "similar/equal only compare fields, so each is a finite decision tree; the extracted tree equals the reference key of the property statement for all assignments (exhaustive, per level), the liftings are pointwise, sleep is never read, the merged key keeps its class, the lookup uses the caller's level; the reference keys are checked to be equivalence relations that refine each other. Bucket = similarity class follows by induction over arrivals.",
         "Oracle: the per-level keys written from the property statement. Independence of print order follows from uniqueness of the similar key (equivalence) — not separately enumerated."),
 "C06": ("classification of every range over a map (AST + types), totality of the bucket comparator, no state surviving a call, no other nondeterminism source",
         "DESIGN.md §3.5 MO, §3.7 LX-total, §4 C06",
         "All map ranges in scope are enumerated and each is proved order-independent (any-match, collect-then-total-sort, or unique-match lookup re-using this run's EQ/AG verdicts); the bucket comparator ends in a unique key; the reader is a fresh local; no rand/clock/select/goroutine/pointer formatting in the library.",
         "Trusted: sort package, text/template's sorted map iteration; file-system contents are part of the input. Not decided: nondeterminism inside the standard library."),
 "C12": ("all-paths rules on the four merge functions (what each field of a merged value is made of)",
         "DESIGN.md §3.6 EQ-merge-show/EQ-sig-scalars, §4 C12",
         "Equal arguments are copied, differing ones become '*', aggregates are merged position by position, every other frame field is the left frame's, sleep bounds are min/max, Locked is the OR, state/creator are the left side's; a similar-but-unequal member always goes through merge; the published bucket signature is the merged key — decided on every SSA path.",
         "Relies on C05 (members of a bucket are similar to its key), so fields equal by similarity may be taken from the left side."),
 "C13": ("comparators recognised as lexicographic chains of mirrored strict comparisons (AST + types, bijective operand renaming); key-order rule",
         "DESIGN.md §3.7 LX, §4 C13",
         "Stack.less, Signature.less, the Aggregate comparator and uint64Slice.Less are lexicographic products of strict (weak) orders, hence strict weak orders for every set of buckets; the key order puts the crashing goroutine's bucket first, then more package-main frames, then per-location counts with GoMod/GOPATH/GoPkg before Stdlib; merged frames keep Location/IsPkgMain.",
         "The recogniser accepts only the enumerated idioms; a comparator written differently is reported as undecidable rather than accepted."),
 "C14": ("inclusion-based points-to analysis (written for this task) with a synthetic snapshot object: every write site reachable from aggregation/rendering; package-level state; shared Opts slice; template identifiers",
         "DESIGN.md §3.1, §3.4 EF, §4 C14",
         "No store, map update, delete, copy, in-place append or in-place sort reachable from Aggregate/IsRace/ToHTML/template call-backs/console renderers can target snapshot memory; merges build fresh values; no package-level state of the library is written after init or handed to a non-read-only callee; the caller's Opts and the slice they share with the snapshot are never written; template identifiers resolve to fields or analysed methods. No write to shared memory implies no data race between concurrent scans/aggregations/renderings.",
         "May-alias over-approximation (context- and field-insensitive); stdlib behaviour by table (read-only, concurrency-safe: regexp, html/template, log). Races inside the standard library are not decided."),
 "C15": ("all-paths rules on nameArguments, its visitor closure and Args.walk; gate rule; points-to 'writes only Arg.Name'",
         "DESIGN.md §3.11 NM, §4 C15",
         "Only pointer-classified values are recorded, per value, in place, through nested aggregates; inPrimary is OR-accumulated; phase 1 = recurring values seen in the first goroutine, phase 2 = the rest not seen there; one number per value, same number for all its occurrences, advancing by one; keys totally sorted ascending; naming runs iff the option is set and writes only Arg.Name; IsPtr is a function of the value.",
         "Nothing is claimed about pointerFloor/Ceiling as a classifier of real pointers (a guess by design)."),
 "C18": ("all-paths branch table of updateLocations; separator, search-bound and constant-agreement rules",
         "DESIGN.md §3.11 LOC, §4 C18",
         "Narrow claim: each match branch pairs root kind, separator, Location constant and local-path construction; the relative path is the remainder after the matched prefix and the local path ends with it; the class is assigned only while unknown; no-match writes nothing; roots match only at component boundaries; the go.mod and split searches cover every candidate; sibling constants agree; root arithmetic is non-negative.",
         "Not decided: which roots are found for a given disk layout (I/O-dependent search) — the main behavioural clause of the property. Stated in DESIGN.md."),
 "C19": ("abstract evaluation of augmentCall's type dispatch per parameter kind against the ABI word table; decoder/formatter rules; name guard; points-to 'writes only Args.Processed'",
         "DESIGN.md §3.11 AUG, §4 C19",
         "Per supported kind the number of words consumed equals the number the runtime prints; signed sized integers and floats are decoded through the same-named type/width; popFmt/popName render the value, '_' or '<nil>'; a frame is augmented only with the declaration at its line whose name matches the frame's function; errors are ignored by the caller; raw values never change.",
         "Not decided: textual equality of rendered values beyond the named stdlib formatter; kinds outside the supported list (arrays, structs, interfaces by name)."),
 "C20": ("all-paths status/ordering rules on SnapshotHandler; capture-loop growth rule; per-request options; no package-level state",
         "DESIGN.md §3.11 WEB, §4 C20",
         "Narrow claim: method test first, exactly one 4xx reply and return for every invalid parameter, 500 for a failed snapshot, the page only on the error-free path; the capture buffer strictly grows to min(2n, maxmem) until the dump fits; options are created per request and no package-level state is written, so concurrent requests cannot influence each other.",
         "Not decided: anything about the live runtime, goroutine churn or request interleavings (no static argument reaches them). What runtime.Stack prints is covered through the printer model (RX rules), not through the live runtime."),
 "C16": ("taint (non-interference) analysis of palette strings over package internal; width-agreement and per-element writer path rules",
         "DESIGN.md §3.11 NI, §4 C16",
         "Colour strings are only inserted (concatenation, %s operands, writers), never compared, measured, indexed or converted; the measured widths are the lengths of exactly the two padded columns; both console writers test the very header they print with filter and match of opposite polarity (helper predicates are inlined) and write header then stack for every admitted element.",
         "Not decided: the exact text of headers; terminal behaviour of the escape sequences."),
 "C17": ("abstract evaluation of URL-building string expressions (scheme-fixed / colon-free lattice, fixpoint over html.go); typed-conversion and FuncMap rules; template lint with an HTML context tracker",
         "DESIGN.md §3.8 HT, §4 C17",
         "Every value a template function can return as trusted URL is empty, constant, scheme-fixed or query-escaped; trusted-markup conversions take constants or HTMLEscapeString results only; the FuncMap holds exactly the vetted producers; every template action sits in element content or a quoted attribute, URL attributes are whole-value or follow a constant scheme, no escaper-changing function is used; rows/headings are emitted unconditionally; the analysed constant is the shipped template; helper functions cannot panic on bounds.",
         "Trusted base: html/template contextual escaping incl. URL normalisation of template.URL inside quoted attributes (an unescaped path segment after a fixed https://host/ prefix is therefore not a violation)."),
})

# additions made after the first version of each check (rules added in later rounds)
def _ext(pid, tech=None, text=None, note=None):
    t, r, x, n = CLAIMED[pid]
    CLAIMED[pid] = (t + ("; " + tech if tech else ""), r, x + (" " + text if text else ""), n + (" " + note if note else ""))
_ext("C01", "regular-language inclusion of a printer model in the parser patterns (regexp/syntax product); all-paths rules on parseFunc/parseFile/Call.init/Func.Init/parseArgs/atou; reader byte-delivery rules",
     "Every line shape of the runtime printer model, every wait reason of the installed runtimes and both frames-elided markers are accepted by the parser (inclusion, with witness on failure); the small parsers assign each field from the stated group; nothing read is lost on the way to the scanner.")
_ext("C03", "lower-bound interval analysis with coinductive loop hypotheses; panic and loop tables with re-verified reasons; atou digit bound",
     "Every computed slice bound/index in scope is non-negative, constant tables are indexed within bounds, every explicit panic and every loop is classified.")
_ext("C09", "retry-count and error-provenance rules")
_ext("C10", "all-elements rule on location update")
_ext("C12", "pointwise-lifting and key rules of similarity (EQ-lift/EQ-key)")
_ext("C16", "header-guard rule")
_ext("C18", "order and probe rules on root discovery")
_ext("C20", "printer-model inclusion (RX), bounds/panic/loop rules on everything the handler reaches, similarity/aggregation rules reachable from the handler",
     "Everything the handler calls is covered by the crash/termination rules and the similarity rules of C03/C05; the dump format written by runtime.Stack is covered by the printer-model inclusion.")

# round 3 / false-alarm round additions
_ext("C02", "reference-automaton comparison of the scanner (SM-ref); who-may-be-the-writer rule on the CLI output",
     "Where a dump ends and which lines are consumed is the reference automaton's decision; the pass-through writer is stdout or colorable's stdout wrapper, never a filtering writer.")
_ext("C03", "abstract interpretation of the reader cursors in the octahedron domain (bounds on +-1 combinations of fields, entry values and loop variables; Fourier-Motzkin on loop-free segments; inferred type invariant; method summaries); minimum-length analysis for constant indices and bounds; look-ahead and parallel-index upper bounds",
     "The reader's cursors satisfy 0 <= r <= w <= 16384 for every chunking, so every slice of its buffer is in bounds and the full-buffer panic is unreachable (invariant inferred, not given); constant indices and bounds have a proven minimum length; look-ahead indices are guarded; an index running over another value has equal lengths or a contract re-checked on this run.",
     "RB trusts the io.Reader contract n <= len(p).")
_ext("C04", "decision-tree equivalence of similar/equal with the reference keys (EQ rules)")
_ext("C07", "reader delivery rules (every byte read reaches the scanner, also with the end-of-stream error)")
_ext("C09", "octahedron abstract interpretation of the reader cursors (RB); single-read rule",
     "The relational invariant of the cursors is inferred and every slice of the buffer proved in bounds for every chunking; the buffer handed to Read is never empty.")
_ext("C10", "option-gate rules (post-processing runs whatever the error); constant-index and look-ahead bounds")
_ext("C11", "octahedron invariant: Read never receives an empty buffer")
_ext("C12", "no field other than Values/Elided carried into merged arguments")
_ext("C16", "creator-element agreement between console and HTML; merge rules for what a bucket block shows")
_ext("C17", "may-taint analysis: no unescaped dump text in a URL returned by a template function; index/bound rules on the helpers",
     "Every non-constant part of a link passed through a net/url escaper (this rule found and D16 was fixed).")
_ext("C19", "writer/reader agreement fieldToType vs augmentCall per syntax kind; cache-only-after-successful-parse rule")
# round 5 additions
_ext("C01", "the blank-line decision is compared on the line after the indentation prefix is removed (L0/L distinction in the extracted automaton)")
_ext("C06", "caller's Opts only read (points-to); octahedron rules of the reader: no chunking-dependent panic or slice",
     "The caller's options are never written; the reader's panics and slices do not depend on how the same bytes are chunked.")
_ext("C15", "all-iterations rule: every call of every goroutine is walked")
_ext("C16", "role propagation of the -f/-m expressions from Main to the writers, all paths of Main (NI-flags)")
_ext("C18", "probe-result rule: a root is recorded only from a probe result that ends with the probed directory (LOC-root-suffix)")
# round 6 additions
_ext("C09", "scanner reference comparison for the remainder clause; who-may-call rule on fill")
_ext("C11", "who-may-call rule: fill has one call site, the guarded refill point")
_ext("C13", "all-roots rule: a loop over roots is left early only by a match")
_ext("C18", "role wiring of the four roots from the snapshot to Call.updateLocations (LOC-wiring); all-roots rule")
_ext("C19", "points-to: cached syntax trees are never written (EF-ast-readonly)")
_ext("C20", "lock pairing dataflow (WEB-lock); documentation/code agreement of maxmem default and minimum (WEB-doc); capture protocol decided capture by capture")
# round 7 / sweep wave 2 additions
_ext("C01", "anchoring rule on the regexp syntax trees of every line pattern reachable from scan (RX-anchor); bound idioms on the symbol parser")
_ext("C02", "anchoring rule on the line patterns (only whole lines of a dump's shape are consumed)")
_ext("C07", "anchoring rule on the line patterns")
_ext("C08", "anchoring rule on the race patterns")
_ext("C10", "reference-automaton comparison and write-in-the-reading-iteration rule for the prefix clause")
_ext("C11", "call-site coverage: fill is reached only from functions covered by readSlice")
_ext("C13", "classification rules the ranking is computed from (boundary, probe-result, role wiring, test main; IsPkgMain iff the import path is main)")
_ext("C15", "gate rules of the sibling post-processing steps (naming changes no other field)")
_ext("C16", "all-paths rule: a frame line shows the frame's name and its Args through Args.String")
_ext("C17", "template data: the page named after the receiver renders the receiver")
_ext("C18", "map-key rule on the prefix helpers; result roles of isGoModule; the skip tests use their own tables")
_ext("C19", "special renderings (<nil>, _, pseudo-name) exist on some path; named types are not taken for map/chan")
# round 8 additions
_ext("C02", "exit-status rule: process reports success only at end of input")
_ext("C03", "nil-test dominance for optional syntax-tree pointers and for the declaration found for a frame (augmentation runs inside ScanSnapshot)")
_ext("C06", "file-creation rule: report files are truncated when opened")
_ext("C10", "error identity through readLine")
_ext("C13", "key order of Signature.less: stacks before flags")
_ext("C17", "no package-level state written by the rendering helpers (points-to)")
_ext("C18", "all-frames rule on the file list; components of a path are built from runes or substrings")
_ext("C19", "nil-test dominance for optional syntax-tree pointers")
# sweep wave 3 additions
_ext("C08", "order rule: the index of the last goroutine is taken after the append of the same path")
_ext("C16", "loop-exit rule on both writers (left early only by a failed write); all-paths dispatch of processInner (race/buckets, console/HTML); the frame measured for the widths is the loop's frame")
_ext("C18", "loop-exit rule on the file loop of findRoots; the remote GOPATH is mapped to the probed local root")
_ext("C19", "loop-exit rule on the frame loop of augmentGoroutine; search positions cut the text they were found in")
# round 9 additions
_ext("C01", "found-tests of search results in Call.init are tests against -1")
_ext("C03", "an empty non-nil goroutine list never survives a line (scanner typestate)")
_ext("C06", "package-level state and goroutines of package internal are exempt only in Main itself")
_ext("C10", "the web handler's truncated dump reaches the parser as captured")
_ext("C11", "empty reads are retried")
_ext("C15", "the numbering does not reach into creation stacks")
_ext("C16", "similarity compares the elided flag; -rel-path implies -rebase on all paths of Main")
_ext("C18", "the existence probe follows symbolic links")
_ext("C19", "receiver exclusion reasons; nil tests for the loaded file and the declaration; the declaration remembered starts before the line")
_ext("C20", "scalar part of the similarity key (lock flag); augmentation nil tests")
# round 10 additions
_ext("C03", "every word of a frame is taken through the nil-tolerant pop helpers (AUG-words)")
_ext("C06", "data delivered together with an error is split like any other; exactly one goroutine is First (totality of the bucket order)")
_ext("C10", "the pending read error is returned with the unterminated rest")
_ext("C16", "the creator is left out only for an empty creation stack")
_ext("C18", "the files skipped as explained by GOROOT are those updateLocations resolves through it")
for k in list(CLAIMED): NA.pop(k, None)
try:
    exec(open(os.path.join(V, "tools", "manifest_table.py")).read())
except FileNotFoundError:
    pass

checks = []
for pid in sorted(CLAIMED):
    tech, ref, text, note = CLAIMED[pid]
    checks.append({
        "property_id": pid,
        "quick_cmd": "./run.sh %s quick" % pid,
        "thorough_cmd": "./run.sh %s thorough" % pid,
        "evidence_file": "evidence/%s.json" % pid,
        "replay_cmd_template": "./run.sh %s quick  # deterministic; the evidence file {path} lists the violated obligations" % pid,
        "engine": "ppcheck",
        "level_claimed": {"category": "other", "text": text, "design_ref": ref},
        "level_note": note,
        "technique": "static analysis: " + tech,
    })
m = {
 "version": 1,
 "setup_cmd": "mkdir -p bin evidence && cd ppcheck && GOFLAGS=-mod=mod GOPROXY=off GOSUMDB=off GOTOOLCHAIN=local go build -o ../bin/ppcheck .",
 "hooks": {"guard": "verif", "enable": "none: the checks analyse the unmodified source; no hook or instrumentation exists in /repo", "baseline_off_cmd": "tools/baseline.sh /repo", "source_commits": [], "add_only": True},
 "engines": [{"name": "ppcheck", "path": "ppcheck/", "serves_properties": sorted(CLAIMED), "kind_free_text": "repository-specific static analyser over go/packages + go/ssa (x/tools v0.29.0): symbolic path enumeration, scanner automaton extraction, typestate, reference tables in refs/"}],
 "checks": checks,
 "not_applicable": [{"property_id": k, "reason": NA[k]} for k in sorted(NA) if k not in CLAIMED],
 "notes": "All checks are deterministic (VERIF_SEED is accepted and ignored). fix: commits in /repo are recorded in known_findings.txt.",
}
json.dump(m, open(os.path.join(V, "MANIFEST.json"), "w"), indent=1)
print("claimed", len(checks), "not_applicable", len(m["not_applicable"]))
