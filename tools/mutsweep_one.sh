#!/bin/bash
# usage: mutsweep_one.sh <relfile> <mutant-file> <id>
# result line: <id> <verdict> [rules]
#   nobuild | detected <props> | killed (tests fail) | SURVIVOR (tests pass, no check fires)
export GOFLAGS=-mod=mod GOPROXY=off GOSUMDB=off GOTOOLCHAIN=local
unset GOWORK
REL="$1"; MUT="$2"; ID="$3"
V=/verif
R=${MSWEEP_RESULTS:-/tmp/msweep/results}; mkdir -p $R
[ -f "$R/$ID" ] && exit 0
S=$(mktemp -d /dev/shm/msw.XXXXXX)
git -C /repo archive --format=tar HEAD | tar -x -C "$S"
cp "$MUT" "$S/$REL"
if ! (cd "$S" && go build ./... >/dev/null 2>&1); then echo "$ID nobuild" > "$R/$ID"; rm -rf "$S"; exit 0; fi
out=$($V/bin/ppcheck -repo "$S" -verif $V -p all -no-evidence 2>&1)
props=$(echo "$out" | grep -o "^VIOLATION property=C[0-9]*" | sed 's/.*=//' | sort -u | tr '\n' ',')
if [ -n "$props" ]; then
  rules=$(echo "$out" | grep -E "^(VIOLATED|UNDECIDED)" | grep -o "rule=[A-Za-z0-9-]*" | sort -u | sed 's/rule=//' | tr '\n' ',')
  echo "$ID detected $props $rules" > "$R/$ID"; rm -rf "$S"; exit 0
fi
if (cd "$S" && git init -q . >/dev/null 2>&1; $V/tools/baseline.sh "$S" >/dev/null 2>&1); then
  echo "$ID SURVIVOR" > "$R/$ID"
else
  echo "$ID killed" > "$R/$ID"
fi
rm -rf "$S"
